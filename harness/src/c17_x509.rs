//! C17, DER-based decoders: certification declaration (`attest/cd.rs`: CMS envelope + TLV content),
//! X.509 DAC/PAI/PAA parser (`cert/x509/cert.rs`), PKCS#10 CSR parser (`cert/x509/csr.rs`), the ECDSA
//! DER helper (`cert/der_utils.rs`) and - to tie the Lean model of the reading layer byte for byte - the
//! `der` crate primitives these parsers sit on (`Header::decode`, `AnyRef::decode`, `SliceReader`,
//! `read_nested`).
//!
//! Case kinds `cd`, `x509`, `csr`, `dersig`, `der`. Every op is self-contained text; every call into the
//! code under test runs under `catch_unwind` on a helper thread with a 5 s watchdog (`timeout`).
//! Byte fields that the decoders return as borrowed slices are printed as `@off:len` (position inside the
//! input, computed from the slice pointer; `@e` = empty slice, `@out:<hex>` = NOT a sub-slice of the input).
use super::{errname, guard, num};
use crate::proto::{hex, unhex, Out};
use crate::rng::Rng;

#[path = "c17_x509_vectors.rs"]
mod vectors;
#[path = "c17_x509_gen.rs"]
mod xgen;
#[path = "c17_certs.rs"]
mod tlvcerts;

use std::collections::BTreeMap;
use std::sync::mpsc;
use std::sync::Mutex;
use std::time::Duration;

static STATS: Mutex<BTreeMap<String, u64>> = Mutex::new(BTreeMap::new());

fn stat(key: &str) {
    if let Ok(mut g) = STATS.lock() {
        *g.entry(key.to_string()).or_insert(0) += 1;
    }
}

/// accept / reject / panic statistics per entry point
fn tally(entry: &str, res: &str) {
    let k = if res.starts_with("ok") {
        "accept"
    } else if res.starts_with("err") || res == "none" {
        "reject"
    } else {
        "other"
    };
    stat(&format!("x509_{}_{}", entry, k));
}

/// run `f` on a helper thread; a call that does not come back within 5 s is reported as `timeout`
pub fn with_timeout<F: FnOnce() -> String + Send + 'static>(f: F) -> String {
    let (tx, rx) = mpsc::channel();
    std::thread::spawn(move || {
        let r = guard(f);
        let _ = tx.send(r);
    });
    match rx.recv_timeout(Duration::from_secs(5)) {
        Ok(s) => s,
        Err(_) => "timeout".into(),
    }
}

/// position of a returned slice inside the input
fn at(input: &[u8], s: &[u8]) -> String {
    if s.is_empty() {
        return "@e".into();
    }
    let (ib, sb) = (input.as_ptr() as usize, s.as_ptr() as usize);
    if sb >= ib && sb + s.len() <= ib + input.len() {
        format!("@{}:{}", sb - ib, s.len())
    } else {
        format!("@out:{}", hex(s))
    }
}

/// joins sub-results; a panic / timeout in any of them is made visible to the generic case runner
fn join(parts: Vec<String>) -> String {
    let bad = parts.iter().any(|p| p.ends_with("panic") || p.ends_with("timeout"));
    let s = parts.join(" | ");
    if bad {
        format!("{} panic", s)
    } else {
        s
    }
}

// ------------------------------------------------------------------ harness-side DER builder (specification encoder)

pub mod derb {
    pub const OID_ECDSA_SHA256: &[u8] = &[0x2a, 0x86, 0x48, 0xce, 0x3d, 0x04, 0x03, 0x02];
    pub const OID_EC_PUBKEY: &[u8] = &[0x2a, 0x86, 0x48, 0xce, 0x3d, 0x02, 0x01];
    pub const OID_P256: &[u8] = &[0x2a, 0x86, 0x48, 0xce, 0x3d, 0x03, 0x01, 0x07];
    pub const OID_SHA256: &[u8] = &[0x60, 0x86, 0x48, 0x01, 0x65, 0x03, 0x04, 0x02, 0x01];
    pub const OID_SIGNED_DATA: &[u8] = &[0x2a, 0x86, 0x48, 0x86, 0xf7, 0x0d, 0x01, 0x07, 0x02];
    pub const OID_DATA: &[u8] = &[0x2a, 0x86, 0x48, 0x86, 0xf7, 0x0d, 0x01, 0x07, 0x01];
    pub const OID_SKID: &[u8] = &[0x55, 0x1d, 0x0e];
    pub const OID_AKID: &[u8] = &[0x55, 0x1d, 0x23];
    pub const OID_BC: &[u8] = &[0x55, 0x1d, 0x13];
    pub const OID_KU: &[u8] = &[0x55, 0x1d, 0x0f];
    pub const OID_UNKNOWN_EXT: &[u8] = &[0x55, 0x1d, 0x63];
    pub const OID_CN: &[u8] = &[0x55, 0x04, 0x03];
    pub const OID_MATTER_VID: &[u8] = &[0x2b, 0x06, 0x01, 0x04, 0x01, 0x82, 0xa2, 0x7c, 0x02, 0x01];
    pub const OID_MATTER_PID: &[u8] = &[0x2b, 0x06, 0x01, 0x04, 0x01, 0x82, 0xa2, 0x7c, 0x02, 0x02];

    /// minimal definite length
    pub fn dlen(n: usize) -> Vec<u8> {
        if n < 0x80 {
            vec![n as u8]
        } else if n < 0x100 {
            vec![0x81, n as u8]
        } else if n < 0x10000 {
            vec![0x82, (n >> 8) as u8, n as u8]
        } else if n < 0x1000000 {
            vec![0x83, (n >> 16) as u8, (n >> 8) as u8, n as u8]
        } else {
            vec![0x84, (n >> 24) as u8, (n >> 16) as u8, (n >> 8) as u8, n as u8]
        }
    }
    pub fn tlv(tag: u8, content: &[u8]) -> Vec<u8> {
        let mut v = vec![tag];
        v.extend(dlen(content.len()));
        v.extend_from_slice(content);
        v
    }
    pub fn seq(items: &[Vec<u8>]) -> Vec<u8> {
        tlv(0x30, &items.concat())
    }
    pub fn set(items: &[Vec<u8>]) -> Vec<u8> {
        tlv(0x31, &items.concat())
    }
    pub fn oid(o: &[u8]) -> Vec<u8> {
        tlv(0x06, o)
    }
    /// INTEGER of an unsigned big-endian magnitude (canonical: no superfluous leading zeros)
    pub fn uint(mag: &[u8]) -> Vec<u8> {
        let mut m = mag;
        while m.len() > 1 && m[0] == 0 {
            m = &m[1..];
        }
        let mut c = Vec::new();
        if m.is_empty() {
            c.push(0);
        } else {
            if m[0] & 0x80 != 0 {
                c.push(0);
            }
            c.extend_from_slice(m);
        }
        tlv(0x02, &c)
    }
    pub fn ecdsa_sig(r: &[u8], s: &[u8]) -> Vec<u8> {
        seq(&[uint(r), uint(s)])
    }

    /// (year, month, day, hour, min, sec) of Unix seconds (proleptic Gregorian)
    pub fn civil(secs: u64) -> (u64, u64, u64, u64, u64, u64) {
        let days = (secs / 86400) as i64;
        let rem = secs % 86400;
        let z = days + 719468;
        let era = z.div_euclid(146097);
        let doe = z.rem_euclid(146097);
        let yoe = (doe - doe / 1460 + doe / 36524 - doe / 146096) / 365;
        let y = yoe + era * 400;
        let doy = doe - (365 * yoe + yoe / 4 - yoe / 100);
        let mp = (5 * doy + 2) / 153;
        let d = doy - (153 * mp + 2) / 5 + 1;
        let m = if mp < 10 { mp + 3 } else { mp - 9 };
        let y = if m <= 2 { y + 1 } else { y };
        (y as u64, m as u64, d as u64, rem / 3600, rem / 60 % 60, rem % 60)
    }
    /// `Time`: UTCTime when asked for and representable (1970..=2049), else GeneralizedTime; `None` = 99991231235959Z
    pub fn time(secs: Option<u64>, utc: bool) -> Vec<u8> {
        match secs {
            None => tlv(0x18, b"99991231235959Z"),
            Some(s) => {
                let (y, mo, d, h, mi, se) = civil(s);
                if utc && (1970..=2049).contains(&y) {
                    tlv(0x17, format!("{:02}{:02}{:02}{:02}{:02}{:02}Z", y % 100, mo, d, h, mi, se).as_bytes())
                } else {
                    tlv(0x18, format!("{:04}{:02}{:02}{:02}{:02}{:02}Z", y, mo, d, h, mi, se).as_bytes())
                }
            }
        }
    }
    /// KeyUsage BIT STRING of DER-style bits (0x8000 = bit 0 = digitalSignature), minimal form
    pub fn key_usage(bits: u16) -> Vec<u8> {
        let hi = (bits >> 8) as u8;
        let lo = bits as u8;
        if lo != 0 {
            tlv(0x03, &[lo.trailing_zeros() as u8, hi, lo])
        } else if hi != 0 {
            tlv(0x03, &[hi.trailing_zeros() as u8, hi])
        } else {
            tlv(0x03, &[0])
        }
    }
    pub fn spki(pk: &[u8]) -> Vec<u8> {
        let mut bs = vec![0u8];
        bs.extend_from_slice(pk);
        seq(&[seq(&[oid(OID_EC_PUBKEY), oid(OID_P256)]), tlv(0x03, &bs)])
    }
    pub fn atv(o: &[u8], strtag: u8, val: &[u8]) -> Vec<u8> {
        set(&[seq(&[oid(o), tlv(strtag, val)])])
    }
    pub fn ext(o: &[u8], critical: bool, value: &[u8]) -> Vec<u8> {
        let mut items = vec![oid(o)];
        if critical {
            items.push(tlv(0x01, &[0xff]));
        }
        items.push(tlv(0x04, value));
        seq(&items)
    }
    /// Certificate ::= SEQUENCE { tbs, AlgorithmIdentifier ecdsa-with-SHA256, BIT STRING { ECDSA-Sig-Value } }
    pub fn wrap_tbs(tbs: &[u8], r: &[u8], s: &[u8]) -> Vec<u8> {
        let mut bs = vec![0u8];
        bs.extend(ecdsa_sig(r, s));
        seq(&[tbs.to_vec(), seq(&[oid(OID_ECDSA_SHA256)]), tlv(0x03, &bs)])
    }
    /// CMS ContentInfo / SignedData of the Matter CD profile
    pub fn cms(content: &[u8], kid: &[u8], r: &[u8], s: &[u8]) -> Vec<u8> {
        let signer = seq(&[
            uint(&[3]),
            tlv(0x80, kid),
            seq(&[oid(OID_SHA256)]),
            seq(&[oid(OID_ECDSA_SHA256)]),
            tlv(0x04, &ecdsa_sig(r, s)),
        ]);
        let sd = seq(&[
            uint(&[3]),
            set(&[seq(&[oid(OID_SHA256)])]),
            seq(&[oid(OID_DATA), tlv(0xa0, &tlv(0x04, content))]),
            set(&[signer]),
        ]);
        seq(&[oid(OID_SIGNED_DATA), tlv(0xa0, &sd)])
    }
}

/// `k=v` tokens of an op
fn kvs<'a>(it: impl Iterator<Item = &'a str>) -> BTreeMap<&'a str, &'a str> {
    it.filter_map(|t| {
        let mut p = t.splitn(2, '=');
        Some((p.next()?, p.next()?))
    })
    .collect()
}
fn opt_hex(m: &BTreeMap<&str, &str>, k: &str) -> Option<Vec<u8>> {
    match m.get(k) {
        None | Some(&"-") => None,
        Some(&"e") => Some(Vec::new()),
        Some(h) => Some(unhex(h)),
    }
}
fn get_num(m: &BTreeMap<&str, &str>, k: &str) -> u64 {
    m.get(k).and_then(|s| s.parse().ok()).unwrap_or(0)
}

// ------------------------------------------------------------------ certification declaration

mod cd {
    use super::*;
    use rs_matter::attest::cd::{CertificationElements, CmsSignedData, DeviceInfoForAttestation};
    use rs_matter::crypto::test_only_crypto;
    use rs_matter::tlv::{TLVTag, TLVWrite};
    use rs_matter::utils::storage::WriteBuf;

    pub fn cms(data: Vec<u8>) -> String {
        let r = with_timeout(move || match CmsSignedData::parse(&data) {
            Ok(c) => format!("ok kid={} cd={} sig={}", at(&data, c.signer_key_id), at(&data, c.cd_content), hex(&c.signature_raw)),
            Err(e) => errname(&e),
        });
        tally("cms_parse", &r);
        r
    }

    fn show(c: &CertificationElements) -> String {
        let pids: Vec<String> = c.product_ids[..c.product_ids_count.min(c.product_ids.len())].iter().map(|p| p.to_string()).collect();
        let paa: Vec<String> =
            c.authorized_paa_list[..c.authorized_paa_list_count.min(c.authorized_paa_list.len())].iter().map(|p| hex(p)).collect();
        format!(
            "ok fv={} vid={} pids={} n={} dt={} cid={} sl={} si={} vn={} ct={} dac={} paa={} m={}",
            c.format_version,
            c.vendor_id,
            if pids.is_empty() { "-".into() } else { pids.join(",") },
            c.product_ids_count,
            c.device_type_id,
            hex(&c.certificate_id),
            c.security_level,
            c.security_information,
            c.version_number,
            c.certification_type as u8,
            if c.dac_origin_vid_pid_present { format!("{},{}", c.dac_origin_vendor_id, c.dac_origin_product_id) } else { "-".into() },
            if paa.is_empty() { "-".into() } else { paa.join(",") },
            c.authorized_paa_list_count,
        )
    }

    pub fn cdec(data: Vec<u8>) -> String {
        let r = with_timeout(move || match CertificationElements::decode(&data) {
            Ok(c) => show(&c),
            Err(e) => errname(&e),
        });
        tally("cd_decode", &r);
        r
    }

    pub fn cver(allow: bool, data: Vec<u8>) -> String {
        let r = with_timeout(move || {
            let crypto = test_only_crypto();
            match CertificationElements::verify(&crypto, &data, allow) {
                Ok(c) => show(&c),
                Err(e) => errname(&e),
            }
        });
        tally("cd_verify", &r);
        r
    }

    /// TLV of the CD content via rs-matter's own TLV writer
    pub fn content(m: &BTreeMap<&str, &str>) -> Result<Vec<u8>, rs_matter::error::Error> {
        let mut buf = vec![0u8; 4096];
        let mut tw = WriteBuf::new(&mut buf);
        tw.start_struct(&TLVTag::Anonymous)?;
        tw.u16(&TLVTag::Context(0), get_num(m, "fv") as u16)?;
        tw.u16(&TLVTag::Context(1), get_num(m, "vid") as u16)?;
        tw.start_array(&TLVTag::Context(2))?;
        for p in m.get("pids").copied().unwrap_or("-").split(',').filter(|s| *s != "-" && !s.is_empty()) {
            tw.u16(&TLVTag::Anonymous, p.parse::<u64>().unwrap_or(0) as u16)?;
        }
        tw.end_container()?;
        tw.u32(&TLVTag::Context(3), get_num(m, "dt") as u32)?;
        let cid = opt_hex(m, "cid").unwrap_or_default();
        tw.utf8(&TLVTag::Context(4), &String::from_utf8_lossy(&cid))?;
        tw.u8(&TLVTag::Context(5), get_num(m, "sl") as u8)?;
        tw.u16(&TLVTag::Context(6), get_num(m, "si") as u16)?;
        tw.u16(&TLVTag::Context(7), get_num(m, "vn") as u16)?;
        tw.u8(&TLVTag::Context(8), get_num(m, "ct") as u8)?;
        if let Some(d) = m.get("dac").filter(|d| **d != "-") {
            let mut p = d.split(',');
            let v = p.next().and_then(|x| x.parse::<u64>().ok()).unwrap_or(0);
            let q = p.next().and_then(|x| x.parse::<u64>().ok()).unwrap_or(0);
            tw.u16(&TLVTag::Context(9), v as u16)?;
            tw.u16(&TLVTag::Context(10), q as u16)?;
        }
        if let Some(p) = m.get("paa").filter(|d| **d != "-") {
            tw.start_array(&TLVTag::Context(11))?;
            for e in p.split(',').filter(|s| *s != "e" && !s.is_empty()) {
                tw.str(&TLVTag::Anonymous, &unhex(e))?;
            }
            tw.end_container()?;
        }
        tw.end_container()?;
        let n = tw.as_slice().len();
        Ok(buf[..n].to_vec())
    }

    pub fn run(op: &str) -> String {
        let mut it = op.split_whitespace();
        match it.next() {
            Some("cms") => cms(unhex(it.next().unwrap_or("-"))),
            Some("cdec") => cdec(unhex(it.next().unwrap_or("-"))),
            Some("cver") => {
                let allow = num(it.next()) != 0;
                cver(allow, unhex(it.next().unwrap_or("-")))
            }
            // crt k=v…: fields -> rs-matter TLV writer -> harness CMS envelope -> CmsSignedData::parse and CertificationElements::decode
            Some("crt") => {
                let m = kvs(it);
                let c = match guard(|| match content(&m) {
                    Ok(c) => hex(&c),
                    Err(e) => errname(&e),
                }) {
                    s if s.starts_with("err") || s == "panic" => return s,
                    s => unhex(&s),
                };
                let kid = opt_hex(&m, "kid").unwrap_or_default();
                let r = opt_hex(&m, "r").unwrap_or_default();
                let s = opt_hex(&m, "s").unwrap_or_default();
                let msg = derb::cms(&c, &kid, &r, &s);
                join(vec![format!("{} {}", hex(&msg), cms(msg.clone())), format!("{} {}", hex(&c), cdec(c))])
            }
            // cval <vid> <pid> <dacvid> <dacpid> <paivid> <paipid> <paa skid hex20> k=v… (CD fields as in `crt`)
            Some("cval") => {
                let f: Vec<u64> = (0..6).map(|_| num(it.next())).collect();
                let skid = unhex(it.next().unwrap_or("-"));
                let m = kvs(it);
                let data = match guard(|| match content(&m) {
                    Ok(c) => hex(&c),
                    Err(e) => errname(&e),
                }) {
                    s if s.starts_with("err") || s == "panic" => return s,
                    s => unhex(&s),
                };
                let content_hex = hex(&data);
                let r = with_timeout(move || {
                    let c = match CertificationElements::decode(&data) {
                        Ok(c) => c,
                        Err(e) => return format!("nodecode {}", errname(&e)),
                    };
                    let mut paa_skid = [0u8; 20];
                    for (i, b) in skid.iter().take(20).enumerate() {
                        paa_skid[i] = *b;
                    }
                    let di = DeviceInfoForAttestation {
                        vendor_id: f[0] as u16,
                        product_id: f[1] as u16,
                        dac_vendor_id: f[2] as u16,
                        dac_product_id: f[3] as u16,
                        pai_vendor_id: f[4] as u16,
                        pai_product_id: f[5] as u16,
                        paa_skid,
                    };
                    match c.validate(&di) {
                        Ok(()) => "ok".into(),
                        Err(e) => errname(&e),
                    }
                });
                tally("cd_validate", &r);
                // the TLV content the fields were written to, then the answer
                format!("{} {}", content_hex, r)
            }
            _ => "badop".into(),
        }
    }
}

// ------------------------------------------------------------------ X.509 DAC / PAI / PAA

mod x509 {
    use super::*;
    use rs_matter::cert::x509::cert::{CertType, DacCert, PaaCert, PaiCert, X509Cert};

    fn opt16(r: Result<u16, rs_matter::error::Error>) -> String {
        match r {
            Ok(v) => v.to_string(),
            Err(e) => format!("-{:?}", e.code()).replace("-NotFound", "-"),
        }
    }

    fn show<'a, E: CertType<'a>>(data: &'a [u8], c: &X509Cert<'a, E>) -> String {
        let sl = |r: Result<&'a [u8], rs_matter::error::Error>| match r {
            Ok(s) => at(data, s),
            Err(e) => format!("-{:?}", e.code()).replace("-NotFound", "-"),
        };
        let t = |r: Result<u64, rs_matter::error::Error>| match r {
            Ok(v) => v.to_string(),
            Err(e) => format!("!{:?}", e.code()),
        };
        let nb = c.not_before_unix();
        let na = c.not_after_unix();
        let mut probes: Vec<u64> = vec![0, u64::MAX];
        if let (Ok(b), Ok(a)) = (&nb, &na) {
            probes.extend([*b, *a, b.saturating_sub(1), a.saturating_add(1)]);
        }
        let valid: String = probes
            .iter()
            .map(|p| match c.is_valid_at(*p) {
                Ok(true) => '1',
                Ok(false) => '0',
                Err(_) => 'e',
            })
            .collect();
        format!(
            "ok skid={} akid={} pk={} vid={} pid={} nb={} na={} valid={}",
            sl(c.subject_key_id()),
            sl(c.authority_key_id()),
            sl(c.public_key()),
            opt16(c.vendor_id()),
            opt16(c.product_id()),
            t(nb),
            t(na),
            valid
        )
    }

    pub fn one(ty: &str, data: Vec<u8>) -> String {
        let t = ty.to_string();
        let r = with_timeout(move || match t.as_str() {
            "dac" => match DacCert::new(&data) {
                Ok(c) => show(&data, &c),
                Err(e) => errname(&e),
            },
            "pai" => match PaiCert::new(&data) {
                Ok(c) => show(&data, &c),
                Err(e) => errname(&e),
            },
            _ => match PaaCert::new(&data) {
                Ok(c) => show(&data, &c),
                Err(e) => errname(&e),
            },
        });
        tally(ty, &r);
        r
    }

    pub fn all(data: Vec<u8>) -> String {
        join(vec![
            format!("dac:{}", one("dac", data.clone())),
            format!("pai:{}", one("pai", data.clone())),
            format!("paa:{}", one("paa", data)),
        ])
    }

    /// DN of the harness-built certificates: CN then optional Matter VID / PID attributes.
    /// Variants (`x=`): `vlc` lower-case hex digits, `vps` PrintableString values, `dup` a second vendor-id attribute
    /// in front (the last one counts), `mrd` vendor and product id in one multi-valued RDN.
    fn dn(cn: &[u8], vid: Option<&str>, pid: Option<&str>, x: &str) -> Vec<u8> {
        let st = if x == "vps" { 0x13 } else { 0x0c };
        let case = |v: &str| if x == "vlc" { v.to_ascii_lowercase() } else { v.to_string() };
        let mut rdns = vec![derb::atv(derb::OID_CN, 0x0c, cn)];
        if x == "dup" && vid.is_some() {
            rdns.push(derb::atv(derb::OID_MATTER_VID, st, b"0000"));
        }
        if x == "mrd" {
            let mut items = Vec::new();
            if let Some(v) = vid {
                items.push(derb::seq(&[derb::oid(derb::OID_MATTER_VID), derb::tlv(st, case(v).as_bytes())]));
            }
            if let Some(p) = pid {
                items.push(derb::seq(&[derb::oid(derb::OID_MATTER_PID), derb::tlv(st, case(p).as_bytes())]));
            }
            if !items.is_empty() {
                rdns.push(derb::set(&items));
            }
            return derb::seq(&rdns);
        }
        if let Some(v) = vid {
            rdns.push(derb::atv(derb::OID_MATTER_VID, st, case(v).as_bytes()));
        }
        if let Some(p) = pid {
            rdns.push(derb::atv(derb::OID_MATTER_PID, st, case(p).as_bytes()));
        }
        derb::seq(&rdns)
    }

    /// raw time element `nbraw=<tag hex>:<content hex>` / `naraw=…` (times the calendar builder cannot express)
    fn raw_time(v: &str) -> Option<Vec<u8>> {
        let mut p = v.splitn(2, ':');
        let tag = u8::from_str_radix(p.next()?, 16).ok()?;
        Some(derb::tlv(tag, &unhex(p.next()?)))
    }

    /// certificate from `k=v` fields (see `gen_x509_rt` for the field list)
    pub fn build(m: &BTreeMap<&str, &str>) -> Vec<u8> {
        let s = |k: &str| m.get(k).copied().filter(|v| *v != "-");
        // structural variant of the certificate (one per op), see the arms below and `dn`
        let x = m.get("x").copied().unwrap_or("-");
        let issuer = dn(&opt_hex(m, "icn").unwrap_or_default(), s("ivid"), s("ipid"), x);
        let subject = dn(&opt_hex(m, "scn").unwrap_or_default(), s("svid"), s("spid"), x);
        let utc = m.get("tf").copied().unwrap_or("u") == "u";
        let nb = s("nbraw").and_then(raw_time).unwrap_or_else(|| derb::time(Some(get_num(m, "nb")), utc));
        let na = match (s("naraw").and_then(raw_time), m.get("na").copied()) {
            (Some(t), _) => t,
            (None, Some("inf")) | (None, None) => derb::time(None, false),
            (None, Some(v)) => derb::time(Some(v.parse().unwrap_or(0)), utc),
        };
        let mut exts = Vec::new();
        // BasicConstraints
        if let Some(ca) = s("ca") {
            let mut items = Vec::new();
            if ca == "1" {
                items.push(derb::tlv(0x01, &[0xff]));
            } else if x == "caf" {
                // explicit `cA FALSE` (the DEFAULT value written out)
                items.push(derb::tlv(0x01, &[0x00]));
            }
            if let Some(pl) = s("pl") {
                items.push(derb::uint(&[pl.parse::<u64>().unwrap_or(0) as u8]));
            }
            exts.push(derb::ext(derb::OID_BC, get_num(m, "bcc") != 0, &derb::seq(&items)));
        }
        if let Some(ku) = s("ku") {
            let bits = u16::from_str_radix(ku, 16).unwrap_or(0);
            let (hi, lo) = ((bits >> 8) as u8, bits as u8);
            let bs = match x {
                // two octets although the second is zero / three octets / set padding bits / no content octet
                "kun" => derb::tlv(0x03, &[0, hi, lo]),
                "ku3" => derb::tlv(0x03, &[0, hi, lo, 0]),
                "kup" => derb::tlv(0x03, &[hi.trailing_zeros().min(7) as u8, hi | ((1u16 << hi.trailing_zeros().min(7)) - 1) as u8]),
                "ku0" => derb::tlv(0x03, &[0]),
                _ => derb::key_usage(bits),
            };
            exts.push(derb::ext(derb::OID_KU, get_num(m, "kuc") != 0, &bs));
        }
        if let Some(k) = opt_hex(m, "skid") {
            exts.push(derb::ext(derb::OID_SKID, false, &derb::tlv(0x04, &k)));
        }
        if let Some(k) = opt_hex(m, "akid") {
            let v = match x {
                // authorityCertIssuer / serial after the key identifier; constructed [0]; no key identifier at all
                "akx" => derb::seq(&[derb::tlv(0x80, &k), derb::tlv(0x82, &[1])]),
                "aka" => derb::seq(&[derb::tlv(0xa0, &k)]),
                "akn" => derb::seq(&[derb::tlv(0x82, &[1])]),
                _ => derb::seq(&[derb::tlv(0x80, &k)]),
            };
            exts.push(derb::ext(derb::OID_AKID, false, &v));
        }
        if x == "ext0" {
            // an Extension whose SEQUENCE goes on after extnValue, and one with `critical FALSE` written out
            exts.push(derb::seq(&[derb::oid(derb::OID_UNKNOWN_EXT), derb::tlv(0x04, &[0x05, 0x00]), derb::tlv(0x05, &[])]));
            exts.push(derb::seq(&[derb::oid(derb::OID_UNKNOWN_EXT), derb::tlv(0x01, &[0x00]), derb::tlv(0x04, &[0x05, 0x00])]));
        }
        match get_num(m, "unk") {
            1 => exts.push(derb::ext(derb::OID_UNKNOWN_EXT, false, &[0x05, 0x00])),
            2 => exts.push(derb::ext(derb::OID_UNKNOWN_EXT, true, &[0x05, 0x00])),
            _ => {}
        }
        // extension order rotated by `rot` (the parser must not depend on the order)
        let rot = get_num(m, "rot") as usize;
        if !exts.is_empty() {
            let k = rot % exts.len();
            exts.rotate_left(k);
        }
        let mut parts: Vec<Vec<u8>> = Vec::new();
        match x {
            "ver1" => parts.push(derb::tlv(0xa0, &derb::uint(&[1]))),
            "ver0" => parts.push(derb::tlv(0xa0, &derb::uint(&[0, 2]))),
            "nover" => {}
            _ => parts.push(derb::tlv(0xa0, &derb::uint(&[2]))),
        }
        parts.push(derb::uint(&opt_hex(m, "ser").unwrap_or_else(|| vec![1])));
        parts.push(if x == "sa5" {
            derb::seq(&[derb::oid(derb::OID_ECDSA_SHA256), derb::tlv(0x05, &[])])
        } else {
            derb::seq(&[derb::oid(derb::OID_ECDSA_SHA256)])
        });
        parts.push(issuer);
        parts.push(derb::seq(&[nb, na]));
        parts.push(subject);
        parts.push(derb::spki(&opt_hex(m, "pk").unwrap_or_default()));
        if x == "uid" {
            // issuerUniqueID [1] / subjectUniqueID [2] in front of the extensions
            parts.push(derb::tlv(0x81, &[0, 0xaa]));
            parts.push(derb::tlv(0x82, &[0, 0xbb]));
        }
        if x == "e4" {
            parts.push(derb::tlv(0xa4, &derb::seq(&exts)));
        } else if x != "noext" {
            parts.push(derb::tlv(0xa3, &derb::seq(&exts)));
        }
        let tbs = derb::seq(&parts);
        derb::wrap_tbs(&tbs, &[0x11; 32], &[0x22; 32])
    }

    pub fn run(op: &str) -> String {
        let mut it = op.split_whitespace();
        match it.next() {
            Some(t @ ("dac" | "pai" | "paa")) => one(t, unhex(it.next().unwrap_or("-"))),
            Some("all") => all(unhex(it.next().unwrap_or("-"))),
            // rt <dac|pai|paa> k=v…
            Some("rt") => {
                let ty = it.next().unwrap_or("dac").to_string();
                let m = kvs(it);
                let der = build(&m);
                format!("{} {}", hex(&der), one(&ty, der))
            }
            // tlv <matter TLV certificate hex>: REAL converter CertRef::as_asn1 (TBS) wrapped into a Certificate
            Some("tlv") => super::tlvx::via_asn1(unhex(it.next().unwrap_or("-"))),
            Some("gen") => super::tlvx::gen(it.collect()),
            _ => "badop".into(),
        }
    }
}

// ------------------------------------------------------------------ Matter TLV certificate -> as_asn1 -> X.509 parser

mod tlvx {
    use super::*;
    use rs_matter::cert::gen::{CertGenerator, CertType, IssuerDN, SubjectDN, Validity};
    use rs_matter::cert::{CertRef, MAX_CERT_TLV_AND_ASN1_LEN};
    use rs_matter::crypto::{test_only_crypto, CanonPkcPublicKey, CanonPkcPublicKeyRef, CanonPkcSecretKeyRef, Crypto, PublicKey, SigningSecretKey};
    use rs_matter::tlv::TLVElement;

    /// `<tlv pubkey hex> <der hex> dac:… | pai:… | paa:…`
    pub fn via_asn1(tlv: Vec<u8>) -> String {
        let conv = with_timeout(move || {
            let c = CertRef::new(TLVElement::new(&tlv));
            let mut buf = vec![0u8; 2048];
            match c.as_asn1(&mut buf) {
                Ok(n) => {
                    let key = match c.pubkey() {
                        Ok(k) => hex(k),
                        Err(_) => "nokey".into(),
                    };
                    format!("{} {}", key, hex(&buf[..n]))
                }
                Err(e) => errname(&e),
            }
        });
        tally("as_asn1", if conv.starts_with("err") { "err" } else { "ok" });
        if conv.starts_with("err") || conv == "panic" || conv == "timeout" {
            return conv;
        }
        let mut w = conv.split_whitespace();
        let key = w.next().unwrap_or("").to_string();
        let tbs = unhex(w.next().unwrap_or("-"));
        let der = derb::wrap_tbs(&tbs, &[0x11; 32], &[0x22; 32]);
        format!("{} {} {}", key, hex(&der), x509::all(der))
    }

    fn pubkey_of<C: Crypto>(crypto: &C, sk: &[u8; 32]) -> Result<[u8; 65], rs_matter::error::Error> {
        let s = crypto.secret_key(CanonPkcSecretKeyRef::new(sk))?;
        let mut pk = CanonPkcPublicKey::new();
        s.pub_key()?.write_canon(&mut pk)?;
        let mut b = [0u8; 65];
        b.copy_from_slice(pk.access());
        Ok(b)
    }

    /// `gen rcac sk=<hex32> nb=<matter secs> na=<matter secs> id=<u64> fab=<u64>`:
    /// REAL generator (CertGenerator, RCAC) -> TLV -> REAL converter -> X.509 parsers.
    /// output: `<skid hex> <tlv hex> <pubkey hex> <der hex> dac:… | pai:… | paa:…`
    pub fn gen(toks: Vec<&str>) -> String {
        let m = kvs(toks.iter().skip(1).copied());
        let skb = opt_hex(&m, "sk").unwrap_or_default();
        let (nb, na, id, fab) = (get_num(&m, "nb") as u32, get_num(&m, "na") as u32, get_num(&m, "id"), get_num(&m, "fab"));
        let minted = with_timeout(move || {
            let crypto = test_only_crypto();
            let mut sk = [0u8; 32];
            for (i, b) in skb.iter().take(32).enumerate() {
                sk[i] = *b;
            }
            let pk = match pubkey_of(&crypto, &sk) {
                Ok(p) => p,
                Err(e) => return errname(&e),
            };
            let kid = match rs_matter::attest::trust_store::compute_key_id(&crypto, CanonPkcPublicKeyRef::new(&pk)) {
                Ok(k) => k,
                Err(e) => return errname(&e),
            };
            let key = match crypto.secret_key(CanonPkcSecretKeyRef::new(&sk)) {
                Ok(k) => k,
                Err(e) => return errname(&e),
            };
            let mut buf = vec![0u8; MAX_CERT_TLV_AND_ASN1_LEN];
            match CertGenerator::new(&mut buf).generate(
                &crypto,
                CertType::Rcac,
                &[0x01],
                Validity { not_before: nb, not_after: na },
                SubjectDN::verif_new(None, Some(fab), &[], Some(id)),
                IssuerDN::verif_new(None, None, false),
                CanonPkcPublicKeyRef::new(&pk),
                None,
                &key,
            ) {
                Ok(n) => format!("{} {}", hex(&kid), hex(&buf[..n])),
                Err(e) => errname(&e),
            }
        });
        if minted.starts_with("err") || minted == "panic" || minted == "timeout" {
            return minted;
        }
        let tlv = unhex(minted.split_whitespace().nth(1).unwrap_or("-"));
        format!("{} {}", minted, via_asn1(tlv))
    }
}

// ------------------------------------------------------------------ CSR

mod csr {
    use super::*;
    use rs_matter::cert::x509::csr::CsrRef;
    use rs_matter::crypto::{test_only_crypto, CanonPkcPublicKey, CanonPkcSecretKeyRef, Crypto, PublicKey, SigningSecretKey};

    pub fn parse(data: Vec<u8>) -> String {
        let r = with_timeout(move || match CsrRef::new(&data) {
            Ok(c) => {
                let pk = match c.pubkey() {
                    Ok(p) => at(&data, p.access()),
                    Err(e) => format!("!{:?}", e.code()),
                };
                let crypto = test_only_crypto();
                let v = match c.verify(&crypto) {
                    Ok(()) => "ok".to_string(),
                    Err(e) => format!("{:?}", e.code()),
                };
                // signature placement: the signed range and the raw signature `verify` works on (hooks)
                let tbs = at(&data, c.verif_tbs());
                let sig = match c.verif_signature() {
                    Ok(s) => hex(&s),
                    Err(e) => format!("!{:?}", e.code()),
                };
                format!("ok pk={} tbs={} sig={} verify={}", pk, tbs, sig, v)
            }
            Err(e) => errname(&e),
        });
        tally("csr", &r);
        if r.contains("verify=ok") {
            stat("x509_csr_verify_ok");
        }
        r
    }

    pub fn run(op: &str) -> String {
        let mut it = op.split_whitespace();
        match it.next() {
            Some("csr") => parse(unhex(it.next().unwrap_or("-"))),
            // rt <secret key hex32>: REAL CSR builder -> REAL parser; output `<pubkey hex> <csr hex> <parse result>`
            Some("rt") => {
                let skb = unhex(it.next().unwrap_or("-"));
                let made = with_timeout(move || {
                    let crypto = test_only_crypto();
                    let mut sk = [0u8; 32];
                    for (i, b) in skb.iter().take(32).enumerate() {
                        sk[i] = *b;
                    }
                    let key = match crypto.secret_key(CanonPkcSecretKeyRef::new(&sk)) {
                        Ok(k) => k,
                        Err(e) => return errname(&e),
                    };
                    let mut pk = CanonPkcPublicKey::new();
                    if let Err(e) = key.pub_key().and_then(|p| p.write_canon(&mut pk)) {
                        return errname(&e);
                    }
                    let mut buf = [0u8; 512];
                    match key.csr(&mut buf) {
                        Ok(d) => format!("{} {}", hex(pk.access()), hex(d)),
                        Err(e) => errname(&e),
                    }
                });
                if made.starts_with("err") || made == "panic" || made == "timeout" {
                    return made;
                }
                let der = unhex(made.split_whitespace().nth(1).unwrap_or("-"));
                format!("{} {}", made, parse(der))
            }
            _ => "badop".into(),
        }
    }
}

// ------------------------------------------------------------------ ECDSA DER signature helper (cert/der_utils.rs)

mod dersig {
    use super::*;
    use rs_matter::cert::der_utils::{copy_integer_to_fixed, ecdsa_der_to_raw};

    pub fn sig(data: Vec<u8>) -> String {
        let r = with_timeout(move || match ecdsa_der_to_raw(&data) {
            Ok(raw) => format!("ok {}", hex(&raw)),
            Err(e) => errname(&e),
        });
        tally("ecdsa_der_to_raw", &r);
        r
    }

    pub fn run(op: &str) -> String {
        let mut it = op.split_whitespace();
        match it.next() {
            Some("sig") => sig(unhex(it.next().unwrap_or("-"))),
            Some("cpy") => {
                let n = (num(it.next()) as usize).min(256);
                let v = unhex(it.next().unwrap_or("-"));
                let r = with_timeout(move || {
                    let mut t = vec![0xAAu8; n];
                    match copy_integer_to_fixed(&mut t, &v) {
                        Ok(()) => format!("ok {}", hex(&t)),
                        Err(e) => errname(&e),
                    }
                });
                tally("copy_integer_to_fixed", &r);
                r
            }
            // rt <r hex> <s hex>: harness DER encoding of the two unsigned integers
            Some("rt") => {
                let r = unhex(it.next().unwrap_or("-"));
                let s = unhex(it.next().unwrap_or("-"));
                let der = derb::ecdsa_sig(&r, &s);
                format!("{} {}", hex(&der), sig(der))
            }
            _ => "badop".into(),
        }
    }
}

// ------------------------------------------------------------------ the `der` crate reading layer (dependency, der 0.7)

mod derl {
    use super::*;
    use der::asn1::AnyRef;
    use der::{Decode, Header, Reader, SliceReader, Tagged};

    fn kind(e: &der::Error) -> String {
        let s = format!("{:?}", e.kind());
        let k: String = s.chars().take_while(|c| c.is_ascii_alphanumeric()).collect();
        format!("err {}", k)
    }

    pub fn run(op: &str) -> String {
        let mut it = op.split_whitespace();
        let what = it.next().unwrap_or("").to_string();
        let data = unhex(it.next().unwrap_or("-"));
        let r = with_timeout(move || match what.as_str() {
            // Header::decode on a SliceReader: tag octet, length, reader position afterwards
            "hdr" => {
                let mut r = match SliceReader::new(&data) {
                    Ok(r) => r,
                    Err(e) => return kind(&e),
                };
                match Header::decode(&mut r) {
                    Ok(h) => format!("ok {} {} {}", h.tag.octet(), u32::from(h.length), u32::from(r.position())),
                    Err(e) => kind(&e),
                }
            }
            // AnyRef::from_der: one complete element, nothing behind it
            "any" => match AnyRef::from_der(&data) {
                Ok(a) => format!("ok {} {}", a.tag().octet(), at(&data, a.value())),
                Err(e) => kind(&e),
            },
            // the iteration pattern of MatterDnAttrs::parse / ParsedExtensionFields::parse / ecdsa_der_to_raw:
            // `while !reader.is_finished() { AnyRef::decode(&mut reader)? }`
            "seq" => {
                let mut r = match SliceReader::new(&data) {
                    Ok(r) => r,
                    Err(e) => return kind(&e),
                };
                let mut items = Vec::new();
                let mut steps = 0usize;
                while !r.is_finished() {
                    steps += 1;
                    if steps > data.len() + 2 {
                        return "err Endless".into();
                    }
                    match AnyRef::decode(&mut r) {
                        Ok(a) => items.push(format!("{}{}", a.tag().octet(), at(&data, a.value()))),
                        Err(e) => return format!("{} after {}", kind(&e), items.len()),
                    }
                }
                format!("ok {} {}", items.len(), if items.is_empty() { "-".into() } else { items.join(",") })
            }
            // `reader.sequence(|r| …)` = Header::decode + tag check + read_nested(len) + items + NestedReader::finish,
            // then SliceReader::finish (from_der): the shape of every `decode_value` in cd.rs / cert.rs / csr.rs
            "nest" => {
                let mut r = match SliceReader::new(&data) {
                    Ok(r) => r,
                    Err(e) => return kind(&e),
                };
                let res = r.sequence(|n| {
                    let mut items = Vec::new();
                    let mut steps = 0usize;
                    while !n.is_finished() {
                        steps += 1;
                        if steps > data.len() + 2 {
                            return Err(der::ErrorKind::Failed.into());
                        }
                        let a = AnyRef::decode(n)?;
                        items.push(format!("{}{}", a.tag().octet(), at(&data, a.value())));
                    }
                    Ok(items)
                });
                match res.and_then(|v| r.finish(v)) {
                    Ok(items) => format!("ok {} {}", items.len(), if items.is_empty() { "-".into() } else { items.join(",") }),
                    Err(e) => kind(&e),
                }
            }
            _ => "badop".into(),
        });
        tally(&format!("der_{}", op.split_whitespace().next().unwrap_or("")), &r);
        r
    }
}

pub fn run_op(kind: &str, op: &str) -> Option<String> {
    Some(match kind {
        "cd" => cd::run(op),
        "x509" => x509::run(op),
        "csr" => csr::run(op),
        "dersig" => dersig::run(op),
        "der" => derl::run(op),
        _ => return None,
    })
}

pub fn gen(r: &mut Rng, out: &mut Out, thorough: bool, id: &mut u64) {
    xgen::gen(r, out, thorough, id);
    if let Ok(mut g) = STATS.lock() {
        for (k, v) in g.iter() {
            out.stat(k, *v);
        }
        g.clear();
    }
}
