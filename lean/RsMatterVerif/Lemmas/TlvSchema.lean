import RsMatterVerif.Lemmas.TlvRound
import RsMatterVerif.Model.TlvSchema
/-! # Lemmas for the schema-directed (derived structure) round trip -/
namespace Tlv


theorem tryCtx_header (tg : Nat) (vt : ValueType) (X : Bytes) (h : tg < 256) :
    tryCtx (header (.ctx tg) vt ++ X) = .ok (some tg) := by
  simp only [tryCtx, control_header, Res.ok_bind, Tag.type, if_true, tagSlice]
  simp only [header, Tag.bytes, List.cons_append, tagStart_cons, Res.ok_bind, leBytes, TagType.size]
  simp [getTo, okOr, UInt8.toNat_ofNat']; omega

theorem tryCtx_encode (v : Value) (tg : Nat) (X : Bytes) (ht : v.tag = .ctx tg) (h : tg < 256) :
    tryCtx (encode v ++ X) = .ok (some tg) := by
  cases v with
  | leaf t p => simp only [Value.tag] at ht; subst ht; rw [encode_leaf_append]; exact tryCtx_header tg _ _ h
  | cont t k cs => simp only [Value.tag] at ht; subst ht; rw [encode_cont_append]; exact tryCtx_header tg _ _ h

theorem u8_uint (t : Tag) (n : Nat) (more : Bytes) (h : (Prim.uint .w1 n).wf) :
    u8 (encode (.leaf t (.uint .w1 n)) ++ more) = .ok n := by
  have hv : leVal (Prim.uint .w1 n).data = n := by
    simp only [Prim.data]; exact leVal_leBytes_of_lt (by rw [pow256]; exact h)
  have hf := fixedVal_leafE t (.uint .w1 n) more h 1 (by simp [Prim.data, Width.bytes])
  rw [hv] at hf
  simp only [u8, control_leafE, Res.ok_bind, Prim.vt, if_true] at hf ⊢; exact hf

theorem u16_uint (t : Tag) (w : Width) (n : Nat) (more : Bytes) (hw : w = .w1 ∨ w = .w2) (h : (Prim.uint w n).wf) :
    u16 (encode (.leaf t (.uint w n)) ++ more) = .ok n := by
  have hv : leVal (Prim.uint w n).data = n := by
    simp only [Prim.data]; exact leVal_leBytes_of_lt (by rw [pow256]; exact h)
  have hf := fixedVal_leafE t (.uint w n) more h w.bytes (by simp [Prim.data])
  rw [hv] at hf
  rcases hw with rfl | rfl <;>
    simp only [u16, u8, control_leafE, Res.ok_bind, Prim.vt, Width.bytes, reduceCtorEq,
      ValueType.uint.injEq, if_false, if_true] at hf ⊢ <;> exact hf

theorem u32_uint (t : Tag) (w : Width) (n : Nat) (more : Bytes) (hw : w ≠ .w8) (h : (Prim.uint w n).wf) :
    u32 (encode (.leaf t (.uint w n)) ++ more) = .ok n := by
  have hv : leVal (Prim.uint w n).data = n := by
    simp only [Prim.data]; exact leVal_leBytes_of_lt (by rw [pow256]; exact h)
  have hf := fixedVal_leafE t (.uint w n) more h w.bytes (by simp [Prim.data])
  rw [hv] at hf
  cases w <;> first | exact absurd rfl hw | skip
  all_goals
    simp only [u32, u16, u8, control_leafE, Res.ok_bind, Prim.vt, Width.bytes, reduceCtorEq,
      ValueType.uint.injEq, if_false, if_true] at hf ⊢ <;> exact hf

theorem mkUint_width (n : Nat) :
    (n ≤ 0xff → Prim.mkUint n = .uint .w1 n) ∧
    (n ≤ 0xffff → Prim.mkUint n = .uint .w1 n ∨ Prim.mkUint n = .uint .w2 n) ∧
    (n ≤ 0xffffffff → ∃ w, w ≠ Width.w8 ∧ Prim.mkUint n = .uint w n) := by
  unfold Prim.mkUint
  refine ⟨fun h => by simp [h], fun h => ?_, fun h => ?_⟩
  · by_cases h1 : n ≤ 0xff
    · left; simp [h1]
    · right; simp [h1, h]
  · by_cases h1 : n ≤ 0xff
    · exact ⟨.w1, by decide, by simp [h1]⟩
    · by_cases h2 : n ≤ 0xffff
      · exact ⟨.w2, by decide, by simp [h1, h2]⟩
      · exact ⟨.w4, by decide, by simp [h1, h2, h]⟩


/-! ### signed integers and floats: the typed accessors on what the typed writer methods emit -/

theorem i8_sint (t : Tag) (i : Int) (more : Bytes) (h : (Prim.sint .w1 i).wf) :
    i8 (encode (.leaf t (.sint .w1 i)) ++ more) = .ok i := by
  obtain ⟨h1, h2⟩ := signed_roundtrip .w1 i h
  have hv : leVal (Prim.sint .w1 i).data = ofSigned Width.w1.bytes i := by
    simp only [Prim.data]; exact leVal_leBytes_of_lt h1
  have hf := fixedVal_leafE t (.sint .w1 i) more h Width.w1.bytes (by simp [Prim.data])
  rw [hv] at hf
  simp only [i8, control_leafE, Res.ok_bind, Prim.vt, Width.bytes, if_true] at hf h2 ⊢
  simp only [hf, Res.ok_bind, Res.pure_eq, h2]

theorem i16_sint (t : Tag) (w : Width) (i : Int) (more : Bytes) (hw : w = .w1 ∨ w = .w2) (h : (Prim.sint w i).wf) :
    i16 (encode (.leaf t (.sint w i)) ++ more) = .ok i := by
  obtain ⟨h1, h2⟩ := signed_roundtrip w i h
  have hv : leVal (Prim.sint w i).data = ofSigned w.bytes i := by
    simp only [Prim.data]; exact leVal_leBytes_of_lt h1
  have hf := fixedVal_leafE t (.sint w i) more h w.bytes (by simp [Prim.data])
  rw [hv] at hf
  rcases hw with rfl | rfl <;>
    simp only [i16, i8, control_leafE, Res.ok_bind, Prim.vt, Width.bytes, reduceCtorEq,
      ValueType.sint.injEq, if_false, if_true] at hf h2 ⊢ <;>
    simp only [hf, Res.ok_bind, Res.pure_eq, h2]

theorem i32_sint (t : Tag) (w : Width) (i : Int) (more : Bytes) (hw : w ≠ .w8) (h : (Prim.sint w i).wf) :
    i32 (encode (.leaf t (.sint w i)) ++ more) = .ok i := by
  obtain ⟨h1, h2⟩ := signed_roundtrip w i h
  have hv : leVal (Prim.sint w i).data = ofSigned w.bytes i := by
    simp only [Prim.data]; exact leVal_leBytes_of_lt h1
  have hf := fixedVal_leafE t (.sint w i) more h w.bytes (by simp [Prim.data])
  rw [hv] at hf
  cases w <;> first | exact absurd rfl hw | skip
  all_goals
    simp only [i32, i16, i8, control_leafE, Res.ok_bind, Prim.vt, Width.bytes, reduceCtorEq,
      ValueType.sint.injEq, if_false, if_true] at hf h2 ⊢ <;>
    simp only [hf, Res.ok_bind, Res.pure_eq, h2]

/-- `TLVWrite::i16/i32/i64`: the smallest signed width that holds the value -/
theorem mkSint_width (i : Int) :
    (-128 ≤ i ∧ i ≤ 127 → Prim.mkSint i = .sint .w1 i) ∧
    (-32768 ≤ i ∧ i ≤ 32767 → Prim.mkSint i = .sint .w1 i ∨ Prim.mkSint i = .sint .w2 i) ∧
    (-2147483648 ≤ i ∧ i ≤ 2147483647 → ∃ w, w ≠ Width.w8 ∧ Prim.mkSint i = .sint w i) := by
  unfold Prim.mkSint
  refine ⟨fun h => by simp [h], fun h => ?_, fun h => ?_⟩
  · by_cases h1 : -128 ≤ i ∧ i ≤ 127
    · left; simp [h1]
    · right; simp [h1, h]
  · by_cases h1 : -128 ≤ i ∧ i ≤ 127
    · exact ⟨.w1, by decide, by simp [h1]⟩
    · by_cases h2 : -32768 ≤ i ∧ i ≤ 32767
      · exact ⟨.w2, by decide, by simp [h1, h2]⟩
      · exact ⟨.w4, by decide, by simp [h1, h2, h]⟩

theorem f32_written (t : Tag) (b : Nat) (X : Bytes) (h : b < 2 ^ 32) :
    Tlv.f32 (encode (.leaf t (.f32 b)) ++ X) = .ok b := by
  have hv : leVal (Prim.f32 b).data = b := by
    simp only [Prim.data]; exact leVal_leBytes_of_lt (by omega)
  have hf := fixedVal_leafE t (.f32 b) X h 4 (by simp [Prim.data])
  rw [hv] at hf
  simp only [Tlv.f32, control_leafE, Res.ok_bind, Prim.vt, if_true]; exact hf

theorem f64_written (t : Tag) (b : Nat) (X : Bytes) (h : b < 2 ^ 64) :
    Tlv.f64 (encode (.leaf t (.f64 b)) ++ X) = .ok b := by
  have hv : leVal (Prim.f64 b).data = b := by
    simp only [Prim.data]; exact leVal_leBytes_of_lt (by omega)
  have hf := fixedVal_leafE t (.f64 b) X h 8 (by simp [Prim.data])
  rw [hv] at hf
  simp only [Tlv.f64, control_leafE, Res.ok_bind, Prim.vt, if_true]; exact hf


/-- a context-tagged value (what a derived field writes: primitive or container) -/
def CtxVal (v : Value) : Prop := ∃ tg, v.tag = .ctx tg ∧ tg < 256 ∧ v.wf

def ctxTagOf (v : Value) : Option Nat :=
  match v.tag with
  | .ctx n => some n
  | _ => none

theorem ctxTagOf_eq {v : Value} {tg : Nat} (h : v.tag = .ctx tg) : ctxTagOf v = some tg := by
  simp [ctxTagOf, h]

/-- the slice `find_ctx(tag)` returns on the written fields `vals` (followed by the end marker) -/
def suffixAt : List Value → Nat → Bytes → Bytes
  | [], _, _ => []
  | v :: rest, tag, more =>
    if ctxTagOf v = some tag then encode v ++ (encodes (Values.ofList rest) ++ endByte :: more)
    else suffixAt rest tag more

theorem ofList_wf : ∀ vals : List Value, (∀ v ∈ vals, v.wf) → (Values.ofList vals).wf
  | [], _ => trivial
  | v :: rest, h => ⟨h v (by simp), ofList_wf rest fun v' hv' => h v' (by simp [hv'])⟩

theorem ofList_depth_le : ∀ (vals : List Value) (v : Value), v ∈ vals → v.depth ≤ (Values.ofList vals).depth
  | [], _, h => by simp at h
  | w :: rest, v, h => by
    simp only [Values.ofList, Values.depth]
    rcases List.mem_cons.mp h with rfl | h
    · omega
    · have := ofList_depth_le rest v h; omega

theorem ofList_depth_append_right (a b : List Value) : (Values.ofList b).depth ≤ (Values.ofList (a ++ b)).depth := by
  induction a with
  | nil => simp
  | cons v rest ih => simp only [List.cons_append, Values.ofList, Values.depth]; omega

theorem ofList_depth_tail (v : Value) (rest : List Value) :
    (Values.ofList rest).depth ≤ (Values.ofList (v :: rest)).depth := by
  simp only [Values.ofList, Values.depth]; omega

theorem Values.depth_lt_of_len (vs : Values) (h : (encodes vs).length + 1 < I32LIM) : vs.depth + 1 < I32LIM := by
  have h1 := Values.depth_le_ntoks vs
  have h2 := Values.ntoks_le vs
  omega

theorem ofList_len_mem : ∀ (vals : List Value) (v : Value), v ∈ vals →
    (encode v).length ≤ (encodes (Values.ofList vals)).length
  | [], _, h => by simp at h
  | w :: rest, v, h => by
    simp only [Values.ofList, encodes, List.length_append]
    rcases List.mem_cons.mp h with rfl | h
    · omega
    · have := ofList_len_mem rest v h; omega

theorem ofList_len_tail (v : Value) (rest : List Value) :
    (encodes (Values.ofList rest)).length ≤ (encodes (Values.ofList (v :: rest))).length := by
  simp only [Values.ofList, encodes, List.length_append]; omega

theorem encode_cont_len (t : Tag) (k : Kind) (cs : Values) :
    (encodes cs).length + 2 ≤ (encode (.cont t k cs)).length := by
  simp only [encode, List.length_append, header_length, List.length_cons, List.length_nil]; omega

theorem findCtxGo_suffixes (tag : Nat) (more : Bytes) : ∀ vals : List Value, (∀ v ∈ vals, CtxVal v) →
    findCtxGo tag ((childSuffixes (Values.ofList vals) more).map .ok) = .ok (suffixAt vals tag more)
  | [], _ => rfl
  | v :: rest, h => by
    obtain ⟨tg, h0, h1, _⟩ := h v (by simp)
    simp only [Values.ofList, childSuffixes, List.map_cons, findCtxGo, Res.ok_bind, tryCtx_encode v tg _ h0 h1,
      suffixAt, ctxTagOf_eq h0, Option.some.injEq]
    by_cases e : tg = tag
    · simp [e]
    · simp only [e, if_false]
      exact findCtxGo_suffixes tag more rest fun v' hv' => h v' (by simp [hv'])

/-- `find_ctx` on the written fields -/
theorem findCtx_fields (vals : List Value) (tag : Nat) (more : Bytes) (h : ∀ v ∈ vals, CtxVal v)
    (hd : (Values.ofList vals).depth + 1 < I32LIM) :
    findCtx (encodes (Values.ofList vals) ++ endByte :: more) tag = .ok (suffixAt vals tag more) := by
  unfold findCtx
  rw [elements_encodes _ more (ofList_wf vals fun v hv => (h v hv).choose_spec.2.2) hd]
  exact findCtxGo_suffixes tag more vals h

theorem suffixAt_skip (pre L : List Value) (tag : Nat) (more : Bytes)
    (h : ∀ v ∈ pre, ctxTagOf v ≠ some tag) : suffixAt (pre ++ L) tag more = suffixAt L tag more := by
  induction pre with
  | nil => rfl
  | cons v rest ih =>
    simp only [List.cons_append, suffixAt, h v (by simp), if_false]
    exact ih fun v' hv' => h v' (by simp [hv'])

theorem suffixAt_none (L : List Value) (tag : Nat) (more : Bytes)
    (h : ∀ v ∈ L, ctxTagOf v ≠ some tag) : suffixAt L tag more = [] := by
  have := suffixAt_skip L [] tag more h
  simpa [suffixAt] using this

theorem suffixAt_head (v : Value) (rest : List Value) (tag : Nat) (more : Bytes) (h : v.tag = .ctx tag) :
    suffixAt (v :: rest) tag more = encode v ++ (encodes (Values.ofList rest) ++ endByte :: more) := by
  simp [suffixAt, ctxTagOf_eq h]

open TlvSchema

/-! ### what a written field reads back as -/

theorem wmax_lt (w : Width) : wmax w < 2 ^ 64 := by cases w <;> decide

theorem uintPrim_wf (w : Width) (n : Nat) (h : n ≤ wmax w) : (uintPrim w n).wf := by
  unfold uintPrim
  by_cases h1 : w = .w1
  · subst h1; simp only [if_true, Prim.wf, Width.bytes]; simp only [wmax, Width.bytes] at h; omega
  · simp only [h1, if_false]; exact mkUint_wf n (by have := wmax_lt w; omega)

theorem uintPrim_eq (w : Width) (n : Nat) : ∃ w', uintPrim w n = .uint w' n := by
  unfold uintPrim
  by_cases h1 : w = .w1
  · exact ⟨.w1, by simp [h1]⟩
  · obtain ⟨w', hw⟩ := mkUint_eq n; exact ⟨w', by simp [h1, hw]⟩

/-- the integer a field writes (`tw.u8` / shortest width) reads back through the field type's accessor -/
theorem readUint_written (t : Tag) (w : Width) (n : Nat) (X : Bytes) (hn : n ≤ wmax w) :
    readUint w (encode (.leaf t (uintPrim w n)) ++ X) = .ok n := by
  cases w with
  | w1 =>
    simp only [wmax, Width.bytes] at hn
    simp only [readUint, uintPrim, if_true]
    exact u8_uint t n X (by simp [Prim.wf, Width.bytes]; omega)
  | w2 =>
    simp only [wmax, Width.bytes] at hn
    have hw := (mkUint_width n).2.1 (by omega)
    have hwf := mkUint_wf n (by omega)
    simp only [readUint, uintPrim, reduceCtorEq, if_false]
    rcases hw with hw | hw <;> rw [hw] at hwf ⊢
    · exact u16_uint t _ n X (Or.inl rfl) hwf
    · exact u16_uint t _ n X (Or.inr rfl) hwf
  | w4 =>
    simp only [wmax, Width.bytes] at hn
    obtain ⟨w', hw8, hw⟩ := (mkUint_width n).2.2 (by omega)
    have hwf := mkUint_wf n (by omega)
    simp only [readUint, uintPrim, reduceCtorEq, if_false]
    rw [hw] at hwf ⊢
    exact u32_uint t w' n X hw8 hwf
  | w8 =>
    simp only [wmax, Width.bytes] at hn
    obtain ⟨w', hw⟩ := mkUint_eq n
    have hwf := mkUint_wf n (by omega)
    simp only [readUint, uintPrim, reduceCtorEq, if_false]
    rw [hw] at hwf ⊢
    exact u64_uint t w' n X hwf

theorem smin_smax_vals :
    smin .w1 = -128 ∧ smax .w1 = 127 ∧ smin .w2 = -32768 ∧ smax .w2 = 32767 ∧
    smin .w4 = -2147483648 ∧ smax .w4 = 2147483647 ∧
    smin .w8 = -9223372036854775808 ∧ smax .w8 = 9223372036854775807 := by
  simp only [smin, smax, Width.bytes]; decide

theorem sint_range_wf (w : Width) (i : Int) (hlo : smin w ≤ i) (hhi : i ≤ smax w) : (Prim.sint w i).wf := by
  simp only [smin, smax] at hlo hhi
  simp only [Prim.wf]; omega

theorem sint_range_i64 (w : Width) (i : Int) (hlo : smin w ≤ i) (hhi : i ≤ smax w) :
    -(2 ^ 63 : Nat) ≤ i ∧ i < (2 ^ 63 : Nat) := by
  obtain ⟨a1, a2, b1, b2, c1, c2, d1, d2⟩ := smin_smax_vals
  cases w
  · rw [a1] at hlo; rw [a2] at hhi; omega
  · rw [b1] at hlo; rw [b2] at hhi; omega
  · rw [c1] at hlo; rw [c2] at hhi; omega
  · rw [d1] at hlo; rw [d2] at hhi; omega

theorem sintPrim_wf (w : Width) (i : Int) (hlo : smin w ≤ i) (hhi : i ≤ smax w) : (sintPrim w i).wf := by
  unfold sintPrim
  by_cases h1 : w = .w1
  · subst h1; simp only [if_true]; exact sint_range_wf .w1 i hlo hhi
  · simp only [h1, if_false]; exact mkSint_wf i (sint_range_i64 w i hlo hhi)

theorem sintPrim_eq (w : Width) (i : Int) : ∃ w', sintPrim w i = .sint w' i := by
  unfold sintPrim
  by_cases h1 : w = .w1
  · exact ⟨.w1, by simp [h1]⟩
  · obtain ⟨w', hw⟩ := mkSint_eq i; exact ⟨w', by simp [h1, hw]⟩

/-- the signed integer a field writes (`tw.i8` / the smallest signed width) reads back through the field
type's accessor (`i8()` / the widening chains `i16() → i8()`, `i32() → i16() → i8()`, `i64() → …`) -/
theorem readSint_written (t : Tag) (w : Width) (i : Int) (X : Bytes) (hlo : smin w ≤ i) (hhi : i ≤ smax w) :
    readSint w (encode (.leaf t (sintPrim w i)) ++ X) = .ok i := by
  obtain ⟨a1, a2, b1, b2, c1, c2, d1, d2⟩ := smin_smax_vals
  cases w with
  | w1 =>
    simp only [readSint, sintPrim, if_true]
    exact i8_sint t i X (sint_range_wf .w1 i hlo hhi)
  | w2 =>
    rw [b1] at hlo; rw [b2] at hhi
    have hw := (mkSint_width i).2.1 ⟨hlo, hhi⟩
    have hwf := mkSint_wf i (by omega)
    simp only [readSint, sintPrim, reduceCtorEq, if_false]
    rcases hw with hw | hw <;> rw [hw] at hwf ⊢
    · exact i16_sint t _ i X (Or.inl rfl) hwf
    · exact i16_sint t _ i X (Or.inr rfl) hwf
  | w4 =>
    rw [c1] at hlo; rw [c2] at hhi
    obtain ⟨w', hw8, hw⟩ := (mkSint_width i).2.2 ⟨hlo, hhi⟩
    have hwf := mkSint_wf i (by omega)
    simp only [readSint, sintPrim, reduceCtorEq, if_false]
    rw [hw] at hwf ⊢
    exact i32_sint t w' i X hw8 hwf
  | w8 =>
    rw [d1] at hlo; rw [d2] at hhi
    obtain ⟨w', hw⟩ := mkSint_eq i
    have hwf := mkSint_wf i (by omega)
    simp only [readSint, sintPrim, reduceCtorEq, if_false]
    rw [hw] at hwf ⊢
    exact i64_sint t w' i X hwf

/-! ### `[T; N]`: padding -/

theorem Vals.append_nil : ∀ (vs : Vals), vs.append .nil = vs
  | .nil => rfl
  | .cons v r => by simp only [Vals.append, Vals.append_nil r]

theorem Vals.length_append : ∀ (a b : Vals), (a.append b).length = a.length + b.length
  | .nil, b => by simp [Vals.append, Vals.length]
  | .cons v r, b => by simp only [Vals.append, Vals.length, Vals.length_append r b]; omega

theorem Vals.length_replicate : ∀ (n : Nat) (d : Val), (Vals.replicate n d).length = n
  | 0, _ => rfl
  | n + 1, d => by simp only [Vals.replicate, Vals.length, Vals.length_replicate n d]

/-- a vector that is already full is not padded -/
theorem padTo_full (n : Nat) (d : Val) (vs : Vals) (h : vs.length = n) : padTo n d vs = vs := by
  simp only [padTo, h, Nat.sub_self, Vals.replicate, Vals.append_nil]

/-- the padded vector always has exactly `N` items when no more than `N` were read -/
theorem padTo_length (n : Nat) (d : Val) (vs : Vals) (h : vs.length ≤ n) : (padTo n d vs).length = n := by
  simp only [padTo, Vals.length_append, Vals.length_replicate]; omega

theorem mkStr_wf (b : Bytes) (h : b.length < USIZE) : (Prim.mkStr b).wf := lenWidth_fits b.length h
theorem mkUtf8_wf (b : Bytes) (h : b.length < USIZE) (hu : validUtf8 b = true) : (Prim.mkUtf8 b).wf :=
  ⟨lenWidth_fits b.length h, hu⟩

theorem enter_cont (k : Kind) (t : Tag) (cs : Values) (X : Bytes) :
    enter k (encode (.cont t k cs) ++ X) = .ok (encodes cs ++ endByte :: X) := by
  rw [encode_cont_append]
  cases k <;>
    simp only [enter, structOf, arrayOf, listOf, control_header, Res.ok_bind, if_true, nextEnter_open]

/-! ### well-formed schemas -/

mutual
/-- every structure / payload enum (at any depth) has pairwise different context tags below 256 -/
def _root_.TlvSchema.Ty.wf : Ty → Prop
  | .struct _ fs => fs.wf ∧ fs.tags.Nodup
  | .array _ el => el.wf
  | .choice alts => alts.wf ∧ alts.tags.Nodup
  | .fixarr _ el _ => el.wf
  | _ => True
def _root_.TlvSchema.Fields.wf : Fields → Prop
  | .nil => True
  | .cons tag _ _ ty rest => tag < 256 ∧ ty.wf ∧ rest.wf
  | .consSkip tag ty _ rest => tag < 256 ∧ ty.wf ∧ rest.wf
def _root_.TlvSchema.Alts.wf : Alts → Prop
  | .nil => True
  | .cons tag ty rest => tag < 256 ∧ ty.wf ∧ rest.wf
end

mutual
theorem Ty.wf_of_wfb : ∀ (ty : Ty), ty.wfb = true → ty.wf
  | .uint _ _, _ => trivial
  | .bool, _ => trivial
  | .octets _ _, _ => trivial
  | .utf8 _, _ => trivial
  | .struct _ fs, h => by
    simp only [Ty.wfb, Bool.and_eq_true, decide_eq_true_eq] at h
    exact ⟨Fields.wf_of_wfb fs h.1, h.2⟩
  | .array _ el, h => by
    simp only [Ty.wfb] at h
    exact Ty.wf_of_wfb el h
  | .any, _ => trivial
  | .choice alts, h => by
    simp only [Ty.wfb, Bool.and_eq_true, decide_eq_true_eq] at h
    exact ⟨Alts.wf_of_wfb alts h.1, h.2⟩
  | .sint _ _, _ => trivial
  | .f32, _ => trivial
  | .f64, _ => trivial
  | .fixarr _ el _, h => by
    simp only [Ty.wfb] at h
    exact Ty.wf_of_wfb el h
theorem Alts.wf_of_wfb : ∀ (alts : Alts), alts.wfb = true → alts.wf
  | .nil, _ => trivial
  | .cons tag ty rest, h => by
    simp only [Alts.wfb, Bool.and_eq_true, decide_eq_true_eq] at h
    exact ⟨h.1.1, Ty.wf_of_wfb ty h.1.2, Alts.wf_of_wfb rest h.2⟩
theorem Fields.wf_of_wfb : ∀ (fs : Fields), fs.wfb = true → fs.wf
  | .nil, _ => trivial
  | .cons tag _ _ ty rest, h => by
    simp only [Fields.wfb, Bool.and_eq_true, decide_eq_true_eq] at h
    exact ⟨h.1.1, Ty.wf_of_wfb ty h.1.2, Fields.wf_of_wfb rest h.2⟩
  | .consSkip tag ty _ rest, h => by
    simp only [Fields.wfb, Bool.and_eq_true, decide_eq_true_eq] at h
    exact ⟨h.1.1, Ty.wf_of_wfb ty h.1.2, Fields.wf_of_wfb rest h.2⟩
end

/-! ### raw elements: executable well-formedness, retagging -/

theorem tagWfb_sound (t : Tag) (h : tagWfb t = true) : t.wf := by
  cases t <;> simp only [tagWfb, Bool.and_eq_true, decide_eq_true_eq] at h <;> simp only [Tag.wf] <;> first | trivial | exact h | exact ⟨h.1.1, h.1.2, h.2⟩

theorem primWfb_sound (p : Prim) (h : primWfb p = true) : p.wf := by
  cases p <;> simp only [primWfb, Bool.and_eq_true, decide_eq_true_eq] at h <;> simp only [Prim.wf] <;> first | trivial | exact h

mutual
theorem valueWfb_sound : ∀ (v : Value), valueWfb v = true → v.wf
  | .leaf t p, h => by
    simp only [valueWfb, Bool.and_eq_true] at h
    exact ⟨tagWfb_sound t h.1, primWfb_sound p h.2⟩
  | .cont t _ cs, h => by
    simp only [valueWfb, Bool.and_eq_true] at h
    exact ⟨tagWfb_sound t h.1, valuesWfb_sound cs h.2⟩
theorem valuesWfb_sound : ∀ (vs : Values), valuesWfb vs = true → vs.wf
  | .nil, _ => trivial
  | .cons v vs, h => by
    simp only [valuesWfb, Bool.and_eq_true] at h
    exact ⟨valueWfb_sound v h.1, valuesWfb_sound vs h.2⟩
end

theorem retag_wf (v : Value) (t : Tag) (hv : v.wf) (ht : t.wf) : (v.retag t).wf := by
  cases v with
  | leaf _ p => exact ⟨ht, hv.2⟩
  | cont _ k cs => exact ⟨ht, hv.2⟩

theorem retag_tag (v : Value) (t : Tag) : (v.retag t).tag = t := by cases v <;> rfl

theorem retag_retag_self (v : Value) (t : Tag) : (v.retag t).retag v.tag = v := by cases v <;> rfl

theorem control_retag_null (v : Value) (t : Tag) (X : Bytes) (h : v.isNull = false) :
    ∃ c, control (encode (v.retag t) ++ X) = .ok c ∧ c.vt ≠ .null := by
  cases v with
  | leaf t' p =>
    refine ⟨_, control_leafE _ _ _, ?_⟩
    cases p <;> simp_all [Value.isNull, Prim.vt]
    rename_i b; cases b <;> simp [Prim.vt]
  | cont t' k cs => exact ⟨_, by simp only [Value.retag]; rw [encode_cont_append, control_header], by simp⟩

/-! ### what the derived encoder writes: well-formed values under the requested tag -/

theorem encodeElems_shape (el : Ty) (hP : ∀ val v, encodeVal false el .anon val = some v → v.wf) :
    ∀ (vs : Vals) (xs : List Value), encodeElems el vs = some xs → ∀ v ∈ xs, v.wf
  | .nil, xs, h => by
    simp only [encodeElems, Option.some.injEq] at h; subst h; intro v hv; simp at hv
  | .cons a r, xs, h => by
    simp only [encodeElems] at h
    cases ha : encodeVal false el .anon a with
    | none => simp [ha] at h
    | some x =>
      cases hr : encodeElems el r with
      | none => simp [ha, hr] at h
      | some rs =>
        simp only [ha, hr, Option.some.injEq] at h; subst h
        intro v hv
        rcases List.mem_cons.mp hv with rfl | hv
        · exact hP a _ ha
        · exact encodeElems_shape el hP r rs hr v hv

mutual
theorem encodeVal_shape : ∀ (ty : Ty) (nl : Bool) (t : Tag) (val : Val) (v : Value), ty.wf → t.wf →
    encodeVal nl ty t val = some v → v.wf ∧ v.tag = t
  | .uint w d, nl, t, val, v, hty, ht, h => by
    cases val <;> simp only [encodeVal, reduceCtorEq] at h
    rename_i n
    split at h
    · rename_i hc
      simp only [Bool.and_eq_true, decide_eq_true_eq] at hc
      simp only [Option.some.injEq] at h; subst h
      exact ⟨⟨ht, uintPrim_wf w n hc.1.1⟩, rfl⟩
    · simp at h
  | .bool, nl, t, val, v, hty, ht, h => by
    cases val <;> simp only [encodeVal, reduceCtorEq, Option.some.injEq] at h
    subst h; exact ⟨⟨ht, trivial⟩, rfl⟩
  | .octets lo cap, nl, t, val, v, hty, ht, h => by
    cases val <;> simp only [encodeVal, reduceCtorEq] at h
    rename_i b
    split at h
    · rename_i hc
      simp only [Bool.and_eq_true, decide_eq_true_eq] at hc
      simp only [Option.some.injEq] at h; subst h
      exact ⟨⟨ht, mkStr_wf b hc.2⟩, rfl⟩
    · simp at h
  | .utf8 cap, nl, t, val, v, hty, ht, h => by
    cases val <;> simp only [encodeVal, reduceCtorEq] at h
    rename_i b
    split at h
    · rename_i hc
      simp only [Bool.and_eq_true, decide_eq_true_eq] at hc
      simp only [Option.some.injEq] at h; subst h
      exact ⟨⟨ht, mkUtf8_wf b hc.1.2 hc.2⟩, rfl⟩
    · simp at h
  | .struct k fs, nl, t, val, v, hty, ht, h => by
    cases val <;> simp only [encodeVal, reduceCtorEq] at h
    rename_i ss
    cases hf : encodeFields fs ss with
    | none => simp [hf] at h
    | some vs =>
      simp only [hf, Option.some.injEq] at h; subst h
      have := encodeFields_shape fs ss vs hty.1 hf
      exact ⟨⟨ht, ofList_wf vs fun v hv => (this v hv).2⟩, rfl⟩
  | .array cap el, nl, t, val, v, hty, ht, h => by
    cases val <;> simp only [encodeVal, reduceCtorEq] at h
    rename_i vs
    split at h
    · cases he : encodeElems el vs with
      | none => simp [he] at h
      | some xs =>
        simp only [he, Option.some.injEq] at h; subst h
        have := encodeElems_shape el (fun val v hv => (encodeVal_shape el false .anon val v hty trivial hv).1) vs xs he
        exact ⟨⟨ht, ofList_wf xs this⟩, rfl⟩
    · simp at h
  | .any, nl, t, val, v, hty, ht, h => by
    cases val <;> simp only [encodeVal, reduceCtorEq] at h
    rename_i rv
    split at h
    · rename_i hc
      simp only [Bool.and_eq_true] at hc
      simp only [Option.some.injEq] at h; subst h
      exact ⟨retag_wf rv t (valueWfb_sound rv hc.1.2) ht, retag_tag rv t⟩
    · simp at h
  | .choice alts, nl, t, val, v, hty, ht, h => by
    cases val <;> simp only [encodeVal, reduceCtorEq] at h
    rename_i i a
    cases hg : alts.get i with
    | none => simp [hg] at h
    | some pr =>
      obtain ⟨tag, ty⟩ := pr
      cases ha : encodeVal false ty (.ctx tag) a with
      | none => simp [hg, ha] at h
      | some x =>
        simp only [hg, ha, Option.some.injEq] at h; subst h
        obtain ⟨htag, _, _, hx⟩ := encodeAlts_shape alts i tag ty hty.1 hg
        have := hx false (.ctx tag) a x (by simp only [Tag.wf]; omega) ha
        exact ⟨⟨ht, this.1, trivial⟩, rfl⟩
  | .sint w nz, nl, t, val, v, hty, ht, h => by
    cases val <;> simp only [encodeVal, reduceCtorEq] at h
    rename_i i
    split at h
    · rename_i hc
      simp only [Bool.and_eq_true, decide_eq_true_eq] at hc
      simp only [Option.some.injEq] at h; subst h
      exact ⟨⟨ht, sintPrim_wf w i hc.1.1.1 hc.1.1.2⟩, rfl⟩
    · simp at h
  | .f32, nl, t, val, v, hty, ht, h => by
    cases val <;> simp only [encodeVal, reduceCtorEq] at h
    split at h
    · rename_i hc
      simp only [decide_eq_true_eq] at hc
      simp only [Option.some.injEq] at h; subst h
      exact ⟨⟨ht, hc⟩, rfl⟩
    · simp at h
  | .f64, nl, t, val, v, hty, ht, h => by
    cases val <;> simp only [encodeVal, reduceCtorEq] at h
    split at h
    · rename_i hc
      simp only [decide_eq_true_eq] at hc
      simp only [Option.some.injEq] at h; subst h
      exact ⟨⟨ht, hc⟩, rfl⟩
    · simp at h
  | .fixarr n el d, nl, t, val, v, hty, ht, h => by
    cases val <;> simp only [encodeVal, reduceCtorEq] at h
    rename_i vs
    split at h
    · cases he : encodeElems el vs with
      | none => simp [he] at h
      | some xs =>
        simp only [he, Option.some.injEq] at h; subst h
        have := encodeElems_shape el (fun val v hv => (encodeVal_shape el false .anon val v hty trivial hv).1) vs xs he
        exact ⟨⟨ht, ofList_wf xs this⟩, rfl⟩
    · simp at h
theorem encodeAlts_shape : ∀ (alts : Alts) (i tag : Nat) (ty : Ty), alts.wf → alts.get i = some (tag, ty) →
    tag < 256 ∧ tag ∈ alts.tags ∧ ty.wf ∧
      ∀ (nl : Bool) (t : Tag) (val : Val) (v : Value), t.wf → encodeVal nl ty t val = some v → v.wf ∧ v.tag = t
  | .nil, i, tag, ty, _, h => by simp [Alts.get] at h
  | .cons tg ty' rest, 0, tag, ty, hw, h => by
    simp only [Alts.get, Option.some.injEq, Prod.mk.injEq] at h
    obtain ⟨rfl, rfl⟩ := h
    exact ⟨hw.1, by simp [Alts.tags], hw.2.1, fun nl t val v ht hv => encodeVal_shape ty' nl t val v hw.2.1 ht hv⟩
  | .cons tg ty' rest, i + 1, tag, ty, hw, h => by
    simp only [Alts.get] at h
    obtain ⟨h1, h2, h3, h4⟩ := encodeAlts_shape rest i tag ty hw.2.2 h
    exact ⟨h1, by simp [Alts.tags, h2], h3, h4⟩
theorem encodeFields_shape : ∀ (fs : Fields) (ss : Slots) (vals : List Value), fs.wf →
    encodeFields fs ss = some vals → ∀ v ∈ vals, (∃ tag ∈ fs.tags, v.tag = .ctx tag) ∧ v.wf
  | .nil, ss, vals, _, h => by
    cases ss <;> simp only [encodeFields, reduceCtorEq, Option.some.injEq] at h
    subst h; intro v hv; simp at hv
  | .cons tag o n ty rest, ss, vals, hw, h => by
    obtain ⟨htag, htyw, hrw⟩ := hw
    have htw : (Tag.ctx tag).wf := by simp only [Tag.wf]; omega
    cases ss with
    | nil => simp only [encodeFields, reduceCtorEq] at h
    | cons s r =>
      have lift : ∀ (rs : List Value), encodeFields rest r = some rs →
          ∀ v ∈ rs, (∃ tg ∈ (Fields.cons tag o n ty rest).tags, v.tag = .ctx tg) ∧ v.wf := by
        intro rs hrs v hv
        obtain ⟨⟨tg, h1, h2⟩, h3⟩ := encodeFields_shape rest r rs hrw hrs v hv
        exact ⟨⟨tg, by simp [Fields.tags, h1], h2⟩, h3⟩
      cases s with
      | absent =>
        simp only [encodeFields] at h
        split at h
        · exact lift vals h
        · simp at h
      | null =>
        simp only [encodeFields] at h
        split at h
        · cases hr : encodeFields rest r with
          | none => simp [hr] at h
          | some rs =>
            simp only [hr, Option.some.injEq] at h; subst h
            intro v hv
            rcases List.mem_cons.mp hv with rfl | hv
            · exact ⟨⟨tag, by simp [Fields.tags], rfl⟩, htw, trivial⟩
            · exact lift rs hr v hv
        · simp at h
      | val a =>
        simp only [encodeFields] at h
        cases ha : encodeVal n ty (.ctx tag) a with
        | none => simp [ha] at h
        | some x =>
          cases hr : encodeFields rest r with
          | none => simp [ha, hr] at h
          | some rs =>
            simp only [ha, hr, Option.some.injEq] at h; subst h
            intro v hv
            rcases List.mem_cons.mp hv with rfl | hv
            · obtain ⟨h1, h2⟩ := encodeVal_shape ty n (.ctx tag) a _ htyw htw ha
              exact ⟨⟨tag, by simp [Fields.tags], h2⟩, h1⟩
            · exact lift rs hr v hv
  | .consSkip tag ty dflt rest, ss, vals, hw, h => by
    obtain ⟨htag, htyw, hrw⟩ := hw
    have htw : (Tag.ctx tag).wf := by simp only [Tag.wf]; omega
    cases ss with
    | nil => simp only [encodeFields, reduceCtorEq] at h
    | cons s r =>
      cases s with
      | absent => simp only [encodeFields, reduceCtorEq] at h
      | null => simp only [encodeFields, reduceCtorEq] at h
      | val a =>
        simp only [encodeFields] at h
        cases ha : encodeVal false ty (.ctx tag) a with
        | none => simp [ha] at h
        | some x =>
          cases hr : encodeFields rest r with
          | none => simp [ha, hr] at h
          | some rs =>
            simp only [ha, hr, Option.some.injEq] at h; subst h
            intro v hv
            rcases List.mem_cons.mp hv with rfl | hv
            · obtain ⟨h1, h2⟩ := encodeVal_shape ty false (.ctx tag) a _ htyw htw ha
              exact ⟨⟨tag, by simp [Fields.tags], h2⟩, h1⟩
            · obtain ⟨⟨tg, h1, h2⟩, h3⟩ := encodeFields_shape rest r rs hrw hr v hv
              exact ⟨⟨tg, by simp [Fields.tags, h1], h2⟩, h3⟩
end

/-! ### per-field decoding -/

theorem Fields.tags_lt : ∀ (fs : Fields), fs.wf → ∀ tag ∈ fs.tags, tag < 256
  | .nil, _, tag, h => by simp [Fields.tags] at h
  | .cons tg _ _ _ rest, hw, tag, h => by
    simp only [Fields.tags, List.mem_cons] at h
    rcases h with rfl | h
    · exact hw.1
    · exact Fields.tags_lt rest hw.2.2 tag h
  | .consSkip tg _ _ rest, hw, tag, h => by
    simp only [Fields.tags, List.mem_cons] at h
    rcases h with rfl | h
    · exact hw.1
    · exact Fields.tags_lt rest hw.2.2 tag h

/-- a written field value is never a TLV null and never empty -/
theorem encodeVal_control (ty : Ty) (nl : Bool) (t : Tag) (val : Val) (v : Value) (X : Bytes)
    (h : encodeVal nl ty t val = some v) : ∃ c, control (encode v ++ X) = .ok c ∧ (nl = true → c.vt ≠ .null) := by
  cases ty with
  | uint w d =>
    cases val <;> simp only [encodeVal, reduceCtorEq] at h
    rename_i n
    split at h
    · simp only [Option.some.injEq] at h; subst h
      obtain ⟨w', hw'⟩ := uintPrim_eq w n
      exact ⟨_, control_leafE _ _ _, fun _ => by rw [hw']; simp [Prim.vt]⟩
    · simp at h
  | bool =>
    cases val <;> simp only [encodeVal, reduceCtorEq, Option.some.injEq] at h
    subst h; rename_i b
    exact ⟨_, control_leafE _ _ _, fun _ => by cases b <;> simp [Prim.vt]⟩
  | octets lo cap =>
    cases val <;> simp only [encodeVal, reduceCtorEq] at h
    split at h
    · simp only [Option.some.injEq] at h; subst h
      exact ⟨_, control_leafE _ _ _, fun _ => by simp [Prim.vt, Prim.mkStr]⟩
    · simp at h
  | utf8 cap =>
    cases val <;> simp only [encodeVal, reduceCtorEq] at h
    split at h
    · simp only [Option.some.injEq] at h; subst h
      exact ⟨_, control_leafE _ _ _, fun _ => by simp [Prim.vt, Prim.mkUtf8]⟩
    · simp at h
  | struct k fs =>
    cases val <;> simp only [encodeVal, reduceCtorEq] at h
    rename_i ss
    cases hf : encodeFields fs ss with
    | none => simp [hf] at h
    | some vs =>
      simp only [hf, Option.some.injEq] at h; subst h
      exact ⟨_, by rw [encode_cont_append, control_header], fun _ => by simp⟩
  | array cap el =>
    cases val <;> simp only [encodeVal, reduceCtorEq] at h
    rename_i vs
    split at h
    · cases he : encodeElems el vs with
      | none => simp [he] at h
      | some xs =>
        simp only [he, Option.some.injEq] at h; subst h
        exact ⟨_, by rw [encode_cont_append, control_header], fun _ => by simp⟩
    · simp at h
  | any =>
    cases val <;> simp only [encodeVal, reduceCtorEq] at h
    rename_i rv
    split at h
    · rename_i hc
      simp only [Bool.and_eq_true, Bool.or_eq_true, Bool.not_eq_true'] at hc
      simp only [Option.some.injEq] at h; subst h
      obtain ⟨c, hc1, _⟩ := control_encode (rv.retag t) X
      refine ⟨c, hc1, fun hnl => ?_⟩
      have hnn : rv.isNull = false := by
        rcases hc.2 with h2 | h2
        · simp [hnl] at h2
        · exact h2
      obtain ⟨c', hc2, hc3⟩ := control_retag_null rv t X hnn
      rw [hc1] at hc2; cases hc2; exact hc3
    · simp at h
  | choice alts =>
    cases val <;> simp only [encodeVal, reduceCtorEq] at h
    rename_i i a
    cases hg : alts.get i with
    | none => simp [hg] at h
    | some pr =>
      obtain ⟨tag, ty⟩ := pr
      cases ha : encodeVal false ty (.ctx tag) a with
      | none => simp [hg, ha] at h
      | some x =>
        simp only [hg, ha, Option.some.injEq] at h; subst h
        exact ⟨_, by rw [encode_cont_append, control_header], fun _ => by simp⟩
  | sint w nz =>
    cases val <;> simp only [encodeVal, reduceCtorEq] at h
    rename_i i
    split at h
    · simp only [Option.some.injEq] at h; subst h
      obtain ⟨w', hw'⟩ := sintPrim_eq w i
      exact ⟨_, control_leafE _ _ _, fun _ => by rw [hw']; simp [Prim.vt]⟩
    · simp at h
  | f32 =>
    cases val <;> simp only [encodeVal, reduceCtorEq] at h
    split at h
    · simp only [Option.some.injEq] at h; subst h
      exact ⟨_, control_leafE _ _ _, fun _ => by simp [Prim.vt]⟩
    · simp at h
  | f64 =>
    cases val <;> simp only [encodeVal, reduceCtorEq] at h
    split at h
    · simp only [Option.some.injEq] at h; subst h
      exact ⟨_, control_leafE _ _ _, fun _ => by simp [Prim.vt]⟩
    · simp at h
  | fixarr n el d =>
    cases val <;> simp only [encodeVal, reduceCtorEq] at h
    rename_i vs
    split at h
    · cases he : encodeElems el vs with
      | none => simp [he] at h
      | some xs =>
        simp only [he, Option.some.injEq] at h; subst h
        exact ⟨_, by rw [encode_cont_append, control_header], fun _ => by simp⟩
    · simp at h

/-- the part of the derived field decoder after `find_ctx` -/
def decodeSlotAt (o n : Bool) (ty : Ty) (e : Bytes) : Res Slot :=
  if o && e.isEmpty then pure Slot.absent
  else if n then do
    let c ← control e
    if c.vt = .null then pure Slot.null else do
      let v ← decodeVal true ty e
      pure (Slot.val v)
  else do
    let v ← decodeVal false ty e
    pure (Slot.val v)

theorem decodeFields_cons (seq : Bytes) (tag : Nat) (o n : Bool) (ty : Ty) (rest : Fields) :
    decodeFields seq (.cons tag o n ty rest) = (do
      let e ← findCtx seq tag
      let s ← decodeSlotAt o n ty e
      let r ← decodeFields seq rest
      pure (.cons s r)) := by
  simp only [decodeFields, decodeSlotAt]

theorem decodeFields_consSkip (seq : Bytes) (tag : Nat) (ty : Ty) (dflt : Val) (rest : Fields) :
    decodeFields seq (.consSkip tag ty dflt rest) = (do
      let e ← findCtx seq tag
      let s ← (if e.isEmpty then pure (Slot.val dflt) else do
        let v ← decodeVal false ty e
        pure (Slot.val v))
      let r ← decodeFields seq rest
      pure (.cons s r)) := by
  simp only [decodeFields]

theorem decodeSlotAt_absent (n : Bool) (ty : Ty) : decodeSlotAt true n ty [] = .ok .absent := by
  simp [decodeSlotAt]

theorem decodeSlotAt_null (o : Bool) (ty : Ty) (t : Tag) (X : Bytes) :
    decodeSlotAt o true ty (encode (.leaf t .null) ++ X) = .ok .null := by
  simp only [decodeSlotAt, encode_ne_nil, Bool.and_false, Bool.false_eq_true, if_false, if_true, control_leafE,
    Res.ok_bind, Prim.vt, Res.pure_eq]

theorem decodeSlotAt_val (o n : Bool) (ty : Ty) (t : Tag) (a : Val) (x : Value) (X : Bytes)
    (h : encodeVal n ty t a = some x) (hdec : decodeVal n ty (encode x ++ X) = .ok a) :
    decodeSlotAt o n ty (encode x ++ X) = .ok (.val a) := by
  obtain ⟨c, hc, hnn⟩ := encodeVal_control ty n t a x X h
  cases n with
  | true =>
    simp only [decodeSlotAt, encode_ne_nil, Bool.and_false, Bool.false_eq_true, if_false, if_true, hc,
      Res.ok_bind, hnn rfl, hdec, Res.pure_eq]
  | false =>
    simp only [decodeSlotAt, encode_ne_nil, Bool.and_false, Bool.false_eq_true, if_false, hdec, Res.ok_bind, Res.pure_eq]

/-! ### the round trip, by mutual structural induction over the schema -/

theorem decodeSeqWith_encodes (el : Ty) (more : Bytes)
    (hP : ∀ (val : Val) (v : Value) (X : Bytes), encodeVal false el .anon val = some v → (encode v).length + 1 < I32LIM →
      decodeVal false el (encode v ++ X) = .ok val) :
    ∀ (vs : Vals) (xs : List Value), encodeElems el vs = some xs → (encodes (Values.ofList xs)).length + 1 < I32LIM →
      decodeSeqWith (decodeVal false el) ((childSuffixes (Values.ofList xs) more).map .ok) = .ok vs
  | .nil, xs, h, _ => by
    simp only [encodeElems, Option.some.injEq] at h; subst h; rfl
  | .cons a r, xs, h, hd => by
    simp only [encodeElems] at h
    cases ha : encodeVal false el .anon a with
    | none => simp [ha] at h
    | some x =>
      cases hr : encodeElems el r with
      | none => simp [ha, hr] at h
      | some rs =>
        simp only [ha, hr, Option.some.injEq] at h; subst h
        have hdx : (encode x).length + 1 < I32LIM := by
          have := ofList_len_mem (x :: rs) x (by simp); omega
        have hdr : (encodes (Values.ofList rs)).length + 1 < I32LIM := by
          have := ofList_len_tail x rs; omega
        simp only [Values.ofList, childSuffixes, List.map_cons, decodeSeqWith, Res.ok_bind, hP a x _ ha hdx,
          decodeSeqWith_encodes el more hP r rs hr hdr, Res.pure_eq]

/-- `[T; N]`: the items of a written TLV array pushed into a `Vec<T, N>` with room for `room` more -/
theorem decodeSeqCap_encodes (el : Ty) (more : Bytes)
    (hP : ∀ (val : Val) (v : Value) (X : Bytes), encodeVal false el .anon val = some v → (encode v).length + 1 < I32LIM →
      decodeVal false el (encode v ++ X) = .ok val) :
    ∀ (vs : Vals) (xs : List Value) (room : Nat), encodeElems el vs = some xs →
      (encodes (Values.ofList xs)).length + 1 < I32LIM →
      decodeSeqCap (decodeVal false el) room ((childSuffixes (Values.ofList xs) more).map .ok) =
        if vs.length ≤ room then .ok vs else .err .invalid
  | .nil, xs, room, h, _ => by
    simp only [encodeElems, Option.some.injEq] at h; subst h
    simp [Values.ofList, childSuffixes, decodeSeqCap, Vals.length]
  | .cons a r, xs, room, h, hd => by
    simp only [encodeElems] at h
    cases ha : encodeVal false el .anon a with
    | none => simp [ha] at h
    | some x =>
      cases hr : encodeElems el r with
      | none => simp [ha, hr] at h
      | some rs =>
        simp only [ha, hr, Option.some.injEq] at h; subst h
        have hdx : (encode x).length + 1 < I32LIM := by
          have := ofList_len_mem (x :: rs) x (by simp); omega
        have hdr : (encodes (Values.ofList rs)).length + 1 < I32LIM := by
          have := ofList_len_tail x rs; omega
        cases room with
        | zero =>
          simp only [Values.ofList, childSuffixes, List.map_cons, decodeSeqCap, Res.ok_bind, hP a x _ ha hdx,
            Vals.length]
          simp
        | succ room' =>
          simp only [Values.ofList, childSuffixes, List.map_cons, decodeSeqCap, Res.ok_bind, hP a x _ ha hdx,
            decodeSeqCap_encodes el more hP r rs room' hr hdr, Vals.length]
          by_cases hle : r.length ≤ room'
          · simp [hle, Res.ok_bind, Res.pure_eq]
          · simp [hle, Res.bind]

mutual
theorem decodeVal_encode : ∀ (ty : Ty) (nl : Bool) (t : Tag) (val : Val) (v : Value) (X : Bytes),
    ty.wf → t.wf → encodeVal nl ty t val = some v → (encode v).length + 1 < I32LIM →
    decodeVal nl ty (encode v ++ X) = .ok val
  | .uint w d, nl, t, val, v, X, _hty, _ht, h, _hd => by
    cases val <;> simp only [encodeVal, reduceCtorEq] at h
    rename_i n
    split at h
    · rename_i hc
      simp only [Bool.and_eq_true, decide_eq_true_eq, Bool.or_eq_true, Bool.not_eq_true', bne_iff_ne, ne_eq] at hc
      obtain ⟨⟨h1, h2⟩, h3⟩ := hc
      simp only [Option.some.injEq] at h; subst h
      have hne : (nl && n == wmax w) = false := by
        rcases h3 with h3 | h3
        · simp [h3]
        · simp [h3]
      simp only [decodeVal, readUint_written t w n X h1, Res.ok_bind, hne, Bool.false_eq_true, if_false, h2, if_true,
        Res.pure_eq]
    · simp at h
  | .bool, nl, t, val, v, X, _hty, _ht, h, _hd => by
    cases val <;> simp only [encodeVal, reduceCtorEq, Option.some.injEq] at h
    subst h; rename_i b
    simp only [decodeVal, (bool_null_roundtrip t b X).1, Res.ok_bind, Res.pure_eq]
  | .octets lo cap, nl, t, val, v, X, _hty, _ht, h, _hd => by
    cases val <;> simp only [encodeVal, reduceCtorEq] at h
    rename_i b
    split at h
    · rename_i hc
      simp only [Bool.and_eq_true, decide_eq_true_eq] at hc
      simp only [Option.some.injEq] at h; subst h
      have := (str_roundtrip t (lenWidth b.length) b X (mkStr_wf b hc.2)).1
      simp only [decodeVal, Prim.mkStr, this, Res.ok_bind, hc.1.1, hc.1.2, decide_true, Bool.and_self, if_true, Res.pure_eq]
    · simp at h
  | .utf8 cap, nl, t, val, v, X, _hty, _ht, h, _hd => by
    cases val <;> simp only [encodeVal, reduceCtorEq] at h
    rename_i b
    split at h
    · rename_i hc
      simp only [Bool.and_eq_true, decide_eq_true_eq] at hc
      simp only [Option.some.injEq] at h; subst h
      have := utf8_roundtrip t (lenWidth b.length) b X (mkUtf8_wf b hc.1.2 hc.2)
      simp only [decodeVal, Prim.mkUtf8, this, Res.ok_bind, hc.1.1, if_true, Res.pure_eq]
    · simp at h
  | .struct k fs, nl, t, val, v, X, hty, _ht, h, hd => by
    cases val <;> simp only [encodeVal, reduceCtorEq] at h
    rename_i ss
    cases hf : encodeFields fs ss with
    | none => simp [hf] at h
    | some vs =>
      simp only [hf, Option.some.injEq] at h; subst h
      have hcl := encode_cont_len t k (Values.ofList vs)
      have := decodeFields_encode fs ss [] vs X hty.1 hty.2 hf (by simp) (by simp) (by simpa using by omega)
      simp only [List.nil_append] at this
      simp only [decodeVal, enter_cont, Res.ok_bind, this, Res.pure_eq]
  | .array cap el, nl, t, val, v, X, hty, _ht, h, hd => by
    cases val <;> simp only [encodeVal, reduceCtorEq] at h
    rename_i vs
    split at h
    · rename_i hcap
      cases he : encodeElems el vs with
      | none => simp [he] at h
      | some xs =>
        simp only [he, Option.some.injEq] at h; subst h
        have hcl := encode_cont_len t .array (Values.ofList xs)
        have hwf : (Values.ofList xs).wf := ofList_wf xs
          (encodeElems_shape el (fun val v hv => (encodeVal_shape el false .anon val v hty trivial hv).1) vs xs he)
        have hseq := decodeSeqWith_encodes el X
          (fun val v X' hv hdv => decodeVal_encode el false .anon val v X' hty trivial hv hdv) vs xs he (by omega)
        have hne : (encode (Value.cont t Kind.array (Values.ofList xs)) ++ X).isEmpty = false := encode_ne_nil _ _
        have harr : arrayOf (encode (Value.cont t Kind.array (Values.ofList xs)) ++ X) = .ok (encodes (Values.ofList xs) ++ endByte :: X) :=
          enter_cont .array t _ X
        simp only [decodeVal, arrayNew, hne, Bool.false_eq_true, if_false, harr, Res.ok_bind, Res.pure_eq,
          containerOrEmpty, containerOf_cont,
          elements_encodes _ X hwf (Values.depth_lt_of_len _ (by omega)), hseq, hcap, if_true]
    · simp at h
  | .any, nl, t, val, v, X, _hty, ht, h, hl => by
    cases val <;> simp only [encodeVal, reduceCtorEq] at h
    rename_i rv
    split at h
    · rename_i hc
      simp only [Bool.and_eq_true, beq_iff_eq] at hc
      simp only [Option.some.injEq] at h; subst h
      have hwf := retag_wf rv t (valueWfb_sound rv hc.1.2) ht
      have hdep : (rv.retag t).depth ≤ (encode (rv.retag t) ++ X).length := by
        have h1 := Value.depth_le_ntoks (rv.retag t)
        have h2 := Value.ntoks_le (rv.retag t)
        simp only [List.length_append]; omega
      have hback : (rv.retag t).retag .anon = rv := by
        have := retag_retag_self rv t
        rw [hc.1.1] at this; exact this
      simp only [decodeVal, encode_ne_nil, Bool.false_eq_true, if_false,
        decodeTree_encode (rv.retag t) _ X hwf hl hdep, Res.ok_bind, hback, Res.pure_eq]
    · simp at h
  | .choice alts, nl, t, val, v, X, hty, _ht, h, hl => by
    cases val <;> simp only [encodeVal, reduceCtorEq] at h
    rename_i i a
    cases hg : alts.get i with
    | none => simp [hg] at h
    | some pr =>
      obtain ⟨tag, ty⟩ := pr
      cases ha : encodeVal false ty (.ctx tag) a with
      | none => simp [hg, ha] at h
      | some x =>
        simp only [hg, ha, Option.some.injEq] at h; subst h
        obtain ⟨htag, _, htyw, hx⟩ := encodeAlts_shape alts i tag ty hty.1 hg
        obtain ⟨hxw, hxt⟩ := hx false (.ctx tag) a x (by simp only [Tag.wf]; omega) ha
        have hcl := encode_cont_len t .struct (Values.cons x .nil)
        have hxl : (encode x).length + 1 < I32LIM := by
          simp only [encodes, List.append_nil] at hcl; omega
        have hxd : x.depth + 1 < I32LIM := by
          have h1 := Value.depth_le_ntoks x
          have h2 := Value.ntoks_le x
          omega
        have hst : structOf (encode (Value.cont t Kind.struct (Values.cons x .nil)) ++ X) =
            .ok (encode x ++ endByte :: X) := by
          have := enter_cont .struct t (Values.cons x .nil) X
          simpa [enter, encodes] using this
        have halt := decodeAlts_encode alts i tag ty 0 a x (endByte :: X) hty.1 hty.2 hg ha hxl
        simp only [decodeVal, hst, Res.ok_bind, iterNext_encode x (endByte :: X) hxw hxd,
          tryCtx_encode x tag _ hxt htag, okOr, halt, Nat.zero_add]
  | .sint w nz, nl, t, val, v, X, _hty, _ht, h, _hd => by
    cases val <;> simp only [encodeVal, reduceCtorEq] at h
    rename_i i
    split at h
    · rename_i hc
      simp only [Bool.and_eq_true, decide_eq_true_eq, Bool.or_eq_true, Bool.not_eq_true', bne_iff_ne, ne_eq] at hc
      obtain ⟨⟨⟨h1, h1b⟩, h2⟩, h3⟩ := hc
      simp only [Option.some.injEq] at h; subst h
      have hne : (nl && i == smin w) = false := by
        rcases h3 with h3 | h3
        · simp [h3]
        · simp [h3]
      have hnz : (nz && i == 0) = false := by
        rcases h2 with h2 | h2
        · simp [h2]
        · simp [h2]
      simp only [decodeVal, readSint_written t w i X h1 h1b, Res.ok_bind, hne, hnz, Bool.false_eq_true, if_false,
        Res.pure_eq]
    · simp at h
  | .f32, nl, t, val, v, X, _hty, _ht, h, _hd => by
    cases val <;> simp only [encodeVal, reduceCtorEq] at h
    rename_i b
    split at h
    · rename_i hc
      simp only [decide_eq_true_eq] at hc
      simp only [Option.some.injEq] at h; subst h
      simp only [decodeVal, f32_written t b X hc, Res.ok_bind, Res.pure_eq]
    · simp at h
  | .f64, nl, t, val, v, X, _hty, _ht, h, _hd => by
    cases val <;> simp only [encodeVal, reduceCtorEq] at h
    rename_i b
    split at h
    · rename_i hc
      simp only [decide_eq_true_eq] at hc
      simp only [Option.some.injEq] at h; subst h
      simp only [decodeVal, f64_written t b X hc, Res.ok_bind, Res.pure_eq]
    · simp at h
  | .fixarr n el d, nl, t, val, v, X, hty, _ht, h, hd => by
    cases val <;> simp only [encodeVal, reduceCtorEq] at h
    rename_i vs
    split at h
    · rename_i hlen
      cases he : encodeElems el vs with
      | none => simp [he] at h
      | some xs =>
        simp only [he, Option.some.injEq] at h; subst h
        have hcl := encode_cont_len t .array (Values.ofList xs)
        have hwf : (Values.ofList xs).wf := ofList_wf xs
          (encodeElems_shape el (fun val v hv => (encodeVal_shape el false .anon val v hty trivial hv).1) vs xs he)
        have hseq := decodeSeqCap_encodes el X
          (fun val v X' hv hdv => decodeVal_encode el false .anon val v X' hty trivial hv hdv) vs xs n he (by omega)
        simp only [hlen, Nat.le_refl, if_true] at hseq
        have hne : (encode (Value.cont t Kind.array (Values.ofList xs)) ++ X).isEmpty = false := encode_ne_nil _ _
        have harr : arrayOf (encode (Value.cont t Kind.array (Values.ofList xs)) ++ X) = .ok (encodes (Values.ofList xs) ++ endByte :: X) :=
          enter_cont .array t _ X
        simp only [decodeVal, arrayNew, hne, Bool.false_eq_true, if_false, harr, Res.ok_bind, Res.pure_eq,
          containerOrEmpty, containerOf_cont,
          elements_encodes _ X hwf (Values.depth_lt_of_len _ (by omega)), hseq, padTo_full n d vs hlen]
    · simp at h
theorem decodeAlts_encode : ∀ (alts : Alts) (i tag : Nat) (ty : Ty) (base : Nat) (a : Val) (x : Value) (X : Bytes),
    alts.wf → alts.tags.Nodup → alts.get i = some (tag, ty) → encodeVal false ty (.ctx tag) a = some x →
    (encode x).length + 1 < I32LIM →
    decodeAlts alts base tag (encode x ++ X) = .ok (.variant (base + i) a)
  | .nil, i, tag, ty, base, a, x, X, _, _, hg, _, _ => by simp [Alts.get] at hg
  | .cons tg ty' rest, 0, tag, ty, base, a, x, X, hw, _, hg, ha, hl => by
    simp only [Alts.get, Option.some.injEq, Prod.mk.injEq] at hg
    obtain ⟨rfl, rfl⟩ := hg
    have := decodeVal_encode ty' false (.ctx tg) a x X hw.2.1 (by simp only [Tag.wf]; have := hw.1; omega) ha hl
    simp only [decodeAlts, if_true, this, Res.ok_bind, Nat.add_zero, Res.pure_eq]
  | .cons tg ty' rest, i + 1, tag, ty, base, a, x, X, hw, hnd, hg, ha, hl => by
    simp only [Alts.get] at hg
    simp only [Alts.tags, List.nodup_cons] at hnd
    obtain ⟨_, hin, _, _⟩ := encodeAlts_shape rest i tag ty hw.2.2 hg
    have hne : tg ≠ tag := fun e => hnd.1 (e ▸ hin)
    have := decodeAlts_encode rest i tag ty (base + 1) a x X hw.2.2 hnd.2 hg ha hl
    simp only [decodeAlts, hne, if_false, this]
    congr 2; omega
theorem decodeFields_encode : ∀ (fs : Fields) (ss : Slots) (pre vals : List Value) (more : Bytes),
    fs.wf → fs.tags.Nodup → encodeFields fs ss = some vals →
    (∀ v ∈ pre, CtxVal v) → (∀ v ∈ pre, ∀ tag ∈ fs.tags, ctxTagOf v ≠ some tag) →
    (encodes (Values.ofList (pre ++ vals))).length + 1 < I32LIM →
    decodeFields (encodes (Values.ofList (pre ++ vals)) ++ endByte :: more) fs = .ok ss
  | .nil, ss, pre, vals, more, _, _, h, _, _, _ => by
    cases ss <;> simp only [encodeFields, reduceCtorEq, Option.some.injEq] at h
    rfl
  | .cons tag o n ty rest, ss, pre, vals, more, hw, hnd, h, hpre, hdis, hd => by
    obtain ⟨htag, htyw, hrw⟩ := hw
    have htw : (Tag.ctx tag).wf := by simp only [Tag.wf]; omega
    simp only [Fields.tags, List.nodup_cons] at hnd
    obtain ⟨hnotin, hnd'⟩ := hnd
    cases ss with
    | nil => simp only [encodeFields, reduceCtorEq] at h
    | cons s r =>
      -- facts about the values written by the remaining fields
      have hrest : ∀ (rs : List Value), encodeFields rest r = some rs →
          (∀ v ∈ rs, CtxVal v) ∧ (∀ v ∈ rs, ctxTagOf v ≠ some tag) := by
        intro rs hrs
        refine ⟨fun v hv => ?_, fun v hv heq => ?_⟩
        · obtain ⟨⟨tg, h1, h2⟩, h3⟩ := encodeFields_shape rest r rs hrw hrs v hv
          exact ⟨tg, h2, Fields.tags_lt rest hrw tg h1, h3⟩
        · obtain ⟨⟨tg, h1, h2⟩, _⟩ := encodeFields_shape rest r rs hrw hrs v hv
          rw [ctxTagOf_eq h2] at heq
          simp only [Option.some.injEq] at heq
          exact hnotin (heq ▸ h1)
      have hpre_ne : ∀ v ∈ pre, ctxTagOf v ≠ some tag := fun v hv => hdis v hv tag (by simp [Fields.tags])
      have hdis' : ∀ v ∈ pre, ∀ tg ∈ rest.tags, ctxTagOf v ≠ some tg :=
        fun v hv tg htg => hdis v hv tg (by simp [Fields.tags, htg])
      rw [decodeFields_cons]
      cases s with
      | absent =>
        simp only [encodeFields] at h
        split at h
        · rename_i ho
          obtain ⟨hc, hne⟩ := hrest vals h
          have hall : ∀ v ∈ pre ++ vals, CtxVal v := by
            intro v hv
            rcases List.mem_append.mp hv with hv | hv
            · exact hpre v hv
            · exact hc v hv
          rw [findCtx_fields (pre ++ vals) tag more hall (Values.depth_lt_of_len _ hd), suffixAt_skip pre _ tag more hpre_ne,
            suffixAt_none vals tag more hne]
          subst ho
          simp only [Res.ok_bind, decodeSlotAt_absent,
            decodeFields_encode rest r pre vals more hrw hnd' h hpre hdis' hd, Res.pure_eq]
        · simp at h
      | null =>
        simp only [encodeFields] at h
        split at h
        · rename_i hn
          cases hr : encodeFields rest r with
          | none => simp [hr] at h
          | some rs =>
            simp only [hr, Option.some.injEq] at h; subst h
            obtain ⟨hc, hne⟩ := hrest rs hr
            have hx : CtxVal (.leaf (.ctx tag) .null) := ⟨tag, rfl, htag, htw, trivial⟩
            have hall : ∀ v ∈ pre ++ (Value.leaf (.ctx tag) .null :: rs), CtxVal v := by
              intro v hv
              rcases List.mem_append.mp hv with hv | hv
              · exact hpre v hv
              · rcases List.mem_cons.mp hv with rfl | hv
                · exact hx
                · exact hc v hv
            rw [findCtx_fields _ tag more hall (Values.depth_lt_of_len _ hd), suffixAt_skip pre _ tag more hpre_ne, suffixAt_head _ _ _ _ rfl]
            subst hn
            have hrec := decodeFields_encode rest r (pre ++ [Value.leaf (.ctx tag) .null]) rs more hrw hnd' hr
              (by
                intro v hv
                rcases List.mem_append.mp hv with hv | hv
                · exact hpre v hv
                · simp only [List.mem_singleton] at hv; subst hv; exact hx)
              (by
                intro v hv tg htg
                rcases List.mem_append.mp hv with hv | hv
                · exact hdis' v hv tg htg
                · simp only [List.mem_singleton] at hv; subst hv
                  simp only [ctxTagOf, Value.tag, ne_eq, Option.some.injEq]
                  intro heq; exact hnotin (heq ▸ htg))
              (by simpa [List.append_assoc] using hd)
            simp only [List.append_assoc, List.cons_append, List.nil_append] at hrec
            simp only [Res.ok_bind, decodeSlotAt_null, hrec, Res.pure_eq]
        · simp at h
      | val a =>
        simp only [encodeFields] at h
        cases ha : encodeVal n ty (.ctx tag) a with
        | none => simp [ha] at h
        | some x =>
          cases hr : encodeFields rest r with
          | none => simp [ha, hr] at h
          | some rs =>
            simp only [ha, hr, Option.some.injEq] at h; subst h
            obtain ⟨hc, hne⟩ := hrest rs hr
            obtain ⟨hxw, hxt⟩ := encodeVal_shape ty n (.ctx tag) a x htyw htw ha
            have hx : CtxVal x := ⟨tag, hxt, htag, hxw⟩
            have hall : ∀ v ∈ pre ++ (x :: rs), CtxVal v := by
              intro v hv
              rcases List.mem_append.mp hv with hv | hv
              · exact hpre v hv
              · rcases List.mem_cons.mp hv with rfl | hv
                · exact hx
                · exact hc v hv
            rw [findCtx_fields _ tag more hall (Values.depth_lt_of_len _ hd), suffixAt_skip pre _ tag more hpre_ne, suffixAt_head _ _ _ _ hxt]
            have hdx : (encode x).length + 1 < I32LIM := by
              have := ofList_len_mem (pre ++ x :: rs) x (by simp); omega
            have hdec := decodeVal_encode ty n (.ctx tag) a x (encodes (Values.ofList rs) ++ endByte :: more)
              htyw htw ha hdx
            have hrec := decodeFields_encode rest r (pre ++ [x]) rs more hrw hnd' hr
              (by
                intro v hv
                rcases List.mem_append.mp hv with hv | hv
                · exact hpre v hv
                · simp only [List.mem_singleton] at hv; subst hv; exact hx)
              (by
                intro v hv tg htg
                rcases List.mem_append.mp hv with hv | hv
                · exact hdis' v hv tg htg
                · simp only [List.mem_singleton] at hv; subst hv
                  rw [ctxTagOf_eq hxt]
                  simp only [ne_eq, Option.some.injEq]
                  intro heq; exact hnotin (heq ▸ htg))
              (by simpa [List.append_assoc] using hd)
            simp only [List.append_assoc, List.cons_append, List.nil_append] at hrec
            simp only [Res.ok_bind, decodeSlotAt_val o n ty (.ctx tag) a x _ ha hdec, hrec, Res.pure_eq]
  | .consSkip tag ty dflt rest, ss, pre, vals, more, hw, hnd, h, hpre, hdis, hd => by
    obtain ⟨htag, htyw, hrw⟩ := hw
    have htw : (Tag.ctx tag).wf := by simp only [Tag.wf]; omega
    simp only [Fields.tags, List.nodup_cons] at hnd
    obtain ⟨hnotin, hnd'⟩ := hnd
    cases ss with
    | nil => simp only [encodeFields, reduceCtorEq] at h
    | cons s r =>
      cases s with
      | absent => simp only [encodeFields, reduceCtorEq] at h
      | null => simp only [encodeFields, reduceCtorEq] at h
      | val a =>
        simp only [encodeFields] at h
        cases ha : encodeVal false ty (.ctx tag) a with
        | none => simp [ha] at h
        | some x =>
          cases hr : encodeFields rest r with
          | none => simp [ha, hr] at h
          | some rs =>
            simp only [ha, hr, Option.some.injEq] at h; subst h
            have hpre_ne : ∀ v ∈ pre, ctxTagOf v ≠ some tag := fun v hv => hdis v hv tag (by simp [Fields.tags])
            have hdis' : ∀ v ∈ pre, ∀ tg ∈ rest.tags, ctxTagOf v ≠ some tg :=
              fun v hv tg htg => hdis v hv tg (by simp [Fields.tags, htg])
            have hc : ∀ v ∈ rs, CtxVal v := by
              intro v hv
              obtain ⟨⟨tg, h1, h2⟩, h3⟩ := encodeFields_shape rest r rs hrw hr v hv
              exact ⟨tg, h2, Fields.tags_lt rest hrw tg h1, h3⟩
            obtain ⟨hxw, hxt⟩ := encodeVal_shape ty false (.ctx tag) a x htyw htw ha
            have hx : CtxVal x := ⟨tag, hxt, htag, hxw⟩
            have hall : ∀ v ∈ pre ++ (x :: rs), CtxVal v := by
              intro v hv
              rcases List.mem_append.mp hv with hv | hv
              · exact hpre v hv
              · rcases List.mem_cons.mp hv with rfl | hv
                · exact hx
                · exact hc v hv
            rw [decodeFields_consSkip, findCtx_fields _ tag more hall (Values.depth_lt_of_len _ hd), suffixAt_skip pre _ tag more hpre_ne,
              suffixAt_head _ _ _ _ hxt]
            have hdx : (encode x).length + 1 < I32LIM := by
              have := ofList_len_mem (pre ++ x :: rs) x (by simp); omega
            have hdec := decodeVal_encode ty false (.ctx tag) a x (encodes (Values.ofList rs) ++ endByte :: more)
              htyw htw ha hdx
            have hrec := decodeFields_encode rest r (pre ++ [x]) rs more hrw hnd' hr
              (by
                intro v hv
                rcases List.mem_append.mp hv with hv | hv
                · exact hpre v hv
                · simp only [List.mem_singleton] at hv; subst hv; exact hx)
              (by
                intro v hv tg htg
                rcases List.mem_append.mp hv with hv | hv
                · exact hdis' v hv tg htg
                · simp only [List.mem_singleton] at hv; subst hv
                  rw [ctxTagOf_eq hxt]
                  simp only [ne_eq, Option.some.injEq]
                  intro heq; exact hnotin (heq ▸ htg))
              (by simpa [List.append_assoc] using hd)
            simp only [List.append_assoc, List.cons_append, List.nil_append] at hrec
            simp only [Res.ok_bind, encode_ne_nil, Bool.false_eq_true, if_false, hdec, hrec, Res.pure_eq]
end

/-- **Derived structures.**  For every well-formed schema (nested structures / lists, arrays of
integers or of structures, octet and UTF-8 strings, enums, `Option`, `Nullable`): what the derived
`from_tlv` decodes from the bytes of the derived `to_tlv` (followed by anything) is the value that
was encoded. -/
theorem struct_roundtrip (ty : Ty) (val : Val) (v : Value) (X : Bytes) (hty : ty.wf)
    (hv : toValue ty val = some v) (hl : (encode v).length + 1 < I32LIM) :
    decodeStruct ty (encode v ++ X) = .ok val := by
  exact decodeVal_encode ty false .anon val v X hty trivial hv hl

/-! ### `[T; N]`: what the decoder makes of a TLV array of any length -/

/-- **`[T; N]`, padding and overflow.**  The bytes of a TLV array of `k` items (as the slice / `Vec` encoder writes
it) decode, as a `[T; N]`, to the `k` items followed by `N - k` copies of `T::default()` when `k ≤ N`, and are
refused (`ConstraintError`) when `k > N`.  (`k = N` is the round trip.) -/
theorem fixarr_decodes_array (n : Nat) (el : Ty) (d : Val) (t : Tag) (vs : Vals) (v : Value) (X : Bytes)
    (hty : el.wf) (hv : encodeVal false (.array none el) t (.arr vs) = some v)
    (hl : (encode v).length + 1 < I32LIM) :
    decodeVal false (.fixarr n el d) (encode v ++ X) =
      if vs.length ≤ n then .ok (.arr (padTo n d vs)) else .err .invalid := by
  simp only [encodeVal, capOk, if_true] at hv
  cases he : encodeElems el vs with
  | none => simp [he] at hv
  | some xs =>
    simp only [he, Option.some.injEq] at hv; subst hv
    have hcl := encode_cont_len t .array (Values.ofList xs)
    have hwf : (Values.ofList xs).wf := ofList_wf xs
      (encodeElems_shape el (fun val v hv => (encodeVal_shape el false .anon val v hty trivial hv).1) vs xs he)
    have hseq := decodeSeqCap_encodes el X
      (fun val v X' hv hdv => decodeVal_encode el false .anon val v X' hty trivial hv hdv) vs xs n he (by omega)
    have hne : (encode (Value.cont t Kind.array (Values.ofList xs)) ++ X).isEmpty = false := encode_ne_nil _ _
    have harr : arrayOf (encode (Value.cont t Kind.array (Values.ofList xs)) ++ X) = .ok (encodes (Values.ofList xs) ++ endByte :: X) :=
      enter_cont .array t _ X
    simp only [decodeVal, arrayNew, hne, Bool.false_eq_true, if_false, harr, Res.ok_bind, Res.pure_eq,
      containerOrEmpty, containerOf_cont,
      elements_encodes _ X hwf (Values.depth_lt_of_len _ (by omega)), hseq]
    by_cases hle : vs.length ≤ n
    · simp [hle, Res.ok_bind]
    · simp [hle, Res.bind]

/-! ### bit flags: the real encoder is the one of the schema with the masks erased -/

theorem Dom.accepts_eraseMask (d : Dom) (n : Nat) (h : d.accepts n = true) : d.eraseMask.accepts n = true := by
  cases d <;> simp_all [Dom.eraseMask, Dom.accepts]

theorem Alts.get_eraseMask : ∀ (alts : Alts) (i : Nat),
    alts.eraseMask.get i = (alts.get i).map fun p => (p.1, p.2.eraseMask)
  | .nil, _ => rfl
  | .cons _ _ _, 0 => rfl
  | .cons _ _ rest, i + 1 => by simp only [Alts.eraseMask, Alts.get, Alts.get_eraseMask rest i]

theorem encodeElems_eraseMask (el : Ty)
    (hP : ∀ val v, encodeVal false el .anon val = some v → encodeVal false el.eraseMask .anon val = some v) :
    ∀ (vs : Vals) (xs : List Value), encodeElems el vs = some xs → encodeElems el.eraseMask vs = some xs
  | .nil, xs, h => by simpa only [encodeElems] using h
  | .cons a r, xs, h => by
    simp only [encodeElems] at h
    cases ha : encodeVal false el .anon a with
    | none => simp [ha] at h
    | some x =>
      cases hr : encodeElems el r with
      | none => simp [ha, hr] at h
      | some rs =>
        simp only [ha, hr] at h
        simp only [encodeElems, hP a x ha, encodeElems_eraseMask el hP r rs hr]; exact h

mutual
/-- every value the restricted encoder (`encodeVal`: flags that `from_bits` can produce) accepts is written with
the same bytes by the real one -/
theorem encodeVal_eraseMask : ∀ (ty : Ty) (nl : Bool) (t : Tag) (val : Val) (v : Value),
    encodeVal nl ty t val = some v → encodeVal nl ty.eraseMask t val = some v
  | .uint w d, nl, t, val, v, h => by
    cases val <;> simp only [encodeVal, reduceCtorEq] at h
    rename_i n
    split at h
    · rename_i hc
      simp only [Bool.and_eq_true] at hc
      simp only [Ty.eraseMask, encodeVal, hc.1.1, Dom.accepts_eraseMask d n hc.1.2, hc.2, Bool.and_self, if_true]
      exact h
    · simp at h
  | .bool, nl, t, val, v, h => by simpa only [Ty.eraseMask] using h
  | .octets lo cap, nl, t, val, v, h => by simpa only [Ty.eraseMask] using h
  | .utf8 cap, nl, t, val, v, h => by simpa only [Ty.eraseMask] using h
  | .any, nl, t, val, v, h => by simpa only [Ty.eraseMask] using h
  | .sint w nz, nl, t, val, v, h => by simpa only [Ty.eraseMask] using h
  | .f32, nl, t, val, v, h => by simpa only [Ty.eraseMask] using h
  | .f64, nl, t, val, v, h => by simpa only [Ty.eraseMask] using h
  | .struct k fs, nl, t, val, v, h => by
    cases val <;> simp only [encodeVal, reduceCtorEq] at h
    rename_i ss
    cases hf : encodeFields fs ss with
    | none => simp [hf] at h
    | some vs =>
      simp only [hf] at h
      simp only [Ty.eraseMask, encodeVal, encodeFields_eraseMask fs ss vs hf]; exact h
  | .array cap el, nl, t, val, v, h => by
    cases val <;> simp only [encodeVal, reduceCtorEq] at h
    rename_i vs
    split at h
    · rename_i hcap
      cases he : encodeElems el vs with
      | none => simp [he] at h
      | some xs =>
        simp only [he] at h
        simp only [Ty.eraseMask, encodeVal, hcap, if_true,
          encodeElems_eraseMask el (fun val v hv => encodeVal_eraseMask el false .anon val v hv) vs xs he]
        exact h
    · simp at h
  | .fixarr n el d, nl, t, val, v, h => by
    cases val <;> simp only [encodeVal, reduceCtorEq] at h
    rename_i vs
    split at h
    · rename_i hlen
      cases he : encodeElems el vs with
      | none => simp [he] at h
      | some xs =>
        simp only [he] at h
        simp only [Ty.eraseMask, encodeVal, hlen, if_true,
          encodeElems_eraseMask el (fun val v hv => encodeVal_eraseMask el false .anon val v hv) vs xs he]
        exact h
    · simp at h
  | .choice alts, nl, t, val, v, h => by
    cases val <;> simp only [encodeVal, reduceCtorEq] at h
    rename_i i a
    cases hg : alts.get i with
    | none => simp [hg] at h
    | some pr =>
      obtain ⟨tag, ty⟩ := pr
      cases ha : encodeVal false ty (.ctx tag) a with
      | none => simp [hg, ha] at h
      | some x =>
        simp only [hg, ha] at h
        have := encodeAlts_eraseMask alts i tag ty a x hg ha
        simp only [Ty.eraseMask, encodeVal, Alts.get_eraseMask, hg, Option.map_some, this]; exact h
theorem encodeAlts_eraseMask : ∀ (alts : Alts) (i tag : Nat) (ty : Ty) (a : Val) (x : Value),
    alts.get i = some (tag, ty) → encodeVal false ty (.ctx tag) a = some x →
    encodeVal false ty.eraseMask (.ctx tag) a = some x
  | .nil, i, tag, ty, a, x, hg, _ => by simp [Alts.get] at hg
  | .cons tg ty' rest, 0, tag, ty, a, x, hg, ha => by
    simp only [Alts.get, Option.some.injEq, Prod.mk.injEq] at hg
    obtain ⟨rfl, rfl⟩ := hg
    exact encodeVal_eraseMask ty' false (.ctx tg) a x ha
  | .cons tg ty' rest, i + 1, tag, ty, a, x, hg, ha => by
    simp only [Alts.get] at hg
    exact encodeAlts_eraseMask rest i tag ty a x hg ha
theorem encodeFields_eraseMask : ∀ (fs : Fields) (ss : Slots) (vals : List Value),
    encodeFields fs ss = some vals → encodeFields fs.eraseMask ss = some vals
  | .nil, ss, vals, h => by
    cases ss <;> simp only [encodeFields, reduceCtorEq] at h
    simpa only [Fields.eraseMask, encodeFields] using h
  | .cons tag o n ty rest, ss, vals, h => by
    cases ss with
    | nil => simp only [encodeFields, reduceCtorEq] at h
    | cons s r =>
      cases s with
      | absent =>
        simp only [encodeFields] at h
        split at h
        · rename_i ho
          simp only [Fields.eraseMask, encodeFields, ho, if_true]
          exact encodeFields_eraseMask rest r vals h
        · simp at h
      | null =>
        simp only [encodeFields] at h
        split at h
        · rename_i hn
          cases hr : encodeFields rest r with
          | none => simp [hr] at h
          | some rs =>
            simp only [hr] at h
            simp only [Fields.eraseMask, encodeFields, hn, if_true, encodeFields_eraseMask rest r rs hr]; exact h
        · simp at h
      | val a =>
        simp only [encodeFields] at h
        cases ha : encodeVal n ty (.ctx tag) a with
        | none => simp [ha] at h
        | some x =>
          cases hr : encodeFields rest r with
          | none => simp [ha, hr] at h
          | some rs =>
            simp only [ha, hr] at h
            simp only [Fields.eraseMask, encodeFields, encodeVal_eraseMask ty n (.ctx tag) a x ha,
              encodeFields_eraseMask rest r rs hr]; exact h
  | .consSkip tag ty dflt rest, ss, vals, h => by
    cases ss with
    | nil => simp only [encodeFields, reduceCtorEq] at h
    | cons s r =>
      cases s with
      | absent => simp only [encodeFields, reduceCtorEq] at h
      | null => simp only [encodeFields, reduceCtorEq] at h
      | val a =>
        simp only [encodeFields] at h
        cases ha : encodeVal false ty (.ctx tag) a with
        | none => simp [ha] at h
        | some x =>
          cases hr : encodeFields rest r with
          | none => simp [ha, hr] at h
          | some rs =>
            simp only [ha, hr] at h
            simp only [Fields.eraseMask, encodeFields, encodeVal_eraseMask ty false (.ctx tag) a x ha,
              encodeFields_eraseMask rest r rs hr]; exact h
end

/-- a flags value holding a bit outside the declared flags (`from_bits_retain`): the real encoder writes it like
any integer, the decoder (`from_bits`) refuses the bytes — no round trip for such values -/
theorem bitflags_undefined_rejected (w : Width) (m n : Nat) (nl : Bool) (t : Tag) (X : Bytes)
    (h1 : n ≤ wmax w) (h2 : (n &&& m) ≠ n) (h3 : nl = true → n ≠ wmax w) :
    encodeVal nl (Ty.uint w (.mask m)).eraseMask t (.num n) = some (.leaf t (uintPrim w n)) ∧
    encodeVal nl (Ty.uint w (.mask m)) t (.num n) = none ∧
    decodeVal nl (.uint w (.mask m)) (encode (.leaf t (uintPrim w n)) ++ X) = .err .invalid := by
  have hne : (nl && n == wmax w) = false := by
    cases nl
    · rfl
    · simp [h3 rfl]
  have hok : (!nl || n != wmax w) = true := by
    cases nl
    · rfl
    · simp [h3 rfl]
  refine ⟨?_, ?_, ?_⟩
  · simp only [Ty.eraseMask, Dom.eraseMask, encodeVal, Dom.accepts, decide_eq_true h1, hok, Bool.and_self, if_true]
  · simp only [encodeVal, Dom.accepts, beq_eq_false_iff_ne.mpr h2, Bool.and_false, Bool.false_and,
      Bool.false_eq_true, if_false]
  · simp only [decodeVal, readUint_written t w n X h1, Res.ok_bind, hne, Bool.false_eq_true, if_false, Dom.accepts,
      beq_eq_false_iff_ne.mpr h2]

/-! ### the tag numbering rule of the derive macro -/

/-- number of implicitly numbered fields -/
def countNone (tvs : List (Option Nat)) : Nat := (tvs.filter Option.isNone).length

theorem implicitTags_length : ∀ (s : Nat) (tvs : List (Option Nat)), (implicitTags s tvs).length = tvs.length
  | _, [] => rfl
  | s, some x :: r => by simp [implicitTags, implicitTags_length s r]
  | s, none :: r => by simp [implicitTags, implicitTags_length (s + 1) r]

/-- **the numbering rule, field by field**: the field after `pre` gets its `tagval` if it has one,
otherwise `start + (number of implicitly numbered fields before it)`; explicit tags never advance the counter -/
theorem implicitTags_split : ∀ (pre : List (Option Nat)) (s : Nat) (tv : Option Nat) (post : List (Option Nat)),
    implicitTags s (pre ++ tv :: post) =
      implicitTags s pre ++ tv.getD (s + countNone pre) ::
        implicitTags (s + countNone pre + (if tv.isNone then 1 else 0)) post
  | [], s, tv, post => by cases tv <;> simp [implicitTags, countNone]
  | some x :: pre, s, tv, post => by
    simp only [List.cons_append, implicitTags, implicitTags_split pre s tv post, countNone, List.filter_cons,
      Option.isNone_some, Bool.false_eq_true, if_false]
  | none :: pre, s, tv, post => by
    have := implicitTags_split pre (s + 1) tv post
    have e : s + 1 + countNone pre = s + countNone (none :: pre) := by
      simp only [countNone, List.filter_cons, Option.isNone_none, if_true, List.length_cons]; omega
    simp only [List.cons_append, implicitTags, this, e]

theorem implicitTags_all_implicit (s n : Nat) : implicitTags s (List.replicate n none) = List.range' s n := by
  induction n generalizing s with
  | zero => rfl
  | succ n ih => simp [List.replicate_succ, implicitTags, ih (s + 1), List.range'_succ]

theorem mem_implicitTags : ∀ (tvs : List (Option Nat)) (s y : Nat), y ∈ implicitTags s tvs →
    some y ∈ tvs ∨ (s ≤ y ∧ y < s + countNone tvs)
  | [], _, _, h => by simp [implicitTags] at h
  | some x :: r, s, y, h => by
    simp only [implicitTags, List.mem_cons] at h
    rcases h with rfl | h
    · left; simp
    · rcases mem_implicitTags r s y h with h | h
      · left; simp [h]
      · right; simpa [countNone] using h
  | none :: r, s, y, h => by
    simp only [implicitTags, List.mem_cons] at h
    rcases h with rfl | h
    · right; simp [countNone]
    · rcases mem_implicitTags r (s + 1) y h with h | h
      · left; simp [h]
      · right; simp only [countNone, List.filter_cons, Option.isNone_none, if_true, List.length_cons] at h ⊢; omega

/-- the assigned tags are pairwise different when the explicit `tagval`s are pairwise different and
none of them falls into the range the implicit counter runs through -/
theorem implicitTags_nodup : ∀ (tvs : List (Option Nat)) (s : Nat),
    (tvs.filterMap id).Nodup → (∀ x, some x ∈ tvs → x < s ∨ s + countNone tvs ≤ x) →
    (implicitTags s tvs).Nodup
  | [], _, _, _ => by simp [implicitTags]
  | some x :: r, s, hnd, hr => by
    simp only [List.filterMap_cons, id, List.nodup_cons] at hnd
    simp only [implicitTags, List.nodup_cons]
    refine ⟨fun hin => ?_, implicitTags_nodup r s hnd.2 fun y hy => ?_⟩
    · rcases mem_implicitTags r s x hin with h | h
      · exact hnd.1 (List.mem_filterMap.mpr ⟨some x, h, rfl⟩)
      · have := hr x (by simp)
        simp only [countNone, List.filter_cons, Option.isNone_some, Bool.false_eq_true, if_false] at this
        simp only [countNone] at h; omega
    · have := hr y (by simp [hy])
      simpa [countNone] using this
  | none :: r, s, hnd, hr => by
    simp only [List.filterMap_cons, id] at hnd
    simp only [implicitTags, List.nodup_cons]
    refine ⟨fun hin => ?_, implicitTags_nodup r (s + 1) hnd fun y hy => ?_⟩
    · rcases mem_implicitTags r (s + 1) s hin with h | h
      · have := hr s (by simp [h])
        simp only [countNone, List.filter_cons, Option.isNone_none, if_true, List.length_cons] at this; omega
      · omega
    · have := hr y (by simp [hy])
      simp only [countNone, List.filter_cons, Option.isNone_none, if_true, List.length_cons] at this ⊢; omega

end Tlv
