import Driver.Util
/-! Driver for C18: not built yet. -/
namespace Driver.C18

def run : IO UInt32 := do
  IO.eprintln "C18: driver not built yet"
  return 2

end Driver.C18
