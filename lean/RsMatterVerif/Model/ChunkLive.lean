import RsMatterVerif.Model.Chunk
import RsMatterVerif.Model.ChunkEvents
/-!
# The event section of a chunked answer over an event queue that CHANGES between the chunks

`Model/Chunk.lean` (`evLoop`) iterates one fixed buffer `r.buf` at every fetch.  In the code
(`rs-matter/src/im.rs` `report_events`, the `loop { self.events.fetch(..) … self.send(ChunkingEvents) }`)
every `events.fetch` takes the lock of the queue anew, and between two fetches lie
`send(…).await` + `recv_status_success().await`, during which other tasks `push` events into the queue
(`im/events.rs` `EventWriter::write`: the new event is appended, old ones are evicted or promoted).  The
reader (`EventReader::process_read`) therefore rescans the queue from its start at every fetch and skips
everything up to its cursor `max_seen_event_number`.

Here the per-fetch behaviour is the unchanged `pass` of `Model/Chunk.lean` (range test with the
cursor, path / filter verdict, write → cursor := number, `NoSpace` → rewound, cursor stays, stop); what
changes is the buffer it is run on: the first fetch sees `b`, the fetch after the `k`-th sent chunk sees
`later[k-1]`.  A schedule that is exhausted means that nothing is pushed any more: from then on the loop is
the frozen `evLoop` on the last buffer.  `liveBufs` produces such a schedule from the queue model of
`Model/ChunkEvents.lean` and the operations (`push` with evictions / promotions, …) that other tasks
perform between the chunks.  Import-free (apart from the two models).
-/
namespace Chunk

/-- **the fetch loop over a queue that changes**: `b` = what `events.fetch` iterates now, `later` =
what it iterates at the following fetches (one entry per sent chunk; exhausted = no more pushes: the
last buffer stays) -/
def evLoopLive (c : Cfg) (r : EvReq) : List (List Ev) → List Ev → ESt → Except Err ESt
  | [], b, s => evLoop c { r with buf := b } (b.length + 1) s
  | b2 :: later, b, s =>
    match pass r b s with
    | (s2, true) => .ok s2
    | (s2, false) =>
      if s2.fresh && s2.used == s2.base then .error .tooBig
      else evLoopLive c r later b2 (s2.flushEv c)      -- `send(ChunkingEvents).await`: the queue moves on

/-- `report_events` with a queue that changes between the chunks: `r.buf` is the queue at the first
fetch, `later` the queue at the following ones -/
def eventSectionLive (c : Cfg) (s : ESt) (later : List (List Ev)) : Option EvReq → Except Err ESt
  | none => .ok s
  | some r =>
    match expand c s.lim c.evOpen with
    | .error e => .error e
    | .ok lim =>
      if s.used + c.evOpen ≤ lim then
        let s1 : ESt := { s with lim := lim, used := s.used + c.evOpen, base := s.used + c.evOpen, cursor := r.maxSeen }
        match putEvStatuses c 0 r.statuses s1 with
        | .error e => .error e
        | .ok s2 =>
          match evLoopLive c r later r.buf s2 with
          | .error e => .error e
          | .ok s3 =>
            match expand c s3.lim c.close with
            | .error e => .error e
            | .ok lim2 =>
              if s3.used + c.close ≤ lim2 then .ok { s3 with lim := lim2, used := s3.used + c.close }
              else .error .noSpace
      else .error .noSpace

/-- **the responder over a live queue**: the messages it sends -/
def respondLive (c : Cfg) (r : Req) (later : List (List Ev)) : Except Err (List ChunkOut) :=
  match attrSection c r.attrs with
  | .error e => .error e
  | .ok s1 =>
    match eventSectionLive c s1 later r.events with
    | .error e => .error e
    | .ok s2 =>
      if r.sendIfEmpty || !s2.empty then sendDone c s2
      else .ok s2.done.reverse

/-! ## the schedule from the queue model -/

/-- what a fetch iterates when the queue is `q`: report size and path / access verdict are functions
of the stored event -/
def Queue.view (size : QEv → Nat) (sel : QEv → Bool) (q : Queue) : List Ev :=
  q.iter.map fun x => { num := x.num, size := size x, sel := sel x }

/-- the queue after other tasks ran `ops` on it (a panic of the real code — unreachable,
`Queue.run_ok` — would leave it as it is) -/
def Queue.after (q : Queue) (ops : List QOp) : Queue := (q.run ops).getD q

/-- the queue at the first fetch and at every following one: `sched[k]` = the operations performed
while chunk `k` is sent and acknowledged -/
def Queue.states : Queue → List (List QOp) → List Queue
  | q, [] => [q]
  | q, ops :: sched => q :: Queue.states (q.after ops) sched

/-- the buffers the fetches after the first one see -/
def liveBufs (size : QEv → Nat) (sel : QEv → Bool) (q : Queue) (sched : List (List QOp)) : List (List Ev) :=
  (q.states sched).tail.map (Queue.view size sel)

/-- a request whose event section reads the queue `q` -/
def Req.onQueue (r : Req) (size : QEv → Nat) (sel : QEv → Bool) (q : Queue) : Req :=
  { r with events := r.events.map fun e => { e with buf := q.view size sel } }

/-- **the responder while other tasks push events**: `q` = the queue at the FIRST `events.fetch` (a chunk
may be sent before it — attribute chunks, a chunk sent for a status report —: pushes during those land in
`q`; the driver counts them with `firstFetchMsgs`), `sched[k]` = the operations between fetch `k + 1` and `k + 2` -/
def respondQ (c : Cfg) (r : Req) (size : QEv → Nat) (sel : QEv → Bool) (q : Queue) (sched : List (List QOp)) :
    Except Err (List ChunkOut) :=
  respondLive c (r.onQueue size sel q) (liveBufs size sel q sched)

end Chunk
