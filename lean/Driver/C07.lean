import Driver.AdminCommon
/-! Driver for C07: the shared administrative model + the C07 part of the oracle (see Driver/AdminCommon.lean). -/
namespace Driver.C07

def run : IO UInt32 := Driver.Adm.run "C07"

end Driver.C07
