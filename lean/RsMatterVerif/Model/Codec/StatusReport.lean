import RsMatterVerif.Generated.Consts
import RsMatterVerif.Model.Codec.Buf
/-!
# Model of `sc.rs` `StatusReport::read` / `write`
-/
namespace Codec.StatusReport
open Codec

/-- `GeneralCode` has the discriminants 0..=16 (`FromPrimitive::from_u16`) -/
def GENERAL_CODE_MAX : Nat := Consts.c17GeneralCodeMax

structure Report where
  general : Nat
  protoId : Nat
  protoCode : Nat
  data : List Nat
deriving DecidableEq, Repr

def read (l : List Nat) : Except Err Report := do
  let (g, l) ← Rd.u16 l
  if g > GENERAL_CODE_MAX then .error .invalidOpcode else
  let (pid, l) ← Rd.u32 l
  let (pc, l) ← Rd.u16 l
  pure { general := g, protoId := pid, protoCode := pc, data := l }

def writeBytes (r : Report) : List Nat :=
  le16 r.general ++ le32 r.protoId ++ le16 r.protoCode ++ r.data

def WF (r : Report) : Prop :=
  r.general ≤ GENERAL_CODE_MAX ∧ r.protoId < 4294967296 ∧ r.protoCode < 65536 ∧ ∀ b ∈ r.data, b < 256

end Codec.StatusReport
