import RsMatterVerif.Lemmas.Btp
/-!
# Lemmas about `Model/BtpLink.lean`: one BTP end (`BtpInner`) under every operation of the outside
world, observed by a monitor that reassembles the accepted segments on the specification side.
-/
namespace Btp

/-- invariant of `BtpInner` -/
structure EInv (e : End) : Prop where
  s : SInv e.s
  off : e.off ≤ e.sdu.length
  len : e.sdu.length ≤ 1232

theorem ringRep_same {r r' : RecvWindow} {rs : Spec.Reasm} {n : Nat} (h : SameRing r r')
    (hr : RingRep r rs n) : RingRep r' rs n := by
  obtain ⟨h1, h2, h3⟩ := h
  exact ⟨hr.nLe, by rw [h2]; exact hr.cnt, by rw [h3]; exact hr.rem, by rw [h1]; exact hr.buf,
    hr.lens, hr.curLen, hr.curNil⟩

theorem SameRing.trans {a b c : RecvWindow} (h1 : SameRing a b) (h2 : SameRing b c) : SameRing a c :=
  ⟨h2.1.trans h1.1, h2.2.1.trans h1.2.1, h2.2.2.trans h1.2.2⟩

theorem endSend_clean (e : End) (he : EInv e) (m : List Nat) :
    Clean (e.send m) (fun r => EInv r.1 ∧ r.1.s = e.s) := by
  unfold End.send
  split
  · simp [Clean, Fail.isPanic]
  · rename_i hc
    split
    · simp only [Clean]
      refine ⟨⟨he.s, by simp, ?_⟩, by simp⟩
      simp at hc
      simpa using hc.2
    · simp only [Clean]; exact ⟨he, by simp⟩

/-- what the transmit steps preserve -/
def TxOk (e : End) (r : End × List Nat) : Prop :=
  EInv r.1 ∧ SameRing e.s.recv r.1.s.recv ∧ r.1.s.handshakePending = false

theorem dataStep_clean (e : End) (he : EInv e) (hnp : e.s.handshakePending = false) (now : Nat) :
    Clean (e.dataStep now) (TxOk e) := by
  unfold End.dataStep
  split
  · rename_i hd
    simp at hd
    have c2 := prepTxData_clean e.s he.s hnp e.sdu e.off now he.off (fun _ => hd.2)
    cases h2 : e.s.prepTxData e.sdu e.off now with
    | error f => rw [h2] at c2; exact c2
    | ok r2 =>
      rw [h2] at c2
      obtain ⟨s2, seg, off2⟩ := r2
      simp only [Clean] at c2
      obtain ⟨hs2, hnp2, _, hoff1, hoff2, hsame2⟩ := c2
      simp only
      split
      · split
        · simp only [Clean, TxOk]
          exact ⟨⟨hs2, by simp, by simp⟩, hsame2, hnp2⟩
        · simp only [Clean, TxOk]
          exact ⟨⟨hs2, hoff2, he.len⟩, hsame2, hnp2⟩
      · simp only [Clean, TxOk]
        exact ⟨⟨hs2, he.off, he.len⟩, hsame2, hnp2⟩
  · simp only [Clean, TxOk]
    exact ⟨he, SameRing.refl _, hnp⟩

theorem ackStep_clean (e : End) (he : EInv e) (hnp : e.s.handshakePending = false) (now : Nat) :
    Clean (e.ackStep now) (TxOk e) := by
  unfold End.ackStep
  split
  · have c3 := prepTxData_clean e.s he.s hnp [] 0 now (by simp) (fun h => absurd rfl h)
    cases h3 : e.s.prepTxData [] 0 now with
    | error f => rw [h3] at c3; exact c3
    | ok r3 =>
      rw [h3] at c3
      obtain ⟨s3, aseg, off3⟩ := r3
      simp only [Clean] at c3
      simp only [Clean, TxOk]
      exact ⟨⟨c3.1, he.off, he.len⟩, c3.2.2.2.2.2, c3.2.1⟩
  · simp only [Clean, TxOk]
    exact ⟨he, SameRing.refl _, hnp⟩

theorem endOutgoing_clean (e : End) (he : EInv e) (now : Nat) :
    Clean (e.processOutgoing now) (TxOk e) := by
  unfold End.processOutgoing
  have c1 := prepTxHandshake_clean e.s he.s e.gattMtu now
  cases h1 : e.s.prepTxHandshake e.gattMtu now with
  | error f => rw [h1] at c1; exact c1
  | ok r1 =>
    rw [h1] at c1
    obtain ⟨s1, hb⟩ := r1
    simp only [Clean] at c1
    obtain ⟨hs1, hnp1, hest1, _, hsame1⟩ := c1
    simp only
    split
    · simp only [Clean, TxOk]; exact ⟨⟨hs1, he.off, he.len⟩, hsame1, hnp1⟩
    · have he1 : EInv { e with s := s1 } := ⟨hs1, he.off, he.len⟩
      have c2 := dataStep_clean { e with s := s1 } he1 hnp1 now
      cases h2 : End.dataStep { e with s := s1 } now with
      | error f => rw [h2] at c2; exact c2
      | ok r2 =>
        rw [h2] at c2
        obtain ⟨e2, seg⟩ := r2
        simp only [Clean, TxOk] at c2
        obtain ⟨he2, hsame2, hnp2⟩ := c2
        simp only
        split
        · simp only [Clean, TxOk]; exact ⟨he2, hsame1.trans hsame2, hnp2⟩
        · have c3 := ackStep_clean e2 he2 hnp2 now
          cases h3 : e2.ackStep now with
          | error f => rw [h3] at c3; exact c3
          | ok r3 =>
            rw [h3] at c3
            simp only [Clean, TxOk] at c3 ⊢
            exact ⟨c3.1, (hsame1.trans hsame2).trans c3.2.1, c3.2.2⟩


theorem processRxData_recv {s : Session} {h : Hdr} {p : List Nat} {now : Nat} {s' : Session}
    (hok : s.processRxData h p now = .ok s') :
    s.recv.acceptIncoming h p s.mtu now = .ok s'.recv := by
  unfold Session.processRxData at hok
  split at hok
  · cases hok
  · split at hok
    · cases hok
    · rename_i r hr
      split at hok
      · cases hok
      · have := Except.ok.inj hok
        rw [← this]; exact hr

/-- ghost reassembly state after a segment has been accepted: a handshake starts a new session -/
def ghostRx (rs : Spec.Reasm) (n : Nat) (data : List Nat) : Spec.Reasm × Nat :=
  match decodeHdr data with
  | .ok (h, p) => if h.hs then ({}, 0) else (rs.feed h p, n)
  | .error _ => (rs, n)

theorem setup_ring (s : Session) (v m w : Nat) : RingRep (s.setup v m w).recv {} 0 := by
  constructor <;> simp [Session.setup, flat]

theorem handshakeReq_ring {s : Session} {g : Option Nat} {h : Hdr} {p : List Nat} {s' : Session}
    (hok : s.processRxHandshakeReq g h p = .ok s') : RingRep s'.recv {} 0 := by
  unfold Session.processRxHandshakeReq at hok
  split at hok
  · cases hok
  · split at hok
    · cases hok
    · simp only at hok
      split at hok
      · cases hok
      · split at hok
        · cases hok
        · split at hok
          · cases hok
          · have := Except.ok.inj hok
            rw [← this]; exact setup_ring _ _ _ _

theorem handshakeResp_ring {s : Session} {h : Hdr} {p : List Nat} {s' : Session}
    (hok : s.processRxHandshakeResp h p = .ok s') : RingRep s'.recv {} 0 := by
  unfold Session.processRxHandshakeResp at hok
  split at hok
  · cases hok
  · split at hok
    · cases hok
    · split at hok
      · cases hok
      · have := Except.ok.inj hok
        rw [← this]; exact setup_ring _ _ _ _

theorem processRx_ring {s : Session} (hs : SInv s) {rs : Spec.Reasm} {n : Nat} (hr : RingRep s.recv rs n)
    {g : Option Nat} {data : List Nat} (hd : Bytes data) {now : Nat} {s' : Session}
    (hok : s.processRx g data now = .ok s') :
    RingRep s'.recv (ghostRx rs n data).1 (ghostRx rs n data).2 := by
  unfold Session.processRx at hok
  unfold ghostRx
  have c := decodeHdr_clean data hd
  cases hdec : decodeHdr data with
  | error e => rw [hdec] at hok; cases hok
  | ok hp =>
    rw [hdec] at hok c
    obtain ⟨h, p⟩ := hp
    simp only [Clean] at c
    simp only at hok ⊢
    unfold Session.processRxSeg at hok
    cases hhs : h.hs
    · simp only [hhs, Bool.false_eq_true, if_false] at hok ⊢
      have hacc := processRxData_recv hok
      have hb : s.recv.buf.length ≤ 3166 := by have := hs.bufLe; simpa using this
      exact accept_refines hr hb c.1 hacc
    · simp only [hhs, if_true] at hok ⊢
      split at hok
      · exact handshakeResp_ring hok
      · exact handshakeReq_ring hok


/-- One BTP end observed by a monitor: `rs` is the specification-side reassembly
(`Spec.Reasm`) of the data segments the end has accepted in the current session, `fetched` the
messages it handed to the application, each with the capacity of the caller's buffer. -/
structure Mon where
  e : End
  rs : Spec.Reasm := {}
  fetched : List (List Nat × Nat) := []

/-- everything the outside world can do to one end: the application (`send`, `fetch`), the GATT
glue (`poll`), and the peer — well-behaved or hostile — (`rx` of arbitrary bytes) -/
inductive EOp where
  | send (m : List Nat)
  | poll (now : Nat)
  | rx (data : List Nat) (now : Nat)
  | fetch (cap : Nat)

def Mon.step (m : Mon) : EOp → Except Fail (Mon × Out)
  | .send d =>
    match m.e.send d with
    | .error f => .error f
    | .ok (e, ok) => .ok ({ m with e := e }, .queued ok)
  | .poll now =>
    match m.e.processOutgoing now with
    | .error f => .error f
    | .ok (e, seg) => .ok ({ m with e := e }, if seg.length > 0 then .tx seg else .none)
  | .rx data now =>
    match m.e.processIncoming data now with
    | .error f => .error f
    | .ok e =>
      .ok ({ e := e, rs := (ghostRx m.rs m.fetched.length data).1,
             fetched := m.fetched.take (ghostRx m.rs m.fetched.length data).2 }, .delivered)
  | .fetch cap =>
    match m.e.recv cap with
    | .error f => .error f
    | .ok (e, some b) => .ok ({ m with e := e, fetched := m.fetched ++ [(b, cap)] }, .msg b)
    | .ok (e, none) => .ok ({ m with e := e }, .none)

/-- every message handed out is the corresponding reassembled message (cut to the caller's buffer) -/
def Delivered (rs : Spec.Reasm) (fetched : List (List Nat × Nat)) : Prop :=
  ∀ (i : Nat) (b : List Nat) (c : Nat), fetched[i]? = some (b, c) →
    ∃ full : List Nat, rs.done[i]? = some full ∧ b = full.take c

structure MInv (m : Mon) : Prop where
  e : EInv m.e
  ring : RingRep m.e.s.recv m.rs m.fetched.length
  dlv : Delivered m.rs m.fetched

theorem feed_done (rs : Spec.Reasm) (h : Hdr) (p : List Nat) : ∃ l, (rs.feed h p).done = rs.done ++ l := by
  unfold Spec.Reasm.feed
  simp only
  by_cases hf : h.fin = true
  · simp only [hf, if_true]
    by_cases hc : (if h.beg = true then p else rs.cur ++ p).isEmpty = true
    · simp only [hc, if_true]; exact ⟨[], by simp⟩
    · simp only [hc]; exact ⟨_, rfl⟩
  · simp only [hf]; exact ⟨[], by simp⟩

theorem ghostRx_cases (rs : Spec.Reasm) (n : Nat) (data : List Nat) :
    (ghostRx rs n data = ({}, 0)) ∨ (∃ l, (ghostRx rs n data).1.done = rs.done ++ l ∧ (ghostRx rs n data).2 = n) := by
  unfold ghostRx
  split
  · split
    · exact .inl rfl
    · rename_i h p _ _
      obtain ⟨l, hl⟩ := feed_done rs h p
      exact .inr ⟨l, hl, rfl⟩
  · exact .inr ⟨[], by simp, rfl⟩

theorem endRecv_spec (e : End) (he : EInv e) (rs : Spec.Reasm) (n : Nat) (hr : RingRep e.s.recv rs n)
    (cap : Nat) :
    (e.recv cap = .ok (e, none)) ∨
    (∃ (full : List Nat) (e' : End), e.recv cap = .ok (e', some (full.take cap)) ∧ rs.done[n]? = some full ∧
      EInv e' ∧ RingRep e'.s.recv rs (n + 1)) := by
  unfold End.recv
  by_cases hav : e.s.messageAvailable = true
  · right
    simp only [hav, if_true]
    have hmc : e.s.recv.msgCt ≠ 0 := by
      simp [Session.messageAvailable] at hav; omega
    obtain ⟨full, r', hget, hfetch, hring', hl, hal, has, hrem, hmc', hrt, hbl⟩ := fetch_refines cap hr hmc
    unfold Session.fetchMessage
    rw [hfetch]
    refine ⟨full, _, rfl, hget, ⟨?_, he.off, he.len⟩, hring'⟩
    have hs := he.s
    constructor <;> simp only []
    · exact hs.sendWs
    · exact hs.sendLe
    · rw [hl, hal]; exact hs.recvSum
    · rw [hal]; have := hs.msgLe; omega
    · exact hs.wsLe
    · exact hs.lastLt
    · rw [has]; exact hs.ackSeqLt
    · rw [hrem]; exact hs.remLt
    · have := hs.bufLe; omega
    · exact hs.est
    · exact hs.notEst
    · exact hs.hsPend
  · left
    simp only [hav]
    simp

theorem mon_step (m : Mon) (hm : MInv m) (op : EOp) (hb : ∀ d now, op = .rx d now → Bytes d) :
    Clean (m.step op) (fun r => MInv r.1) := by
  cases op with
  | send d =>
    simp only [Mon.step]
    have c := endSend_clean m.e hm.e d
    cases h : m.e.send d with
    | error f => rw [h] at c; exact c
    | ok r =>
      rw [h] at c
      obtain ⟨e, ok⟩ := r
      simp only [Clean] at c ⊢
      refine ⟨c.1, ?_, hm.dlv⟩
      show RingRep e.s.recv m.rs m.fetched.length
      rw [c.2]; exact hm.ring
  | poll now =>
    simp only [Mon.step]
    have c := endOutgoing_clean m.e hm.e now
    cases h : m.e.processOutgoing now with
    | error f => rw [h] at c; exact c
    | ok r =>
      rw [h] at c
      obtain ⟨e, seg⟩ := r
      simp only [Clean, TxOk] at c ⊢
      exact ⟨c.1, ringRep_same c.2.1 hm.ring, hm.dlv⟩
  | rx data now =>
    simp only [Mon.step]
    have hd := hb data now rfl
    unfold End.processIncoming
    have c := processRx_clean m.e.s hm.e.s m.e.gattMtu data hd now
    cases h : m.e.s.processRx m.e.gattMtu data now with
    | error f => rw [h] at c; exact c
    | ok s' =>
      rw [h] at c
      simp only [Clean] at c ⊢
      have hring := processRx_ring hm.e.s hm.ring hd h
      refine ⟨⟨c, hm.e.off, hm.e.len⟩, ?_, ?_⟩
      · show RingRep s'.recv _ (m.fetched.take _).length
        rcases ghostRx_cases m.rs m.fetched.length data with h0 | ⟨l, _, h2⟩
        · rw [h0] at hring ⊢; simpa using hring
        · rw [h2] at hring ⊢; simpa using hring
      · show Delivered (ghostRx m.rs m.fetched.length data).1 (m.fetched.take (ghostRx m.rs m.fetched.length data).2)
        unfold Delivered
        intro i b c' hi
        rcases ghostRx_cases m.rs m.fetched.length data with h0 | ⟨l, h1, h2⟩
        · rw [h0] at hi; simp at hi
        · rw [h2, List.take_length] at hi
          obtain ⟨full, hf, hbf⟩ := hm.dlv i b c' hi
          refine ⟨full, ?_, hbf⟩
          rw [h1]
          have hlt : i < m.rs.done.length := (List.getElem?_eq_some_iff.mp hf).1
          rw [List.getElem?_append_left hlt]; exact hf
  | fetch cap =>
    simp only [Mon.step]
    rcases endRecv_spec m.e hm.e m.rs m.fetched.length hm.ring cap with h0 | ⟨full, e', h1, hget, he', hr'⟩
    · rw [h0]
      simp only [Clean]
      exact ⟨hm.e, hm.ring, hm.dlv⟩
    · rw [h1]
      simp only [Clean]
      refine ⟨he', ?_, ?_⟩
      · show RingRep e'.s.recv m.rs (m.fetched ++ [(List.take cap full, cap)]).length
        simpa using hr'
      · show Delivered m.rs (m.fetched ++ [(List.take cap full, cap)])
        unfold Delivered
        intro i b c' hi
        by_cases hlt : i < m.fetched.length
        · rw [List.getElem?_append_left hlt] at hi
          exact hm.dlv i b c' hi
        · have hge : m.fetched.length ≤ i := by omega
          rw [List.getElem?_append_right hge] at hi
          by_cases h0 : i - m.fetched.length = 0
          · rw [h0] at hi
            simp at hi
            obtain ⟨rfl, rfl⟩ := hi
            have : i = m.fetched.length := by omega
            subst this
            exact ⟨full, hget, rfl⟩
          · rw [List.getElem?_eq_none (by simp; omega)] at hi; cases hi

end Btp
