/-!
# Model of the event queue (`rs-matter/src/im/events.rs`: `EventsInner<N>`, `EventWriter`, `EventsBuf<N>`)

Three buffers of `N` bytes each (`buf_debug`, `buf_info`, `buf_critical`).  Every new event is
written byte by byte at the end of `buf_debug` (`EventWriter::write`); when that buffer is full its
oldest event is evicted (`evict`): if its priority reaches the next buffer's level it is first
promoted there (`promote`: make room by evicting from the destination — which may cascade one
level further — then `append_slice`), then removed (`evict_first_event`).  A failed `push` (the event
is longer than `N`: `ResourceExhausted`; or the closure fails) rewinds the bytes written so far —
the evictions it caused stay.  `fetch` iterates `buf_critical`, `buf_info`, `buf_debug`.

An event is abstracted to its number, priority and encoded length; a buffer is the list of its
complete events (oldest first), `buf_debug` additionally carries the `bytes_written` of the running
`push`.  Every `unwrap!` / `assert!` of the Rust is a `panic` of the model; the `while` loops run on
fuel that suffices (`Lemmas/ChunkEvents.lean`: no panic is reachable).  Import-free.
-/
namespace Chunk

/-- an event stored in one of the buffers -/
structure QEv where
  /-- `event_number` -/
  num : Nat
  /-- `EventPriority as u8`: 0 = debug, 1 = info, 2 = critical -/
  prio : Nat
  /-- length of its TLV in the buffer -/
  len : Nat
deriving Repr, DecidableEq, Inhabited

/-- `head` of a buffer holding the events `q` -/
def qLen (q : List QEv) : Nat := (q.map (·.len)).sum

inductive QFail
  | panic (why : String)
  /-- `EventWriter::write`: the event is larger than the buffer -/
  | resourceExhausted
  /-- the closure writing the payload failed -/
  | closure
deriving Repr, DecidableEq, Inhabited

/-- `EventsInner<N>` (+ `EventWriter::bytes_written` while a `push` runs) -/
structure Queue where
  /-- `N` -/
  n : Nat
  debug : List QEv := []
  /-- bytes of the event being written at the end of `buf_debug` -/
  part : Nat := 0
  info : List QEv := []
  crit : List QEv := []
  /-- `next_event_number` -/
  next : Nat := 1
  /-- ghost: `next_event_number` wrapped around `u64::MAX` since the last reset / load -/
  wrapped : Bool := false
deriving Repr, DecidableEq, Inhabited

namespace Queue

def new (n : Nat) : Queue := { n := n }

/-- `EventsBuf::capacity` of the three buffers -/
def capDebug (q : Queue) : Nat := q.n - (qLen q.debug + q.part)
def capInfo (q : Queue) : Nat := q.n - qLen q.info
def capCrit (q : Queue) : Nat := q.n - qLen q.crit

/-- `EventsIter`: critical, then info, then debug buffer, each oldest first -/
def iter (q : Queue) : List QEv := q.crit ++ q.info ++ q.debug

/-- `evict(Critical)`: there is no next buffer, the oldest event is dropped -/
def evictCrit (q : Queue) : Except QFail Queue :=
  match q.crit with
  | [] => .error (.panic "first_event_len: assert head > 0 (critical)")
  | _ :: rest => .ok { q with crit := rest }

/-- the `while self.events.buf(dst).capacity() < event_len { self.evict(dst) }` of `promote(_, Critical, _)` -/
def makeRoomCrit : Nat → Queue → Nat → Except QFail Queue
  | 0, _, _ => .error (.panic "out of fuel")
  | fuel + 1, q, len =>
    if q.capCrit < len then
      match q.evictCrit with
      | .error e => .error e
      | .ok q' => makeRoomCrit fuel q' len
    else .ok q

/-- `promote(Info, Critical, event_len)` with the first event `e` of the info buffer -/
def promoteCrit (q : Queue) (e : QEv) : Except QFail Queue :=
  match makeRoomCrit (q.crit.length + 1) q e.len with
  | .error f => .error f
  | .ok q' =>
    if q'.capCrit < e.len then .error (.panic "append_slice: overflow (critical)")
    else .ok { q' with crit := q'.crit ++ [e] }

/-- `evict(Info)` -/
def evictInfo (q : Queue) : Except QFail Queue :=
  match q.info with
  | [] => .error (.panic "first_event_len: assert head > 0 (info)")
  | e :: _ =>
    -- `next_buf_ref as u8 <= event_prio` with `next_buf_ref = Critical = 2`
    match (if 2 ≤ e.prio then promoteCrit q e else .ok q) with
    | .error f => .error f
    | .ok q' => .ok { q' with info := q'.info.tail }      -- `evict_first_event`

def makeRoomInfo : Nat → Queue → Nat → Except QFail Queue
  | 0, _, _ => .error (.panic "out of fuel")
  | fuel + 1, q, len =>
    if q.capInfo < len then
      match q.evictInfo with
      | .error e => .error e
      | .ok q' => makeRoomInfo fuel q' len
    else .ok q

/-- `promote(Debug, Info, event_len)` with the first event `e` of the debug buffer -/
def promoteInfo (q : Queue) (e : QEv) : Except QFail Queue :=
  match makeRoomInfo (q.info.length + 1) q e.len with
  | .error f => .error f
  | .ok q' =>
    if q'.capInfo < e.len then .error (.panic "append_slice: overflow (info)")
    else .ok { q' with info := q'.info ++ [e] }

/-- `evict(Debug)`; a buffer that holds nothing but the unfinished event has no first event -/
def evictDebug (q : Queue) : Except QFail Queue :=
  match q.debug with
  | [] => .error (.panic "first_event_len: no complete event (debug)")
  | e :: _ =>
    match (if 1 ≤ e.prio then promoteInfo q e else .ok q) with
    | .error f => .error f
    | .ok q' => .ok { q' with debug := q'.debug.tail }

/-- the `while … append(byte).is_err() { self.evict(OPER_BUF) }` of `EventWriter::write` -/
def makeRoomDebug : Nat → Queue → Except QFail Queue
  | 0, _ => .error (.panic "out of fuel")
  | fuel + 1, q =>
    if q.capDebug = 0 then
      match q.evictDebug with
      | .error e => .error e
      | .ok q' => makeRoomDebug fuel q'
    else .ok q

/-- `EventWriter::write(byte)` -/
def writeByte (q : Queue) : Except QFail Queue :=
  if q.n = 0 then .ok q                      -- events are disabled: nothing is written
  else if q.part = q.n then .error .resourceExhausted
  else
    match makeRoomDebug (q.debug.length + 1) q with
    | .error e => .error e
    | .ok q' => .ok { q' with part := q'.part + 1 }

/-- write `k` bytes; on an error the queue as it is at that moment is returned with it -/
def writeBytes : Nat → Queue → Queue × Option QFail
  | 0, q => (q, none)
  | k + 1, q =>
    match q.writeByte with
    | .error e => (q, some e)
    | .ok q' => writeBytes k q'

def u64Max : Nat := 18446744073709551615

/-- `EventsInner::next_event_number` (persisting the epoch is assumed to succeed):
`event_number.wrapping_add(1).max(1)` -/
def bumpNext (q : Queue) : Queue :=
  { q with next := if q.next ≥ u64Max then 1 else q.next + 1,
           wrapped := q.wrapped || decide (q.next ≥ u64Max) }

/-- the bytes a `push` writes: all `len` of the event, or fewer when the closure fails -/
def pushLen (len : Nat) : Option Nat → Nat
  | some a => min a len
  | none => len

/-- `Events::push` of an event of priority `prio` whose TLV is `len` bytes long; `abort = some k`:
the closure fails after `k` bytes of the event have been written.  Returns the queue and the event
number or the error. -/
def push (q : Queue) (prio len : Nat) (abort : Option Nat) : Queue × Except QFail Nat :=
  let num := q.next
  let q1 := { q.bumpNext with part := 0 }
  let k := pushLen len abort
  match writeBytes k q1 with
  | (q2, some (.panic w)) => (q2, .error (.panic w))
  | (q2, some e) => ({ q2 with part := 0 }, .error e)                 -- `rewind_to(pos)`
  | (q2, none) =>
    if k < len then ({ q2 with part := 0 }, .error .closure)           -- `rewind_to(pos)`
    else if q2.part = len ∧ 0 < len then
      ({ q2 with debug := q2.debug ++ [{ num := num, prio := prio, len := len }], part := 0 }, .ok num)
    else ({ q2 with part := 0 }, .ok num)                             -- `N == 0`: nothing was stored

/-- `EventsInner::reset` -/
def reset (q : Queue) : Queue := { n := q.n }

/-- `EventsInner::load_persist` with a stored epoch `v` -/
def load (q : Queue) (v : Nat) : Queue := { q.reset with next := v }

end Queue

inductive QOp
  | push (prio len : Nat) (abort : Option Nat)
  | reset
  | load (v : Nat)
deriving Repr, DecidableEq, Inhabited

/-- run a history of operations; `none` = a panic of the real code -/
def Queue.run (q : Queue) : List QOp → Option Queue
  | [] => some q
  | .push prio len abort :: ops =>
    match q.push prio len abort with
    | (_, .error (.panic _)) => none
    | (q', _) => Queue.run q' ops
  | .reset :: ops => Queue.run q.reset ops
  | .load v :: ops => Queue.run (q.load v) ops

end Chunk
