import Driver.Util
/-! Driver for C14: not built yet. -/
namespace Driver.C14

def run : IO UInt32 := do
  IO.eprintln "C14: driver not built yet"
  return 2

end Driver.C14
