import RsMatterVerif.Props.C02
/-!
# C02, repairs after the audit of the theorem statements (docs/audit/C02.md)

* **Window identity** — `proof_is_for_the_open_window` rests on `WidInv`, which holds of every
  reachable state *because the model draws window ids from a counter*: the assumption "window ids
  never repeat" (`mdns_id` is a random u64, or caller-supplied through the `pub` `Pase::open_*`).
  `widInv_necessary`: in a state that violates it (two windows, one id) the conclusion fails.
  `proof_is_for_the_open_window_ev`: the history form over `runEv` (duplicated datagrams included).
* **Freshness of what a handshake expects** — `NonceInv`, `nonceInv_runEv`: responder shares never
  repeat; `concurrent_handshakes_expect_distinct`, `later_handshake_expects_fresh`,
  `completed_handshake_never_expected_again`, and the replay theorems that follow *without* assuming
  "received ≠ expected": `replay_across_handshakes_refused`, `replay_of_completed_handshake_refused`,
  `replay_from_earlier_handshake_refused`.
* **Failure counter** — `failures_never_decrease`: the counter of one window instance never goes down.
* **Polling** — `advertised_at_most_one_poll_after_expiry`: if `check_comm_window_timeout` runs at
  least every `pollPeriodMs`, an advertised node's window expired less than one period ago.
* **Stalled handshakes** — `stale_marker_message_not_examined`, `rx_timer_fires_before_marker_expires`.
* **Failure after `session.complete()`** — `final_send_failure_is_charged`.
-/
namespace C02
open Pase

/-! ## histories of events vs histories of operations -/

theorem run_eq_runEv (s : St) (ops : List Op) : run s ops = runEv s (ops.map .op) := by
  induction ops generalizing s with
  | nil => rfl
  | cons o os ih => simp only [run, List.map_cons, runEv, stepEv]; exact ih _

theorem core_tasks {a b : St} (h : core a = core b) : a.tasks = b.tasks := by
  simp only [core, Prod.mk.injEq] at h; exact h.2.2.2.1
theorem core_fresh {a b : St} (h : core a = core b) : a.fresh = b.fresh := by
  simp only [core, Prod.mk.injEq] at h; exact h.2.2.2.2.2
theorem core_now {a b : St} (h : core a = core b) : a.now = b.now := by
  simp only [core, Prod.mk.injEq] at h; exact h.1

/-- an invariant that reads only the part of the state the property speaks about and is preserved
by every responder step is preserved by every event (a delivery is a no-op or a step on that part) -/
theorem runEv_inv (P : St → Prop) (hcore : ∀ a b, core a = core b → P b → P a)
    (hstep : ∀ s op, P s → P (step s op).1) (s : St) (evs : List Ev) (h : P s) : P (runEv s evs) := by
  induction evs generalizing s with
  | nil => exact h
  | cons e es ih =>
    apply ih
    cases e with
    | op o => exact hstep s o h
    | msg c o =>
      simp only [stepEv]
      rcases deliver_core s c o with hc | hc
      · exact hcore _ _ hc h
      · exact hcore _ _ hc (hstep s o h)

/-! ## 1. Window identity: the assumption, stated; its necessity; the `runEv` form -/

theorem widInv_core {a b : St} (h : core a = core b) (hb : WidInv b) : WidInv a where
  task_lt := by rw [core_tasks h, core_fresh h]; exact hb.task_lt
  win_lt := by rw [core_window h, core_fresh h]; exact hb.win_lt
  bound := by rw [core_tasks h, core_window h]; exact hb.bound

/-- `WidInv` in every history, duplicated / re-sent datagrams included. It holds **because the model
draws window ids from the counter `fresh`** (`openWinCore`, `openEnhCore`: `id := s.fresh`): this is
the assumption *window ids never repeat within a history* of `props/C02.json`. -/
theorem runEv_widInv (evs : List Ev) : WidInv (runEv {} evs) :=
  runEv_inv WidInv (fun _ _ => widInv_core) step_widInv {} evs widInv_init

/-- **The proof is for the verifier of the window that is open — every history, duplicates
included** (under the id assumption built into the model). -/
theorem proof_is_for_the_open_window_ev (evs : List Ev) (e : Ev) (sess : Sess)
    (hnew : sess ∈ (stepEv (runEv {} evs) e).1.sessions) (hold : sess ∉ (runEv {} evs).sessions) :
    ∃ w, (runEv {} evs).window = some w ∧ (runEv {} evs).now ≤ w.expiry ∧ sess.conf.pw = w.pw := by
  have hinv := runEv_widInv evs
  cases e with
  | op o => exact proof_is_for_the_open_window _ o sess hinv hnew hold
  | msg c o =>
    simp only [stepEv] at hnew
    rcases deliver_core (runEv {} evs) c o with hc | hc
    · rw [core_sessions hc] at hnew; exact absurd hnew hold
    · rw [core_sessions hc] at hnew
      exact proof_is_for_the_open_window _ o sess hinv hnew hold

/-- **The id assumption is necessary.** A state in which the window that is open (verifier class 8)
carries the id (0) that a handshake remembered from an *earlier* window (verifier class 7) — two
windows with one id, which the counter excludes and a random u64 makes improbable: the Pake3 of
that handshake creates a session whose proof is for class 7 while the open window's class is 8. -/
def collide : St :=
  { window := some { id := 0, pw := 8, expiry := 1000, failures := 0 }, marker := some ⟨1, 100⟩,
    tasks := [{ exch := 1, stage := .waitPake3 { pw := 7, ctx := 1, pA := 5, pB := 2 } 0 }], fresh := 3,
    table := [.unsec 1, .reserved 1] }

theorem widInv_necessary :
    ¬ WidInv collide ∧
    (step collide (.pake3 1 (.mac { pw := 7, ctx := 1, pA := 5, pB := 2 }))).1.sessions.map (·.conf.pw) = [7] ∧
    collide.window.map (·.pw) = some 8 := by
  refine ⟨fun h => ?_, by decide, by decide⟩
  have := h.bound { exch := 1, stage := .waitPake3 { pw := 7, ctx := 1, pA := 5, pB := 2 } 0 } (by simp [collide])
    { pw := 7, ctx := 1, pA := 5, pB := 2 } 0 { id := 0, pw := 8, expiry := 1000, failures := 0 } rfl rfl rfl
  simp at this

/-! ## 2. What a handshake expects is fresh: replays from other handshakes are refused -/

/-- the task of exchange `x` returns at a successful Pake3 -/
theorem pake3_success_tasks (s : St) (x : Nat) (t : Task) (exp : Conf) (wid : Nat) (w : Window)
    (ht : findTask s x = some t) (hst : t.stage = .waitPake3 exp wid)
    (hnone : (updateSessionTimeout s x false).2 = none)
    (hw : s.window = some w) (hid : w.id = wid) (hexp : s.now ≤ w.expiry) :
    (step s (.pake3 x (.mac exp))).1.tasks = s.tasks.filter (·.exch != x) := by
  have hcw : (checkWindowTimeout (updateSessionTimeout s x false).fst).window = some w := by
    unfold checkWindowTimeout
    simp only [updateSessionTimeout_window, updateSessionTimeout_now, hw]
    split
    · omega
    · simp [hw]
  simp only [step, ht, hnone, hst, hcw, hid]
  simp [removeTask]

/-- responder shares are drawn from `fresh` and never repeat -/
structure NonceInv (s : St) : Prop where
  exp_lt : ∀ t ∈ s.tasks, ∀ exp wid, t.stage = .waitPake3 exp wid → exp.pB < s.fresh
  sess_lt : ∀ x ∈ s.sessions, x.conf.pB < s.fresh
  distinct : ∀ t1 ∈ s.tasks, ∀ t2 ∈ s.tasks, ∀ e1 w1 e2 w2, t1.stage = .waitPake3 e1 w1 →
    t2.stage = .waitPake3 e2 w2 → e1.pB = e2.pB → e1 = e2 ∧ t1.exch = t2.exch
  sess_task : ∀ x ∈ s.sessions, ∀ t ∈ s.tasks, ∀ e w, t.stage = .waitPake3 e w → x.conf.pB ≠ e.pB

theorem nonceInv_init : NonceInv {} where
  exp_lt := fun _ h => by cases h
  sess_lt := fun _ h => by cases h
  distinct := fun _ h => by cases h
  sess_task := fun _ h => by cases h

theorem conf_ext {a b : Conf} (h1 : a.pw = b.pw) (h2 : a.ctx = b.ctx) (h3 : a.pA = b.pA) (h4 : a.pB = b.pB) :
    a = b := by
  cases a; cases b; simp_all

theorem step_nonceInv (s : St) (op : Op) (h : NonceInv s) : NonceInv (step s op).1 := by
  have hf := step_fresh_le s op
  have ht := fun t exp wid (h1 : t ∈ (step s op).1.tasks) (h2 : t.stage = .waitPake3 exp wid) =>
    waitPake3_only_by_valid_pake1 s op t exp wid h1 h2
  have hs := session_implies_proof s op
  refine ⟨?_, ?_, ?_, ?_⟩
  · intro t h1 exp wid h2
    rcases ht t exp wid h1 h2 with hold | ⟨_, _, _, _, _, _, _, _, _, _, _, _, _, hpb, hfr⟩
    · exact Nat.lt_of_lt_of_le (h.exp_lt t hold exp wid h2) hf
    · rw [hpb, hfr]; exact Nat.lt_succ_self _
  · intro x hx
    rcases hs with hsame | ⟨x0, exp, wid, t, w, _, hft, hst, _, _, _, _, hnew⟩
    · rw [hsame] at hx; exact Nat.lt_of_lt_of_le (h.sess_lt x hx) hf
    · rw [hnew] at hx
      rcases List.mem_append.mp hx with hx | hx
      · exact Nat.lt_of_lt_of_le (h.sess_lt x hx) hf
      · simp only [List.mem_singleton] at hx
        subst hx
        exact Nat.lt_of_lt_of_le (h.exp_lt t (findTask_mem hft).1 exp wid hst) hf
  · intro t1 h1 t2 h2 e1 w1 e2 w2 s1 s2 hpb
    rcases ht t1 e1 w1 h1 s1 with o1 | ⟨a1, c1, ww1, t01, hop1, hf1, hc1, hwin1, _, hpw1, hctx1, hpa1, _, hpb1, _⟩
    · rcases ht t2 e2 w2 h2 s2 with o2 | ⟨_, _, _, _, _, _, _, _, _, _, _, _, _, hpb2, _⟩
      · exact h.distinct t1 o1 t2 o2 e1 w1 e2 w2 s1 s2 hpb
      · have := h.exp_lt t1 o1 e1 w1 s1
        omega
    · rcases ht t2 e2 w2 h2 s2 with o2 | ⟨a2, c2, ww2, t02, hop2, hf2, hc2, hwin2, _, hpw2, hctx2, hpa2, _, hpb2, _⟩
      · have := h.exp_lt t2 o2 e2 w2 s2
        omega
      · rw [hop1] at hop2
        injection hop2 with hx ha
        injection ha with ha
        rw [hx] at hf1
        rw [hf1] at hf2
        injection hf2 with hf2
        subst hf2
        rw [hc1] at hc2
        injection hc2 with hc2
        rw [hwin1] at hwin2
        injection hwin2 with hwin2
        refine ⟨conf_ext ?_ ?_ ?_ hpb, hx⟩
        · rw [hpw1, hpw2, hwin2]
        · rw [hctx1, hctx2, hc2]
        · rw [hpa1, hpa2, ha]
  · intro x hx t h1 e w hst
    rcases hs with hsame | ⟨x0, exp, wid, t', ww, hop, hft, hst', hnone, hwin, hid, hexp, hnew⟩
    · rw [hsame] at hx
      rcases ht t e w h1 hst with hold | ⟨_, _, _, _, _, _, _, _, _, _, _, _, _, hpb, _⟩
      · exact h.sess_task x hx t hold e w hst
      · have := h.sess_lt x hx
        omega
    · -- a Pake3 step: no task is new; the task of `x0` is gone
      subst hop
      rw [pake3_success_tasks s x0 t' exp wid ww hft hst' hnone hwin hid hexp] at h1
      simp only [List.mem_filter, bne_iff_ne, ne_eq] at h1
      obtain ⟨hold, hne⟩ := h1
      rw [hnew] at hx
      rcases List.mem_append.mp hx with hx | hx
      · exact h.sess_task x hx t hold e w hst
      · simp only [List.mem_singleton] at hx
        subst hx
        intro hpb
        have := (h.distinct t' (findTask_mem hft).1 t hold exp wid e w hst' hst hpb).2
        exact hne (by rw [← this]; exact (findTask_mem hft).2)

theorem nonceInv_core {a b : St} (h : core a = core b) (hb : NonceInv b) : NonceInv a where
  exp_lt := by rw [core_tasks h, core_fresh h]; exact hb.exp_lt
  sess_lt := by rw [core_sessions h, core_fresh h]; exact hb.sess_lt
  distinct := by rw [core_tasks h]; exact hb.distinct
  sess_task := by rw [core_tasks h, core_sessions h]; exact hb.sess_task

/-- **In every history** (duplicated / re-sent datagrams included) responder shares never repeat. -/
theorem nonceInv_runEv (s : St) (evs : List Ev) (h : NonceInv s) : NonceInv (runEv s evs) :=
  runEv_inv NonceInv (fun _ _ => nonceInv_core) step_nonceInv s evs h

/-- **Two handshakes that are in progress at the same time expect different confirmation values**:
in every reachable state, tasks of different exchanges that wait for Pake3 expect `Conf`s with
different responder shares. -/
theorem concurrent_handshakes_expect_distinct (evs : List Ev) (t1 t2 : Task) (e1 e2 : Conf) (w1 w2 : Nat)
    (h1 : t1 ∈ (runEv {} evs).tasks) (h2 : t2 ∈ (runEv {} evs).tasks)
    (s1 : t1.stage = .waitPake3 e1 w1) (s2 : t2.stage = .waitPake3 e2 w2) (hx : t1.exch ≠ t2.exch) :
    e1.pB ≠ e2.pB ∧ e1 ≠ e2 := by
  have hinv := nonceInv_runEv {} evs nonceInv_init
  have : e1.pB ≠ e2.pB := fun hpb => hx (hinv.distinct t1 h1 t2 h2 e1 w1 e2 w2 s1 s2 hpb).2
  exact ⟨this, fun he => this (by rw [he])⟩

theorem stepEv_fresh_le (s : St) (e : Ev) : s.fresh ≤ (stepEv s e).1.fresh := by
  cases e with
  | op o => exact step_fresh_le s o
  | msg c o =>
    simp only [stepEv]
    rcases deliver_core s c o with hc | hc
    · rw [core_fresh hc]; exact Nat.le_refl _
    · rw [core_fresh hc]; exact step_fresh_le s o

theorem stepEv_new_waitPake3 (s : St) (e : Ev) (t : Task) (exp : Conf) (wid : Nat)
    (ht : t ∈ (stepEv s e).1.tasks) (hst : t.stage = .waitPake3 exp wid) :
    t ∈ s.tasks ∨ exp.pB = s.fresh := by
  cases e with
  | op o =>
    rcases waitPake3_only_by_valid_pake1 s o t exp wid ht hst with h | ⟨_, _, _, _, _, _, _, _, _, _, _, _, _, hpb, _⟩
    · exact .inl h
    · exact .inr hpb
  | msg c o =>
    simp only [stepEv] at ht
    rcases deliver_core s c o with hc | hc
    · rw [core_tasks hc] at ht; exact .inl ht
    · rw [core_tasks hc] at ht
      rcases waitPake3_only_by_valid_pake1 s o t exp wid ht hst with h | ⟨_, _, _, _, _, _, _, _, _, _, _, _, _, hpb, _⟩
      · exact .inl h
      · exact .inr hpb

/-- every value below the counter stays different from what a handshake that answers its Pake1 later expects -/
theorem later_share_ge (s : St) (evs : List Ev) (n x : Nat) (hn : n ≤ s.fresh)
    (h0 : ∀ t ∈ s.tasks, t.exch = x → ∀ e w, t.stage = .waitPake3 e w → n ≤ e.pB) :
    ∀ t ∈ (runEv s evs).tasks, t.exch = x → ∀ e w, t.stage = .waitPake3 e w → n ≤ e.pB := by
  induction evs generalizing s with
  | nil => exact h0
  | cons ev es ih =>
    apply ih (stepEv s ev).1 (Nat.le_trans hn (stepEv_fresh_le s ev))
    intro t ht hx e w hst
    rcases stepEv_new_waitPake3 s ev t e w ht hst with hold | hnew
    · exact h0 t hold hx e w hst
    · omega

/-- **A handshake that answers its Pake1 later expects a share no earlier handshake ever had.**
`evs1` is the history up to some instant at which exchange `x2` has not yet answered a Pake1; `evs2`
is what happens afterwards. Whatever any handshake expected at that instant (`e1`), and whatever
proof any session that existed then rests on, differs from what the handshake of `x2` expects now. -/
theorem later_handshake_expects_fresh (evs1 evs2 : List Ev) (x2 : Nat) (t2 : Task) (e2 : Conf) (w2 : Nat)
    (hnot : ∀ t ∈ (runEv {} evs1).tasks, t.exch = x2 → ∀ e w, t.stage ≠ .waitPake3 e w)
    (h2 : t2 ∈ (runEv (runEv {} evs1) evs2).tasks) (hx2 : t2.exch = x2) (s2 : t2.stage = .waitPake3 e2 w2) :
    (∀ t1 ∈ (runEv {} evs1).tasks, ∀ e1 w1, t1.stage = .waitPake3 e1 w1 → e1 ≠ e2) ∧
    (∀ x ∈ (runEv {} evs1).sessions, x.conf ≠ e2) := by
  have hinv := nonceInv_runEv {} evs1 nonceInv_init
  have hge := later_share_ge (runEv {} evs1) evs2 (runEv {} evs1).fresh x2 (Nat.le_refl _)
    (fun t ht hx e w hst => absurd hst (hnot t ht hx e w)) t2 h2 hx2 e2 w2 s2
  constructor
  · intro t1 h1 e1 w1 s1 he
    have := hinv.exp_lt t1 h1 e1 w1 s1
    rw [he] at this
    omega
  · intro x hx he
    have := hinv.sess_lt x hx
    rw [he] at this
    omega

/-- **The proof of a completed handshake is never expected again**, by any handshake, at any later time. -/
theorem completed_handshake_never_expected_again (evs : List Ev) (x : Sess) (t : Task) (e : Conf) (w : Nat)
    (hx : x ∈ (runEv {} evs).sessions) (ht : t ∈ (runEv {} evs).tasks) (hst : t.stage = .waitPake3 e w) :
    x.conf ≠ e := by
  have hinv := nonceInv_runEv {} evs nonceInv_init
  intro he
  exact hinv.sess_task x hx t ht e w hst (by rw [he])

/-- **A confirmation value replayed from another handshake in progress is refused**: in every
reachable state, the `cA` that the handshake of exchange `x1` expects, sent as Pake3 on another
exchange `x2`, yields no session. Nothing is assumed about "received ≠ expected": it follows from
the freshness of the responder shares. -/
theorem replay_across_handshakes_refused (evs : List Ev) (t1 : Task) (e1 : Conf) (w1 x2 : Nat)
    (h1 : t1 ∈ (runEv {} evs).tasks) (s1 : t1.stage = .waitPake3 e1 w1) (hx : t1.exch ≠ x2) :
    (step (runEv {} evs) (.pake3 x2 (.mac e1))).1.sessions = (runEv {} evs).sessions := by
  apply wrong_proof_never
  intro t exp wid hft hst hc
  injection hc with hc
  have hm := findTask_mem hft
  have := (concurrent_handshakes_expect_distinct evs t1 t e1 exp w1 wid h1 hm.1 s1 hst (by rw [hm.2]; exact hx)).2
  exact this hc

/-- **The confirmation value of a completed handshake, replayed on any exchange at any later time,
is refused** (a session exists for it: its proof is never accepted a second time). -/
theorem replay_of_completed_handshake_refused (evs : List Ev) (x : Sess) (x2 : Nat)
    (hx : x ∈ (runEv {} evs).sessions) :
    (step (runEv {} evs) (.pake3 x2 (.mac x.conf))).1.sessions = (runEv {} evs).sessions := by
  apply wrong_proof_never
  intro t exp wid hft hst hc
  injection hc with hc
  exact completed_handshake_never_expected_again evs x t exp wid hx (findTask_mem hft).1 hst hc

/-- **A confirmation value recorded from an earlier handshake is refused by a handshake that
answers its Pake1 later** (same or another exchange id, the earlier handshake finished, failed or
still running). -/
theorem replay_from_earlier_handshake_refused (evs1 evs2 : List Ev) (x2 : Nat) (t1 : Task) (e1 : Conf) (w1 : Nat)
    (hnot : ∀ t ∈ (runEv {} evs1).tasks, t.exch = x2 → ∀ e w, t.stage ≠ .waitPake3 e w)
    (h1 : t1 ∈ (runEv {} evs1).tasks) (s1 : t1.stage = .waitPake3 e1 w1) :
    (step (runEv (runEv {} evs1) evs2) (.pake3 x2 (.mac e1))).1.sessions = (runEv (runEv {} evs1) evs2).sessions := by
  apply wrong_proof_never
  intro t exp wid hft hst hc
  injection hc with hc
  have hm := findTask_mem hft
  exact (later_handshake_expects_fresh evs1 evs2 x2 t exp wid hnot hm.1 hm.2 hst).1 t1 h1 e1 w1 s1 hc

/-! ## 3. The failure counter of a window instance never decreases -/

theorem stepEv_window_frame (s : St) (e : Ev) :
    WinKeep s.window (stepEv s e).1.window ∨
    (∃ w', (stepEv s e).1.window = some w' ∧ w'.id = s.fresh ∧ s.now ≤ w'.expiry ∧ w'.failures = 0) := by
  cases e with
  | op o =>
    rcases step_window_frame s o with h | ⟨w', h1, h2, _, _, h5, h6⟩
    · exact .inl h
    · exact .inr ⟨w', h1, h2, h5, h6⟩
  | msg c o =>
    simp only [stepEv]
    rcases deliver_core s c o with hc | hc
    · rw [core_window hc]; exact .inl (winKeep_refl _)
    · rw [core_window hc]
      rcases step_window_frame s o with h | ⟨w', h1, h2, _, _, h5, h6⟩
      · exact .inl h
      · exact .inr ⟨w', h1, h2, h5, h6⟩

/-- **Failures never decrease except by closing the window**: if the window that is open at one
instant of a history (counter `w.failures`) is still the window — the same instance — at a later
instant, its counter is at least what it was. (A *new* window starts at 0: `step_window_frame`.)
With `failed_proof_counted` (each failed proof adds one) and `revoked_after_max` (an open window has
counted fewer than twenty) this is "revoked after twenty of them". -/
theorem failures_mono_aux (w : Window) (evs2 : List Ev) :
    ∀ (s : St), w.id < s.fresh → (∀ v, s.window = some v → v.id = w.id → w.failures ≤ v.failures) →
      ∀ v, (runEv s evs2).window = some v → v.id = w.id → w.failures ≤ v.failures := by
  induction evs2 with
  | nil => intro s _ h0; exact h0
  | cons e es ih =>
    intro s hfr h0
    apply ih (stepEv s e).1 (Nat.lt_of_lt_of_le hfr (stepEv_fresh_le s e))
    intro v hv hvid
    rcases stepEv_window_frame s e with hk | ⟨v', hv', hid', _, _⟩
    · obtain ⟨v0, hv0, hi, _, _, hf⟩ := hk v hv
      exact Nat.le_trans (h0 v0 hv0 (by rw [← hi]; exact hvid)) hf
    · rw [hv'] at hv; injection hv with hv; subst hv
      omega

theorem failures_never_decrease (evs1 evs2 : List Ev) (w w' : Window)
    (h1 : (runEv {} evs1).window = some w) (h2 : (runEv (runEv {} evs1) evs2).window = some w')
    (hid : w'.id = w.id) : w.failures ≤ w'.failures := by
  have hlt : w.id < (runEv {} evs1).fresh := (runEv_widInv evs1).win_lt w h1
  exact failures_mono_aux w evs2 _ hlt
    (fun v hv _ => by rw [h1] at hv; injection hv with hv; rw [hv]; exact Nat.le_refl _) w' h2 hid

/-! ## 4. Advertised only while open — up to the polling period -/

@[simp] theorem recordFailure_now (s : St) : (recordFailure s).now = s.now := by
  unfold recordFailure; simp only; splits
@[simp] theorem recordFailure_finishing (s : St) : (recordFailure s).finishing = s.finishing := by
  unfold recordFailure; simp only; splits
@[simp] theorem removeTask_now (s : St) (x : Nat) : (removeTask s x).now = s.now := rfl
@[simp] theorem setTask_now (s : St) (t : Task) : (setTask s t).now = s.now := rfl
@[simp] theorem failTask_now (s : St) (x : Nat) : (failTask s x).now = s.now := by simp [failTask]

theorem pbkdfNew_now (s : St) (x : Nat) (r : Req) (v : Option VClass) : (pbkdfNew s x r v).1.now = s.now := by
  unfold pbkdfNew
  split
  · rfl
  · rename_i s1 h1
    have hc := (reserve_core h1).2.2.2.1
    simp only
    repeat' split
    all_goals simp [hc]

/-- only `tick` moves the clock -/
theorem step_now (s : St) (op : Op) : (step s op).1.now = s.now + (match op with | .tick ms => ms | _ => 0) := by
  cases op with
  | tick ms => rfl
  | pbkdf x r v =>
    simp only [step]
    split
    · repeat' split
      all_goals simp
    · split
      · simp
      · rename_i s1 h1
        rw [pbkdfNew_now, (addSlot_core h1).2.2.2.1]; rfl
  | _ =>
    simp only [step, openWinCore, openEnhCore]
    repeat' split
    all_goals simp

/-- `check_comm_window_timeout` runs at least once in every `period` milliseconds: along the history
the clock never gets further than `period` beyond the instant of the last poll (`last`; initially
the start of the history) -/
def pollOKb (period : Nat) : Nat → St → List Op → Bool
  | _, _, [] => true
  | last, s, op :: os =>
    decide ((step s op).1.now ≤ (if op = .poll then s.now else last) + period) &&
      pollOKb period (if op = .poll then s.now else last) (step s op).1 os

def PollOK (period last : Nat) (s : St) (ops : List Op) : Prop := pollOKb period last s ops = true

instance (period last : Nat) (s : St) (ops : List Op) : Decidable (PollOK period last s ops) :=
  inferInstanceAs (Decidable (_ = true))

/-- the last poll lies in the past and did not find the present window expired -/
def PollInv (s : St) (last : Nat) : Prop := last ≤ s.now ∧ ∀ w, s.window = some w → last ≤ w.expiry

theorem step_pollInv (s : St) (op : Op) (last : Nat) (h : PollInv s last) :
    PollInv (step s op).1 (if op = .poll then s.now else last) := by
  obtain ⟨hl, hw⟩ := h
  have hnow := step_now s op
  by_cases hp : op = .poll
  · subst hp
    simp only [if_true]
    refine ⟨by rw [hnow]; simp, fun w hw' => ?_⟩
    have := poll_closes_expired s w hw'
    rw [hnow] at this
    simpa using this
  · simp only [hp, if_false]
    refine ⟨by rw [hnow]; omega, fun w' hw' => ?_⟩
    rcases step_window_frame s op with hk | ⟨v, hv, _, _, _, hexp, _⟩
    · obtain ⟨w0, h0, _, _, he, _⟩ := hk w' hw'
      rw [he]; exact hw w0 h0
    · rw [hv] at hw'; injection hw' with hw'; subst hw'
      omega

/-- **Advertised only while a window is open, up to the expiry polling period.** In every history in
which the expiry check runs at least every `period` ms (the Interaction Model's run loop calls
`check_comm_window_timeout` every `CHECK_INTERVAL_SECS` = 1 s: `pollPeriodMs`), a node that is
advertised as commissionable has a window whose expiry instant lies less than one period in the
past: within one polling period after the expiry the node is no longer advertised. (The other
direction — a window that is present is advertised — is the definition of `advertised`, i.e. of
`Matter::mdns_services`: `advertised_iff_open`.) -/
theorem poll_bound_aux (period : Nat) (ops : List Op) :
    ∀ (s : St) (last : Nat), PollInv s last → s.now ≤ last + period → PollOK period last s ops →
      ∀ w, (run s ops).window = some w → (run s ops).now ≤ w.expiry + period := by
  induction ops with
  | nil =>
    intro s last hinv hnow _ w hw
    have := hinv.2 w hw
    simp only [run] at hw ⊢
    omega
  | cons o os ih =>
    intro s last hinv _ hp w hw
    simp only [PollOK, pollOKb, Bool.and_eq_true, decide_eq_true_eq] at hp
    obtain ⟨hp1, hp2⟩ := hp
    exact ih (step s o).1 _ (step_pollInv s o last hinv) hp1 hp2 w hw

theorem advertised_at_most_one_poll_after_expiry (period : Nat) (ops : List Op)
    (hpoll : PollOK period 0 {} ops) (hadv : advertised (run {} ops) = true) :
    ∃ w, (run {} ops).window = some w ∧ (run {} ops).now ≤ w.expiry + period := by
  unfold advertised at hadv
  cases hw : (run {} ops).window with
  | none => rw [hw] at hadv; cases hadv
  | some w =>
    exact ⟨w, rfl, poll_bound_aux period ops {} 0 ⟨Nat.le_refl _, fun _ h => by cases h⟩ (Nat.zero_le _) hpoll w hw⟩

/-- the code's period: one second -/
theorem pollPeriod_is_one_second : pollPeriodMs = 1000 := by decide

/-- a window that is present and unexpired is advertised (and so is one that expired and was not polled yet) -/
theorem open_window_is_advertised (s : St) (w : Window) (h : s.window = some w) : advertised s = true := by
  simp [advertised, h]

/-! ## 5. Stalled handshakes: the 60 s marker and the receive timer -/

/-- **Generalisation of `rx_timer_fires_before_marker_expires_default_mrp`** to every peer whose
advertised MRP parameters keep the responder's receive timeout plus one ladder inside the marker's
60 s: in every history the marker such a handshake holds is still valid whenever its receive timer
can fire. (This says *when* the marker can expire; that the timer fires is the environment's move
`rxTimeout`, whose effect is `rxTimeout_charges`.) -/
theorem rx_timer_fires_before_marker_expires (ops : List Op) (x : Nat) (t : Task) (m : Marker)
    (ht : findTask (run {} ops) x = some t) (hm : (run {} ops).marker = some m) (hx : m.exch = x)
    (hfit : rxTimeoutMs t.mrp localActiveMs + sendLadderMs t.mrp < estTimeoutMs)
    (hnow : (run {} ops).now ≤ t.since + rxTimeoutMs t.mrp localActiveMs + sendLadderMs t.mrp) :
    (run {} ops).now < m.deadline := by
  have hinv : HolderInv (run {} ops) := run_holder {} ops (holder_none rfl)
  have hd := hinv m hm t (findTask_mem ht).1 (by rw [(findTask_mem ht).2, hx])
  omega

/-- `update_session_timeout` on a stale marker: the marker is cleared and the message is answered `SessionNotFound` -/
theorem ust_stale (s : St) (x : Nat) (m : Marker) (hm : s.marker = some m) (hstale : s.now > m.deadline) :
    updateSessionTimeout s x false = ({ s with marker := none }, some .statusSessionNotFound) := by
  unfold updateSessionTimeout
  simp [hm, hstale]

/-- **A handshake that stalls beyond the marker's 60 s ends without its proof being looked at.**
(Possible only for a peer that advertised slow MRP parameters — e.g. SAI = 1000 ms gives a receive
timeout of 84936 ms, see `Ex2` — otherwise the receive timer ends and charges it first.) Whatever
message arrives on it then — Pake1, Pake3 with *any* confirmation value, the right one included, or
anything else — is answered `SessionNotFound`, the task returns, **no session** results, and
nothing is charged: the window and its failure counter are unchanged. No proof was examined, so
there is no failed proof to count; the peer has learnt nothing about the passcode. -/
theorem stale_marker_message_not_examined (s : St) (x : Nat) (t : Task) (m : Marker) (op : Op)
    (ht : findTask s x = some t) (hm : s.marker = some m) (hstale : s.now > m.deadline)
    (hop : (∃ p, op = .pake1 x p) ∨ (∃ c, op = .pake3 x c) ∨ op = .other x) :
    (step s op).2 = .statusSessionNotFound ∧ (step s op).1.sessions = s.sessions ∧
    (step s op).1.window = s.window ∧ findTask (step s op).1 x = none ∧ (step s op).1.marker = none := by
  have hu := ust_stale s x m hm hstale
  have hfind : findTask (removeTask { s with marker := none } x) x = none := by
    unfold findTask removeTask
    simp only
    apply List.find?_eq_none.mpr
    intro t' ht'
    simp only [List.mem_filter, bne_iff_ne, ne_eq] at ht'
    simpa using ht'.2
  rcases hop with ⟨p, rfl⟩ | ⟨c, rfl⟩ | rfl
  all_goals
    simp only [step, ht, hu]
    refine ⟨?_, ?_, ?_, ?_, ?_⟩ <;> first | rfl | trivial | exact hfind

/-! ## 6. A failure after `session.complete()` -/

/-- **When the delivery of `SessionEstablishmentSuccess` fails** (`complete_with_status(..).await?`
after `session.complete()`; the task is remembered in `finishing`), `handle` sees `Err` and charges
a failure: the window's counter moves (or the window is revoked at the threshold) — while the
session, created for a valid proof, stays. The property's "every failed proof is counted" is
over-fulfilled here (a *successful* proof is counted as well); no failed proof goes uncounted. -/
theorem final_send_failure_is_charged (s : St) (x : Nat) (hf : findTask s x = none)
    (hfin : finishingNow s x = true) :
    (step s (.dead x)).1.sessions = s.sessions ∧ (step s (.dead x)).1.table = s.table ∧
    (step s (.dead x)).1.window =
      (match s.window with
       | some w => if w.failures + 1 ≥ maxFailures then none else some { w with failures := w.failures + 1 }
       | none => none) ∧
    finishingNow (step s (.dead x)).1 x = false := by
  simp only [step, hf, hfin, if_true]
  refine ⟨by simp, by simp, by simp only [recordFailure_window]; cases s.window <;> rfl, ?_⟩
  unfold finishingNow
  simp only [recordFailure_finishing, recordFailure_now]
  rw [List.any_eq_false]
  intro e he
  simp only [List.mem_filter, bne_iff_ne, ne_eq] at he
  simp [he.2]

/-- after a successful Pake3 the responder is delivering its final status report -/
theorem success_is_finishing (s : St) (x : Nat) (t : Task) (exp : Conf) (wid : Nat) (w : Window)
    (ht : findTask s x = some t) (hst : t.stage = .waitPake3 exp wid)
    (hnone : (updateSessionTimeout s x false).2 = none)
    (hw : s.window = some w) (hid : w.id = wid) (hexp : s.now ≤ w.expiry) :
    finishingNow (step s (.pake3 x (.mac exp))).1 x = true := by
  have hcw : (checkWindowTimeout (updateSessionTimeout s x false).fst).window = some w := by
    unfold checkWindowTimeout
    simp only [updateSessionTimeout_window, updateSessionTimeout_now, hw]
    split
    · omega
    · simp [hw]
  simp only [step, ht, hnone, hst, hcw, hid]
  simp [finishingNow, removeTask]

/-! ## Non-vacuity -/
namespace Ex2
open Ex

/-- two handshakes in progress at once (the second started after the first one's marker expired — its
peer advertised SAI = 1000 ms, so its receive timer has not fired): hypotheses of
`concurrent_handshakes_expect_distinct` / `replay_across_handshakes_refused` -/
def twoLive : List Op :=
  [.openWin 7 180, .pbkdf 1 (.params (some 1000) none none) none, .pake1 1 (.valid 5), .tick 61000,
   .pbkdf 2 .good none, .pake1 2 (.valid 5)]
example : (run {} twoLive).tasks.map (fun t => (t.exch, t.stage)) =
    [(2, .waitPake3 { pw := 7, ctx := 3, pA := 5, pB := 4 } 0), (1, .waitPake3 { pw := 7, ctx := 1, pA := 5, pB := 2 } 0)] := by
  decide
/-- the first handshake's `cA` replayed on the second exchange: refused and charged -/
example : (step (run {} twoLive) (.pake3 2 (.mac { pw := 7, ctx := 1, pA := 5, pB := 2 }))).1.sessions = [] ∧
    ((step (run {} twoLive) (.pake3 2 (.mac { pw := 7, ctx := 1, pA := 5, pB := 2 }))).1.window.map (·.failures)) = some 1 := by
  decide
/-- `replay_of_completed_handshake_refused`: the honest run's `cA` sent again by a second initiator -/
example : (run {} (honest ++ [.pbkdf 2 .good none, .pake1 2 (.valid 5), .pake3 2 (.mac conf)])).sessions.length = 1 := by decide

/-- `failures_never_decrease`: hypotheses satisfiable (one failure, then an honest handshake, same window) -/
example : ((run {} [.openWin 7 180, .pbkdf 1 .good none, .pake1 1 (.valid 5), .pake3 1 (.junk 0)]).window.map (fun w => (w.id, w.failures))) = some (0, 1) ∧
    ((run {} [.openWin 7 180, .pbkdf 1 .good none, .pake1 1 (.valid 5), .pake3 1 (.junk 0), .pbkdf 2 .good none]).window.map (fun w => (w.id, w.failures))) = some (0, 1) := by
  decide

/-- `advertised_at_most_one_poll_after_expiry`: a history polled every second; 400 ms after the expiry
the node is still advertised (the bound is attained within the period), after the next poll it is not -/
example : PollOK 180000 0 {} [.openWin 7 180, .tick 180000, .poll] := by decide
example : PollOK pollPeriodMs 0 {} [.openWin 7 180, .tick 1000, .poll, .tick 400] ∧
    advertised (run {} [.openWin 7 180, .tick 1000, .poll, .tick 400]) = true := by decide
/-- expired at 180000, still advertised at 180400 (last poll at 179600) — gone at the poll of 180600 -/
def lateHist : List Op := (List.replicate 179 [Op.tick 1000, .poll]).flatten ++ [.tick 600, .poll, .tick 800]
example : advertised (run {} (.openWin 7 180 :: lateHist)) = true ∧ (run {} (.openWin 7 180 :: lateHist)).now = 180400 ∧
    advertised (run {} (.openWin 7 180 :: lateHist ++ [.tick 200, .poll])) = false := by decide +kernel

/-- **a handshake that stalls with SAI = 1000 ms**: the receive timeout (84936 ms) exceeds the marker's
60 s, so after 61 s the next message — here the *right* Pake1, then nothing is left for a Pake3 — is
answered `SessionNotFound`; no session, the failure counter stays 0 (`stale_marker_message_not_examined`) -/
def stalled : List Op := [.openWin 7 180, .pbkdf 1 (.params (some 1000) none none) none, .tick 61000]
example : (step (run {} stalled) (.pake1 1 (.valid 5))).2 = .statusSessionNotFound ∧
    ((step (run {} stalled) (.pake1 1 (.valid 5))).1.window.map (·.failures)) = some 0 ∧
    (step (run {} stalled) (.pake1 1 (.valid 5))).1.tasks = [] := by decide
example : ∃ t m, findTask (run {} stalled) 1 = some t ∧ (run {} stalled).marker = some m ∧ (run {} stalled).now > m.deadline :=
  ⟨{ exch := 1, stage := .waitPake1 1, since := 0, mrp := applyParams defaultMrp (some 1000) none none },
    { exch := 1, deadline := 60000 }, by decide, by decide, by decide⟩
/-- … with the default MRP parameters the receive timer comes first: the hypothesis `hfit` holds -/
example : rxTimeoutMs defaultMrp localActiveMs + sendLadderMs defaultMrp < estTimeoutMs := by decide
example : ¬ (rxTimeoutMs (applyParams defaultMrp (some 1000) none none) localActiveMs < estTimeoutMs) := by decide

/-- `final_send_failure_is_charged`: the honest run, then the final status report is never acknowledged:
one session, one counted failure -/
example : (run {} (honest ++ [.tick 4000, .dead 1])).sessions.length = 1 ∧
    ((run {} (honest ++ [.tick 4000, .dead 1])).window.map (·.failures)) = some 1 := by decide
/-- … only once, and only until the latest instant of the `TxTimeout` -/
example : ((run {} (honest ++ [.dead 1, .dead 1])).window.map (·.failures)) = some 1 := by decide
example : txGiveUpMs defaultMrp = 6926 := by decide
example : ((run {} (honest ++ [.tick 7000, .dead 1])).window.map (·.failures)) = some 0 := by decide
end Ex2

end C02
