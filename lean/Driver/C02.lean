import RsMatterVerif.Model.Pase
import Driver.Util
/-! Driver for C02: replays the harness' scripts (window operations, virtual time, PASE initiators
played message by message against the real responder) on `Model/Pase` and evaluates the
specification on the implementation's observations: a PASE session appears only at a Pake3 that
carries the right proof for the right transcript while the window is open; failures are counted;
the window is revoked at the threshold; advertised ⇔ window present. -/
namespace Driver.C02
open Pase

abbrev KV := List (String × String)

def kvOf (ws : List String) : KV :=
  ws.filterMap fun w =>
    match w.splitOn "=" with
    | k :: v :: rest => some (k, "=".intercalate (v :: rest))
    | _ => none

def KV.get (m : KV) (k : String) : Option String := (m.find? (·.1 = k)).map (·.2)
def KV.num (m : KV) (k : String) : Nat := ((m.get k).bind String.toNat?).getD 0

/-- what initiator `k` knows (symbolically) -/
structure Ini where
  k : Nat
  ctx : Option Nat := none
  pw : Nat := 0
  /-- the window instance whose salt / iteration count the PBKDFParamResponse carried -/
  salt : Nat := 0
  pB : Option Nat := none
  /-- the exchange is still usable from the initiator's side -/
  live : Bool := true

def Ini.conf (i : Ini) : Option Conf :=
  match i.ctx, i.pB with
  | some c, some b => some { pw := i.pw * 1000 + i.salt, ctx := c, pA := i.k, pB := b }
  | _, _ => none

/-- the specification's own book-keeping (written from the property text, independent of `step`) -/
structure Spec where
  /-- window: (passcode, expiry, failures) -/
  win : Option (Nat × Nat × Nat) := none
  sessions : Nat := 0
  /-- the window expired and the device was not yet seen without it (allowed until the next poll) -/
  lingering : Bool := false

structure St where
  m : Pase.St := {}
  devPw : Nat := 0
  /-- a handshake message is mutated in flight: the case is judged by the oracle only -/
  tamper : Bool := false
  /-- number of windows opened so far: every window draws a fresh salt, so its verifier (the
  model's passcode class) is (passcode, window instance) -/
  opens : Nat := 0
  t0 : Option Nat := none
  inis : List Ini := []
  /-- time (ms, case-relative) at which the responder task of exchange `x` last heard from its peer -/
  last : List (Nat × Nat) := []
  spec : Spec := {}

/-- the responder's own receive timeout lies between these bounds (MRP ladders + 30 s processing
allowance); scripts never leave a live handshake idle for a time in between -/
def aliveBelowMs : Nat := 30000
def deadAboveMs : Nat := 45000

def obsOf (s : Pase.St) : String :=
  let w := if s.window.isSome then "1" else "0"
  let f := match s.window with | some x => toString x.failures | none => "-"
  let mk := if s.marker.isSome then "1" else "0"
  let adv := if advertised s then "1" else "0"
  s!"w={w} f={f} m={mk} s={s.sessions.length} adv={adv}"

def replyOf : Out → String
  | .none => "silent"
  | .ok => "ok"
  | .errBusy => "err:Busy"
  | .errInvalidCommand => "err:InvalidCommand"
  | .pbkdfResp _ => "pbkdfresp"
  | .pake2 _ => "pake2"
  | .statusSuccess => "status:0"
  | .statusInvalidParameter => "status:2"
  | .statusBusy => "status:4"
  | .statusSessionNotFound => "status:3"
  | .dropped => "silent"

def touch (st : St) (x now : Nat) : St := { st with last := (x, now) :: st.last.filter (·.1 ≠ x) }

/-- let responder tasks whose peer stayed silent beyond the receive timeout die; `none` = a task is
inside the indeterminate band -/
def reap (st : St) (now : Nat) : Option St :=
  st.m.tasks.foldl (fun acc t =>
    match acc with
    | none => none
    | some st =>
      match st.last.find? (·.1 = t.exch) with
      | none => some st
      | some (_, l) =>
        if now ≥ l + deadAboveMs then some { st with m := (step st.m (.dead t.exch)).1 }
        else if now > l + aliveBelowMs then none
        else some st) (some st)

def specExpire (sp : Spec) (now : Nat) : Spec :=
  match sp.win with
  | some (_, e, _) => if now > e then { sp with win := none, lingering := true } else sp
  | none => sp

def step (st : St) (line : String) : St × String :=
  let (op, out) := splitArrow line
  match words op with
  | "case" :: _ :: rest => ({ devPw := (kvOf rest).num "pw", tamper := ((kvOf rest).get "tamper").isSome }, "case")
  | head :: rest =>
    let m := kvOf rest
    -- impl answer: `t=<ms> <reply> | <observation>`
    let (lhs, obs) := match out.splitOn " | " with
      | [a, b] => (a, b)
      | _ => (out, "")
    let lw := words lhs
    let t := ((lw.head?.map (fun w => (w.drop 2).toString)).bind String.toNat?).getD 0
    let reply := " ".intercalate (lw.drop 1)
    if reply = "skip" then (st, "ok") else
    if st.tamper then
      -- single-bit mutation of a handshake message in flight: no PASE session may result
      let s := (kvOf (words obs)).num "s"
      if obs ≠ "" && s > 0 then (st, "ORA session although a handshake message was mutated in flight")
      else (st, "ok")
    else
    let t0 := st.t0.getD t
    let now := t - t0
    let st := { st with t0 := some t0 }
    -- virtual time is an input: bring the model to `now`, reaping dead handshakes first
    match reap st now with
    | none => (st, "BAD a live handshake idles inside the receive-timeout band (generator must avoid this)")
    | some st =>
    let st := { st with m := (Pase.step st.m (.tick (now - st.m.now))).1 }
    let sp := st.spec
    let k := m.num "i"
    let ini := (st.inis.find? (·.k = k)).getD { k := k }
    let setIni (st : St) (i : Ini) : St := { st with inis := i :: st.inis.filter (·.k ≠ i.k) }
    -- the model operation(s)
    let (mop, st) : Option Op × St :=
      match head with
      | "open" => (some (.openWin (st.devPw * 1000 + st.opens + 1) (m.num "t")), st)
      | "revoke" => (some .revoke, st)
      | "tick" => (some (.tick (m.num "ms")), st)
      | "poll" => (some .poll, st)
      | "pbkdf" =>
        let r := match m.get "req" with
          | some "malformed" => Req.malformed
          | some "pid" => Req.passcodeIdNonZero
          | _ => Req.good
        (some (.pbkdf k r), setIni st { k := k })
      | "pake1" =>
        let p := match m.get "pt" with
          | some "zero" => Pt.identity
          | some "offcurve" => Pt.offCurve
          | some "short" => Pt.malformed
          | _ => Pt.valid k
        (some (.pake1 k p), setIni st { ini with pw := m.num "pw" })
      | "pake3" =>
        let good := ini.conf
        let c : Option CA := match m.get "ca" with
          | some "flip" => some (.junk 1)
          | some "zero" => some (.junk 0)
          | some "short" => some .malformed
          | some "good" | none => good.map .mac
          | some other =>
            match other.splitOn ":" with
            | ["replay", j] =>
              match ((st.inis.find? (·.k = j.toNat?.getD 0)).bind Ini.conf) with
              | some cj => some (.mac cj)
              | none => some (.junk 2)
            | _ => some (.junk 3)
        (c.map (.pake3 k ·), st)
      | "abort" => (some (.other k), st)
      | _ => (none, st)
    match mop with
    | none => (st, "BAD op")
    | some mop =>
      let (m', o) := Pase.step st.m mop
      -- handshakes whose peer stays silent throughout a long `tick` die inside it
      let reaped : Option Pase.St :=
        if head = "tick" then (reap { st with m := m' } (now + m.num "ms")).map (·.m) else some m'
      match reaped with
      | none => (st, "BAD a live handshake idles inside the receive-timeout band (generator must avoid this)")
      | some m' =>
      -- what the initiator learns from the answer
      let st := match o with
        | .pbkdfResp ctx => setIni st { (st.inis.find? (·.k = k)).getD { k := k } with ctx := some ctx, salt := st.opens }
        | .ok => if head = "open" then { st with opens := st.opens + 1 } else st
        | .pake2 pB => setIni st { (st.inis.find? (·.k = k)).getD { k := k } with pB := some pB }
        | _ => st
      let st := if head = "pbkdf" || head = "pake1" || head = "pake3" || head = "abort" then touch st k now else st
      -- the op itself takes (virtual) time: the observation is made after it
      let st := { st with m := m' }
      -- ---------------- specification on the implementation's observation ----------------
      let o' := kvOf (words obs)
      let implW := o'.get "w" = some "1"
      let implS := o'.num "s"
      let implAdv := o'.get "adv" = some "1"
      let implF := (o'.get "f").bind String.toNat?
      let sp := specExpire sp now
      -- expected-by-spec effects of the op on the window
      let sp := match head with
        | "open" => if reply = "ok" then { sp with win := some (st.devPw, now + m.num "t" * 1000, 0) } else sp
        | "revoke" => { sp with win := none }
        | _ => sp
      -- (1) a session appears only at a Pake3 with the right passcode, an unmodified / unreplayed
      --     confirmation, while the window is open (present and unexpired)
      let c1 : Option String :=
        if implS > sp.sessions then
          if head ≠ "pake3" then some s!"a PASE session appeared at a `{head}` step"
          else if implS > sp.sessions + 1 then some "more than one session appeared"
          else if (m.get "ca").getD "good" ≠ "good" then some "session although the confirmation was mutated / replayed"
          else if ini.pw ≠ st.devPw then some "session although the passcode was wrong"
          else if sp.win.isNone then some "session although no commissioning window is open (closed or expired)"
          else none
        else if implS < sp.sessions then some "a session disappeared"
        else none
      -- (2) advertised ⇔ window present
      let c2 : Option String :=
        if implAdv ≠ implW then some "commissionable mDNS record and window presence disagree" else none
      -- (3) the window is revoked once the counter reaches the threshold
      let c3 : Option String :=
        if (implF.getD 0) ≥ 20 then some s!"window still open with {implF.getD 0} counted failures (the property says twenty)" else none
      -- (4) a failed proof is counted: after a Pake3 answered `InvalidParameter` the counter moved or the window is gone
      let c4 : Option String :=
        if head = "pake3" && reply = "status:2" && implW then
          match sp.win, implF with
          | some (_, _, f), some f' => if f' = f + 1 then none else some s!"failed proof not counted ({f} -> {f'})"
          | _, _ => none
        else none
      -- (5) no window by the spec's book-keeping (revoked / never opened / expired and polled) => none reported
      let c5 : Option String :=
        if implW && sp.win.isNone then
          (if sp.lingering && head ≠ "poll" then none
           else some "a window is reported although it was revoked, never opened, or expired and polled")
        else none
      let ora : Option String := c1 <|> c2 <|> c3 <|> c4 <|> c5
      let sp := { sp with lingering := sp.lingering && implW }
      let sp := { sp with sessions := implS,
                          win := if implW then (match sp.win, implF with
                                                | some (p, e, _), some f => some (p, e, f)
                                                | w, _ => w)
                                 else (if sp.win.isSome && (implF.isNone) then none else sp.win) }
      let st := { st with spec := sp }
      match ora with
      | some why => (st, s!"ORA {why}")
      | none =>
        let mo := s!"{replyOf o} | {obsOf m'}"
        let io := s!"{reply} | {obs}"
        -- `tick` / `poll` / `abort` print `-` as reply
        let mo := if head = "tick" || head = "poll" || head = "abort" then s!"- | {obsOf m'}" else mo
        let mo := if head = "revoke" then s!"ok | {obsOf m'}" else mo
        if mo = io then (st, "ok") else (st, s!"DIS {mo}")
  | _ => (st, "BAD line")

def run : IO UInt32 := Driver.runLoop ({} : St) step

end Driver.C02
