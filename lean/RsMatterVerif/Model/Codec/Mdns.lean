/-!
# Model of the mDNS wire format produced / consumed by rs-matter's builtin mDNS

Anchors: `transport/network/mdns/builtin/query.rs` (`parse_into_answer`, `MdnsTxt`, `MdnsAddrs`,
`build_query`), `builtin/respond.rs` (`Host::broadcast` and the `add_*` record pushers),
`builtin/types.rs` (`NameSlice`, `Txt`, `Buf`).

rs-matter leans on the `domain` crate (0.12) for the wire level. The model therefore has two layers:

* **dependency behaviour, specified by the model and checked by correspondence** (section A):
  the `octseq::Parser` cursor (`pos`/`len`), `ParsedName::parse` (two phases, compression pointers),
  `ParsedName::skip`, `Question::parse`, `ParsedRecord::parse` / `skip`, the section walk of
  `Message::answer()` / `additional()`, `to_record::<Srv|Ptr|A|Aaaa|UnknownRecordData>` and name
  equality. The control structure that decides accept / reject (length checks, `name_len >= 255`,
  `ptr >= pos - 2`, "trailing data") is followed one to one; every index / slice / `usize`
  subtraction is a checked operation (`PErr.panic`). The label iterator of an already validated
  name (`ParsedNameIter::get_label`) is abstracted: the model collects the labels while validating.
* **rs-matter's own code, transliterated branch by branch** (section B): the three passes of
  `parse_into_answer`, `MdnsTxt::next`, `MdnsAddrs::next`; (section C) the encoder: `NameSlice`
  label emission, `Txt::compose_rdata`, `Buf::append_slice`, the record order and classes / TTLs of
  `Host::broadcast`, `build_query`.

Bytes are `Nat`, byte strings `List Nat`. Pointer following runs on fuel (`nameRun`);
`Lemmas/CodecMdns.lean` proves that the fuel handed out by `parseName` is never exhausted.
-/
namespace Codec.Mdns

/-! ## A. wire level (`octseq` / `domain`) -/

inductive PErr
  | shortInput      -- octseq `ShortInput` / `ParseError::ShortInput`
  | badLabel        -- "invalid label type" (a length octet 0x40..0xBF)
  | longName        -- "long domain name"
  | compression     -- "too many compression pointers": a pointer that does not point strictly backwards
  | trailing        -- "trailing data in option": record data longer than what its type consumes
  | shortMessage    -- `ShortMessage`: fewer than 12 octets
  | bufferTooSmall  -- encoder: `ShortBuf` / `PushError` -> `ErrorCode::BufferTooSmall`
  | fuel            -- the model's step budget ran out (proved impossible)
  | panic           -- the Rust code would panic here (proved impossible for the parsers)
deriving DecidableEq, Repr, Inhabited

def PErr.name : PErr → String
  | .shortInput => "short" | .badLabel => "badlabel" | .longName => "longname" | .compression => "compression"
  | .trailing => "trailing" | .shortMessage => "MdnsError" | .bufferTooSmall => "BufferTooSmall"
  | .fuel => "fuel" | .panic => "panic"

/-- errors that rs-matter's `let Ok(x) = … else { continue }` must not be allowed to hide in the model -/
def PErr.fatal (e : PErr) : Bool := e == .panic || e == .fuel

abbrev R := Except PErr

/-- `octseq::Parser`: the octets are passed separately; `pos` and `len` are absolute indexes -/
structure P where
  pos : Nat
  len : Nat
deriving DecidableEq, Repr, Inhabited

/-- big-endian value of a few octets -/
def be (l : List Nat) : Nat := l.foldl (fun a b => a * 256 + b) 0

/-- `check_len(n)` (with `remaining() = len - pos`, a `usize` subtraction) followed by reading the `n` octets
at `pos` (`peek` / `parse_octets`: a slice of the octets) and `pos += n` -/
def take (d : List Nat) (p : P) (n : Nat) : R (List Nat × P) :=
  if p.len < p.pos then .error .panic
  else if p.len - p.pos < n then .error .shortInput
  else if p.pos + n ≤ d.length then .ok ((d.drop p.pos).take n, { p with pos := p.pos + n })
  else .error .panic

def parseU8 (d : List Nat) (p : P) : R (Nat × P) := do let (b, p) ← take d p 1; pure (be b, p)
def parseU16 (d : List Nat) (p : P) : R (Nat × P) := do let (b, p) ← take d p 2; pure (be b, p)
def parseU32 (d : List Nat) (p : P) : R (Nat × P) := do let (b, p) ← take d p 4; pure (be b, p)

/-- `advance(n)` -/
def advance (p : P) (n : Nat) : R P :=
  if p.len < p.pos then .error .panic
  else if n > p.len - p.pos then .error .shortInput
  else .ok { p with pos := p.pos + n }

/-- `parse_parser(n)`: a parser over the next `n` octets (same octets, `len = pos + n`) -/
def subParser (p : P) (n : Nat) : R P :=
  if p.len < p.pos then .error .panic
  else if p.len - p.pos < n then .error .shortInput
  else .ok { pos := p.pos, len := p.pos + n }

/-- `LabelType` -/
inductive LT
  | normal (n : Nat)
  | ptr (target : Nat)
deriving DecidableEq, Repr

/-- `LabelType::parse`: 0..=0x3F a label of that length, 0xC0..=0xFF a 14-bit pointer, otherwise an error -/
def parseLabelType (d : List Nat) (p : P) : R (LT × P) := do
  let (t, p) ← parseU8 d p
  if t ≤ 0x3F then pure (.normal t, p)
  else if 0xC0 ≤ t then do
    let (lo, p) ← parseU8 d p
    pure (.ptr (lo + t % 64 * 256), p)
  else throw .badLabel

/-- what rs-matter can observe of a `ParsedName`: its labels (without the root label), the length of
the uncompressed name and the `is_compressed` flag -/
structure Name where
  labels : List (List Nat)
  nameLen : Nat
  compressed : Bool
deriving DecidableEq, Repr, Inhabited

/-- loop state of `ParsedName::parse_ref` -/
structure NS where
  /-- the parser that walks (phase one: the caller's parser; phase two: the temporary copy) -/
  p : P
  nameLen : Nat
  /-- labels so far, last one first -/
  acc : List (List Nat)
  compressed : Bool
  /-- `some q`: phase two; the caller's parser stopped at `q`, right behind the first pointer -/
  outer : Option P
deriving Repr

inductive Step
  | more (s : NS)
  | done (n : Name) (p : P)

/-- one turn of the label loop of `parse_ref` (both phases): read a label type and act on it -/
def nameStep (d : List Nat) (s : NS) : R Step := do
  let (lt, p1) ← parseLabelType d s.p
  match lt with
  | .normal n =>
    if n = 0 then
      -- root label: the name is complete
      pure (.done { labels := s.acc.reverse, nameLen := s.nameLen + 1, compressed := s.compressed } (s.outer.getD p1))
    else do
      -- `parser.advance(label_len)?` (the octets are read later by the label iterator), then the length test
      let (label, p2) ← take d p1 n
      if s.nameLen + n + 1 ≥ 255 then throw .longName
      else pure (.more { s with p := p2, nameLen := s.nameLen + n + 1, acc := label :: s.acc })
  | .ptr t =>
    -- head of the phase-two loop: `if ptr >= parser.pos() - 2 { ExcessiveCompression }`, `seek(ptr)?`
    if p1.pos < 2 then throw .panic
    else if t ≥ p1.pos - 2 then throw .compression
    else if t > p1.len then throw .shortInput
    else pure (.more { s with p := { p1 with pos := t }, compressed := decide (s.nameLen ≠ 0), outer := some (s.outer.getD p1) })

def nameRun : Nat → List Nat → NS → R (Name × P)
  | 0, _, _ => .error .fuel
  | f + 1, d, s =>
    match nameStep d s with
    | .error e => .error e
    | .ok (.done n p) => .ok (n, p)
    | .ok (.more s') => nameRun f d s'

/-- enough for every input (`Mdns.parseName_fuel`): at most 127 labels, between two labels at most `len`
pointers because each pointer points strictly backwards -/
def nameFuel (p : P) : Nat := 256 * (p.len + 2)

/-- `ParsedName::parse`; answers the name and the caller's parser behind the name -/
def parseName (d : List Nat) (p : P) : R (Name × P) :=
  nameRun (nameFuel p) d { p := p, nameLen := 0, acc := [], compressed := false, outer := none }

/-- `ParsedName::skip`: only the uncompressed part is looked at; stops behind the first pointer -/
def skipRun : Nat → List Nat → P → Nat → R P
  | 0, _, _, _ => .error .fuel
  | f + 1, d, p, len => do
    let (lt, p1) ← parseLabelType d p
    match lt with
    | .normal n =>
      if n = 0 then
        if len + 1 > 255 then throw .longName else pure p1
      else do
        let p2 ← advance p1 n
        if len + n + 1 > 255 then throw .longName else skipRun f d p2 (len + n + 1)
    | .ptr _ => pure p1

def skipName (d : List Nat) (p : P) : R P := skipRun (p.len + 1) d p 0

/-- ASCII lower case (`eq_ignore_ascii_case`) -/
def lower (b : Nat) : Nat := if 65 ≤ b ∧ b ≤ 90 then b + 32 else b

/-- `ToName::name_eq`: label by label, ignoring ASCII case -/
def nameEq (a b : Name) : Bool := a.labels.map (·.map lower) == b.labels.map (·.map lower)

def RT_A : Nat := 1
def RT_PTR : Nat := 12
def RT_TXT : Nat := 16
def RT_AAAA : Nat := 28
def RT_SRV : Nat := 33
def CLASS_IN : Nat := 1
def CLASS_IN_FLUSH : Nat := 0x8001

/-- `ParsedRecord`: header + a parser positioned at the record data -/
structure Rec where
  owner : Name
  rtype : Nat
  cls : Nat
  ttl : Nat
  rdlen : Nat
  data : P
deriving Repr, Inhabited

/-- `ParsedRecord::parse` = `RecordHeader::parse_ref`, copy of the parser, `advance(rdlen)` -/
def parseRecord (d : List Nat) (p : P) : R (Rec × P) := do
  let (owner, p) ← parseName d p
  let (rtype, p) ← parseU16 d p
  let (cls, p) ← parseU16 d p
  let (ttl, p) ← parseU32 d p
  let (rdlen, p) ← parseU16 d p
  let p' ← advance p rdlen
  pure ({ owner, rtype, cls, ttl, rdlen, data := p }, p')

/-- `ParsedRecord::skip` = `parse_rdlen` (`ParsedName::skip`, 8 octets, `u16`) + `advance(rdlen)` -/
def skipRecord (d : List Nat) (p : P) : R P := do
  let p ← skipName d p
  let p ← advance p 8
  let (rdlen, p) ← parseU16 d p
  advance p rdlen

/-- 16-bit header field at octet `i` (the header is known to be complete) -/
def hdrU16 (d : List Nat) (i : Nat) : Nat := d.getD i 0 * 256 + d.getD (i + 1) 0

/-- the QR flag: top bit of octet 2 -/
def qr (d : List Nat) : Bool := d.getD 2 0 / 128 % 2 = 1

/-- `QuestionSection::next_section`: `Question::parse` (name, type, class) `qdcount` times -/
def skipQuestions : Nat → List Nat → P → R P
  | 0, _, p => pure p
  | n + 1, d, p => do
    let (_, p) ← parseName d p
    let (_, p) ← parseU16 d p
    let (_, p) ← parseU16 d p
    skipQuestions n d p

/-- `RecordSection::next_section`: `skip_next` `count` times -/
def skipRecords : Nat → List Nat → P → R P
  | 0, _, p => pure p
  | n + 1, d, p => do
    let p ← skipRecord d p
    skipRecords n d p

/-- `msg.answer()`: the parser at the start of the answer section -/
def answerStart (d : List Nat) : R P := skipQuestions (hdrU16 d 4) d { pos := 12, len := d.length }

/-- `msg.additional()` = `answer()?.next_section()?.unwrap().next_section()?.unwrap()` -/
def additionalStart (d : List Nat) : R P := do
  let p ← answerStart d
  let p ← skipRecords (hdrU16 d 6) d p
  skipRecords (hdrU16 d 8) d p

/-- the records a `for record in section { let Ok(record) = record else { continue }; … }` loop sees:
the iterator yields an error once and then ends -/
def records : Nat → List Nat → P → R (List Rec)
  | 0, _, _ => pure []
  | n + 1, d, p =>
    match parseRecord d p with
    | .ok (r, p') => do let rs ← records n d p'; pure (r :: rs)
    | .error e => if e.fatal then .error e else pure []

/-- `let Ok(section) = section else { continue };` -/
def sectionRecords (start : R P) (count : Nat) (d : List Nat) : R (List Rec) :=
  match start with
  | .ok p => records count d p
  | .error e => if e.fatal then .error e else pure []

/-- the record sequence every pass of `parse_into_answer` walks: `[msg.answer(), msg.additional()]` -/
def allRecords (d : List Nat) : R (List Rec) := do
  let a ← sectionRecords (answerStart d) (hdrU16 d 6) d
  let b ← sectionRecords (additionalStart d) (hdrU16 d 10) d
  pure (a ++ b)

/-- end of `parse_into_record`: `Some` data with octets left over is an error -/
def finish {α : Type} (sp : P) (x : α) : R (Option α) :=
  if sp.len < sp.pos then .error .panic
  else if sp.len - sp.pos > 0 then .error .trailing
  else .ok (some x)

/-- `record.to_record::<Srv<_>>()`: (port, target) -/
def toSrv (d : List Nat) (r : Rec) : R (Option (Nat × Name)) := do
  let sp ← subParser r.data r.rdlen
  if r.rtype ≠ RT_SRV then pure none
  else do
    let (_, sp) ← parseU16 d sp
    let (_, sp) ← parseU16 d sp
    let (port, sp) ← parseU16 d sp
    let (target, sp) ← parseName d sp
    finish sp (port, target)

/-- `record.to_record::<Ptr<_>>()` -/
def toPtr (d : List Nat) (r : Rec) : R (Option Name) := do
  let sp ← subParser r.data r.rdlen
  if r.rtype ≠ RT_PTR then pure none
  else do
    let (n, sp) ← parseName d sp
    finish sp n

/-- `record.to_record::<A>()` / `::<Aaaa>()`: exactly 4 / 16 octets -/
def toAddr (rt n : Nat) (d : List Nat) (r : Rec) : R (Option (List Nat)) := do
  let sp ← subParser r.data r.rdlen
  if r.rtype ≠ rt then pure none
  else do
    let (a, sp) ← take d sp n
    finish sp a

/-- `record.to_record::<UnknownRecordData<_>>()`: all the record data, whatever the type -/
def toUnknown (d : List Nat) (r : Rec) : R (Option (List Nat)) := do
  let sp ← subParser r.data r.rdlen
  if sp.len < sp.pos then throw .panic
  let (a, sp) ← take d sp (sp.len - sp.pos)
  finish sp a

/-! ## B. rs-matter: `parse_into_answer`, `MdnsTxt`, `MdnsAddrs` -/

/-- rs-matter's `if let Ok(Some(x)) = …`: a value or nothing (a model-level panic / fuel error is kept) -/
def okSome {α : Type} (r : R (Option α)) : R (Option α) :=
  match r with
  | .ok x => .ok x
  | .error e => if e.fatal then .error e else .ok none

/-- the four `let mut` of pass 1 -/
structure Acc where
  inst : Option Name := none
  host : Option Name := none
  port : Option Nat := none
  haveSrv : Bool := false
deriving Repr

/-- body of the pass-1 loop -/
def pass1Step (d : List Nat) (a : Acc) (r : Rec) : R Acc := do
  match ← okSome (toSrv d r) with
  | some (port, target) => pure { inst := some r.owner, host := some target, port := some port, haveSrv := true }
  | none =>
    if !a.haveSrv && a.inst.isNone then
      match ← okSome (toPtr d r) with
      | some n => pure { a with inst := some n }
      | none => pure a
    else pure a

def pass1 (d : List Nat) : List Rec → Acc → R Acc
  | [], a => pure a
  | r :: rs, a => do let a' ← pass1Step d a r; pass1 d rs a'

/-- the `'txt` loop: the first TXT record owned by the instance decides (`break 'txt`) -/
def findTxt (d : List Nat) (inst : Name) : List Rec → R (List Nat)
  | [] => pure []
  | r :: rs =>
    if r.rtype ≠ RT_TXT || !nameEq r.owner inst then findTxt d inst rs
    else do
      match ← okSome (toUnknown d r) with
      | some data => pure data
      | none => pure []

/-- `core::str::from_utf8(..).is_ok()` (Unicode table 3-7: no overlong forms, no surrogates, ≤ U+10FFFF) -/
def cont (b : Nat) : Bool := 0x80 ≤ b && b ≤ 0xBF

def validUtf8 : List Nat → Bool
  | [] => true
  | b0 :: r =>
    if b0 < 0x80 then validUtf8 r
    else if 0xC2 ≤ b0 ∧ b0 ≤ 0xDF then
      match r with
      | b1 :: r => cont b1 && validUtf8 r
      | _ => false
    else if 0xE0 ≤ b0 ∧ b0 ≤ 0xEF then
      match r with
      | b1 :: b2 :: r =>
        (if b0 = 0xE0 then 0xA0 ≤ b1 && b1 ≤ 0xBF else if b0 = 0xED then 0x80 ≤ b1 && b1 ≤ 0x9F else cont b1)
          && cont b2 && validUtf8 r
      | _ => false
    else if 0xF0 ≤ b0 ∧ b0 ≤ 0xF4 then
      match r with
      | b1 :: b2 :: b3 :: r =>
        (if b0 = 0xF0 then 0x90 ≤ b1 && b1 ≤ 0xBF else if b0 = 0xF4 then 0x80 ≤ b1 && b1 ≤ 0x8F else cont b1)
          && cont b2 && cont b3 && validUtf8 r
      | _ => false
    else false

/-- `s.find('=')`: byte index of the first `=` -/
def findEq : List Nat → Option Nat
  | [] => none
  | b :: r => if b = 0x3D then some 0 else (findEq r).map (· + 1)

/-- checked `data[i]` -/
def index (l : List Nat) (i : Nat) : R Nat :=
  match l[i]? with
  | some x => .ok x
  | none => .error .panic

/-- checked `&data[a..b]` -/
def slice (l : List Nat) (a b : Nat) : R (List Nat) :=
  if a ≤ b ∧ b ≤ l.length then .ok ((l.drop a).take (b - a)) else .error .panic

/-- `MdnsTxt::next` on `{ data, pos }`: the next `key=value` pair and the new `pos` -/
def txtNext (data : List Nat) : Nat → Nat → R (Option ((List Nat × List Nat) × Nat))
  | 0, _ => .error .fuel
  | f + 1, pos =>
    if pos < data.length then do
      let len ← index data pos
      let start := pos + 1
      let stop := min (start + len) data.length
      -- `self.pos = end`
      let s ← slice data start stop
      if validUtf8 s then
        match findEq s with
        | some eq => do
          let k ← slice s 0 eq
          let v ← slice s (eq + 1) s.length
          pure (some ((k, v), stop))
        | none => txtNext data f stop
      else txtNext data f stop
    else pure none

/-- draining the iterator -/
def txtAll (data : List Nat) : Nat → Nat → R (List (List Nat × List Nat))
  | 0, _ => .error .fuel
  | f + 1, pos => do
    match ← txtNext data (data.length + 1) pos with
    | none => pure []
    | some (kv, pos') => do let rest ← txtAll data f pos'; pure (kv :: rest)

def txtPairs (data : List Nat) : R (List (List Nat × List Nat)) := txtAll data (data.length + 1) 0

/-- the `if let Ok(Some(rec)) = to_record::<A>() … else if let Ok(Some(rec)) = to_record::<Aaaa>() … else continue` -/
def addrOf (d : List Nat) (r : Rec) : R (Option (List Nat)) := do
  match ← okSome (toAddr RT_A 4 d r) with
  | some a => pure (some a)
  | none => okSome (toAddr RT_AAAA 16 d r)

/-- the record loop of `MdnsAddrs::next` with its `seen` counter (shared by both sections) -/
def addrsWalk (d : List Nat) (t : Name) (yielded : Nat) : List Rec → Nat → R (Option (List Nat))
  | [], _ => pure none
  | r :: rs, seen =>
    if !nameEq r.owner t then addrsWalk d t yielded rs seen
    else do
      match ← addrOf d r with
      | none => addrsWalk d t yielded rs seen
      | some a => if seen = yielded then pure (some a) else addrsWalk d t yielded rs (seen + 1)

/-- `MdnsAddrs::next` -/
def addrsNext (d : List Nat) (recs : List Rec) (target : Option Name) (yielded : Nat) : R (Option (List Nat)) :=
  match target with
  | none => pure none
  | some t => addrsWalk d t yielded recs 0

/-- draining the iterator (`yielded` = 0, 1, 2, …) -/
def addrsAll (d : List Nat) (recs : List Rec) (target : Option Name) : Nat → Nat → R (List (List Nat))
  | 0, _ => .error .fuel
  | f + 1, yielded => do
    match ← addrsNext d recs target yielded with
    | none => pure []
    | some a => do let rest ← addrsAll d recs target f (yielded + 1); pure (a :: rest)

/-- `MdnsRemoteService` with the two lazy iterators drained -/
structure Answer where
  inst : Name
  port : Option Nat
  addrs : List (List Nat)
  txt : List (List Nat × List Nat)
  scope : Nat
deriving Repr

/-- `parse_into_answer(data, ipv6_scope)` -/
def parseIntoAnswer (d : List Nat) (scope : Option Nat) : R (Option Answer) :=
  if d.length < 12 then .error .shortMessage
  else if !qr d then pure none
  else do
    let recs ← allRecords d
    let acc ← pass1 d recs {}
    match acc.inst with
    | none => pure none
    | some inst => do
      let txtData ← findTxt d inst recs
      let txt ← txtPairs txtData
      let addrs ← addrsAll d recs acc.host (recs.length + 1) 0
      pure (some { inst, port := acc.port, addrs, txt, scope := scope.getD 0 })

/-! ## C. encoder: `NameSlice`, `Txt`, `Host::broadcast`, `build_query` -/

def u16be (x : Nat) : List Nat := [x / 256 % 256, x % 256]
def u32be (x : Nat) : List Nat := [x / 16777216 % 256, x / 65536 % 256, x / 256 % 256, x % 256]

/-- one label: `[len as u8] ++ bytes` (`Label::compose`) -/
def encLabel (l : List Nat) : List Nat := l.length % 256 :: l

/-- wire form of a name given by its labels, uncompressed (`Buf` uses the default `Composer`), root label last -/
def encName (labels : List (List Nat)) : List Nat := labels.flatMap encLabel ++ [0]

/-- `NameSliceIter::next`: `unwrap!(Label::from_slice(..), "Unreachable")` panics for a label of more than 63 octets -/
def nameSliceOk (labels : List (List Nat)) : Bool := labels.all (·.length ≤ 63)

/-- a resource record: owner, type, class, TTL, RDLENGTH, RDATA -/
def encRecord (owner : List (List Nat)) (rtype cls ttl : Nat) (rdata : List Nat) : List Nat :=
  encName owner ++ u16be rtype ++ u16be cls ++ u32be ttl ++ u16be rdata.length ++ rdata

/-- `Txt::compose_rdata` -/
def encTxt (kvs : List (List Nat × List Nat)) : List Nat :=
  if kvs.isEmpty then [0]
  else kvs.flatMap fun (k, v) => ((k.length + v.length + 1) % 256) :: (k ++ [0x3D] ++ v)

def LOCAL : List Nat := [108, 111, 99, 97, 108]                    -- "local"
def SUB : List Nat := [95, 115, 117, 98]                           -- "_sub"
def DNS_SD : List (List Nat) :=                                     -- `_services._dns-sd._udp.local`
  [[95, 115, 101, 114, 118, 105, 99, 101, 115], [95, 100, 110, 115, 45, 115, 100], [95, 117, 100, 112], LOCAL]

/-- `Host` -/
structure HostCfg where
  hostname : List Nat
  ip : List Nat            -- 4 octets
  ipv6 : List (List Nat)   -- 16 octets each
deriving Repr

/-- `MdnsLocalService` (the fields the builtin responder uses) -/
structure Svc where
  name : List Nat
  service : List Nat
  protocol : List Nat
  port : Nat
  subtypes : List (List Nat)
  txt : List (List Nat × List Nat)
deriving Repr

def hostFqdn (h : HostCfg) : List (List Nat) := [h.hostname, LOCAL]
def serviceFqdn (s : Svc) : List (List Nat) := [s.name, s.service, s.protocol, LOCAL]
def serviceTypeFqdn (s : Svc) : List (List Nat) := [s.service, s.protocol, LOCAL]
def subtypeFqdn (s : Svc) (sub : List Nat) : List (List Nat) := [sub, SUB, s.service, s.protocol, LOCAL]

/-- a record to be pushed: (owner, type, class, ttl, rdata, labels of every name composed for it) -/
structure RecSpec where
  owner : List (List Nat)
  rtype : Nat
  cls : Nat
  ttl : Nat
  rdata : List Nat
  /-- further names composed through `NameSlice` inside the record data -/
  inner : List (List Nat) := []
deriving Repr

def RecSpec.bytes (r : RecSpec) : List Nat := encRecord r.owner r.rtype r.cls r.ttl r.rdata

def isUnspecified (a : List Nat) : Bool := a.all (· == 0)

/-- the records of `Host::broadcast`, in push order -/
def broadcastRecords (h : HostCfg) (s : Svc) (hostTtl svcTtl : Nat) : List RecSpec :=
  -- add_ipv4
  (if isUnspecified h.ip then [] else [{ owner := hostFqdn h, rtype := RT_A, cls := CLASS_IN_FLUSH, ttl := hostTtl, rdata := h.ip }])
  -- add_ipv6
  ++ (h.ipv6.filter (fun a => !isUnspecified a)).map
      (fun a => { owner := hostFqdn h, rtype := RT_AAAA, cls := CLASS_IN_FLUSH, ttl := hostTtl, rdata := a })
  -- add_service
  ++ [{ owner := serviceFqdn s, rtype := RT_SRV, cls := CLASS_IN_FLUSH, ttl := svcTtl,
        rdata := u16be 0 ++ u16be 0 ++ u16be s.port ++ encName (hostFqdn h), inner := hostFqdn h }]
  -- add_service_type
  ++ [{ owner := serviceTypeFqdn s, rtype := RT_PTR, cls := CLASS_IN, ttl := svcTtl,
        rdata := encName (serviceFqdn s), inner := serviceFqdn s }]
  -- add_dns_sd_service_type
  ++ [{ owner := DNS_SD, rtype := RT_PTR, cls := CLASS_IN, ttl := hostTtl,
        rdata := encName (serviceTypeFqdn s), inner := serviceTypeFqdn s }]
  -- add_service_subtype, per subtype
  ++ s.subtypes.map (fun sub =>
      { owner := subtypeFqdn s sub, rtype := RT_PTR, cls := CLASS_IN, ttl := svcTtl,
        rdata := encName (serviceFqdn s), inner := serviceFqdn s })
  -- add_txt
  ++ [{ owner := serviceFqdn s, rtype := RT_TXT, cls := CLASS_IN_FLUSH, ttl := svcTtl, rdata := encTxt s.txt }]

/-- header of a response: id 0, QR + AA, opcode QUERY, rcode NOERROR, `ancount` answers -/
def responseHeader (ancount : Nat) : List Nat := [0, 0, 0x84, 0] ++ u16be 0 ++ u16be ancount ++ u16be 0 ++ u16be 0

/-- the message of `Host::broadcast` when nothing goes wrong -/
def broadcastBytes (h : HostCfg) (s : Svc) (hostTtl svcTtl : Nat) : List Nat :=
  let rs := broadcastRecords h s hostTtl svcTtl
  responseHeader rs.length ++ rs.flatMap RecSpec.bytes

/-- `Host::broadcast(service, buf, host_ttl, service_ttl)` into a buffer of `cap` octets: records are pushed
one by one; a `NameSlice` label of more than 63 octets panics when it is reached; a record that does not
fit ends with `BufferTooSmall`; more than 65535 octets of TXT data panic (`expect("long data")`) -/
def pushAll (cap : Nat) : List RecSpec → Nat → R Unit
  | [], _ => pure ()
  | r :: rs, used =>
    if !nameSliceOk r.owner then
      -- the owner is composed label by label: everything before the long label must fit first
      .error (if used + (encName (r.owner.takeWhile (·.length ≤ 63))).length - 1 > cap then .bufferTooSmall else .panic)
    else if !nameSliceOk r.inner then
      -- `rdlen()` = `compose_len()` of the inner name walks its labels right after owner, type, class and ttl
      .error (if used + (encName r.owner).length + 8 > cap then .bufferTooSmall else .panic)
    else if used + r.bytes.length > cap then .error .bufferTooSmall
    else if r.rdata.length > 65535 then .error .panic
    else pushAll cap rs (used + r.bytes.length)

def broadcast (h : HostCfg) (s : Svc) (hostTtl svcTtl cap : Nat) : R (List Nat) :=
  if cap < 12 then .error .bufferTooSmall
  else do
    pushAll cap (broadcastRecords h s hostTtl svcTtl) 12
    pure (broadcastBytes h s hostTtl svcTtl)

/-- `build_query(name, rtype, buf)`: id 0, all flags clear, one question of class IN -/
def queryBytes (name : List (List Nat)) (rtype : Nat) : List Nat :=
  [0, 0, 0, 0] ++ u16be 1 ++ u16be 0 ++ u16be 0 ++ u16be 0 ++ encName name ++ u16be rtype ++ u16be CLASS_IN

/-! ### well-formedness of what is encoded (the "legal field values" of the round-trip theorems) -/

/-- a DNS name: every label 1..63 octets, at most 255 octets on the wire -/
def NameWF (labels : List (List Nat)) : Prop :=
  (∀ l ∈ labels, 1 ≤ l.length ∧ l.length ≤ 63) ∧ (encName labels).length ≤ 255

instance (labels : List (List Nat)) : Decidable (NameWF labels) := inferInstanceAs (Decidable (_ ∧ _))

end Codec.Mdns
