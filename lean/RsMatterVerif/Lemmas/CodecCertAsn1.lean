import RsMatterVerif.Model.Codec.CertAsn1
import RsMatterVerif.Lemmas.CodecDer
/-!
# Lemmas about the certificate conversion model (`Model/Codec/CertAsn1.lean`)

* calendar: `daysFromCivil (civilFromDays n) = n`, year bounds, and "a time the writer writes reads back as
  the same instant" (`parseTime_timeStr`), UTCTime and GeneralizedTime alike;
* `encode` on a readable certificate performs exactly the operations of `certNode`;
* the fields read back from the DER (`certFieldsOfDer`) are the certificate's fields.
-/
namespace Codec.CertAsn1
open Codec Codec.Der

/-! ## calendar -/

theorem yoe_facts (doe yoe : Nat) (h : doe < 146097) (hyoe : yoe = (doe - doe / 1460 + doe / 36524 - doe / 146096) / 365) :
    yoe ≤ 399 ∧ 365 * yoe + yoe / 4 - yoe / 100 ≤ doe ∧ doe - (365 * yoe + yoe / 4 - yoe / 100) ≤ 365 := by
  have h1 : doe / 36524 = 0 ∨ doe / 36524 = 1 ∨ doe / 36524 = 2 ∨ doe / 36524 = 3 ∨ doe / 36524 = 4 := by omega
  have h2 : doe / 146096 = 0 ∨ doe / 146096 = 1 := by omega
  have hy : yoe ≤ 400 := by omega
  have h3 : yoe / 100 = 0 ∨ yoe / 100 = 1 ∨ yoe / 100 = 2 ∨ yoe / 100 = 3 ∨ yoe / 100 = 4 := by omega
  rcases h1 with h1 | h1 | h1 | h1 | h1 <;> rcases h2 with h2 | h2 <;> rcases h3 with h3 | h3 | h3 | h3 | h3 <;> omega

theorem mp_facts (doy mp : Nat) (h : doy ≤ 365) (hmp : mp = (5 * doy + 2) / 153) :
    mp ≤ 11 ∧ (153 * mp + 2) / 5 ≤ doy ∧ doy - (153 * mp + 2) / 5 ≤ 30 := by
  omega

theorem civil_core (days z era doe yoe doy mp : Nat) (hz : z = days + 719468) (hera : era = z / 146097)
    (hdoe : doe = z % 146097) (hyoe : yoe = (doe - doe / 1460 + doe / 36524 - doe / 146096) / 365)
    (hdoy : doy = doe - (365 * yoe + yoe / 4 - yoe / 100)) (hmp : mp = (5 * doy + 2) / 153) :
    daysFromCivil (if (if mp < 10 then mp + 3 else mp - 9) ≤ 2 then yoe + era * 400 + 1 else yoe + era * 400)
      (if mp < 10 then mp + 3 else mp - 9) (doy - (153 * mp + 2) / 5 + 1) = days ∧
    1 ≤ (if mp < 10 then mp + 3 else mp - 9) ∧ (if mp < 10 then mp + 3 else mp - 9) ≤ 12 ∧
    1 ≤ doy - (153 * mp + 2) / 5 + 1 ∧ doy - (153 * mp + 2) / 5 + 1 ≤ 31 := by
  have hd : doe < 146097 := by omega
  obtain ⟨y1, y2, y3⟩ := yoe_facts doe yoe hd hyoe
  obtain ⟨m1, m2, m3⟩ := mp_facts doy mp (by omega) hmp
  have hz' : z = 146097 * era + doe := by omega
  unfold daysFromCivil
  dsimp only
  by_cases hm : mp < 10
  · simp only [hm, if_true]
    have h1 : ¬ (mp + 3 ≤ 2) := by omega
    simp only [h1, if_false, show mp + 3 > 2 by omega, if_true]
    refine ⟨?_, by omega, by omega, by omega, by omega⟩
    have e1 : (yoe + era * 400) / 400 = era := by omega
    have e2 : (yoe + era * 400) % 400 = yoe := by omega
    rw [e1, e2]
    omega
  · simp only [hm, if_false]
    have h1 : mp - 9 ≤ 2 := by omega
    simp only [h1, if_true, show ¬ (mp - 9 > 2) by omega, if_false]
    refine ⟨?_, by omega, by omega, by omega, by omega⟩
    have e1 : (yoe + era * 400 + 1 - 1) / 400 = era := by omega
    have e2 : (yoe + era * 400 + 1 - 1) % 400 = yoe := by omega
    rw [e1, e2]
    omega

/-- the calendar date of a day number converts back to the day number; month and day are in range -/
theorem civil_roundtrip (days : Nat) :
    daysFromCivil (civilFromDays days).1 (civilFromDays days).2.1 (civilFromDays days).2.2 = days ∧
    1 ≤ (civilFromDays days).2.1 ∧ (civilFromDays days).2.1 ≤ 12 ∧
    1 ≤ (civilFromDays days).2.2 ∧ (civilFromDays days).2.2 ≤ 31 :=
  civil_core days _ _ _ _ _ _ rfl rfl rfl rfl rfl rfl

theorem year_lower (y m d : Nat) (hm1 : 1 ≤ m) (hm2 : m ≤ 12) (hd1 : 1 ≤ d) (hd2 : d ≤ 31)
    (h : 10957 ≤ daysFromCivil y m d) : 2000 ≤ y := by
  unfold daysFromCivil at h
  dsimp only at h
  by_cases hm : m ≤ 2
  · simp only [hm, if_true, show ¬ m > 2 by omega, if_false] at h
    omega
  · simp only [hm, if_false, show m > 2 by omega, if_true] at h
    omega

theorem year_upper (y m d : Nat) (hm1 : 1 ≤ m) (hm2 : m ≤ 12) (hd1 : 1 ≤ d) (hd2 : d ≤ 31)
    (h : daysFromCivil y m d ≤ 2932896) : y ≤ 9999 := by
  unfold daysFromCivil at h
  dsimp only at h
  by_cases hm : m ≤ 2
  · simp only [hm, if_true, show ¬ m > 2 by omega, if_false] at h
    omega
  · simp only [hm, if_false, show m > 2 by omega, if_true] at h
    omega

theorem decVal_dec2 (n : Nat) (h : n < 100) : decVal (dec2 n) = some n := by
  simp [decVal, dec2, digit, isDigit]
  omega

theorem decVal_dec4 (n : Nat) (h : n < 10000) : decVal (dec4 n) = some n := by
  simp [decVal, dec4, digit, isDigit]
  omega

/-- a time the writer can write (not beyond 9999-12-31T23:59:59Z) reads back as the same instant -/
theorem parseTime_timeStr (e : Nat) (h : MATTER_EPOCH_SECS + e ≤ MAX_UNIX) :
    ∃ tag s, timeStr e = some (tag, s) ∧ parseTime (.prim tag s) = some e := by
  have hE : MATTER_EPOCH_SECS = 946684800 := rfl
  have hM : MAX_UNIX = 253402300799 := rfl
  obtain ⟨r1, r2, r3, r4, r5⟩ := civil_roundtrip ((MATTER_EPOCH_SECS + e) / 86400)
  have hy1 := year_lower _ _ _ r2 r3 r4 r5 (by rw [r1]; omega)
  have hy2 := year_upper _ _ _ r2 r3 r4 r5 (by rw [r1]; omega)
  unfold timeStr civilOfUnix
  dsimp only
  rw [if_neg (show ¬ (MATTER_EPOCH_SECS + e > MAX_UNIX) by omega)]
  generalize hc : civilFromDays ((MATTER_EPOCH_SECS + e) / 86400) = c at *
  obtain ⟨y, m, d⟩ := c
  simp only at r1 r2 r3 r4 r5 hy1 hy2 ⊢
  have hh : (MATTER_EPOCH_SECS + e) % 86400 / 3600 < 24 := by omega
  have hi : (MATTER_EPOCH_SECS + e) % 86400 % 3600 / 60 < 60 := by omega
  have hs : (MATTER_EPOCH_SECS + e) % 86400 % 60 < 60 := by omega
  have hunix : daysFromCivil y m d * 86400 + (MATTER_EPOCH_SECS + e) % 86400 / 3600 * 3600
      + (MATTER_EPOCH_SECS + e) % 86400 % 3600 / 60 * 60 + (MATTER_EPOCH_SECS + e) % 86400 % 60
      = MATTER_EPOCH_SECS + e := by rw [r1]; omega
  by_cases hg : y ≥ 2050
  · refine ⟨_, _, by simp only [hg, if_true]; rfl, ?_⟩
    simp only [parseTime, dec4, dec2, List.cons_append, List.nil_append, show (0x18 : Nat) ≠ 0x17 by decide, if_false, if_true]
    have := decVal_dec4 y (by omega)
    simp only [dec4] at this
    simp only [this, Option.bind_eq_bind, Option.bind_some, show ¬ y < 2050 by omega, if_false]
    have e1 := decVal_dec2 m (by omega); have e2 := decVal_dec2 d (by omega)
    have e3 := decVal_dec2 _ (show (MATTER_EPOCH_SECS + e) % 86400 / 3600 < 100 by omega)
    have e4 := decVal_dec2 _ (show (MATTER_EPOCH_SECS + e) % 86400 % 3600 / 60 < 100 by omega)
    have e5 := decVal_dec2 _ (show (MATTER_EPOCH_SECS + e) % 86400 % 60 < 100 by omega)
    simp only [dec2] at e1 e2 e3 e4 e5
    simp only [e1, e2, e3, e4, e5, Option.bind_some, unixOfCivil, hunix]
    rw [if_neg (by omega), if_neg (by omega)]
    exact congrArg some (by omega)
  · refine ⟨_, _, by simp only [hg, if_false]; rfl, ?_⟩
    simp only [parseTime, dec2, List.cons_append, List.nil_append, if_true]
    have := decVal_dec2 (y % 100) (by omega)
    simp only [dec2] at this
    simp only [this, Option.bind_eq_bind, Option.bind_some, show y % 100 < 50 by omega, if_true,
      show 2000 + y % 100 = y by omega]
    have e1 := decVal_dec2 m (by omega); have e2 := decVal_dec2 d (by omega)
    have e3 := decVal_dec2 _ (show (MATTER_EPOCH_SECS + e) % 86400 / 3600 < 100 by omega)
    have e4 := decVal_dec2 _ (show (MATTER_EPOCH_SECS + e) % 86400 % 3600 / 60 < 100 by omega)
    have e5 := decVal_dec2 _ (show (MATTER_EPOCH_SECS + e) % 86400 % 60 < 100 by omega)
    simp only [dec2] at e1 e2 e3 e4 e5
    simp only [e1, e2, e3, e4, e5, Option.bind_some, unixOfCivil, hunix]
    rw [if_neg (by omega), if_neg (by omega)]
    exact congrArg some (by omega)


/-! ## `encode` on a readable certificate = a list of operations -/
/-- a list of writer operations, `?` after each -/
def runM (ops : List Op) : M Unit := fun w =>
  match w.run ops with
  | .ok w' => .ok ((), w')
  | .error e => .error (.w e)

theorem bind_def {α β : Type} (x : M α) (f : α → M β) (w : W) :
    (x >>= f) w = match x w with | .ok (a, w') => f a w' | .error e => .error e := by
  simp only [bind, StateT.bind, Except.bind]
  cases x w with
  | error e => rfl
  | ok p => rfl

theorem run_append (w : W) (a b : List Op) : w.run (a ++ b) = (w.run a >>= fun w' => w'.run b) := by
  induction a generalizing w with
  | nil => simp [W.run, bind, Except.bind, pure, Except.pure]
  | cons o r ih =>
    simp only [List.cons_append, W.run, bind, Except.bind]
    cases w.step o with
    | error e => rfl
    | ok w1 => simp only []; rw [ih]; rfl

@[simp] theorem runM_nil : runM [] = (pure () : M Unit) := by
  funext w; simp [runM, W.run, pure, StateT.pure, Except.pure]

theorem op_eq (o : Op) : op o = runM [o] := by
  funext w
  simp only [op, runM, W.run, bind, Except.bind, pure, Except.pure]
  cases w.step o <;> rfl

theorem runM_append (a b : List Op) : runM (a ++ b) = (runM a >>= fun _ => runM b) := by
  funext w
  rw [bind_def]
  simp only [runM, run_append, bind, Except.bind]
  cases w.run a with
  | error e => rfl
  | ok w1 => rfl

@[simp] theorem runM_bind_runM (a b : List Op) : (runM a >>= fun _ => runM b) = runM (a ++ b) := (runM_append a b).symm

@[simp] theorem runM_bind_runM_bind {β : Type} (a b : List Op) (k : Unit → M β) :
    (runM a >>= fun _ => (runM b >>= k)) = (runM (a ++ b) >>= k) := by
  rw [runM_append]
  funext w
  simp only [bind_def]
  cases runM a w with
  | error e => rfl
  | ok p => rfl

@[simp] theorem get_ok_bind {α β : Type} (a : α) (k : α → M β) : (get (.ok a) >>= k) = k a := by
  funext w; rw [bind_def]; rfl

@[simp] theorem pure_bind_M {α β : Type} (a : α) (k : α → M β) : ((pure a : M α) >>= k) = k a := by
  funext w; rw [bind_def]; rfl

@[simp] theorem runM_bind_pure (a : List Op) : (runM a >>= fun _ => (pure () : M Unit)) = runM a := by
  funext w; rw [bind_def]
  simp only [runM]
  cases w.run a <;> rfl


/-! ### the operations `encode` performs for a readable certificate -/

def strOp (p : Bool × List Nat) : Op := if p.1 then .printstr p.2 else .utf8str p.2

def attrOps (a : Attr) : List Op :=
  match DN_ENCODING[a.tag - 1]? with
  | some (oid, expected) =>
    match attrString expected a.val with
    | some p => [.startSet, .startSeq, .oid oid, strOp p, .endSeq, .endSet]
    | none => []
  | none => []

def dnOps (l : List Attr) : List Op := .startSeq :: (l.flatMap attrOps ++ [.endSeq])

def ekuOps (t : Nat) : List Op :=
  match EKU_ENCODING[t]? with
  | some oid => [.oid oid]
  | none => []

def extStartOps (critical : Bool) (oid : List Nat) : List Op :=
  [.startSeq, .oid oid] ++ (if critical then [.bool true] else []) ++ [.startOstr]

def extOps : XExt → List Op
  | .basic isCa path =>
    extStartOps true OID_BASIC_CONSTRAINTS ++ [.startSeq] ++ (if isCa then [.bool true] else []) ++
      (match path with | some len => [.integer (pathInt len)] | none => []) ++ [.endSeq, .endOstr, .endSeq]
  | .keyUsage v => extStartOps true OID_KEY_USAGE ++ [.bitstr true (keyUsageBytes v), .endOstr, .endSeq]
  | .extKeyUsage l => extStartOps true OID_EXT_KEY_USAGE ++ [.startSeq] ++ l.flatMap ekuOps ++ [.endSeq, .endOstr, .endSeq]
  | .subjKeyId b => extStartOps false OID_SUBJ_KEY_IDENTIFIER ++ [.ostr b, .endOstr, .endSeq]
  | .authKeyId b => extStartOps false OID_AUTH_KEY_ID ++ [.startSeq, .ctx 0 b, .endSeq, .endOstr, .endSeq]
  | .future b => [.raw b]

def certOps (f : Fields) : List Op :=
  [.startSeq, .startCtx 0, .integer [2], .endCtx, .integer f.serial, .startSeq, .oid OID_ECDSA_WITH_SHA256, .endSeq] ++
  dnOps f.issuer ++
  [.startSeq, .utctime f.notBefore, .utctime (if f.notAfter = 0 then DOESNT_EXPIRE else f.notAfter), .endSeq] ++
  dnOps f.subject ++
  [.startSeq, .startSeq, .oid OID_PUB_KEY_ECPUBKEY, .oid OID_EC_TYPE_PRIME256V1, .endSeq, .bitstr false f.pubkey, .endSeq] ++
  [.startCtx 3, .startSeq] ++ f.exts.flatMap extOps ++ [.endSeq, .endCtx, .endSeq]

def Attr.WF (a : Attr) : Prop :=
  1 ≤ a.tag ∧ a.tag ≤ 22 ∧ (match a.val with | .uint v => 17 ≤ a.tag ∧ v < 18446744073709551616 | _ => True)

theorem attr_string_some (a : Attr) (h : a.WF) :
    ∃ oid expected p, DN_ENCODING[a.tag - 1]? = some (oid, expected) ∧ attrString expected a.val = some p := by
  obtain ⟨h1, h2, h3⟩ := h
  obtain ⟨tag, val⟩ := a
  simp only at h1 h2 h3 ⊢
  have : tag = 1 ∨ tag = 2 ∨ tag = 3 ∨ tag = 4 ∨ tag = 5 ∨ tag = 6 ∨ tag = 7 ∨ tag = 8 ∨ tag = 9 ∨ tag = 10 ∨ tag = 11 ∨
      tag = 12 ∨ tag = 13 ∨ tag = 14 ∨ tag = 15 ∨ tag = 16 ∨ tag = 17 ∨ tag = 18 ∨ tag = 19 ∨ tag = 20 ∨ tag = 21 ∨ tag = 22 := by omega
  cases val with
  | utf8 s => rcases this with rfl | rfl | rfl | rfl | rfl | rfl | rfl | rfl | rfl | rfl | rfl | rfl | rfl | rfl | rfl | rfl | rfl | rfl | rfl | rfl | rfl | rfl <;> exact ⟨_, _, _, rfl, rfl⟩
  | printable s => rcases this with rfl | rfl | rfl | rfl | rfl | rfl | rfl | rfl | rfl | rfl | rfl | rfl | rfl | rfl | rfl | rfl | rfl | rfl | rfl | rfl | rfl | rfl <;> exact ⟨_, _, _, rfl, rfl⟩
  | uint v =>
    have : tag = 17 ∨ tag = 18 ∨ tag = 19 ∨ tag = 20 ∨ tag = 21 ∨ tag = 22 := by omega
    rcases this with rfl | rfl | rfl | rfl | rfl | rfl <;> exact ⟨_, _, _, rfl, rfl⟩

theorem dnEncode_eq (v : DnVal) (oid : List Nat) (expected : Option IntLen) (p : Bool × List Nat)
    (h : attrString expected v = some p) :
    dnEncode (.ok v) oid expected = runM [.startSet, .startSeq, .oid oid, strOp p, .endSeq, .endSet] := by
  unfold dnEncode
  cases v with
  | uint x =>
    cases expected with
    | none => simp [attrString] at h
    | some il =>
      cases il <;> simp [attrString] at h <;> subst h <;> simp [op_eq, strOp, dnValue]
  | utf8 s => simp [attrString] at h; subst h; simp [op_eq, strOp, dnValue]
  | printable s => simp [attrString] at h; subst h; simp [op_eq, strOp, dnValue]

theorem dnLoop_eq (l : List Attr) (h : ∀ a ∈ l, a.WF) :
    dnLoop (l.map fun a => .ok { tag := some a.tag, value := .ok a.val }) = runM (l.flatMap attrOps) := by
  induction l with
  | nil => simp [dnLoop]
  | cons a r ih =>
    obtain ⟨oid, expected, p, h1, h2⟩ := attr_string_some a (h a (by simp))
    have hlt : a.tag - 1 ≤ DN_ENCODING.length := by
      have := (h a (by simp)).2.1
      simp [DN_ENCODING]; omega
    simp only [List.map_cons, dnLoop, dnItem, get_ok_bind, hlt, if_true, h1, List.flatMap_cons, attrOps, h2]
    rw [dnEncode_eq _ _ _ _ h2, ih (fun a ha => h a (by simp [ha]))]
    simp

theorem dnEncodeAll_eq (l : List Attr) (h : ∀ a ∈ l, a.WF) :
    dnEncodeAll (l.map fun a => .ok { tag := some a.tag, value := .ok a.val }) = runM (dnOps l) := by
  simp only [dnEncodeAll, dnLoop_eq l h, op_eq, dnOps]
  simp

def XExt.WF : XExt → Prop
  | .basic _ path => ∀ p, path = some p → p < 256
  | .keyUsage v => v < 65536
  | .extKeyUsage l => ∀ t ∈ l, 1 ≤ t ∧ t ≤ 6
  | .subjKeyId _ => True
  | .authKeyId _ => True
  | .future b => (∀ x ∈ b, x < 256) ∧ ∃ d c, d.WF ∧ b = d.enc ∧ parseExt d = some { critical := c, ext := .future b }

theorem ekuLoop_eq (l : List Nat) (h : ∀ t ∈ l, 1 ≤ t ∧ t ≤ 6) :
    ekuLoop (l.map .ok) = runM (l.flatMap ekuOps) := by
  induction l with
  | nil => simp [ekuLoop]
  | cons t r ih =>
    have ht := h t (by simp)
    have hlen : EKU_ENCODING.length = 7 := rfl
    have : t = 1 ∨ t = 2 ∨ t = 3 ∨ t = 4 ∨ t = 5 ∨ t = 6 := by omega
    simp only [List.map_cons, ekuLoop, ekuItem, get_ok_bind, hlen, show t > 0 ∧ t < 7 by omega, if_true, List.flatMap_cons, ekuOps]
    rw [ih (fun x hx => h x (by simp [hx]))]
    rcases this with rfl | rfl | rfl | rfl | rfl | rfl <;> simp [EKU_ENCODING, op_eq]

theorem extStart_eq (c : Bool) (oid : List Nat) : extStart c oid = runM (extStartOps c oid) := by
  cases c <;> simp [extStart, extStartOps, op_eq, opIf]

theorem extEncode_eq (e : XExt) (h : e.WF) : extEncode e.lazy = runM (extOps e) := by
  cases e with
  | basic isCa path =>
    cases isCa <;> cases path <;> simp [XExt.lazy, extEncode, extOps, extStart_eq, extEnd, op_eq, opIf, opPath]
  | keyUsage v => simp [XExt.lazy, extEncode, extOps, extStart_eq, extEnd, op_eq]
  | extKeyUsage l => simp [XExt.lazy, extEncode, extOps, extStart_eq, extEnd, op_eq, ekuLoop_eq l h]
  | subjKeyId b => simp [XExt.lazy, extEncode, extOps, extStart_eq, extEnd, op_eq]
  | authKeyId b => simp [XExt.lazy, extEncode, extOps, extStart_eq, extEnd, op_eq]
  | future b => simp [XExt.lazy, extEncode, extOps, op_eq]

theorem extLoop_eq (l : List XExt) (h : ∀ e ∈ l, e.WF) :
    extLoop (l.map fun e => .ok e.lazy) = runM (l.flatMap extOps) := by
  induction l with
  | nil => simp [extLoop]
  | cons e r ih =>
    simp only [List.map_cons, extLoop, get_ok_bind, List.flatMap_cons, extEncode_eq e (h e (by simp)),
      ih (fun x hx => h x (by simp [hx]))]
    simp

/-- `encode` on a readable certificate = the list of operations `certOps` -/
theorem encode_eq (f : Fields) (h1 : f.signAlgo = 1) (h2 : f.pubkeyAlgo = 1) (h3 : f.ecCurveId = 1)
    (hi : ∀ a ∈ f.issuer, a.WF) (hs : ∀ a ∈ f.subject, a.WF) (he : ∀ e ∈ f.exts, e.WF) :
    encode f.lazy = runM (certOps f) := by
  simp only [encode, Fields.lazy, get_ok_bind, h1, h2, h3, enumOid, if_true, pure_bind_M, dnEncodeAll_eq _ hi,
    dnEncodeAll_eq _ hs, extEncodeAll, extLoop_eq _ he, op_eq, certOps]
  by_cases hz : f.notAfter = 0
  · simp [hz, notAfterOps, op_eq]
  · simp [hz, notAfterOps, op_eq]


/-! ## the operations of `certOps` are those of the tree `certNode` -/
theorem mapO_some_cons {α β : Type} (f : α → Option β) (a : α) (r : List α) (bs : List β)
    (h : mapO f (a :: r) = some bs) : ∃ b bs', f a = some b ∧ mapO f r = some bs' ∧ bs = b :: bs' := by
  simp only [mapO] at h
  cases h1 : f a with
  | none => simp [h1] at h
  | some b =>
    cases h2 : mapO f r with
    | none => simp [h1, h2] at h
    | some bs' => simp [h1, h2] at h; exact ⟨b, bs', rfl, rfl, h.symm⟩

theorem strOp_low (p : Bool × List Nat) : (strOp p).low = .tlv (if p.1 then 0x13 else 0x0c) p.2 := by
  obtain ⟨b, s⟩ := p
  cases b <;> rfl

theorem attrOps_low (a : Attr) (n : Node) (h : attrNode a = some n) : (attrOps a).map Op.low = n.lows := by
  unfold attrNode at h
  unfold attrOps
  cases h1 : DN_ENCODING[a.tag - 1]? with
  | none => simp [h1] at h
  | some p =>
    obtain ⟨oid, expected⟩ := p
    simp only [h1] at h ⊢
    cases h2 : attrString expected a.val with
    | none => simp [h2] at h
    | some q =>
      simp only [h2, Option.some.injEq] at h ⊢
      subst h
      have := strOp_low q
      simp only [List.map_cons, List.map_nil, this]
      simp [Node.lows, Node.lowsL, seq, strNode, Op.low]

theorem attrs_low (l : List Attr) (ns : List Node) (h : mapO attrNode l = some ns) :
    (l.flatMap attrOps).map Op.low = Node.lowsL ns := by
  induction l generalizing ns with
  | nil => simp [mapO] at h; subst h; rfl
  | cons a r ih =>
    obtain ⟨b, bs, h1, h2, rfl⟩ := mapO_some_cons _ _ _ _ h
    simp [List.flatMap_cons, attrOps_low a b h1, ih bs h2, Node.lowsL]

theorem dnOps_low (l : List Attr) (n : Node) (h : dnNode l = some n) : (dnOps l).map Op.low = n.lows := by
  unfold dnNode at h
  cases h1 : mapO attrNode l with
  | none => simp [h1] at h
  | some ns =>
    simp [h1] at h; subst h
    simp [dnOps, seq, Node.lows, Op.low, attrs_low l ns h1]

theorem ekuOps_low (t : Nat) (h : 1 ≤ t ∧ t ≤ 6) : (ekuOps t).map Op.low = Node.lowsL (ekuNode t) := by
  have : t = 1 ∨ t = 2 ∨ t = 3 ∨ t = 4 ∨ t = 5 ∨ t = 6 := by omega
  rcases this with rfl | rfl | rfl | rfl | rfl | rfl <;> rfl

theorem ekus_low (l : List Nat) (h : ∀ t ∈ l, 1 ≤ t ∧ t ≤ 6) :
    (l.flatMap ekuOps).map Op.low = Node.lowsL (l.flatMap ekuNode) := by
  induction l with
  | nil => rfl
  | cons t r ih =>
    simp only [List.flatMap_cons, List.map_append, lowsL_append, ekuOps_low t (h t (by simp)),
      ih (fun x hx => h x (by simp [hx]))]

theorem extOps_low (e : XExt) (h : e.WF) : (extOps e).map Op.low = (extNode e).lows := by
  cases e with
  | basic isCa path =>
    cases isCa <;> cases path <;> rfl
  | keyUsage v => rfl
  | extKeyUsage l =>
    simp only [extOps, extNode, extNodeKnown, extStartOps, seq, List.map_append, ekus_low l h]
    simp [Node.lows, Node.lowsL, Op.low]
  | subjKeyId b => rfl
  | authKeyId b => rfl
  | future b => rfl

theorem exts_low (l : List XExt) (h : ∀ e ∈ l, e.WF) :
    (l.flatMap extOps).map Op.low = Node.lowsL (l.map extNode) := by
  induction l with
  | nil => rfl
  | cons e r ih =>
    simp only [List.flatMap_cons, List.map_append, List.map_cons, Node.lowsL, extOps_low e (h e (by simp)),
      ih (fun x hx => h x (by simp [hx]))]

theorem enumOidO_some (v : Nat) (oid o : List Nat) (h : enumOidO v oid = some o) : v = 1 ∧ o = oid := by
  unfold enumOidO at h
  split at h
  · simp at h; exact ⟨by assumption, h.symm⟩
  · simp at h

theorem timeNode_low (e : Nat) (n : Node) (h : timeNode e = some n) : (Op.utctime e).low = .tlv (match n with | .prim t _ => t | _ => 0) (match n with | .prim _ c => c | _ => []) ∧ n.lows = [(Op.utctime e).low] := by
  unfold timeNode at h
  cases ht : timeStr e with
  | none => simp [ht] at h
  | some p =>
    obtain ⟨tag, s⟩ := p
    simp [ht] at h; subst h
    simp [Op.low, ht, Node.lows]

/-- the parts of a readable certificate whose conversion is defined -/
structure CertParts (f : Fields) (n : Node) : Prop where
  sa : f.signAlgo = 1
  pa : f.pubkeyAlgo = 1
  curve : f.ecCurveId = 1
  node : ∃ issuer nb na subject,
    dnNode f.issuer = some issuer ∧ timeNode f.notBefore = some nb ∧
    timeNode (if f.notAfter = 0 then DOESNT_EXPIRE else f.notAfter) = some na ∧ dnNode f.subject = some subject ∧
    n = seq [
      .cons 0xA0 [.prim 0x02 [2]], .prim 0x02 f.serial, seq [.prim 0x06 OID_ECDSA_WITH_SHA256], issuer, seq [nb, na], subject,
      seq [seq [.prim 0x06 OID_PUB_KEY_ECPUBKEY, .prim 0x06 OID_EC_TYPE_PRIME256V1], .prim 0x03 (bitstrContent false f.pubkey)],
      .cons 0xA3 [seq (f.exts.map extNode)] ]

theorem certNode_parts (f : Fields) (n : Node) (h : certNode f = some n) : CertParts f n := by
  unfold certNode at h
  simp only [bind, Option.bind, pure] at h
  cases h1 : enumOidO f.signAlgo OID_ECDSA_WITH_SHA256 with
  | none => simp [h1] at h
  | some o1 =>
    cases h2 : dnNode f.issuer with
    | none => simp [h1, h2] at h
    | some issuer =>
      cases h3 : timeNode f.notBefore with
      | none => simp [h1, h2, h3] at h
      | some nb =>
        cases h4 : timeNode (if f.notAfter = 0 then DOESNT_EXPIRE else f.notAfter) with
        | none => simp [h1, h2, h3, h4] at h
        | some na =>
          cases h5 : dnNode f.subject with
          | none => simp [h1, h2, h3, h4, h5] at h
          | some subject =>
            cases h6 : enumOidO f.pubkeyAlgo OID_PUB_KEY_ECPUBKEY with
            | none => simp [h1, h2, h3, h4, h5, h6] at h
            | some o2 =>
              cases h7 : enumOidO f.ecCurveId OID_EC_TYPE_PRIME256V1 with
              | none => simp [h1, h2, h3, h4, h5, h6, h7] at h
              | some o3 =>
                simp only [h1, h2, h3, h4, h5, h6, h7, Option.some.injEq] at h
                obtain ⟨e1, rfl⟩ := enumOidO_some _ _ _ h1
                obtain ⟨e2, rfl⟩ := enumOidO_some _ _ _ h6
                obtain ⟨e3, rfl⟩ := enumOidO_some _ _ _ h7
                exact ⟨e1, e2, e3, issuer, nb, na, subject, h2, h3, h4, h5, h.symm⟩

theorem certOps_low (f : Fields) (n : Node) (h : certNode f = some n) (he : ∀ e ∈ f.exts, e.WF) :
    (certOps f).map Op.low = n.lows := by
  obtain ⟨_, _, _, issuer, nb, na, subject, h2, h3, h4, h5, rfl⟩ := certNode_parts f n h
  obtain ⟨_, t1⟩ := timeNode_low _ _ h3
  obtain ⟨_, t2⟩ := timeNode_low _ _ h4
  simp only [certOps, List.map_append, dnOps_low _ _ h2, dnOps_low _ _ h5, exts_low _ he, seq, Node.lows, Node.lowsL,
    t1, t2]
  simp [Op.low]


/-! ## `as_asn1` writes the encoding of `certNode` -/
theorem heightL_append (a b : List Node) : Node.heightL (a ++ b) = max (Node.heightL a) (Node.heightL b) := by
  induction a with
  | nil => simp [Node.heightL]
  | cons n r ih => simp [Node.heightL, ih, Nat.max_assoc]

theorem attrNode_height (a : Attr) (n : Node) (h : attrNode a = some n) : n.height = 2 := by
  unfold attrNode at h
  cases h1 : DN_ENCODING[a.tag - 1]? with
  | none => simp [h1] at h
  | some p =>
    obtain ⟨oid, expected⟩ := p
    simp only [h1] at h
    cases h2 : attrString expected a.val with
    | none => simp [h2] at h
    | some q =>
      simp only [h2, Option.some.injEq] at h; subst h
      simp [Node.height, Node.heightL, seq, strNode]

theorem attrs_height (l : List Attr) (ns : List Node) (h : mapO attrNode l = some ns) : Node.heightL ns ≤ 2 := by
  induction l generalizing ns with
  | nil => simp [mapO] at h; subst h; simp [Node.heightL]
  | cons a r ih =>
    obtain ⟨b, bs, h1, h2, rfl⟩ := mapO_some_cons _ _ _ _ h
    have := attrNode_height a b h1
    have := ih bs h2
    simp [Node.heightL]; omega

theorem dnNode_height (l : List Attr) (n : Node) (h : dnNode l = some n) : n.height ≤ 3 := by
  unfold dnNode at h
  cases h1 : mapO attrNode l with
  | none => simp [h1] at h
  | some ns =>
    simp [h1] at h; subst h
    have := attrs_height l ns h1
    simp [seq, Node.height]; omega

theorem timeNode_height (e : Nat) (n : Node) (h : timeNode e = some n) : n.height = 0 := by
  unfold timeNode at h
  cases ht : timeStr e with
  | none => simp [ht] at h
  | some p => simp [ht] at h; subst h; rfl

theorem ekus_height (l : List Nat) : Node.heightL (l.flatMap ekuNode) = 0 := by
  induction l with
  | nil => rfl
  | cons t r ih =>
    simp only [List.flatMap_cons, heightL_append, ih]
    unfold ekuNode
    split
    · split <;> simp [Node.heightL, Node.height]
    · simp [Node.heightL]

theorem extNode_height (e : XExt) : (extNode e).height ≤ 3 := by
  cases e with
  | basic isCa path => cases isCa <;> cases path <;> simp [extNode, extNodeKnown, seq, Node.height, Node.heightL]
  | keyUsage v => simp [extNode, extNodeKnown, seq, Node.height, Node.heightL]
  | extKeyUsage l => simp [extNode, extNodeKnown, seq, Node.height, Node.heightL, ekus_height]
  | subjKeyId b => simp [extNode, extNodeKnown, seq, Node.height, Node.heightL]
  | authKeyId b => simp [extNode, extNodeKnown, seq, Node.height, Node.heightL]
  | future b => simp [extNode, Node.height]

theorem exts_height (l : List XExt) : Node.heightL (l.map extNode) ≤ 3 := by
  induction l with
  | nil => simp [Node.heightL]
  | cons e r ih => have := extNode_height e; simp [Node.heightL]; omega

theorem certNode_height (f : Fields) (n : Node) (h : certNode f = some n) : n.height ≤ 6 := by
  obtain ⟨_, _, _, issuer, nb, na, subject, h2, h3, h4, h5, rfl⟩ := certNode_parts f n h
  have := dnNode_height _ _ h2
  have := dnNode_height _ _ h5
  have := timeNode_height _ _ h3
  have := timeNode_height _ _ h4
  have := exts_height f.exts
  simp [seq, Node.height, Node.heightL]
  omega

def Fields.WF (f : Fields) : Prop :=
  (∀ a ∈ f.issuer, a.WF) ∧ (∀ a ∈ f.subject, a.WF) ∧ (∀ e ∈ f.exts, e.WF)

/-- **`as_asn1` of a readable certificate writes the encoding of `certNode`** whenever the buffer has room -/
theorem asAsn1_ok (f : Fields) (n : Node) (buf : List Nat) (hn : certNode f = some n) (hw : f.WF)
    (hl : n.lenOk) (hfit : n.need ≤ buf.length) : asAsn1 f.lazy buf = .ok n.enc := by
  obtain ⟨hi, hs, he⟩ := hw
  obtain ⟨sa, pa, cu, _⟩ := certNode_parts f n hn
  have hh := certNode_height f n hn
  obtain ⟨w, hr, hsl⟩ := run_of_lows buf (certOps f) [n] (by simp [Node.lowsL, certOps_low f n hn he])
    (by simp only [Node.heightL]; have : MAX_DEPTH = 10 := rfl; omega) ⟨hl, trivial⟩ (by simp [Node.needL]; have := need_ge n; omega)
  simp only [asAsn1, encode_eq f sa pa cu hi hs he, runM, hr, hsl]
  simp [Node.encL]


/-! ## reading the fields back -/

theorem oidIndex_table_dec : ∀ i, i < 22 → (DN_ENCODING[i]?.bind fun p => oidIndex p.1) = some i := by
  decide

theorem oidIndex_table (i : Nat) (h : i < 22) : ∃ oid e, DN_ENCODING[i]? = some (oid, e) ∧ oidIndex oid = some i := by
  have := oidIndex_table_dec i h
  cases hd : DN_ENCODING[i]? with
  | none => simp [hd] at this
  | some p => obtain ⟨oid, e⟩ := p; simp [hd] at this; exact ⟨oid, e, rfl, this⟩

theorem attr_parse (a : Attr) (n : Node) (hn : attrNode a = some n) (hw : a.WF) :
    ∃ d, n.toDer = some [d] ∧ parseAttr d = Attr.view a ∧ (Attr.view a).isSome = true := by
  obtain ⟨h1, h2, _⟩ := hw
  obtain ⟨oid, e, he, hi⟩ := oidIndex_table (a.tag - 1) (by omega)
  unfold attrNode at hn
  simp only [he] at hn
  cases hs : attrString e a.val with
  | none => simp [hs] at hn
  | some p =>
    simp only [hs, Option.some.injEq] at hn; subst hn
    obtain ⟨pr, s⟩ := p
    refine ⟨.cons 0x31 [.cons 0x30 [.prim 0x06 oid, .prim (if pr then 0x13 else 0x0c) s]], ?_, ?_, ?_⟩
    · simp [Node.toDer, Node.toDerL, seq, strNode, tagConstructed]
    · simp only [parseAttr, hi, Attr.view, he, hs, Option.map, bind, Option.bind]
      cases pr
      · simp; omega
      · simp; omega
    · simp [Attr.view, he, hs]

theorem attrs_parse (l : List Attr) (ns : List Node) (hn : mapO attrNode l = some ns) (hw : ∀ a ∈ l, a.WF) :
    ∃ ds vs, Node.toDerL ns = some ds ∧ mapO parseAttr ds = some vs ∧ mapO Attr.view l = some vs := by
  induction l generalizing ns with
  | nil => simp [mapO] at hn; subst hn; exact ⟨[], [], rfl, rfl, rfl⟩
  | cons a r ih =>
    obtain ⟨b, bs, h1, h2, rfl⟩ := mapO_some_cons _ _ _ _ hn
    obtain ⟨d, e1, e2, e3⟩ := attr_parse a b h1 (hw a (by simp))
    obtain ⟨ds, vs, f1, f2, f3⟩ := ih bs h2 (fun x hx => hw x (by simp [hx]))
    cases hv : Attr.view a with
    | none => simp [hv] at e3
    | some v =>
      refine ⟨d :: ds, v :: vs, by simp [Node.toDerL, e1, f1], ?_, ?_⟩
      · simp [mapO, e2, hv, f2]
      · simp [mapO, hv, f3]

theorem dn_parse (l : List Attr) (n : Node) (hn : dnNode l = some n) (hw : ∀ a ∈ l, a.WF) :
    ∃ d vs, n.toDer = some [d] ∧ parseDn d = some vs ∧ mapO Attr.view l = some vs := by
  unfold dnNode at hn
  cases h1 : mapO attrNode l with
  | none => simp [h1] at hn
  | some ns =>
    simp [h1] at hn; subst hn
    obtain ⟨ds, vs, f1, f2, f3⟩ := attrs_parse l ns h1 hw
    exact ⟨.cons 0x30 ds, vs, by simp [seq, Node.toDer, tagConstructed, f1], by simp [parseDn, f2], f3⟩

theorem time_parse (e : Nat) (n : Node) (hn : timeNode e = some n) :
    ∃ d, n.toDer = some [d] ∧ parseTime d = some e := by
  unfold timeNode at hn
  cases ht : timeStr e with
  | none => simp [ht] at hn
  | some p =>
    obtain ⟨tag, s⟩ := p
    simp [ht] at hn; subst hn
    have hb : MATTER_EPOCH_SECS + e ≤ MAX_UNIX := by
      unfold timeStr at ht
      by_cases h : MATTER_EPOCH_SECS + e > MAX_UNIX
      · simp [h] at ht
      · omega
    obtain ⟨tag', s', h1, h2⟩ := parseTime_timeStr e hb
    rw [ht] at h1
    simp only [Option.some.injEq, Prod.mk.injEq] at h1
    obtain ⟨rfl, rfl⟩ := h1
    exact ⟨.prim tag s, rfl, h2⟩

theorem rev_facts : ∀ x, x < 256 → reverseByte x < 256 ∧ reverseByte (reverseByte x) = x ∧ (reverseByte x = 0 → x = 0) := by
  decide +kernel

theorem rev_zero : reverseByte 0 = 0 := by decide

/-- the key-usage BIT STRING (trailing zero bytes and bits stripped) reads back as the 16-bit value -/
theorem keyUsage_parse (v : Nat) (h : v < 65536) :
    parseKeyUsage (.prim 0x03 (bitstrContent true (keyUsageBytes v))) = some v := by
  obtain ⟨a1, a2, a3⟩ := rev_facts (v % 256) (by omega)
  obtain ⟨b1, b2, b3⟩ := rev_facts (v / 256 % 256) (by omega)
  simp only [keyUsageBytes]
  generalize ha : reverseByte (v % 256) = a at *
  generalize hb : reverseByte (v / 256 % 256) = b at *
  by_cases hb0 : b = 0
  · by_cases ha0 : a = 0
    · subst hb0 ha0
      have : bitstrContent true [0, 0] = [0] := by decide
      simp only [this, parseKeyUsage]
      have h1 := a3 rfl; have h2 := b3 rfl
      simp [rev_zero]; omega
    · subst hb0
      have : bitstrContent true [a, 0] = [tz 8 a, a] := by
        simp [bitstrContent, bitstrParts, stripLen, RBuf.index, RBuf.csub, RBuf.slice, bind, Except.bind, pure, Except.pure, ha0]
      simp only [this, parseKeyUsage]
      have h2 := b3 rfl
      simp [ha0, rev_zero, a2]; omega
  · have : bitstrContent true [a, b] = [tz 8 b, a, b] := by
      simp [bitstrContent, bitstrParts, stripLen, RBuf.index, RBuf.csub, RBuf.slice, bind, Except.bind, pure, Except.pure, hb0]
    simp only [this, parseKeyUsage]
    simp [hb0, a2, b2]; omega

/-- a known extension: toDer of the wrapper and its parse, given the value's DER -/
theorem known_parse (c : Bool) (oid : List Nat) (vn : Node) (dv : Der) (x : XExt)
    (hk : knownExtOid oid = true) (hv : vn.toDer = some [dv]) (hlv : vn.lenOk) (htv : vn.tagsOk)
    (hx : extOfDer oid dv = some x) :
    ∃ d, (extNodeKnown c oid [vn]).toDer = some [d] ∧ parseExt d = some { critical := c, ext := x } := by
  obtain ⟨hw, he⟩ := toDer_enc vn hlv htv [dv] hv
  have hpd : parseDer vn.enc = some dv := by
    have := parseDer_enc dv hw.1
    simp only [Der.encL, List.append_nil] at he
    rw [← he]; exact this
  cases c with
  | true =>
    refine ⟨.cons 0x30 [.prim 0x06 oid, .prim 0x01 [0xFF], .prim 0x04 vn.enc], ?_, ?_⟩
    · simp [extNodeKnown, seq, Node.toDer, Node.toDerL, tagConstructed, Node.encL]
    · simp [parseExt, hk, parseExtValue, hpd, hx]
  | false =>
    refine ⟨.cons 0x30 [.prim 0x06 oid, .prim 0x04 vn.enc], ?_, ?_⟩
    · simp [extNodeKnown, seq, Node.toDer, Node.toDerL, tagConstructed, Node.encL]
    · simp [parseExt, hk, parseExtValue, hpd, hx]

theorem ekuIndex_table : ∀ t, t < 7 → 1 ≤ t → (EKU_ENCODING[t]?.bind ekuIndex) = some t := by decide

theorem ekus_parse (l : List Nat) (h : ∀ t ∈ l, 1 ≤ t ∧ t ≤ 6) :
    ∃ ds, Node.toDerL (l.flatMap ekuNode) = some ds ∧ mapO parseEku ds = some l ∧
      Node.tagsOkL (l.flatMap ekuNode) ∧ (Node.lenOkL (l.flatMap ekuNode)) := by
  induction l with
  | nil => exact ⟨[], rfl, rfl, trivial, trivial⟩
  | cons t r ih =>
    obtain ⟨ds, h1, h2, h3, h4⟩ := ih (fun x hx => h x (by simp [hx]))
    have ht := h t (by simp)
    have := ekuIndex_table t (by omega) ht.1
    have hlen : EKU_ENCODING.length = 7 := rfl
    cases he : EKU_ENCODING[t]? with
    | none => simp [he] at this
    | some oid =>
      simp [he] at this
      have hn : ekuNode t = [.prim 0x06 oid] := by
        unfold ekuNode
        rw [if_pos (by rw [hlen]; omega)]
        simp only [he]
      have hoid : oid.length < 65536 := by
        have : t = 1 ∨ t = 2 ∨ t = 3 ∨ t = 4 ∨ t = 5 ∨ t = 6 := by omega
        rcases this with rfl | rfl | rfl | rfl | rfl | rfl <;> simp [EKU_ENCODING] at he <;> subst he <;> decide
      refine ⟨.prim 0x06 oid :: ds, ?_, ?_, ?_, ?_⟩
      · simp [List.flatMap_cons, hn, Node.toDerL, Node.toDer, h1]
      · simp [mapO, parseEku, this, h2]
      · simp only [List.flatMap_cons, hn, List.singleton_append]
        exact ⟨⟨by decide, by decide⟩, h3⟩
      · simp only [List.flatMap_cons, hn, List.singleton_append]
        exact ⟨hoid, h4⟩


theorem known_lenOk (c : Bool) (oid : List Nat) (vn : Node) (h : (extNodeKnown c oid [vn]).lenOk) : vn.lenOk := by
  cases c <;> simp [extNodeKnown, seq, Node.lenOk, Node.lenOkL] at h <;> exact h.2.2.2

theorem known_pack (e : XExt) (c : Bool) (x : XExt) (d : Der) (h1 : (extNode e).toDer = some [d])
    (h2 : parseExt d = some { critical := c, ext := x }) (hv : e.view = some { critical := c, ext := x }) :
    ∃ ds v, (extNode e).toDer = some ds ∧ mapO parseExt ds = some [v] ∧ e.view = some v :=
  ⟨[d], { critical := c, ext := x }, h1, by simp [mapO, h2], hv⟩

theorem parsePathLen_pathInt (p : Nat) : parsePathLen (pathInt p) = some p := by
  unfold pathInt
  split
  · rename_i h; simp [parsePathLen]; omega
  · rename_i h; simp [parsePathLen]; omega

theorem ext_parse (e : XExt) (hw : e.WF) (hl : (extNode e).lenOk) :
    ∃ ds v, (extNode e).toDer = some ds ∧ mapO parseExt ds = some [v] ∧ e.view = some v := by
  cases e with
  | basic isCa path =>
    have hl' := known_lenOk _ _ _ hl
    cases isCa <;> cases path
    · obtain ⟨d, h1, h2⟩ := known_parse true OID_BASIC_CONSTRAINTS (seq []) (.cons 0x30 []) (.basic false none)
        (by decide) (by simp [seq, Node.toDer, Node.toDerL, tagConstructed]) hl' (by simp [seq, Node.tagsOk, Node.tagsOkL]; decide)
        (by simp [extOfDer])
      exact known_pack _ _ _ d h1 h2 (by simp [XExt.view, XExt.critical])
    · rename_i p
      obtain ⟨d, h1, h2⟩ := known_parse true OID_BASIC_CONSTRAINTS (seq [.prim 0x02 (pathInt p)]) (.cons 0x30 [.prim 0x02 (pathInt p)])
        (.basic false (some p))
        (by decide) (by simp [seq, Node.toDer, Node.toDerL, tagConstructed]) hl' (by simp [seq, Node.tagsOk, Node.tagsOkL]; decide)
        (by simp [extOfDer, parsePathLen_pathInt])
      exact known_pack _ _ _ d h1 h2 (by simp [XExt.view, XExt.critical])
    · obtain ⟨d, h1, h2⟩ := known_parse true OID_BASIC_CONSTRAINTS (seq [.prim 0x01 [0xFF]]) (.cons 0x30 [.prim 0x01 [0xFF]])
        (.basic true none)
        (by decide) (by simp [seq, Node.toDer, Node.toDerL, tagConstructed]) hl' (by simp [seq, Node.tagsOk, Node.tagsOkL]; decide)
        (by simp [extOfDer])
      exact known_pack _ _ _ d h1 h2 (by simp [XExt.view, XExt.critical])
    · rename_i p
      obtain ⟨d, h1, h2⟩ := known_parse true OID_BASIC_CONSTRAINTS (seq [.prim 0x01 [0xFF], .prim 0x02 (pathInt p)])
        (.cons 0x30 [.prim 0x01 [0xFF], .prim 0x02 (pathInt p)]) (.basic true (some p))
        (by decide) (by simp [seq, Node.toDer, Node.toDerL, tagConstructed]) hl' (by simp [seq, Node.tagsOk, Node.tagsOkL]; decide)
        (by simp [extOfDer, parsePathLen_pathInt])
      exact known_pack _ _ _ d h1 h2 (by simp [XExt.view, XExt.critical])
  | keyUsage v =>
    have hl' := known_lenOk _ _ _ hl
    obtain ⟨d, h1, h2⟩ := known_parse true OID_KEY_USAGE (.prim 0x03 (bitstrContent true (keyUsageBytes v)))
      (.prim 0x03 (bitstrContent true (keyUsageBytes v))) (.keyUsage v)
      (by decide) (by simp [Node.toDer]) hl' (by simp [Node.tagsOk]; decide)
      (by simp [extOfDer, show OID_KEY_USAGE ≠ OID_BASIC_CONSTRAINTS by decide, keyUsage_parse v hw])
    exact known_pack _ _ _ d h1 h2 (by simp [XExt.view, XExt.critical])
  | extKeyUsage l =>
    have hl' := known_lenOk _ _ _ hl
    obtain ⟨ds, e1, e2, e3, e4⟩ := ekus_parse l hw
    obtain ⟨d, h1, h2⟩ := known_parse true OID_EXT_KEY_USAGE (seq (l.flatMap ekuNode)) (.cons 0x30 ds) (.extKeyUsage l)
      (by decide) (by simp [seq, Node.toDer, tagConstructed, e1]) hl' (by simp only [seq, Node.tagsOk]; exact ⟨by decide, fun _ => e3⟩)
      (by simp [extOfDer, show OID_EXT_KEY_USAGE ≠ OID_BASIC_CONSTRAINTS by decide, show OID_EXT_KEY_USAGE ≠ OID_KEY_USAGE by decide, e2])
    exact known_pack _ _ _ d h1 h2 (by simp [XExt.view, XExt.critical])
  | subjKeyId b =>
    have hl' := known_lenOk _ _ _ hl
    obtain ⟨d, h1, h2⟩ := known_parse false OID_SUBJ_KEY_IDENTIFIER (.prim 0x04 b) (.prim 0x04 b) (.subjKeyId b)
      (by decide) (by simp [Node.toDer]) hl' (by simp [Node.tagsOk]; decide)
      (by simp [extOfDer, show OID_SUBJ_KEY_IDENTIFIER ≠ OID_BASIC_CONSTRAINTS by decide,
        show OID_SUBJ_KEY_IDENTIFIER ≠ OID_KEY_USAGE by decide, show OID_SUBJ_KEY_IDENTIFIER ≠ OID_EXT_KEY_USAGE by decide])
    exact known_pack _ _ _ d h1 h2 (by simp [XExt.view, XExt.critical])
  | authKeyId b =>
    have hl' := known_lenOk _ _ _ hl
    obtain ⟨d, h1, h2⟩ := known_parse false OID_AUTH_KEY_ID (seq [.prim 0x80 b]) (.cons 0x30 [.prim 0x80 b]) (.authKeyId b)
      (by decide) (by simp [seq, Node.toDer, Node.toDerL, tagConstructed]) hl' (by simp [seq, Node.tagsOk, Node.tagsOkL]; decide)
      (by simp [extOfDer, show OID_AUTH_KEY_ID ≠ OID_BASIC_CONSTRAINTS by decide,
        show OID_AUTH_KEY_ID ≠ OID_KEY_USAGE by decide, show OID_AUTH_KEY_ID ≠ OID_EXT_KEY_USAGE by decide,
        show OID_AUTH_KEY_ID ≠ OID_SUBJ_KEY_IDENTIFIER by decide])
    exact known_pack _ _ _ d h1 h2 (by simp [XExt.view, XExt.critical])
  | future b =>
    obtain ⟨_, d, c, hd, rfl, hp⟩ := hw
    refine ⟨[d], { critical := c, ext := .future d.enc }, ?_, by simp [mapO, hp], ?_⟩
    · simp only [extNode, Node.toDer]
      have := parseAll_encL [d] ⟨hd, trivial⟩
      simpa [Der.encL] using this
    · simp [XExt.view, parseDer_enc d hd, hp]


theorem mapO_append {α β : Type} (f : α → Option β) (a b : List α) (xs ys : List β)
    (ha : mapO f a = some xs) (hb : mapO f b = some ys) : mapO f (a ++ b) = some (xs ++ ys) := by
  induction a generalizing xs with
  | nil => simp [mapO] at ha; subst ha; simpa using hb
  | cons x r ih =>
    obtain ⟨y, ys', h1, h2, rfl⟩ := mapO_some_cons _ _ _ _ ha
    simp [mapO, h1, ih ys' h2]

theorem exts_parse (l : List XExt) (hw : ∀ e ∈ l, e.WF) (hl : Node.lenOkL (l.map extNode)) :
    ∃ ds vs, Node.toDerL (l.map extNode) = some ds ∧ mapO parseExt ds = some vs ∧ mapO XExt.view l = some vs := by
  induction l with
  | nil => exact ⟨[], [], rfl, rfl, rfl⟩
  | cons e r ih =>
    obtain ⟨hl1, hl2⟩ := hl
    obtain ⟨a, v, h1, h2, h3⟩ := ext_parse e (hw e (by simp)) hl1
    obtain ⟨ds, vs, f1, f2, f3⟩ := ih (fun x hx => hw x (by simp [hx])) hl2
    refine ⟨a ++ ds, v :: vs, by simp [Node.toDerL, h1, f1], ?_, by simp [mapO, h3, f3]⟩
    simpa using mapO_append parseExt a ds [v] vs h2 f2

theorem bitstrContent_false (s : List Nat) : bitstrContent false s = 0 :: s := by
  simp [bitstrContent, bitstrParts, RBuf.slice, bind, Except.bind, pure, Except.pure]

/-! ### tags of the certificate tree -/

theorem timeStr_tag (e tag : Nat) (s : List Nat) (h : timeStr e = some (tag, s)) : tag = 0x17 ∨ tag = 0x18 := by
  unfold timeStr at h
  dsimp only at h
  split at h
  · simp at h
  · split at h
    · simp at h; exact Or.inr h.1.symm
    · simp at h; exact Or.inl h.1.symm

theorem timeNode_tagsOk (e : Nat) (n : Node) (h : timeNode e = some n) : n.tagsOk := by
  unfold timeNode at h
  cases ht : timeStr e with
  | none => simp [ht] at h
  | some p =>
    obtain ⟨tag, s⟩ := p
    simp [ht] at h; subst h
    rcases timeStr_tag e tag s ht with rfl | rfl <;> exact ⟨by decide, by decide⟩

theorem attrNode_tagsOk (a : Attr) (n : Node) (h : attrNode a = some n) : n.tagsOk := by
  unfold attrNode at h
  cases h1 : DN_ENCODING[a.tag - 1]? with
  | none => simp [h1] at h
  | some p =>
    obtain ⟨oid, expected⟩ := p
    simp only [h1] at h
    cases h2 : attrString expected a.val with
    | none => simp [h2] at h
    | some q =>
      simp only [h2, Option.some.injEq] at h; subst h
      obtain ⟨pr, s⟩ := q
      cases pr <;> simp [Node.tagsOk, Node.tagsOkL, seq, strNode] <;> decide

theorem attrs_tagsOk (l : List Attr) (ns : List Node) (h : mapO attrNode l = some ns) : Node.tagsOkL ns := by
  induction l generalizing ns with
  | nil => simp [mapO] at h; subst h; trivial
  | cons a r ih =>
    obtain ⟨b, bs, h1, h2, rfl⟩ := mapO_some_cons _ _ _ _ h
    exact ⟨attrNode_tagsOk a b h1, ih bs h2⟩

theorem dnNode_tagsOk (l : List Attr) (n : Node) (h : dnNode l = some n) : n.tagsOk := by
  unfold dnNode at h
  cases h1 : mapO attrNode l with
  | none => simp [h1] at h
  | some ns =>
    simp [h1] at h; subst h
    exact ⟨by decide, fun _ => attrs_tagsOk l ns h1⟩

theorem known_tagsOk (c : Bool) (oid : List Nat) (vs : List Node) : (extNodeKnown c oid vs).tagsOk := by
  cases c
  · exact ⟨by decide, fun _ => ⟨⟨by decide, by decide⟩, ⟨by decide, fun h => absurd h (by decide)⟩, trivial⟩⟩
  · exact ⟨by decide, fun _ => ⟨⟨by decide, by decide⟩, ⟨by decide, by decide⟩, ⟨by decide, fun h => absurd h (by decide)⟩, trivial⟩⟩

theorem extNode_tagsOk (e : XExt) (hw : e.WF) : (extNode e).tagsOk := by
  cases e with
  | basic isCa path => exact known_tagsOk _ _ _
  | keyUsage v => exact known_tagsOk _ _ _
  | extKeyUsage l => exact known_tagsOk _ _ _
  | subjKeyId b => exact known_tagsOk _ _ _
  | authKeyId b => exact known_tagsOk _ _ _
  | future b => exact hw.1

theorem exts_tagsOk (l : List XExt) (hw : ∀ e ∈ l, e.WF) : Node.tagsOkL (l.map extNode) := by
  induction l with
  | nil => trivial
  | cons e r ih => exact ⟨extNode_tagsOk e (hw e (by simp)), ih (fun x hx => hw x (by simp [hx]))⟩


/-! ## the certificate round trip -/

/-- the declared bounds of a readable certificate: attribute tags 1..22 (integers only under the Matter
attributes, `< 2^64`), extension values in range, `future-extensions` blobs = one DER extension with an OID the
converter does not know, `not-after` a `u32` -/
structure Fields.WFull (f : Fields) : Prop where
  wf : f.WF
  na : f.notAfter < 4294967296

/-- **Certificate round trip**: the DER `as_asn1` writes for a readable certificate parses (definite minimal
lengths) and the fields read back from it are exactly the certificate's fields -/
theorem cert_roundtrip (f : Fields) (n : Node) (buf : List Nat) (hn : certNode f = some n) (hw : f.WFull)
    (hl : n.lenOk) (hfit : n.need ≤ buf.length) :
    ∃ der d v, asAsn1 f.lazy buf = .ok der ∧ parseDer der = some d ∧ certFieldsOfDer d = some v ∧ f.view = some v := by
  obtain ⟨⟨hi, hs, he⟩, hna⟩ := hw
  have hok := asAsn1_ok f n buf hn ⟨hi, hs, he⟩ hl hfit
  obtain ⟨sa, pa, cu, issuer, nb, na, subject, h2, h3, h4, h5, rfl⟩ := certNode_parts f n hn
  -- lenOk of the extension list
  have hle : Node.lenOkL (f.exts.map extNode) := by
    simp only [seq, Node.lenOk, Node.lenOkL] at hl
    exact hl.2.2.2.2.2.2.2.2.1.2.1.2
  obtain ⟨di, vi, i1, i2, i3⟩ := dn_parse f.issuer issuer h2 hi
  obtain ⟨dsu, vsu, s1, s2, s3⟩ := dn_parse f.subject subject h5 hs
  obtain ⟨dnb, b1, b2⟩ := time_parse _ nb h3
  obtain ⟨dna, a1, a2⟩ := time_parse _ na h4
  obtain ⟨dex, vex, x1, x2, x3⟩ := exts_parse f.exts he hle
  -- the DER tree
  let d : Der := .cons 0x30 [.cons 0xA0 [.prim 0x02 [2]], .prim 0x02 f.serial, .cons 0x30 [.prim 0x06 OID_ECDSA_WITH_SHA256],
    di, .cons 0x30 [dnb, dna], dsu,
    .cons 0x30 [.cons 0x30 [.prim 0x06 OID_PUB_KEY_ECPUBKEY, .prim 0x06 OID_EC_TYPE_PRIME256V1], .prim 0x03 (0 :: f.pubkey)],
    .cons 0xA3 [.cons 0x30 dex]]
  have htd : (seq [.cons 0xA0 [.prim 0x02 [2]], .prim 0x02 f.serial, seq [.prim 0x06 OID_ECDSA_WITH_SHA256], issuer,
      seq [nb, na], subject,
      seq [seq [.prim 0x06 OID_PUB_KEY_ECPUBKEY, .prim 0x06 OID_EC_TYPE_PRIME256V1], .prim 0x03 (bitstrContent false f.pubkey)],
      .cons 0xA3 [seq (f.exts.map extNode)]]).toDer = some [d] := by
    simp [seq, Node.toDer, Node.toDerL, tagConstructed, i1, s1, b1, a1, x1, bitstrContent_false, d]
  have htags : (seq [.cons 0xA0 [.prim 0x02 [2]], .prim 0x02 f.serial, seq [.prim 0x06 OID_ECDSA_WITH_SHA256], issuer,
      seq [nb, na], subject,
      seq [seq [.prim 0x06 OID_PUB_KEY_ECPUBKEY, .prim 0x06 OID_EC_TYPE_PRIME256V1], .prim 0x03 (bitstrContent false f.pubkey)],
      .cons 0xA3 [seq (f.exts.map extNode)]]).tagsOk := by
    refine ⟨by decide, fun _ => ⟨⟨by decide, fun _ => ⟨⟨by decide, by decide⟩, trivial⟩⟩, ⟨by decide, by decide⟩,
      ⟨by decide, fun _ => ⟨⟨by decide, by decide⟩, trivial⟩⟩, dnNode_tagsOk _ _ h2,
      ⟨by decide, fun _ => ⟨timeNode_tagsOk _ _ h3, timeNode_tagsOk _ _ h4, trivial⟩⟩, dnNode_tagsOk _ _ h5,
      ⟨by decide, fun _ => ⟨⟨by decide, fun _ => ⟨⟨by decide, by decide⟩, ⟨by decide, by decide⟩, trivial⟩⟩, ⟨by decide, by decide⟩, trivial⟩⟩,
      ⟨by decide, fun _ => ⟨⟨by decide, fun _ => exts_tagsOk _ he⟩, trivial⟩⟩, trivial⟩⟩
  obtain ⟨hwd, hed⟩ := toDer_enc _ hl htags [d] htd
  have hpd := parseDer_enc d hwd.1
  simp only [Der.encL, List.append_nil] at hed
  rw [hed] at hpd
  refine ⟨_, d, View.mk f.serial 1 vi f.notBefore f.notAfter vsu 1 1 f.pubkey vex, hok, hpd, ?_, ?_⟩
  · simp only [d, certFieldsOfDer, ne_eq, not_true_eq_false, or_self, if_false, i2, s2, b2, a2, x2, bind, Option.bind, pure]
    by_cases hz : f.notAfter = 0
    · simp [hz]
    · have : f.notAfter ≠ DOESNT_EXPIRE := by
        have : DOESNT_EXPIRE = 252455615999 := rfl
        omega
      simp [hz, this]
  · simp [Fields.view, i3, s3, x3, sa, pa, cu, bind, Option.bind, pure]


/-! ## `as_asn1` never panics -/

/-- the program keeps the writer invariant and never panics -/
structure Safe {α : Type} (m : M α) : Prop where
  prf : ∀ w, Der.Inv w → match m w with
    | .ok (_, w') => Der.Inv w'
    | .error e => e ≠ .w .panic

theorem safe_op (o : Op) (h : o.argsOk) : Safe (op o) := by
  constructor
  intro w hw
  have hp := hw.noPanic o.low (low_ne_panic o h)
  simp only [op, hw.step_eq o]
  cases hs : w.stepLow o.low with
  | ok w' => exact hw.stepLow _ hs
  | error e =>
    rw [hs] at hp
    simp only []
    intro he
    injection he with he
    subst he
    exact hp

theorem safe_get {α : Type} (r : Except String α) : Safe (get r) := by
  constructor
  intro w hw
  cases r with
  | ok a => exact hw
  | error e => simp [get]

theorem safe_fail {α : Type} (e : Err) (h : e ≠ .panic) : Safe (fail e : M α) := by
  constructor
  intro w _
  simp only [fail]
  intro he; injection he with he; exact h he

theorem safe_pure {α : Type} (a : α) : Safe (pure a : M α) := by
  constructor
  intro w hw; exact hw

theorem safe_bind {α β : Type} (x : M α) (f : α → M β) (hx : Safe x) (hf : ∀ a, Safe (f a)) : Safe (x >>= f) := by
  constructor
  intro w hw
  rw [bind_def]
  have := hx.prf w hw
  cases hxw : x w with
  | error e => rw [hxw] at this; exact this
  | ok p => obtain ⟨a, w'⟩ := p; rw [hxw] at this; exact (hf a).prf w' this

macro "safe" : tactic => `(tactic| repeat' (first
  | assumption
  | apply safe_pure
  | apply safe_get
  | exact safe_fail _ (by decide)
  | exact safe_op _ trivial
  | apply safe_bind
  | apply_assumption
  | intro _
  | split))

theorem safe_dnValue (v : DnVal) (e : Option IntLen) : Safe (dnValue v e) := by
  unfold dnValue; safe

theorem safe_dnEncode (v : Except String DnVal) (oid : List Nat) (e : Option IntLen) : Safe (dnEncode v oid e) := by
  have := safe_dnValue
  unfold dnEncode; safe

theorem safe_dnItem (dn : DnItem) (h : ∀ t, dn.tag = some t → t ≤ 22) : Safe (dnItem dn) := by
  unfold dnItem
  cases ht : dn.tag with
  | none => exact safe_pure ()
  | some tag =>
    have hle := h tag ht
    simp only []
    split
    · have : DN_ENCODING.length = 22 := rfl
      cases hd : DN_ENCODING[tag - 1]? with
      | some p => obtain ⟨oid, e⟩ := p; exact safe_dnEncode _ _ _
      | none =>
        have : tag - 1 < DN_ENCODING.length := by omega
        simp [List.getElem?_eq_none_iff] at hd
        omega
    · exact safe_pure ()

theorem safe_get_bind {α β : Type} (r : Except String α) (f : α → M β) (h : ∀ a, r = .ok a → Safe (f a)) :
    Safe (get r >>= f) := by
  cases r with
  | ok a => rw [get_ok_bind]; exact h a rfl
  | error e =>
    constructor
    intro w _
    rw [bind_def]
    simp [get]

theorem safe_dnLoop (l : List (Except String DnItem))
    (h : ∀ d t, .ok d ∈ l → d.tag = some t → t ≤ 22) : Safe (dnLoop l) := by
  induction l with
  | nil => exact safe_pure ()
  | cons it r ih =>
    have ih' := ih (fun d t hd ht => h d t (by simp [hd]) ht)
    unfold dnLoop
    apply safe_get_bind
    intro dn hdn
    subst hdn
    exact safe_bind _ _ (safe_dnItem dn (fun t ht => h dn t (by simp) ht)) (fun _ => ih')

theorem safe_dnEncodeAll (l : List (Except String DnItem))
    (h : ∀ d t, .ok d ∈ l → d.tag = some t → t ≤ 22) : Safe (dnEncodeAll l) := by
  have := safe_dnLoop l h
  unfold dnEncodeAll; safe

theorem safe_ekuItem (t : Nat) : Safe (ekuItem t) := by
  unfold ekuItem
  split
  · rename_i h
    cases hd : EKU_ENCODING[t]? with
    | some oid => exact safe_op _ trivial
    | none => simp at hd; omega
  · exact safe_pure ()

theorem safe_ekuLoop (l : List (Except String Nat)) : Safe (ekuLoop l) := by
  induction l with
  | nil => exact safe_pure ()
  | cons it r ih =>
    have := safe_ekuItem
    unfold ekuLoop; safe

theorem safe_opIf (c : Bool) (o : Op) (h : o.argsOk) : Safe (opIf c o) := by
  unfold opIf; split
  · exact safe_op o h
  · exact safe_pure ()

theorem safe_opPath (p : Option Nat) : Safe (opPath p) := by
  unfold opPath; safe

theorem safe_extStart (c : Bool) (oid : List Nat) : Safe (extStart c oid) := by
  have := safe_opIf c (.bool true) trivial
  unfold extStart; safe

theorem safe_extEnd : Safe extEnd := by
  unfold extEnd; safe

theorem safe_extEncode (e : Ext) : Safe (extEncode e) := by
  have h1 := safe_extStart
  have h2 := safe_extEnd
  have h3 := safe_opPath
  have h4 := safe_ekuLoop
  cases e with
  | basic isCa path =>
    have := safe_opIf isCa (.bool true) trivial
    unfold extEncode; safe
  | keyUsage v => unfold extEncode; safe
  | extKeyUsage l => unfold extEncode; safe
  | subjKeyId b => unfold extEncode; safe
  | authKeyId b => unfold extEncode; safe
  | future b => unfold extEncode; safe

theorem safe_extLoop (l : List (Except String Ext)) : Safe (extLoop l) := by
  induction l with
  | nil => exact safe_pure ()
  | cons it r ih =>
    have := safe_extEncode
    unfold extLoop; safe

theorem safe_extEncodeAll (l : List (Except String Ext)) : Safe (extEncodeAll l) := by
  have := safe_extLoop l
  unfold extEncodeAll; safe

theorem safe_enumOid (v : Nat) (oid : List Nat) : Safe (enumOid v oid) := by
  unfold enumOid; safe

/-- the declared bounds of the accessor results: attribute tags are `DNTag` values, the validity instants `u32` -/
structure Cert.Bounds (c : Cert) : Prop where
  issuer : ∀ l d t, c.issuer = .ok l → .ok d ∈ l → d.tag = some t → t ≤ 22
  subject : ∀ l d t, c.subject = .ok l → .ok d ∈ l → d.tag = some t → t ≤ 22
  nb : ∀ v, c.notBefore = .ok v → v < 4294967296
  na : ∀ v, c.notAfter = .ok v → v < 4294967296

theorem safe_utctime (e : Nat) (h : e < 4294967296 ∨ e = DOESNT_EXPIRE) : Safe (op (.utctime e)) := by
  apply safe_op
  simp only [Op.argsOk]
  have h1 : MATTER_EPOCH_SECS = 946684800 := rfl
  have h2 : MAX_UNIX = 253402300799 := rfl
  have h3 : DOESNT_EXPIRE = 252455615999 := rfl
  omega

theorem safe_notAfterOps (c : Cert) (hb : c.Bounds) (na : Nat) : Safe (notAfterOps c na) := by
  unfold notAfterOps
  split
  · exact safe_utctime _ (Or.inr rfl)
  · apply safe_get_bind
    intro v hv
    exact safe_utctime _ (Or.inl (hb.na v hv))

theorem safe_encode (c : Cert) (hb : c.Bounds) : Safe (encode c) := by
  unfold encode
  repeat' (first
    | exact safe_op _ trivial
    | exact safe_enumOid _ _
    | exact safe_extEncodeAll _
    | exact safe_notAfterOps c hb _
    | (apply safe_get_bind; intro _ _)
    | apply safe_bind
    | intro _)
  all_goals first
    | exact safe_dnLoop _ (fun d t hd ht => hb.issuer _ d t (by assumption) hd ht)
    | exact safe_dnLoop _ (fun d t hd ht => hb.subject _ d t (by assumption) hd ht)
    | exact safe_utctime _ (Or.inl (hb.nb _ (by assumption)))

/-- **`as_asn1` never panics**, whatever the accessors return (readable or not), for every buffer -/
theorem asAsn1_noPanic (c : Cert) (hb : c.Bounds) (buf : List Nat) : asAsn1 c buf ≠ .error (.w .panic) := by
  have := (safe_encode c hb).prf (W.new buf) (Inv.new buf)
  unfold asAsn1
  cases he : encode c (W.new buf) with
  | error e => rw [he] at this; simp only []; intro h; injection h with h; exact this h
  | ok p =>
    obtain ⟨_, w⟩ := p
    rw [he] at this
    simp only [W.asSlice, RBuf.slice, Nat.zero_le, true_and, this.off, if_true]
    intro h; cases h



/-! ## every certificate within the declared bounds -/
theorem mapO_some_of {α β : Type} (f : α → Option β) (l : List α) (h : ∀ a ∈ l, (f a).isSome = true) :
    ∃ bs, mapO f l = some bs := by
  induction l with
  | nil => exact ⟨[], rfl⟩
  | cons a r ih =>
    obtain ⟨bs, hb⟩ := ih (fun x hx => h x (by simp [hx]))
    have := h a (by simp)
    cases ha : f a with
    | none => simp [ha] at this
    | some b => exact ⟨b :: bs, by simp [mapO, ha, hb]⟩

theorem dnNode_some (l : List Attr) (h : ∀ a ∈ l, a.WF) : ∃ n, dnNode l = some n := by
  obtain ⟨ns, hn⟩ := mapO_some_of attrNode l (by
    intro a ha
    obtain ⟨oid, e, p, h1, h2⟩ := attr_string_some a (h a ha)
    simp [attrNode, h1, h2])
  exact ⟨seq ns, by simp [dnNode, hn]⟩

theorem timeNode_some (e : Nat) (h : MATTER_EPOCH_SECS + e ≤ MAX_UNIX) : ∃ n, timeNode e = some n := by
  obtain ⟨tag, s, h1, _⟩ := parseTime_timeStr e h
  exact ⟨.prim tag s, by simp [timeNode, h1]⟩

/-- a certificate within the declared bounds: readable fields with the algorithm identifiers Matter defines,
`u32` validity instants, attribute tags 1..22 (integers only under the Matter attributes), extension values in
range, `future-extensions` blobs that are one DER extension with an OID the converter does not know -/
structure Fields.Legal (f : Fields) : Prop where
  sa : f.signAlgo = 1
  pa : f.pubkeyAlgo = 1
  curve : f.ecCurveId = 1
  nb : f.notBefore < 4294967296
  na : f.notAfter < 4294967296
  wf : f.WF

theorem certNode_some (f : Fields) (h : f.Legal) : ∃ n, certNode f = some n := by
  obtain ⟨sa, pa, cu, nb, na, hi, hs, he⟩ := h
  obtain ⟨i, hi'⟩ := dnNode_some f.issuer hi
  obtain ⟨s, hs'⟩ := dnNode_some f.subject hs
  have h1 : MATTER_EPOCH_SECS = 946684800 := rfl
  have h2 : MAX_UNIX = 253402300799 := rfl
  have h3 : DOESNT_EXPIRE = 252455615999 := rfl
  obtain ⟨b, hb'⟩ := timeNode_some f.notBefore (by omega)
  obtain ⟨a, ha'⟩ := timeNode_some (if f.notAfter = 0 then DOESNT_EXPIRE else f.notAfter) (by split <;> omega)
  simp [certNode, enumOidO, sa, pa, cu, hi', hs', hb', ha', bind, Option.bind, pure]

/-- **Certificate round trip, all certificates within the declared bounds**: `as_asn1` into any buffer with enough
room (`need`; buffers below 64 KiB) succeeds, its DER parses (definite minimal lengths) and the fields read back
from it are exactly the certificate's fields -/
theorem cert_roundtrip_legal (f : Fields) (h : f.Legal) :
    ∃ n, certNode f = some n ∧ ∀ buf : List Nat, n.need ≤ buf.length → buf.length < 65536 →
      ∃ der d v, asAsn1 f.lazy buf = .ok der ∧ der = n.enc ∧ parseDer der = some d ∧
        certFieldsOfDer d = some v ∧ f.view = some v := by
  obtain ⟨n, hn⟩ := certNode_some f h
  refine ⟨n, hn, fun buf hfit hsmall => ?_⟩
  have hl := lenOk_of_need n (by omega)
  obtain ⟨der, d, v, h1, h2, h3, h4⟩ := cert_roundtrip f n buf hn ⟨h.wf, h.na⟩ hl hfit
  have := asAsn1_ok f n buf hn h.wf hl hfit
  rw [this] at h1
  injection h1 with h1
  exact ⟨der, d, v, by rw [this, h1], h1.symm, h2, h3, h4⟩

end Codec.CertAsn1
