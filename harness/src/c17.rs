//! C17: headers, onboarding payloads and discovery records decode what was encoded.
//!
//! One sub-stream per codec; the case kind is the codec name. Every op is self-contained text:
//!   `rt <fields…>`   structure -> REAL encoder -> bytes; REAL decoder on those bytes
//!                    output: `<bytes hex> <decoder result>`
//!   `dec <hex>`      REAL decoder on an arbitrary / mutated byte (or UTF-8) string
//!                    output: `<decoder result>`
//! Decoder results are canonical: `ok <fields…>`, `err <ErrorCode>`, `none`, `panic`.
//! Everything that touches the code under test runs under `catch_unwind`.
use crate::proto::{hex, parse_cases, unhex, Case, Out};
use crate::rng::Rng;
use crate::Args;

use std::panic::{catch_unwind, AssertUnwindSafe};

#[path = "c17_more.rs"]
mod more;
#[path = "c17_unproved.rs"]
mod unproved;
// D16d: DER-based decoders (attest/cd.rs, cert/x509/cert.rs, cert/x509/csr.rs, cert/der_utils.rs, `der` reading layer)
#[path = "c17_x509.rs"]
mod dercodecs;
#[path = "c17_der.rs"]
mod der; // D16c: ASN1Writer + CertRef::as_asn1 (kind `der`)
// D16b: mDNS wire format, modelled (sub-stream `mdns2`)
#[path = "c17_mdns.rs"]
mod mdns2;

/// where the last panic happened (recorded by the hook installed in `install_hook`)
pub static LAST_PANIC: std::sync::Mutex<String> = std::sync::Mutex::new(String::new());

pub fn install_hook() {
    std::panic::set_hook(Box::new(|info| {
        let loc = info.location().map(|l| format!("{}:{}", l.file(), l.line())).unwrap_or_default();
        let msg = if let Some(s) = info.payload().downcast_ref::<&str>() {
            s.to_string()
        } else if let Some(s) = info.payload().downcast_ref::<String>() {
            s.clone()
        } else {
            String::new()
        };
        if let Ok(mut g) = LAST_PANIC.lock() {
            *g = format!("{} {}", loc, msg.replace('\n', " "));
        }
    }));
}

pub fn guard<F: FnOnce() -> String>(f: F) -> String {
    match catch_unwind(AssertUnwindSafe(f)) {
        Ok(s) => s,
        Err(_) => "panic".to_string(),
    }
}

pub fn errname(e: &rs_matter::error::Error) -> String {
    format!("err {:?}", e.code())
}

pub fn num(s: Option<&str>) -> u64 {
    s.and_then(|x| x.parse().ok()).unwrap_or(0)
}

pub fn opt(v: Option<u64>) -> String {
    match v {
        Some(x) => x.to_string(),
        None => "-".to_string(),
    }
}

// ------------------------------------------------------------------ base38

mod b38 {
    use super::*;
    use rs_matter::utils::codec::base38;

    pub fn enc(bytes: &[u8]) -> String {
        guard(|| match base38::encode_string::<4096>(bytes) {
            Ok(s) => hex(s.as_bytes()),
            Err(e) => errname(&e),
        })
    }

    /// iterate `decode()`: bytes yielded before the first error, then the error
    pub fn dec(s: &str) -> String {
        guard(|| {
            let mut v: Vec<u8> = Vec::new();
            let mut err: Option<String> = None;
            for (i, b) in base38::decode(s).enumerate() {
                if i > s.len() + 8 {
                    err = Some("err Endless".into());
                    break;
                }
                match b {
                    Ok(b) => v.push(b),
                    Err(e) => {
                        err = Some(errname(&e));
                        break;
                    }
                }
            }
            // the collecting front-end must agree with the iterator
            let dv = base38::decode_vec::<4096>(s);
            let dvs = match &dv {
                Ok(x) => format!("ok {}", hex(x)),
                Err(e) => errname(e),
            };
            match err {
                None => {
                    if dvs != format!("ok {}", hex(&v)) {
                        return format!("mismatch iter=ok:{} vec={}", hex(&v), dvs.replace(' ', ":"));
                    }
                    format!("ok {}", hex(&v))
                }
                Some(e) => {
                    if dvs != e {
                        return format!("mismatch iter={} vec={}", e.replace(' ', ":"), dvs.replace(' ', ":"));
                    }
                    format!("{} {}", e, hex(&v))
                }
            }
        })
    }

    pub fn run(op: &str) -> String {
        let mut it = op.split_whitespace();
        match it.next() {
            Some("rt") => {
                let bytes = unhex(it.next().unwrap_or("-"));
                let e = enc(&bytes);
                if e == "panic" || e.starts_with("err") {
                    return e;
                }
                let s = String::from_utf8(unhex(&e)).unwrap_or_default();
                format!("{} {}", e, dec(&s))
            }
            Some("dec") => match String::from_utf8(unhex(it.next().unwrap_or("-"))) {
                Ok(s) => dec(&s),
                Err(_) => "notutf8".into(),
            },
            _ => "badop".into(),
        }
    }
}

// ------------------------------------------------------------------ manual pairing code

mod manual {
    use super::*;
    use rs_matter::pairing::qr::QrPayload;
    use rs_matter::BasicCommData;

    pub fn enc(disc: u16, pw: u32) -> String {
        guard(|| {
            let cd = BasicCommData { password: pw.to_le_bytes().into(), discriminator: disc };
            let code = cd.compute_pairing_code();
            let pretty = cd.compute_pretty_pairing_code();
            let stripped: String = pretty.chars().filter(|c| *c != '-').collect();
            if stripped != code.as_str() {
                return "prettymismatch".into();
            }
            hex(code.as_bytes())
        })
    }

    pub fn dec(s: &str) -> String {
        guard(|| match QrPayload::parse_pairing_code(s) {
            Ok(p) => {
                let (vid, pid, long) = match p.vid_pid() {
                    Some((v, q)) => (v, q, 1),
                    None => (0, 0, 0),
                };
                format!("ok {} {} {} {} {}", p.short_discriminator(), p.passcode(), vid, pid, long)
            }
            Err(e) => errname(&e),
        })
    }

    pub fn run(op: &str) -> String {
        let mut it = op.split_whitespace();
        match it.next() {
            Some("rt") => {
                let disc = num(it.next()) as u16;
                let pw = num(it.next()) as u32;
                let e = enc(disc, pw);
                if e == "panic" || e == "prettymismatch" {
                    return e;
                }
                let s = String::from_utf8(unhex(&e)).unwrap_or_default();
                format!("{} {}", e, dec(&s))
            }
            Some("dec") => match String::from_utf8(unhex(it.next().unwrap_or("-"))) {
                Ok(s) => dec(&s),
                Err(_) => "notutf8".into(),
            },
            _ => "badop".into(),
        }
    }
}

// ------------------------------------------------------------------ plain header

mod plain {
    use super::*;
    use rs_matter::transport::plain_hdr::PlainHdr;
    use rs_matter::utils::storage::{ParseBuf, WriteBuf};

    pub fn enc(h: &PlainHdr, cap: usize) -> String {
        guard(|| {
            let mut buf = vec![0u8; cap];
            let mut wb = WriteBuf::new(&mut buf);
            match h.encode(&mut wb) {
                Ok(()) => hex(wb.as_slice()),
                Err(e) => errname(&e),
            }
        })
    }

    pub fn dec(bytes: &[u8]) -> String {
        guard(|| {
            let mut b = bytes.to_vec();
            let mut pb = ParseBuf::new(&mut b);
            let mut h = PlainHdr::default();
            match h.decode(&mut pb) {
                Ok(()) => {
                    let (f, sid, sf, ctr, _src, _dst) = h.verif_raw();
                    format!(
                        "ok {} {} {} {} {} {} {} {}",
                        f,
                        sid,
                        sf,
                        ctr,
                        opt(h.get_src_nodeid()),
                        opt(h.get_dst_unicast_nodeid()),
                        opt(h.get_dst_groupcast_nodeid().map(|x| x as u64)),
                        hex(pb.as_slice())
                    )
                }
                Err(e) => errname(&e),
            }
        })
    }

    pub fn run(op: &str) -> String {
        let mut it = op.split_whitespace();
        match it.next() {
            Some("rt") => {
                let f = num(it.next()) as u8;
                let sid = num(it.next()) as u16;
                let sf = num(it.next()) as u8;
                let ctr = num(it.next()) as u32;
                let src = num(it.next());
                let dst = num(it.next());
                let extra = unhex(it.next().unwrap_or("-"));
                let cap = it.next().map(|x| num(Some(x)) as usize).unwrap_or(64);
                let h = match PlainHdr::verif_from_raw(f, sid, sf, ctr, src, dst) {
                    Some(h) => h,
                    None => return "badflags".into(),
                };
                let e = enc(&h, cap);
                if e == "panic" || e.starts_with("err") {
                    return e;
                }
                let mut bytes = unhex(&e);
                bytes.extend_from_slice(&extra);
                format!("{} {}", e, dec(&bytes))
            }
            Some("set") => {
                // through the public setters: src (or -), u|g|n, dst
                let src = it.next().unwrap_or("-");
                let kind = it.next().unwrap_or("n");
                let dst = num(it.next());
                let mut h = PlainHdr::default();
                // apply some churn first so that the "absent => 0" guarantee of the setters is exercised
                h.set_src_nodeid(Some(0xdead_beef));
                h.set_dst_unicast_nodeid(Some(0x1234_5678_9abc));
                h.set_src_nodeid(if src == "-" { None } else { src.parse().ok() });
                match kind {
                    "u" => h.set_dst_unicast_nodeid(Some(dst)),
                    "g" => h.set_dst_groupcast_nodeid(Some(dst as u16)),
                    _ => h.set_dst_unicast_nodeid(None),
                }
                let (f, sid, sf, ctr, s, d) = h.verif_raw();
                let e = enc(&h, 64);
                if e == "panic" || e.starts_with("err") {
                    return e;
                }
                format!("{} {} {} {} {} {} {} {}", f, sid, sf, ctr, s, d, e, dec(&unhex(&e)))
            }
            Some("dec") => dec(&unhex(it.next().unwrap_or("-"))),
            _ => "badop".into(),
        }
    }
}

// ------------------------------------------------------------------ proto header

mod protoh {
    use super::*;
    use rs_matter::crypto::test_only_crypto;
    use rs_matter::transport::plain_hdr::PlainHdr;
    use rs_matter::transport::proto_hdr::ProtoHdr;
    use rs_matter::utils::storage::{ParseBuf, WriteBuf};

    pub fn enc(h: &ProtoHdr, cap: usize) -> String {
        guard(|| {
            let mut buf = vec![0u8; cap];
            let mut wb = WriteBuf::new(&mut buf);
            match h.encode(&mut wb) {
                Ok(()) => hex(wb.as_slice()),
                Err(e) => errname(&e),
            }
        })
    }

    pub fn dec(bytes: &[u8]) -> String {
        guard(|| {
            let mut b = bytes.to_vec();
            let mut pb = ParseBuf::new(&mut b);
            let mut h = ProtoHdr::new();
            let plain = PlainHdr::default();
            match h.decrypt_and_decode(test_only_crypto(), None, 0, &plain, &mut pb) {
                Ok(()) => {
                    let (eid, f, pid, op, _v, _a) = h.verif_raw();
                    format!(
                        "ok {} {} {} {} {} {} {}",
                        eid,
                        f,
                        pid,
                        op,
                        opt(h.get_vendor().map(|x| x as u64)),
                        opt(h.get_ack().map(|x| x as u64)),
                        hex(pb.as_slice())
                    )
                }
                Err(e) => errname(&e),
            }
        })
    }

    pub fn run(op: &str) -> String {
        let mut it = op.split_whitespace();
        match it.next() {
            Some("rt") => {
                let eid = num(it.next()) as u16;
                let f = num(it.next()) as u8;
                let pid = num(it.next()) as u16;
                let opc = num(it.next()) as u8;
                let ven = num(it.next()) as u16;
                let ack = num(it.next()) as u32;
                let extra = unhex(it.next().unwrap_or("-"));
                let cap = it.next().map(|x| num(Some(x)) as usize).unwrap_or(64);
                let h = match ProtoHdr::verif_from_raw(eid, f, pid, opc, ven, ack) {
                    Some(h) => h,
                    None => return "badflags".into(),
                };
                let e = enc(&h, cap);
                if e == "panic" || e.starts_with("err") {
                    return e;
                }
                let mut bytes = unhex(&e);
                bytes.extend_from_slice(&extra);
                format!("{} {}", e, dec(&bytes))
            }
            Some("dec") => dec(&unhex(it.next().unwrap_or("-"))),
            _ => "badop".into(),
        }
    }
}

// ------------------------------------------------------------------ status report

mod status {
    use super::*;
    use rs_matter::sc::{GeneralCode, StatusReport};
    use rs_matter::utils::storage::{ReadBuf, WriteBuf};

    fn general(n: u64) -> Option<GeneralCode> {
        use GeneralCode::*;
        Some(match n {
            0 => Success,
            1 => Failure,
            2 => BadPrecondition,
            3 => OutOfRange,
            4 => BadRequest,
            5 => Unsupported,
            6 => Unexpected,
            7 => ResourceExhausted,
            8 => Busy,
            9 => Timeout,
            10 => Continue,
            11 => Aborted,
            12 => InvalidArgument,
            13 => NotFound,
            14 => AlreadyExists,
            15 => PermissionDenied,
            16 => DataLoss,
            _ => return None,
        })
    }

    pub fn dec(bytes: &[u8]) -> String {
        guard(|| {
            let mut rb = ReadBuf::new(bytes);
            match StatusReport::read(&mut rb) {
                Ok(r) => format!("ok {} {} {} {}", r.general_code as u16, r.proto_id, r.proto_code, hex(r.proto_data)),
                Err(e) => errname(&e),
            }
        })
    }

    pub fn run(op: &str) -> String {
        let mut it = op.split_whitespace();
        match it.next() {
            Some("rt") => {
                let g = match general(num(it.next())) {
                    Some(g) => g,
                    None => return "badenum".into(),
                };
                let pid = num(it.next()) as u32;
                let code = num(it.next()) as u16;
                let data = unhex(it.next().unwrap_or("-"));
                let cap = it.next().map(|x| num(Some(x)) as usize).unwrap_or(data.len() + 16);
                let e = guard(|| {
                    let r = StatusReport { general_code: g, proto_id: pid, proto_code: code, proto_data: &data };
                    let mut buf = vec![0u8; cap];
                    let mut wb = WriteBuf::new(&mut buf);
                    match r.write(&mut wb) {
                        Ok(()) => hex(wb.as_slice()),
                        Err(e) => errname(&e),
                    }
                });
                if e == "panic" || e.starts_with("err") {
                    return e;
                }
                format!("{} {}", e, dec(&unhex(&e)))
            }
            Some("dec") => dec(&unhex(it.next().unwrap_or("-"))),
            _ => "badop".into(),
        }
    }
}

// ------------------------------------------------------------------ ParseBuf / WriteBuf cursor arithmetic

mod bufs {
    use super::*;
    use rs_matter::utils::storage::{ParseBuf, WriteBuf};

    /// a whole case: `new <hex>` then reads
    pub fn run_rbuf(out: &mut Out, case: &Case) {
        let mut data: Vec<u8> = Vec::new();
        if let Some(first) = case.ops.first() {
            let mut it = first.split_whitespace();
            if it.next() == Some("new") {
                data = unhex(it.next().unwrap_or("-"));
            }
        }
        let mut store = data.clone();
        let mut pb = ParseBuf::new(&mut store);
        for (i, op) in case.ops.iter().enumerate() {
            let mut it = op.split_whitespace();
            let r = match it.next() {
                Some("new") if i == 0 => "ok".to_string(),
                Some("u8") => guard(|| pb.le_u8().map(|x| format!("ok {}", x)).unwrap_or_else(|e| errname(&e))),
                Some("u16") => guard(|| pb.le_u16().map(|x| format!("ok {}", x)).unwrap_or_else(|e| errname(&e))),
                Some("u32") => guard(|| pb.le_u32().map(|x| format!("ok {}", x)).unwrap_or_else(|e| errname(&e))),
                Some("u64") => guard(|| pb.le_u64().map(|x| format!("ok {}", x)).unwrap_or_else(|e| errname(&e))),
                Some("tail") => {
                    let n = num(it.next()) as usize;
                    guard(|| pb.tail(n).map(|x| format!("ok {}", hex(x))).unwrap_or_else(|e| errname(&e)))
                }
                Some("slice") => guard(|| format!("ok {}", hex(pb.as_slice()))),
                _ => "badop".to_string(),
            };
            out.op(op, &r);
        }
    }

    /// a whole case: `new <n>` then writes
    pub fn run_wbuf(out: &mut Out, case: &Case) {
        let mut n = 0usize;
        if let Some(first) = case.ops.first() {
            let mut it = first.split_whitespace();
            if it.next() == Some("new") {
                n = num(it.next()) as usize;
            }
        }
        let mut store = vec![0u8; n.min(4096)];
        let mut wb = WriteBuf::new(&mut store);
        let okerr = |r: Result<(), rs_matter::error::Error>| match r {
            Ok(()) => "ok".to_string(),
            Err(e) => errname(&e),
        };
        for (i, op) in case.ops.iter().enumerate() {
            let mut it = op.split_whitespace();
            let r = match it.next() {
                Some("new") if i == 0 => "ok".to_string(),
                Some("reserve") => {
                    let k = num(it.next()) as usize;
                    guard(|| okerr(wb.reserve(k)))
                }
                Some("u8") => {
                    let x = num(it.next()) as u8;
                    guard(|| okerr(wb.le_u8(x)))
                }
                Some("u16") => {
                    let x = num(it.next()) as u16;
                    guard(|| okerr(wb.le_u16(x)))
                }
                Some("u32") => {
                    let x = num(it.next()) as u32;
                    guard(|| okerr(wb.le_u32(x)))
                }
                Some("u64") => {
                    let x = num(it.next());
                    guard(|| okerr(wb.le_u64(x)))
                }
                Some("append") => {
                    let b = unhex(it.next().unwrap_or("-"));
                    guard(|| okerr(wb.append(&b)))
                }
                Some("prepend") => {
                    let b = unhex(it.next().unwrap_or("-"));
                    guard(|| okerr(wb.prepend(&b)))
                }
                Some("slice") => guard(|| format!("ok {}", hex(wb.as_slice()))),
                _ => "badop".to_string(),
            };
            out.op(op, &r);
        }
    }
}

// ------------------------------------------------------------------ dispatch

pub fn run_op(kind: &str, op: &str) -> String {
    match kind {
        "base38" => b38::run(op),
        "manual" => manual::run(op),
        "plainhdr" => plain::run(op),
        "protohdr" => protoh::run(op),
        "status" => status::run(op),
        "mdns2" => mdns2::run(op), // D16b
        k => {
            if let Some(r) = more::run_op(k, op) {
                r
            } else if let Some(r) = unproved::run_op(k, op) {
                r
            } else if let Some(r) = dercodecs::run_op(k, op) {
                // D16d
                r
            } else if let Some(r) = der::run_op(k, op) {
                r // D16c
            } else {
                "badkind".into()
            }
        }
    }
}

fn run_case(out: &mut Out, case: &Case) {
    out.case(case.id, &case.kind);
    match case.kind.as_str() {
        "rbuf" => bufs::run_rbuf(out, case),
        "wbuf" => bufs::run_wbuf(out, case),
        k => {
            for op in &case.ops {
                let r = run_op(k, op);
                out.op(op, &r);
                if r == "panic" || r.ends_with(" panic") {
                    out.stat(&format!("panic_{}", k), 1);
                    if let Ok(g) = LAST_PANIC.lock() {
                        out.buf.push_str(&format!("# panic at {}\n", g));
                    }
                }
            }
        }
    }
}

// ------------------------------------------------------------------ generators

pub fn edge(r: &mut Rng, bits: u32) -> u64 {
    let max: u64 = if bits >= 64 { u64::MAX } else { (1u64 << bits) - 1 };
    match r.below(10) {
        0 => 0,
        1 => 1,
        2 => max,
        3 => max - 1,
        4 => 1u64 << r.below(bits as u64),
        5 => (1u64 << r.below(bits as u64)).wrapping_sub(1) & max,
        6 => r.below(256) & max,
        _ => r.next() & max,
    }
}

/// byte-level mutations of a valid encoding: bit flips, byte substitutions, truncations, extensions
pub fn mutate(r: &mut Rng, b: &[u8], out: &mut Out) -> Vec<u8> {
    let mut v = b.to_vec();
    match r.below(6) {
        0 if !v.is_empty() => {
            out.stat("mut_bitflip", 1);
            let i = r.below(v.len() as u64) as usize;
            v[i] ^= 1 << r.below(8);
        }
        1 if !v.is_empty() => {
            out.stat("mut_byte", 1);
            let i = r.below(v.len() as u64) as usize;
            v[i] = r.next() as u8;
        }
        2 if !v.is_empty() => {
            out.stat("mut_truncate", 1);
            let n = r.below(v.len() as u64) as usize;
            v.truncate(n);
        }
        3 => {
            out.stat("mut_extend", 1);
            let n = r.range(1, 9) as usize;
            v.extend(r.bytes(n));
        }
        4 if v.len() >= 2 => {
            out.stat("mut_swap", 1);
            let i = r.below(v.len() as u64 - 1) as usize;
            v.swap(i, i + 1);
        }
        _ => {
            out.stat("mut_first_byte", 1);
            if v.is_empty() {
                v.push(r.next() as u8);
            } else {
                v[0] = r.next() as u8;
            }
        }
    }
    v
}

fn first_word(s: &str) -> &str {
    s.split_whitespace().next().unwrap_or("")
}

/// ops for a `rt` line plus mutations of the bytes it produced
pub fn rt_and_mutations(r: &mut Rng, kind: &str, rt: String, nmut: usize, out: &mut Out) -> Vec<String> {
    let res = run_op(kind, &rt);
    let mut ops = vec![rt];
    let w = first_word(&res).to_string();
    if w.len() >= 2 && w.bytes().all(|c| c.is_ascii_hexdigit()) {
        let bytes = unhex(&w);
        ops.push(format!("dec {}", hex(&bytes)));
        for _ in 0..nmut {
            let m = mutate(r, &bytes, out);
            ops.push(format!("dec {}", hex(&m)));
        }
    }
    ops
}

const B38: &[u8] = b"0123456789ABCDEFGHIJKLMNOPQRSTUVWXYZ-.";

fn gen_base38(r: &mut Rng, out: &mut Out) -> Vec<String> {
    let mut ops = Vec::new();
    // round trips at all three length classes
    let n = match r.below(8) {
        0 => 0,
        1 => 1,
        2 => 2,
        3 => 3,
        4 => r.range(4, 12),
        5 => 11,
        _ => r.range(0, 40),
    } as usize;
    let bytes: Vec<u8> = match r.below(5) {
        0 => vec![0xff; n],
        1 => vec![0; n],
        _ => r.bytes(n),
    };
    out.stat(&format!("b38_len_mod3_{}", n % 3), 1);
    ops.push(format!("rt {}", hex(&bytes)));
    // strings: canonical, non-canonical (value too large), invalid character, bad length class, arbitrary
    let enc = b38::enc(&bytes);
    let s = unhex(&enc);
    for _ in 0..4 {
        let mut t = s.clone();
        match r.below(7) {
            0 if !t.is_empty() => {
                out.stat("b38_invalid_char", 1);
                let i = r.below(t.len() as u64) as usize;
                t[i] = *r.pick(&[b'/', b':', b'@', b' ', b'a', b'z', b'[', b',', 0x7f, b'!', b'_', 44, 91]);
            }
            1 => {
                out.stat("b38_bad_len", 1);
                let k = *r.pick(&[1usize, 3, 6, 8]);
                t = (0..k).map(|_| *r.pick(B38)).collect();
            }
            2 => {
                out.stat("b38_big_value", 1);
                t = b"....".to_vec();
                if r.chance(1, 2) {
                    t.push(b'.');
                }
                if r.chance(1, 3) {
                    t = b"..".to_vec();
                }
            }
            3 if !t.is_empty() => {
                out.stat("b38_valid_char_subst", 1);
                let i = r.below(t.len() as u64) as usize;
                t[i] = *r.pick(B38);
            }
            4 => {
                out.stat("b38_random_alphabet", 1);
                let k = r.range(0, 12) as usize;
                t = (0..k).map(|_| *r.pick(B38)).collect();
            }
            5 => {
                out.stat("b38_unicode", 1);
                let mut st = String::from_utf8_lossy(&t).to_string();
                st.push(*r.pick(&['é', '∞', '\u{0}', '\u{7f}', '😀']));
                if r.chance(1, 2) {
                    st.push_str("AB");
                }
                t = st.into_bytes();
            }
            _ => {
                out.stat("b38_random_ascii", 1);
                let k = r.range(0, 11) as usize;
                t = (0..k).map(|_| r.range(32, 126) as u8).collect();
            }
        }
        ops.push(format!("dec {}", hex(&t)));
    }
    ops
}

fn verhoeff_digit_for(s: &[u8]) -> u8 {
    // generator-side helper (not an oracle): find the digit that makes the real parser's check pass
    // is not needed: we only build codes from the real encoder and mutate them.
    let _ = s;
    0
}

fn gen_manual(r: &mut Rng, out: &mut Out) -> Vec<String> {
    let _ = verhoeff_digit_for;
    let mut ops = Vec::new();
    let disc = match r.below(6) {
        0 => *r.pick(&[0u64, 255, 256, 1023, 1024, 3840, 4095]),
        1 => r.range(4096, 65535), // out of the 12-bit range: the encoder may panic (not a decoder)
        _ => r.below(4096),
    };
    let pw = match r.below(8) {
        0 => *r.pick(&[0u64, 1, 16383, 16384, 20202021, 99999998, (1 << 27) - 1]),
        1 => r.range(1 << 27, u32::MAX as u64), // out of the 27-bit range
        _ => r.below(1 << 27),
    };
    out.stat(if disc < 4096 && pw < (1 << 27) { "manual_rt_legal" } else { "manual_rt_out_of_range" }, 1);
    ops.push(format!("rt {} {}", disc, pw));
    let code = manual::enc((disc & 0xfff) as u16, (pw & ((1 << 27) - 1)) as u32);
    let base = unhex(&code);
    if base.len() != 11 {
        return ops;
    }
    for _ in 0..5 {
        let mut t = base.clone();
        match r.below(10) {
            0 => {
                out.stat("manual_subst_one_digit", 1);
                let i = r.below(11) as usize;
                let old = t[i];
                loop {
                    let d = b'0' + r.below(10) as u8;
                    if d != old {
                        t[i] = d;
                        break;
                    }
                }
            }
            1 => {
                out.stat("manual_bad_check_digit", 1);
                let old = t[10];
                t[10] = b'0' + ((old - b'0' + 1 + r.below(9) as u8) % 10);
            }
            2 => {
                out.stat("manual_transpose", 1);
                let i = r.below(10) as usize;
                t.swap(i, i + 1);
            }
            3 => {
                out.stat("manual_pretty", 1);
                let mut p = Vec::new();
                for (i, c) in t.iter().enumerate() {
                    if i == 4 || i == 8 {
                        p.push(*r.pick(&[b'-', b' ']));
                    }
                    p.push(*c);
                }
                t = p;
            }
            4 => {
                out.stat("manual_wrong_length", 1);
                let k = *r.pick(&[0usize, 1, 10, 12, 20, 22, 30]);
                t = (0..k).map(|_| b'0' + r.below(10) as u8).collect();
            }
            5 => {
                out.stat("manual_nondigit", 1);
                let i = r.below(11) as usize;
                t[i] = *r.pick(&[b'X', b'a', b'/', b':', b'+', b'.', 0x7f]);
            }
            6 => {
                out.stat("manual_random_11", 1);
                t = (0..11).map(|_| b'0' + r.below(10) as u8).collect();
            }
            7 => {
                out.stat("manual_random_21", 1);
                t = (0..21).map(|_| b'0' + r.below(10) as u8).collect();
                if r.chance(1, 2) {
                    t[0] = b'4' + r.below(4) as u8;
                }
            }
            8 => {
                out.stat("manual_unicode", 1);
                let mut st = String::from_utf8_lossy(&t).to_string();
                let i = r.below(11) as usize;
                st.insert(i, *r.pick(&['٣', '１', '∞', 'é']));
                t = st.into_bytes();
            }
            _ => {
                out.stat("manual_first_digit", 1);
                t[0] = b'0' + r.below(10) as u8;
            }
        }
        ops.push(format!("dec {}", hex(&t)));
    }
    ops
}

fn gen_plain(r: &mut Rng, out: &mut Out) -> Vec<String> {
    let f = r.below(8);
    let sf = (r.below(16) as u64 & 1) | ((r.below(8)) << 5);
    out.stat(&format!("plain_flags_{}", f), 1);
    let canon = r.chance(2, 3);
    let src = if canon && f & 4 == 0 { 0 } else { edge(r, 64) };
    let dst = if canon && (f & 3 == 0 || f & 3 == 3) {
        0
    } else if canon && f & 3 == 2 {
        edge(r, 16)
    } else {
        edge(r, 64)
    };
    let exn = r.range(0, 6) as usize;
    let extra = if r.chance(1, 2) { r.bytes(exn) } else { vec![] };
    let rt = if r.chance(1, 12) {
        out.stat("plain_small_cap", 1);
        format!("rt {} {} {} {} {} {} - {}", f, edge(r, 16), sf, edge(r, 32), src, dst, r.below(26))
    } else {
        format!("rt {} {} {} {} {} {} {}", f, edge(r, 16), sf, edge(r, 32), src, dst, hex(&extra))
    };
    let mut ops = rt_and_mutations(r, "plainhdr", rt, 4, out);
    if r.chance(1, 3) {
        let src = if r.chance(1, 2) { "-".to_string() } else { edge(r, 64).to_string() };
        ops.push(format!("set {} {} {}", src, r.pick(&["u", "g", "n"]), edge(r, 64)));
    }
    if r.chance(1, 3) {
        out.stat("plain_arbitrary", 1);
        let n = r.range(0, 28) as usize;
        ops.push(format!("dec {}", hex(&r.bytes(n))));
    }
    ops
}

fn gen_proto(r: &mut Rng, out: &mut Out) -> Vec<String> {
    let f = r.below(32);
    out.stat(&format!("proto_flags_va_{}", (f >> 4) * 2 + ((f >> 1) & 1)), 1);
    let canon = r.chance(2, 3);
    let ven = if canon && f & 0x10 == 0 { 0 } else { edge(r, 16) };
    let ack = if canon && f & 0x02 == 0 { 0 } else { edge(r, 32) };
    let exn = r.range(0, 6) as usize;
    let extra = if r.chance(1, 2) { r.bytes(exn) } else { vec![] };
    let rt = if r.chance(1, 12) {
        out.stat("proto_small_cap", 1);
        format!("rt {} {} {} {} {} {} - {}", edge(r, 16), f, edge(r, 16), edge(r, 8), ven, ack, r.below(12))
    } else {
        format!("rt {} {} {} {} {} {} {}", edge(r, 16), f, edge(r, 16), edge(r, 8), ven, ack, hex(&extra))
    };
    let mut ops = rt_and_mutations(r, "protohdr", rt, 4, out);
    if r.chance(1, 3) {
        out.stat("proto_arbitrary", 1);
        let n = r.range(0, 14) as usize;
        ops.push(format!("dec {}", hex(&r.bytes(n))));
    }
    ops
}

fn gen_status(r: &mut Rng, out: &mut Out) -> Vec<String> {
    let n = *r.pick(&[0usize, 0, 1, 2, 7, 32, 100]);
    let data = r.bytes(n);
    let rt = if r.chance(1, 12) {
        out.stat("status_small_cap", 1);
        format!("rt {} {} {} {} {}", r.below(17), edge(r, 32), edge(r, 16), hex(&data), r.below(8 + n as u64))
    } else {
        format!("rt {} {} {} {}", r.below(17), edge(r, 32), edge(r, 16), hex(&data))
    };
    let mut ops = rt_and_mutations(r, "status", rt, 4, out);
    if r.chance(1, 2) {
        out.stat("status_arbitrary", 1);
        let n = r.range(0, 12) as usize;
        let mut b = r.bytes(n);
        if n >= 2 && r.chance(1, 2) {
            b[0] = r.range(15, 18) as u8;
            b[1] = 0;
        }
        ops.push(format!("dec {}", hex(&b)));
    }
    ops
}

fn gen_rbuf(r: &mut Rng, _out: &mut Out) -> Vec<String> {
    let n = r.range(0, 24) as usize;
    let mut ops = vec![format!("new {}", hex(&r.bytes(n)))];
    for _ in 0..r.range(1, 10) {
        ops.push(match r.below(8) {
            0 | 1 => "u8".to_string(),
            2 => "u16".to_string(),
            3 => "u32".to_string(),
            4 => "u64".to_string(),
            5 | 6 => format!("tail {}", r.below(10)),
            _ => "slice".to_string(),
        });
    }
    ops.push("slice".into());
    ops
}

fn gen_wbuf(r: &mut Rng, _out: &mut Out) -> Vec<String> {
    let n = r.range(0, 32);
    let mut ops = vec![format!("new {}", n)];
    if r.chance(2, 3) {
        ops.push(format!("reserve {}", r.below(n + 3)));
    }
    for _ in 0..r.range(1, 10) {
        ops.push(match r.below(9) {
            0 => format!("u8 {}", edge(r, 8)),
            1 => format!("u16 {}", edge(r, 16)),
            2 => format!("u32 {}", edge(r, 32)),
            3 => format!("u64 {}", edge(r, 64)),
            4 | 5 => {
                let k = r.below(7) as usize;
                format!("append {}", hex(&r.bytes(k)))
            }
            6 => {
                let k = r.below(7) as usize;
                format!("prepend {}", hex(&r.bytes(k)))
            }
            7 => format!("reserve {}", r.below(8)),
            _ => "slice".to_string(),
        });
    }
    ops.push("slice".into());
    ops
}

pub fn gen(a: &Args) -> String {
    install_hook();
    // `Rng::new` is linear in the seed (seed k+1 = seed k advanced by one step): re-seed from a mixed
    // output so that different VERIF_SEEDs give unrelated case sequences
    let mut r = Rng::new(Rng::new(a.seed).next() ^ 0xC17C_17C1_7C17_C17C);
    let mut out = Out::default();
    out.buf.push_str("#rule one case = one generated structure of one codec: `rt` = structure -> real encoder -> real decoder (bytes and decoded fields printed), followed by `dec` ops on the same bytes, on single-bit/byte mutations, truncations, extensions and on arbitrary strings; boundary field values (0,1,max,2^k) and every flag subset are enumerated by the generator; non-trivial = the ops of the case produced at least two different answers (e.g. an accepted and a refused decode); distinct = by operation list\n");
    let scale: u64 = if a.thorough { 12 } else { 1 };
    let plan: Vec<(&str, u64)> = vec![
        ("base38", 1500),
        ("manual", 1500),
        ("plainhdr", 1500),
        ("protohdr", 1200),
        ("status", 800),
        ("rbuf", 500),
        ("wbuf", 500),
    ];
    let mut id = 0u64;
    for (kind, n) in plan {
        for _ in 0..n * scale {
            let mut cr = r.fork();
            let ops = match kind {
                "base38" => gen_base38(&mut cr, &mut out),
                "manual" => gen_manual(&mut cr, &mut out),
                "plainhdr" => gen_plain(&mut cr, &mut out),
                "protohdr" => gen_proto(&mut cr, &mut out),
                "status" => gen_status(&mut cr, &mut out),
                "rbuf" => gen_rbuf(&mut cr, &mut out),
                _ => gen_wbuf(&mut cr, &mut out),
            };
            out.stat(&format!("kind_{}", kind), 1);
            emit_case(&mut out, id, kind, ops);
            id += 1;
        }
    }
    more::gen(&mut r, &mut out, a.thorough, &mut id);
    unproved::gen(&mut r, &mut out, a.thorough, &mut id);
    dercodecs::gen(&mut r, &mut out, a.thorough, &mut id); // D16d
    der::gen(&mut r, &mut out, a.thorough, &mut id); // D16c
    mdns2::gen(&mut r, &mut out, a.thorough, &mut id); // D16b
    out.finish()
}

pub fn emit_case(out: &mut Out, id: u64, kind: &str, ops: Vec<String>) {
    run_case(out, &Case { id, kind: kind.to_string(), ops });
}

pub fn replay(a: &Args) -> String {
    install_hook();
    let text = std::fs::read_to_string(a.input.as_ref().expect("--in")).expect("read input");
    let mut out = Out::default();
    for c in parse_cases(&text) {
        run_case(&mut out, &c);
    }
    out.finish()
}
