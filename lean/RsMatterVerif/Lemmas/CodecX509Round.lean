import RsMatterVerif.Lemmas.CodecX509
/-!
# What the X.509 / CSR decoders of `Model/Codec/X509.lean` read from the model encoder's output

`Run p l Q l'`: on every reader whose remaining bytes are exactly `l` (all frames have room, the innermost frame
ends with `l`) the action `p` succeeds with a value satisfying `Q`, consumes a prefix of `l` and leaves `l'`.
Composite decoders are handled by `Run.bind` over the `Run` facts of the primitives; loops by induction on the
encoded list.
-/
namespace Codec.DerRd

/-- `Next` plus: the innermost frame has exactly `l` left -/
structure NextX (r : Rdr) (l : List Nat) : Prop where
  next : Next r l
  exact : r.inputLen - r.position = l.length

theorem NextX.adv {r : Rdr} {x rest : List Nat} (h : NextX r (x ++ rest)) : NextX (r.adv x.length) rest := by
  refine ⟨h.next.adv, ?_⟩
  obtain ⟨_, _, f3, f4⟩ := r.adv_facts x.length
  have := h.exact
  simp only [List.length_append] at this
  rw [f3, f4]; omega

theorem NextX.nested {r : Rdr} {v rest : List Nat} (h : NextX r (v ++ rest)) : NextX (.nested r v.length 0) v :=
  ⟨(Next.nested h.next).2, by simp [Rdr.inputLen, Rdr.position]⟩

theorem NextX.ofSlice {bytes : List Nat} (h : bytes.length ≤ MAX_LEN) : NextX (.slice bytes 0) bytes :=
  ⟨Next.ofSlice h, by simp [Rdr.inputLen, Rdr.position]⟩

def Run {α : Type} (p : Dec α) (l : List Nat) (Q : α → Prop) (l' : List Nat) : Prop :=
  ∀ r, NextX r l → ∃ a pre, Q a ∧ l = pre ++ l' ∧ p r = .ok (a, r.adv pre.length)

namespace Run
variable {α β : Type}

theorem pure {a : α} {l : List Nat} {Q : α → Prop} (h : Q a) : Run (Pure.pure a : Dec α) l Q l :=
  fun r _ => ⟨a, [], h, rfl, by simp [Rdr.adv_zero, Dec.pure_run]⟩

theorem bind {p : Dec α} {f : α → Dec β} {l l1 l2 : List Nat} {Q : α → Prop} {R : β → Prop}
    (hp : Run p l Q l1) (hf : ∀ a, Q a → Run (f a) l1 R l2) : Run (p >>= f) l R l2 := by
  intro r hr
  obtain ⟨a, pre, hq, hl, hpr⟩ := hp r hr
  subst hl
  obtain ⟨b, pre2, hr2, hl2, hfr⟩ := hf a hq _ hr.adv
  subst hl2
  refine ⟨b, pre ++ pre2, hr2, by simp, ?_⟩
  rw [Dec.bind_run, hpr]
  simp only [hfr, Rdr.adv_adv, List.length_append]

theorem weaken {p : Dec α} {l l' : List Nat} {Q Q' : α → Prop} (h : Run p l Q l') (hq : ∀ a, Q a → Q' a) :
    Run p l Q' l' :=
  fun r hr => by
    obtain ⟨a, pre, h1, h2, h3⟩ := h r hr
    exact ⟨a, pre, hq a h1, h2, h3⟩

theorem lift {x : Except E α} {a : α} {l : List Nat} {Q : α → Prop} (hx : x = .ok a) (h : Q a) :
    Run (Dec.lift x) l Q l :=
  fun r _ => ⟨a, [], h, rfl, by subst hx; simp [Dec.lift, Rdr.adv_zero]⟩

/-- the bytes still to be read fit a `der::Length` -/
theorem of_len {p : Dec α} {l l' : List Nat} {Q : α → Prop} (h : l.length ≤ MAX_LEN → Run p l Q l') : Run p l Q l' :=
  fun r hr => h hr.next.length_le r hr

theorem congr {p q : Dec α} {l l' : List Nat} {Q : α → Prop} (h : Run q l Q l') (hpq : p = q) : Run p l Q l' := hpq ▸ h

end Run

/-! ## primitives -/

theorem run_header {tag : Nat} {v rest : List Nat} (ht : tagOfByte tag = .ok tag) :
    Run dHeader (encTlv tag v ++ rest) (fun x => x = (tag, v.length)) (v ++ rest) := by
  intro r hr
  obtain ⟨hh, _⟩ := Next.tlvHeader hr.next ht
  refine ⟨_, tag :: encLen v.length, rfl, by simp [encTlv], ?_⟩
  show headerDecode r = _
  rw [hh]
  simp [Nat.add_comm]

theorem run_slice {x rest : List Nat} {n : Nat} (hn : x.length = n) : Run (dSlice n) (x ++ rest) (fun y => y = x) rest := by
  intro r hr
  subst hn
  exact ⟨x, x, rfl, rfl, Next.slice hr.next⟩

theorem run_sliceAt {x rest : List Nat} {n : Nat} (hn : x.length = n) :
    Run (dSliceAt n) (x ++ rest) (fun y => y.1 = x) rest := by
  intro r hr
  subst hn
  exact ⟨(x, r.offset), x, rfl, rfl, Next.sliceAt hr.next⟩

theorem run_byte {b : Nat} {rest : List Nat} : Run dByte (b :: rest) (fun y => y = b) rest := by
  intro r hr
  exact ⟨b, [b], rfl, rfl, Next.byte hr.next⟩

theorem run_finished {l : List Nat} : Run dFinished l (fun b => b = l.isEmpty) l := by
  intro r hr
  refine ⟨l.isEmpty, [], rfl, rfl, ?_⟩
  rw [dFinished_at hr.next.wf, hr.exact]
  cases l <;> simp [Rdr.adv_zero]

theorem peekByte_next : ∀ {r : Rdr} {b : Nat} {l : List Nat}, Next r (b :: l) → r.peekByte = .ok (some b)
  | .slice bs p, b, l, h => by
    have hb := h.bytes
    have hroom := h.room
    simp only [Rdr.input, Rdr.offset, Rdr.inputLen, Rdr.position, List.length_cons] at hb hroom
    unfold Rdr.peekByte
    rw [if_pos (by omega)]
    have h1 : (bs.drop p).head? = some b := by
      have := congrArg List.head? hb
      simpa [List.head?_take] using this
    simp only [List.head?_drop] at h1
    rw [h1]
  | .nested i n p, b, l, h => by
    have hwf := h.wf
    obtain ⟨hi, hp, hrem, hoff⟩ := hwf
    have hroom := h.room
    simp only [Rdr.inputLen, Rdr.position, List.length_cons] at hroom
    unfold Rdr.peekByte
    rw [isFinished_ok h.wf]
    have hne : ((Rdr.nested i n p).inputLen - (Rdr.nested i n p).position == 0) = false := by
      simp [Rdr.inputLen, Rdr.position]; omega
    simp only [hne, Bind.bind, Except.bind, Bool.false_eq_true, if_false]
    exact peekByte_next (r := i) (b := b) (l := l) ⟨hi, by simp only [List.length_cons]; omega, h.bytes⟩

theorem peekByte_nil : ∀ {r : Rdr}, NextX r [] → r.peekByte = .ok none
  | .slice bs p, h => by
    have he := h.exact
    have hwf := h.next.wf
    simp only [Rdr.inputLen, Rdr.position, List.length_nil] at he
    unfold Rdr.peekByte
    have hp : p ≤ bs.length := hwf.1
    rw [if_pos hp]
    have : bs[p]? = none := by simp; omega
    rw [this]
  | .nested i n p, h => by
    have he := h.exact
    simp only [Rdr.inputLen, Rdr.position, List.length_nil] at he
    unfold Rdr.peekByte
    rw [isFinished_ok h.next.wf]
    simp [Rdr.inputLen, Rdr.position, he, Bind.bind, Except.bind, Pure.pure, Except.pure]

theorem run_peek {l : List Nat} : Run dPeek l (fun o => o = l.head?) l := by
  intro r hr
  refine ⟨l.head?, [], rfl, rfl, ?_⟩
  unfold dPeek
  cases l with
  | nil => rw [peekByte_nil hr]; simp [Rdr.adv_zero]
  | cons b t => rw [peekByte_next hr.next]; simp [Rdr.adv_zero]

theorem run_nested {α : Type} {p : Dec α} {v rest : List Nat} {Q : α → Prop} {n : Nat} (hn : v.length = n)
    (hp : Run p v Q []) : Run (dNested n p) (v ++ rest) Q rest := by
  intro r hr
  subst hn
  obtain ⟨a, pre, hq, hl, hpr⟩ := hp _ hr.nested
  have hpre : pre = v := by simpa using hl.symm
  subst hpre
  refine ⟨a, pre, hq, rfl, ?_⟩
  unfold dNested
  exact Next.nest hr.next hpr

theorem run_any {tag : Nat} {v rest : List Nat} (ht : tagOfByte tag = .ok tag) :
    Run dAny (encTlv tag v ++ rest) (fun x => x = (tag, v)) rest := by
  intro r hr
  exact ⟨_, encTlv tag v, rfl, rfl, Next.any hr.next ht⟩

/-- a fresh reader over `bytes` -/
theorem runNew_of_run {α : Type} {p : Dec α} {bytes l' : List Nat} {Q : α → Prop} (hp : Run p bytes Q l')
    (hlen : bytes.length ≤ MAX_LEN) : ∃ a, Q a ∧ runNew bytes p = .ok a := by
  obtain ⟨a, pre, hq, _, hpr⟩ := hp _ (NextX.ofSlice hlen)
  refine ⟨a, hq, ?_⟩
  unfold runNew Rdr.new
  rw [lenNew_of_le hlen]
  simp only [Bind.bind, Except.bind, Pure.pure, Except.pure, hpr]

theorem fromDer_of_run {α : Type} {p : Dec α} {bytes : List Nat} {Q : α → Prop} (hp : Run p bytes Q [])
    (hlen : bytes.length ≤ MAX_LEN) : ∃ a, Q a ∧ fromDer bytes p = .ok a := by
  have hx := NextX.ofSlice hlen
  obtain ⟨a, pre, hq, hl, hpr⟩ := hp _ hx
  have hpre : pre = bytes := by simpa using hl.symm
  subst hpre
  refine ⟨a, hq, ?_⟩
  unfold fromDer Rdr.new
  rw [lenNew_of_le hlen]
  simp only [Bind.bind, Except.bind, Pure.pure, Except.pure, hpr]
  have hfin : ((Rdr.slice pre 0).adv pre.length).finish = .ok () := by
    have hwf := (hx.next.nil_of.adv (x := pre) (rest := [])).wf
    unfold Rdr.finish
    rw [isFinished_ok hwf]
    simp [Rdr.adv, Rdr.inputLen, Rdr.position, Bind.bind, Except.bind, Pure.pure, Except.pure]
  rw [hfin]

end Codec.DerRd
