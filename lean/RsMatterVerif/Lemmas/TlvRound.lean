import RsMatterVerif.Lemmas.Tlv
/-! # Lemmas for the round-trip theorems of C16: what the reader computes on the writer's bytes -/
namespace Tlv


/-! ### little-endian encode / decode -/

@[simp] theorem leBytes_length (k n : Nat) : (leBytes k n).length = k := by
  induction k generalizing n with
  | zero => rfl
  | succ k ih => simp [leBytes, ih]

theorem leVal_leBytes (k n : Nat) : leVal (leBytes k n) = n % 256 ^ k := by
  induction k generalizing n with
  | zero => simp [leBytes, leVal, Nat.mod_one]
  | succ k ih =>
    simp only [leBytes, leVal, ih]
    have h1 : (UInt8.ofNat (n % 256)).toNat = n % 256 := by
      simp [UInt8.toNat_ofNat']
    rw [h1, Nat.pow_succ, Nat.mul_comm (256 ^ k) 256, Nat.mod_mul]

theorem leVal_leBytes_of_lt {k n : Nat} (h : n < 256 ^ k) : leVal (leBytes k n) = n := by
  rw [leVal_leBytes, Nat.mod_eq_of_lt h]

theorem leVal_lt (s : Bytes) : leVal s < 256 ^ s.length := by
  induction s with
  | nil => simp [leVal]
  | cons b r ih =>
    simp only [leVal, List.length_cons, Nat.pow_succ]
    have := b.toNat_lt
    omega

theorem leBytes_leVal (s : Bytes) : leBytes s.length (leVal s) = s := by
  induction s with
  | nil => rfl
  | cons b r ih =>
    simp only [List.length_cons, leBytes, leVal]
    have hb := b.toNat_lt
    have h1 : (b.toNat + 256 * leVal r) % 256 = b.toNat := by omega
    have h2 : (b.toNat + 256 * leVal r) / 256 = leVal r := by omega
    rw [h1, h2, ih]
    simp

theorem leBytes_append_take (k m n : Nat) : (leBytes (k + m) n).take k = leBytes k n := by
  induction k generalizing n with
  | zero => simp [leBytes]
  | succ k ih =>
    have : k + 1 + m = (k + m) + 1 := by omega
    rw [this]; simp [leBytes, ih]



theorem toSigned_cases (k n : Nat) :
    (n < 2 ^ (8 * k - 1) ∧ toSigned k n = (n : Int)) ∨
    (¬ n < 2 ^ (8 * k - 1) ∧ toSigned k n = (n : Int) - (2 ^ (8 * k) : Nat)) := by
  unfold toSigned
  by_cases h : n < 2 ^ (8 * k - 1)
  · left; exact ⟨h, if_pos h⟩
  · right; exact ⟨h, if_neg h⟩

theorem signed_roundtrip (w : Width) (i : Int)
    (h : -(2 ^ (8 * w.bytes - 1) : Nat) ≤ i ∧ i < (2 ^ (8 * w.bytes - 1) : Nat)) :
    ofSigned w.bytes i < 256 ^ w.bytes ∧ toSigned w.bytes (ofSigned w.bytes i) = i := by
  have hc := toSigned_cases w.bytes (ofSigned w.bytes i)
  cases w <;> simp only [Width.bytes, ofSigned] at h hc ⊢ <;>
    simp only [Nat.reduceMul, Nat.reduceSub, Nat.reducePow] at h hc ⊢ <;> omega



theorem TagType.ofCode_code (t : TagType) : TagType.ofCode t.code = some t := by cases t <;> rfl
theorem TagType.code_lt (t : TagType) : t.code < 8 := by cases t <;> decide
theorem ValueType.ofCode_code (v : ValueType) : ValueType.ofCode v.code = some v := by
  cases v with
  | sint w => cases w <;> rfl
  | uint w => cases w <;> rfl
  | utf8 w => cases w <;> rfl
  | str w => cases w <;> rfl
  | cont k => cases k <;> rfl
  | _ => rfl
theorem ValueType.code_lt (v : ValueType) : v.code < 32 := by
  cases v with
  | sint w => cases w <;> decide
  | uint w => cases w <;> decide
  | utf8 w => cases w <;> decide
  | str w => cases w <;> decide
  | cont k => cases k <;> decide
  | _ => decide

theorem Control.parse_raw (c : Control) : Control.parse c.raw = .ok c := by
  have h1 := TagType.code_lt c.tag
  have h2 := ValueType.code_lt c.vt
  have hn : c.raw.toNat = c.tag.code * 32 + c.vt.code := by
    simp only [Control.raw, UInt8.toNat_ofNat']; omega
  have ha : c.raw.toNat / 32 = c.tag.code := by rw [hn]; omega
  have hb : c.raw.toNat % 32 = c.vt.code := by rw [hn]; omega
  simp only [Control.parse, ha, hb, TagType.ofCode_code, ValueType.ofCode_code, okOr, Res.ok_bind, Res.pure_eq]


theorem Tag.bytes_length (t : Tag) : t.bytes.length = t.type.size := by
  cases t <;> simp [Tag.bytes, Tag.type, TagType.size]

@[simp] theorem control_header (t : Tag) (vt : ValueType) (rest : Bytes) :
    control (header t vt ++ rest) = .ok ⟨t.type, vt⟩ := by
  simp [header, control, Control.parse_raw]

theorem getFrom_append_left (a b : Bytes) : getFrom (a ++ b) a.length = some b := by
  simp [getFrom]
theorem getTo_append_left (a b : Bytes) : getTo (a ++ b) a.length = some a := by
  simp [getTo]

@[simp] theorem valueLenStart_header (t : Tag) (vt : ValueType) (rest : Bytes) :
    valueLenStart (header t vt ++ rest) t.type = .ok rest := by
  simp only [header, List.cons_append, valueLenStart_cons, ← Tag.bytes_length, getFrom_append_left, okOr]

theorem tagOf_header (t : Tag) (vt : ValueType) (rest : Bytes) (h : t.wf) :
    tagOf (header t vt ++ rest) = .ok t := by
  unfold tagOf
  simp only [control_header, Res.ok_bind]
  simp only [header, List.cons_append, tagStart_cons, Res.ok_bind, ← Tag.bytes_length, getTo_append_left, okOr]
  cases t with
  | anon => rfl
  | ctx n =>
    simp only [Tag.wf] at h
    simp [Tag.type, Tag.bytes, leBytes, Res.pure_eq]; omega
  | commonPrf16 n =>
    simp only [Tag.wf] at h
    simp only [Tag.type, Tag.bytes, arr, leBytes_length, if_true, Res.ok_bind, Res.pure_eq]
    rw [leVal_leBytes_of_lt (by omega)]
  | commonPrf32 n =>
    simp only [Tag.wf] at h
    simp only [Tag.type, Tag.bytes, arr, leBytes_length, if_true, Res.ok_bind, Res.pure_eq]
    rw [leVal_leBytes_of_lt (by omega)]
  | implPrf16 n =>
    simp only [Tag.wf] at h
    simp only [Tag.type, Tag.bytes, arr, leBytes_length, if_true, Res.ok_bind, Res.pure_eq]
    rw [leVal_leBytes_of_lt (by omega)]
  | implPrf32 n =>
    simp only [Tag.wf] at h
    simp only [Tag.type, Tag.bytes, arr, leBytes_length, if_true, Res.ok_bind, Res.pure_eq]
    rw [leVal_leBytes_of_lt (by omega)]
  | fullQual48 v p tg =>
    simp only [Tag.wf] at h
    have e1 : ((leBytes 2 v ++ leBytes 2 p ++ leBytes 2 tg).take 2) = leBytes 2 v := by
      rw [List.append_assoc, List.take_left' (by simp)]
    have e2 : (((leBytes 2 v ++ leBytes 2 p ++ leBytes 2 tg).drop 2).take 2) = leBytes 2 p := by
      rw [List.append_assoc, List.drop_left' (by simp), List.take_left' (by simp)]
    have e3 : (((leBytes 2 v ++ leBytes 2 p ++ leBytes 2 tg).drop 4).take 2) = leBytes 2 tg := by
      rw [List.drop_left' (by simp), List.take_of_length_le (by simp)]
    simp only [Tag.type, Tag.bytes, e1, e2, e3]
    rw [if_pos (by simp), leVal_leBytes_of_lt (by omega), leVal_leBytes_of_lt (by omega), leVal_leBytes_of_lt (by omega)]
    rfl
  | fullQual64 v p tg =>
    simp only [Tag.wf] at h
    have e1 : ((leBytes 2 v ++ leBytes 2 p ++ leBytes 4 tg).take 2) = leBytes 2 v := by
      rw [List.append_assoc, List.take_left' (by simp)]
    have e2 : (((leBytes 2 v ++ leBytes 2 p ++ leBytes 4 tg).drop 2).take 2) = leBytes 2 p := by
      rw [List.append_assoc, List.drop_left' (by simp), List.take_left' (by simp)]
    have e3 : (((leBytes 2 v ++ leBytes 2 p ++ leBytes 4 tg).drop 4).take 4) = leBytes 4 tg := by
      rw [List.drop_left' (by simp), List.take_of_length_le (by simp)]
    simp only [Tag.type, Tag.bytes, e1, e2, e3]
    rw [if_pos (by simp), leVal_leBytes_of_lt (by omega), leVal_leBytes_of_lt (by omega), leVal_leBytes_of_lt (by omega)]
    rfl


/-- the length field of a string primitive -/
def Prim.lenField : Prim → Bytes
  | .utf8 w b => leBytes w.bytes b.length
  | .str w b => leBytes w.bytes b.length
  | _ => []
/-- the value bytes proper -/
def Prim.data : Prim → Bytes
  | .sint w i => leBytes w.bytes (ofSigned w.bytes i)
  | .uint w n => leBytes w.bytes n
  | .f32 b => leBytes 4 b
  | .f64 b => leBytes 8 b
  | .utf8 _ b => b
  | .str _ b => b
  | _ => []

theorem Prim.payload_eq (p : Prim) : p.payload = p.lenField ++ p.data := by
  cases p <;> simp [Prim.payload, Prim.lenField, Prim.data]
theorem Prim.lenField_length (p : Prim) : p.lenField.length = p.vt.varSizeLen := by
  cases p with
  | bool b => cases b <;> rfl
  | _ => simp [Prim.lenField, Prim.vt, ValueType.varSizeLen]

theorem pow256 (w : Width) : 256 ^ w.bytes = 2 ^ (8 * w.bytes) := by
  cases w <;> simp [Width.bytes]

theorem Prim.not_container (p : Prim) : p.vt.isContainer = false := by
  cases p with
  | bool b => cases b <;> rfl
  | _ => rfl

section leaf
variable (t : Tag) (p : Prim) (more : Bytes)

theorem valueStart_leaf : valueStart (header t p.vt ++ (p.lenField ++ p.data ++ more)) ⟨t.type, p.vt⟩ = .ok (p.data ++ more) := by
  simp only [valueStart, valueLenStart_header, Res.ok_bind, ← Prim.lenField_length, List.append_assoc,
    getFrom_append_left, okOr]

theorem valueLen_leaf (h : p.wf) : valueLen (header t p.vt ++ (p.lenField ++ p.data ++ more)) ⟨t.type, p.vt⟩ = .ok p.data.length := by
  unfold valueLen
  cases p with
  | sint w i => simp [Prim.vt, ValueType.fixedSize, Prim.data]
  | uint w n => simp [Prim.vt, ValueType.fixedSize, Prim.data]
  | bool b => cases b <;> simp [Prim.vt, ValueType.fixedSize, Prim.data]
  | f32 b => simp [Prim.vt, ValueType.fixedSize, Prim.data]
  | f64 b => simp [Prim.vt, ValueType.fixedSize, Prim.data]
  | null => simp [Prim.vt, ValueType.fixedSize, Prim.data]
  | utf8 w b =>
    simp only [Prim.wf] at h
    simp only [Prim.vt, ValueType.fixedSize, valueLenStart_header, Res.ok_bind, ValueType.varSizeLen, Prim.lenField, Prim.data]
    have : getTo (leBytes w.bytes b.length ++ b ++ more) w.bytes = some (leBytes w.bytes b.length) := by
      have := getTo_append_left (leBytes w.bytes b.length) (b ++ more)
      simpa using this
    simp only [this, okOr, Res.ok_bind, leBytes_length, if_true]
    rw [if_pos (by cases w <;> simp [Width.bytes]), leVal_leBytes_of_lt (by rw [pow256]; exact h.1)]
  | str w b =>
    simp only [Prim.wf] at h
    simp only [Prim.vt, ValueType.fixedSize, valueLenStart_header, Res.ok_bind, ValueType.varSizeLen, Prim.lenField, Prim.data]
    have : getTo (leBytes w.bytes b.length ++ b ++ more) w.bytes = some (leBytes w.bytes b.length) := by
      have := getTo_append_left (leBytes w.bytes b.length) (b ++ more)
      simpa using this
    simp only [this, okOr, Res.ok_bind, leBytes_length, if_true]
    rw [if_pos (by cases w <;> simp [Width.bytes]), leVal_leBytes_of_lt (by rw [pow256]; exact h)]

theorem value_leaf (h : p.wf) : value (header t p.vt ++ (p.lenField ++ p.data ++ more)) ⟨t.type, p.vt⟩ = .ok p.data := by
  simp only [value, valueLen_leaf t p more h, valueStart_leaf, Res.ok_bind, getTo_append_left, okOr]

theorem nextStart_leaf (h : p.wf) : nextStart (header t p.vt ++ (p.lenField ++ p.data ++ more)) ⟨t.type, p.vt⟩ = .ok more := by
  simp only [nextStart, valueLen_leaf t p more h, valueStart_leaf, Res.ok_bind, getFrom_append_left, okOr]

theorem header_ne_nil (vt : ValueType) (r : Bytes) : (header t vt ++ r).isEmpty = false := by
  simp [header]

theorem nextEnter_leaf (h : p.wf) : nextEnter (header t p.vt ++ (p.lenField ++ p.data ++ more)) = .ok more := by
  simp only [nextEnter, header_ne_nil, Bool.false_eq_true, if_false, control_header, Res.ok_bind, nextStart_leaf t p more h]

theorem containerValue_leaf (h : p.wf) :
    containerValue (header t p.vt ++ (p.lenField ++ p.data ++ more)) ⟨t.type, p.vt⟩ = .ok p.data := by
  simp only [containerValue, containerValueLen, Prim.not_container, Bool.false_eq_true, if_false,
    valueLen_leaf t p more h, valueStart_leaf, Res.ok_bind, getTo_append_left, okOr]

theorem valueOf_leaf (h : p.wf) : valueOf (header t p.vt ++ (p.lenField ++ p.data ++ more)) = .ok (.prim p) := by
  simp only [valueOf, control_header, Res.ok_bind, containerValue_leaf t p more h]
  cases p with
  | sint w i =>
    simp only [Prim.wf] at h
    obtain ⟨h1, h2⟩ := signed_roundtrip w i h
    simp only [Prim.vt, Prim.data, arr, leBytes_length, if_true, Res.ok_bind, Res.pure_eq,
      leVal_leBytes_of_lt h1, h2]
  | uint w n =>
    simp only [Prim.wf] at h
    simp only [Prim.vt, Prim.data, arr, leBytes_length, if_true, Res.ok_bind, Res.pure_eq]
    rw [leVal_leBytes_of_lt (by rw [pow256]; exact h)]
  | bool b => cases b <;> rfl
  | f32 b =>
    simp only [Prim.wf] at h
    simp only [Prim.vt, Prim.data, arr, leBytes_length, if_true, Res.ok_bind, Res.pure_eq]
    rw [leVal_leBytes_of_lt (by omega)]
  | f64 b =>
    simp only [Prim.wf] at h
    simp only [Prim.vt, Prim.data, arr, leBytes_length, if_true, Res.ok_bind, Res.pure_eq]
    rw [leVal_leBytes_of_lt (by omega)]
  | utf8 w b =>
    simp only [Prim.wf] at h
    simp only [Prim.vt, Prim.data, h.2, if_true, Res.pure_eq]
  | str w b => rfl
  | null => rfl

end leaf


mutual
/-- number of TLV tokens (leaf = 1, container = start + content + end) -/
def Value.ntoks : Value → Nat
  | .leaf _ _ => 1
  | .cont _ _ cs => cs.ntoks + 2
def Values.ntoks : Values → Nat
  | .nil => 0
  | .cons v vs => v.ntoks + vs.ntoks
end

def Values.len : Values → Nat
  | .nil => 0
  | .cons _ vs => vs.len + 1

theorem header_length (t : Tag) (vt : ValueType) : (header t vt).length = 1 + t.type.size := by
  simp [header, Tag.bytes_length]; omega

mutual
theorem Value.ntoks_le (v : Value) : v.ntoks ≤ (encode v).length := by
  cases v with
  | leaf t p => simp [Value.ntoks, encode, header]
  | cont t k cs =>
    have := Values.ntoks_le cs
    simp [Value.ntoks, encode, header]; omega
theorem Values.ntoks_le (vs : Values) : vs.ntoks ≤ (encodes vs).length := by
  cases vs with
  | nil => simp [Values.ntoks, encodes]
  | cons v vs =>
    have := Value.ntoks_le v
    have := Values.ntoks_le vs
    simp [Values.ntoks, encodes]; omega
end

theorem Value.ntoks_pos (v : Value) : 0 < v.ntoks := by cases v <;> simp [Value.ntoks]
theorem Values.len_le : ∀ vs : Values, vs.len ≤ vs.ntoks
  | .nil => by simp [Values.len, Values.ntoks]
  | .cons v vs => by
    have := Value.ntoks_pos v
    have := Values.len_le vs
    simp [Values.len, Values.ntoks]; omega

theorem encode_leaf_append (t : Tag) (p : Prim) (more : Bytes) :
    encode (.leaf t p) ++ more = header t p.vt ++ (p.lenField ++ p.data ++ more) := by
  simp [encode, Prim.payload_eq]

theorem encode_cont_append (t : Tag) (k : Kind) (cs : Values) (more : Bytes) :
    encode (.cont t k cs) ++ more = header t (.cont k) ++ (encodes cs ++ endByte :: more) := by
  simp [encode]

theorem encodes_cons_append (v : Value) (vs : Values) (more : Bytes) :
    encodes (.cons v vs) ++ more = encode v ++ (encodes vs ++ more) := by
  simp [encodes]

/-! ### container start / end marker under the reader -/

theorem nextEnter_open (t : Tag) (k : Kind) (X : Bytes) : nextEnter (header t (.cont k) ++ X) = .ok X := by
  simp only [nextEnter, header_ne_nil, Bool.false_eq_true, if_false, control_header, Res.ok_bind, nextStart,
    valueLen, ValueType.fixedSize, valueStart, valueLenStart_header, ValueType.varSizeLen]
  simp [getFrom, okOr]

theorem control_end (more : Bytes) : control (endByte :: more) = .ok ⟨.anon, .endCnt⟩ := by
  simp only [control]; decide

theorem nextEnter_end (more : Bytes) : nextEnter (endByte :: more) = .ok more := by
  simp only [nextEnter, List.isEmpty_cons, Bool.false_eq_true, if_false, control_end, Res.ok_bind, nextStart,
    valueLen, ValueType.fixedSize, valueStart, valueLenStart_cons, TagType.size, ValueType.varSizeLen]
  simp [getFrom, okOr]

theorem levelStep_leaf (t : Tag) (p : Prim) (l : Nat) : levelStep ⟨t.type, p.vt⟩ l = .ok l := by
  have h := Prim.not_container p
  simp only [ValueType.isContainer, Bool.or_eq_false_iff] at h
  simp [levelStep, h.2, ValueType.isContainer, h.1]

theorem levelStep_open (tt : TagType) (k : Kind) (l : Nat) (h : l + 1 < I32LIM) :
    levelStep ⟨tt, .cont k⟩ l = .ok (l + 1) := by
  simp [levelStep, ValueType.isContainerEnd, ValueType.isContainer, ValueType.isContainerStart, addI32, h]

theorem levelStep_end (l : Nat) : levelStep ⟨.anon, .endCnt⟩ (l + 1) = .ok l := by
  simp [levelStep, ValueType.isContainerEnd, Control.confirmContainerEnd, Control.isContainerEnd, subI32]

/-! ### skipping (`container_next`) over the writer's bytes -/

theorem skipLoop_leaf (f : Nat) (t : Tag) (p : Prim) (more : Bytes) (l : Nat) (h : p.wf) :
    skipLoop (f + 1) (encode (.leaf t p) ++ more) (l + 1) = skipLoop f more (l + 1) := by
  rw [encode_leaf_append]
  simp only [skipLoop, control_header, Res.ok_bind, levelStep_leaf, nextEnter_leaf t p more h]

theorem skipLoop_open (f : Nat) (t : Tag) (k : Kind) (X : Bytes) (l : Nat) (h : l + 2 < I32LIM) :
    skipLoop (f + 1) (header t (.cont k) ++ X) (l + 1) = skipLoop f X (l + 2) := by
  simp only [skipLoop, control_header, Res.ok_bind, levelStep_open _ _ _ h, nextEnter_open]

theorem skipLoop_end (f : Nat) (more : Bytes) (l : Nat) :
    skipLoop (f + 1) (endByte :: more) (l + 1) = skipLoop f more l := by
  simp only [skipLoop, control_end, Res.ok_bind, levelStep_end, nextEnter_end]

mutual
theorem skipLoop_value (v : Value) (f : Nat) (more : Bytes) (l : Nat) (hw : v.wf) (hd : l + v.depth + 1 < I32LIM) :
    skipLoop (f + v.ntoks) (encode v ++ more) (l + 1) = skipLoop f more (l + 1) := by
  cases v with
  | leaf t p => exact skipLoop_leaf f t p more l hw.2
  | cont t k cs =>
    simp only [Value.depth] at hd
    simp only [Value.wf] at hw
    rw [encode_cont_append]
    have e : f + (Value.cont t k cs).ntoks = (f + 1 + cs.ntoks) + 1 := by simp [Value.ntoks]; omega
    rw [e, skipLoop_open _ _ _ _ _ (by omega)]
    rw [skipLoop_values cs (f + 1) (endByte :: more) (l + 1) hw.2 (by omega)]
    exact skipLoop_end f more (l + 1)
theorem skipLoop_values (vs : Values) (f : Nat) (more : Bytes) (l : Nat) (hw : vs.wf) (hd : l + vs.depth + 1 < I32LIM) :
    skipLoop (f + vs.ntoks) (encodes vs ++ more) (l + 1) = skipLoop f more (l + 1) := by
  cases vs with
  | nil => simp [Values.ntoks, encodes]
  | cons v vs =>
    simp only [Values.depth] at hd
    simp only [Values.wf] at hw
    rw [encodes_cons_append]
    have e : f + (Values.cons v vs).ntoks = (f + vs.ntoks) + v.ntoks := by simp [Values.ntoks]; omega
    rw [e, skipLoop_value v _ _ l hw.1 (by omega)]
    exact skipLoop_values vs f more l hw.2 (by omega)
end


theorem encode_ne_nil (v : Value) (more : Bytes) : (encode v ++ more).isEmpty = false := by
  cases v <;> simp [encode, header]

theorem control_encode (v : Value) (more : Bytes) :
    ∃ c, control (encode v ++ more) = .ok c ∧ c.vt.isContainerEnd = false := by
  cases v with
  | leaf t p =>
    refine ⟨⟨t.type, p.vt⟩, by rw [encode_leaf_append, control_header], ?_⟩
    have h := Prim.not_container p
    simp only [ValueType.isContainer, Bool.or_eq_false_iff] at h
    exact h.2
  | cont t k cs => exact ⟨⟨t.type, .cont k⟩, by rw [encode_cont_append, control_header], rfl⟩

/-- `container_next` skips exactly one written element -/
theorem containerNext_encode (v : Value) (more : Bytes) (hw : v.wf) (hd : v.depth + 1 < I32LIM) :
    containerNext (encode v ++ more) = .ok more := by
  cases v with
  | leaf t p =>
    have h := Prim.not_container p
    have h' := h
    simp only [ValueType.isContainer, Bool.or_eq_false_iff] at h'
    simp only [containerNext, encode_ne_nil, Bool.false_eq_true, if_false]
    rw [encode_leaf_append]
    simp only [control_header, Res.ok_bind, h'.2, Bool.false_eq_true, if_false, nextEnter_leaf t p more hw.2, h, Res.pure_eq]
  | cont t k cs =>
    simp only [containerNext, encode_ne_nil, Bool.false_eq_true, if_false]
    rw [encode_cont_append]
    simp only [control_header, Res.ok_bind, ValueType.isContainerEnd, Bool.false_eq_true, if_false, nextEnter_open,
      ValueType.isContainer, ValueType.isContainerStart, Bool.true_or, if_true]
    have hn := Values.ntoks_le cs
    obtain ⟨f, hf⟩ : ∃ f, (header t (ValueType.cont k) ++ (encodes cs ++ endByte :: more)).length = (f + 1) + cs.ntoks := by
      refine ⟨(header t (ValueType.cont k) ++ (encodes cs ++ endByte :: more)).length - 1 - cs.ntoks, ?_⟩
      simp [header]; omega
    simp only [Value.depth] at hd
    rw [hf, skipLoop_values cs (f + 1) (endByte :: more) 0 hw.2 (by omega), skipLoop_end]
    simp [skipLoop]

/-- one `next()` of the element iterator on a written element followed by anything -/
theorem iterNext_encode (v : Value) (X : Bytes) (hw : v.wf) (hd : v.depth + 1 < I32LIM) :
    iterNext (encode v ++ X) = (some (.ok (encode v ++ X)), X) := by
  obtain ⟨c, hc, hend⟩ := control_encode v X
  have hcur : current (encode v ++ X) = .ok (encode v ++ X) := by
    simp [current, encode_ne_nil, hc, hend]
  simp [iterNext, hcur, containerNext_encode v X hw hd, encode_ne_nil]

theorem iterNext_end (more : Bytes) : iterNext (endByte :: more) = (none, endByte :: more) := by
  have hcur : current (endByte :: more) = .ok [] := by
    simp [current, control_end, ValueType.isContainerEnd, Control.confirmContainerEnd, Control.isContainerEnd]
  have hnext : containerNext (endByte :: more) = .ok (endByte :: more) := by
    simp [containerNext, control_end, ValueType.isContainerEnd, Control.confirmContainerEnd, Control.isContainerEnd]
  simp [iterNext, hcur, hnext]

/-- the suffixes at which the children of a written container start -/
def childSuffixes : Values → Bytes → List Bytes
  | .nil, _ => []
  | .cons v vs, more => (encode v ++ (encodes vs ++ endByte :: more)) :: childSuffixes vs more

theorem elementsF_succ (f : Nat) (seq : Bytes) :
    elementsF (f + 1) seq = match iterNext seq with
      | (none, _) => []
      | (some r, seq') => r :: elementsF f seq' := rfl

/-- iterating over the content of a written container yields exactly its children, then stops -/
theorem elementsF_encodes : ∀ (vs : Values) (n : Nat) (more : Bytes), vs.wf → vs.depth + 1 < I32LIM →
    elementsF (n + vs.len + 1) (encodes vs ++ endByte :: more) = (childSuffixes vs more).map .ok
  | .nil, n, more, _, _ => by
    simp [encodes, elementsF, iterNext_end, childSuffixes]
  | .cons v vs, n, more, hw, hd => by
    simp only [Values.wf] at hw
    simp only [Values.depth] at hd
    have e : n + (Values.cons v vs).len + 1 = (n + vs.len + 1) + 1 := by simp [Values.len]; omega
    rw [e, encodes_cons_append]
    rw [elementsF_succ, iterNext_encode v _ hw.1 (by omega)]
    simp only [childSuffixes, List.map_cons]
    rw [elementsF_encodes vs n more hw.2 (by omega)]


/-- the body of the `container_value_len` loop once the next element `P` has been entered -/
def cvlStep (f : Nat) (P : Bytes) (len l : Nat) : Res Nat := do
  let e ← elemLen P
  let len' ← checkedAdd len e
  let c ← control P
  let lv ← levelStep c (l + 1)
  cvlLoop f P len' lv

theorem cvlLoop_succ (f : Nat) (next : Bytes) (len l : Nat) :
    cvlLoop (f + 1) next len (l + 1) = (nextEnter next >>= fun P => cvlStep f P len l) := rfl

theorem checkedAdd_ok {a b : Nat} (h : a + b < USIZE) : checkedAdd a b = .ok (a + b) := by
  simp [checkedAdd, h]

theorem Prim.data_length_fixed (p : Prim) : (p.vt.varSizeLen + p.data.length) = p.payload.length := by
  rw [Prim.payload_eq, List.length_append, Prim.lenField_length]

theorem elemLen_leaf (t : Tag) (p : Prim) (more : Bytes) (h : p.wf) (hl : (encode (.leaf t p)).length < USIZE) :
    elemLen (encode (.leaf t p) ++ more) = .ok (encode (.leaf t p)).length := by
  have e : (encode (.leaf t p)).length = hdrLen ⟨t.type, p.vt⟩ + p.data.length := by
    simp only [encode, List.length_append, header_length, hdrLen, ← Prim.data_length_fixed]; omega
  rw [encode_leaf_append]
  simp only [elemLen, control_header, Res.ok_bind, valueLen_leaf t p more h]
  rw [e] at hl ⊢
  exact checkedAdd_ok hl

theorem elemLen_open (t : Tag) (k : Kind) (X : Bytes) :
    elemLen (header t (.cont k) ++ X) = .ok (header t (.cont k)).length := by
  simp only [elemLen, control_header, Res.ok_bind, valueLen, ValueType.fixedSize, hdrLen, ValueType.varSizeLen, header_length]
  exact checkedAdd_ok (by have := t.type; cases t <;> simp [Tag.type, TagType.size, USIZE])

theorem elemLen_end (more : Bytes) : elemLen (endByte :: more) = .ok 1 := by
  simp only [elemLen, control_end, Res.ok_bind, valueLen, ValueType.fixedSize, hdrLen, ValueType.varSizeLen, TagType.size]
  exact checkedAdd_ok (by simp [USIZE])

theorem cvlStep_leaf (f : Nat) (t : Tag) (p : Prim) (more : Bytes) (len l : Nat) (h : p.wf)
    (hl : len + (encode (.leaf t p)).length < USIZE) :
    cvlStep (f + 1) (encode (.leaf t p) ++ more) len l = cvlStep f more (len + (encode (.leaf t p)).length) l := by
  unfold cvlStep
  simp only [elemLen_leaf t p more h (by omega), Res.ok_bind, checkedAdd_ok hl]
  rw [encode_leaf_append]
  simp only [control_header, Res.ok_bind, levelStep_leaf, cvlLoop_succ, nextEnter_leaf t p more h]
  rfl

theorem cvlStep_open (f : Nat) (t : Tag) (k : Kind) (X : Bytes) (len l : Nat)
    (hl : len + (header t (.cont k)).length < USIZE) (hd : l + 2 < I32LIM) :
    cvlStep (f + 1) (header t (.cont k) ++ X) len l = cvlStep f X (len + (header t (.cont k)).length) (l + 1) := by
  unfold cvlStep
  simp only [elemLen_open, Res.ok_bind, checkedAdd_ok hl, control_header, levelStep_open _ _ _ hd, cvlLoop_succ, nextEnter_open]
  rfl

theorem cvlStep_end (f : Nat) (more : Bytes) (len l : Nat) (hl : len + 1 < USIZE) :
    cvlStep (f + 1) (endByte :: more) len (l + 1) = cvlStep f more (len + 1) l := by
  unfold cvlStep
  simp only [elemLen_end, Res.ok_bind, checkedAdd_ok hl, control_end, levelStep_end, cvlLoop_succ, nextEnter_end]
  rfl

theorem cvlStep_last (f : Nat) (more : Bytes) (len : Nat) (hl : len + 1 < USIZE) :
    cvlStep f (endByte :: more) len 0 = .ok (len + 1) := by
  unfold cvlStep
  simp only [elemLen_end, Res.ok_bind, checkedAdd_ok hl, control_end, levelStep_end]
  cases f <;> rfl

mutual
theorem cvlStep_value (v : Value) (f : Nat) (more : Bytes) (len l : Nat) (hw : v.wf)
    (hl : len + (encode v).length < USIZE) (hd : l + v.depth + 1 < I32LIM) :
    cvlStep (f + v.ntoks) (encode v ++ more) len l = cvlStep f more (len + (encode v).length) l := by
  cases v with
  | leaf t p => exact cvlStep_leaf f t p more len l hw.2 hl
  | cont t k cs =>
    simp only [Value.depth] at hd
    simp only [Value.wf] at hw
    have hlen : (encode (.cont t k cs)).length = (header t (.cont k)).length + (encodes cs).length + 1 := by
      simp [encode]; omega
    rw [encode_cont_append]
    have e : f + (Value.cont t k cs).ntoks = (f + 1 + cs.ntoks) + 1 := by simp [Value.ntoks]; omega
    rw [e, cvlStep_open _ _ _ _ _ _ (by omega) (by omega)]
    rw [cvlStep_values cs (f + 1) (endByte :: more) _ (l + 1) hw.2 (by omega) (by omega)]
    rw [cvlStep_end f more _ l (by omega)]
    congr 1; omega
theorem cvlStep_values (vs : Values) (f : Nat) (more : Bytes) (len l : Nat) (hw : vs.wf)
    (hl : len + (encodes vs).length < USIZE) (hd : l + vs.depth + 1 < I32LIM) :
    cvlStep (f + vs.ntoks) (encodes vs ++ more) len l = cvlStep f more (len + (encodes vs).length) l := by
  cases vs with
  | nil => simp [Values.ntoks, encodes]
  | cons v vs =>
    simp only [Values.depth] at hd
    simp only [Values.wf] at hw
    have hlen : (encodes (.cons v vs)).length = (encode v).length + (encodes vs).length := by simp [encodes]
    rw [encodes_cons_append]
    have e : f + (Values.cons v vs).ntoks = (f + vs.ntoks) + v.ntoks := by simp [Values.ntoks]; omega
    rw [e, cvlStep_value v _ _ len l hw.1 (by omega) (by omega)]
    rw [cvlStep_values vs f more _ l hw.2 (by omega) (by omega)]
    congr 1; omega
end

/-- `container_value_len` of a written container: its content plus the end marker -/
theorem containerValueLen_cont (t : Tag) (k : Kind) (cs : Values) (more : Bytes) (hw : cs.wf)
    (hl : (encodes cs).length + 1 < I32LIM) (hd : cs.depth + 1 < I32LIM) :
    containerValueLen (encode (.cont t k cs) ++ more) ⟨t.type, .cont k⟩ = .ok ((encodes cs).length + 1) := by
  simp only [containerValueLen, ValueType.isContainer, ValueType.isContainerStart, Bool.true_or, if_true]
  rw [encode_cont_append, cvlLoop_succ, nextEnter_open, Res.ok_bind]
  have hn := Values.ntoks_le cs
  obtain ⟨f, hf⟩ : ∃ f, (header t (ValueType.cont k) ++ (encodes cs ++ endByte :: more)).length = f + cs.ntoks := by
    refine ⟨(header t (ValueType.cont k) ++ (encodes cs ++ endByte :: more)).length - cs.ntoks, ?_⟩
    simp [header]; omega
  have hLU := i32lim_lt_usize
  rw [hf, cvlStep_values cs f (endByte :: more) 0 0 hw (by omega) (by omega)]
  rw [cvlStep_last _ _ _ (by omega)]
  simp

theorem valueOf_cont (t : Tag) (k : Kind) (cs : Values) (more : Bytes) (hw : cs.wf)
    (hl : (encodes cs).length + 1 < I32LIM) (hd : cs.depth + 1 < I32LIM) :
    valueOf (encode (.cont t k cs) ++ more) = .ok (.cont k) := by
  have h1 := containerValueLen_cont t k cs more hw hl hd
  unfold valueOf containerValue
  rw [encode_cont_append] at h1 ⊢
  simp only [control_header, Res.ok_bind, h1, valueStart, valueLenStart_header, ValueType.varSizeLen]
  have : getFrom (encodes cs ++ endByte :: more) 0 = some (encodes cs ++ endByte :: more) := by simp [getFrom]
  simp only [this, okOr, Res.ok_bind]
  have : getTo (encodes cs ++ endByte :: more) ((encodes cs).length + 1) = some (encodes cs ++ [endByte]) := by
    have := getTo_append_left (encodes cs ++ [endByte]) more
    simpa using this
  simp only [this, Res.ok_bind, Res.pure_eq]


mutual
theorem Value.depth_le_ntoks : ∀ v : Value, v.depth ≤ v.ntoks
  | .leaf _ _ => by simp [Value.depth, Value.ntoks]
  | .cont _ _ cs => by have := Values.depth_le_ntoks cs; simp [Value.depth, Value.ntoks]; omega
theorem Values.depth_le_ntoks : ∀ vs : Values, vs.depth ≤ vs.ntoks
  | .nil => by simp [Values.depth]
  | .cons v vs => by
    have := Value.depth_le_ntoks v
    have := Values.depth_le_ntoks vs
    simp [Values.depth, Values.ntoks]; omega
end

theorem containerOf_cont (t : Tag) (k : Kind) (cs : Values) (more : Bytes) :
    containerOf (encode (.cont t k cs) ++ more) = .ok (encodes cs ++ endByte :: more) := by
  rw [encode_cont_append]
  simp [containerOf, ValueType.isContainerStart, nextEnter_open]

theorem elements_encodes (vs : Values) (more : Bytes) (hw : vs.wf) (hd : vs.depth + 1 < I32LIM) :
    elements (encodes vs ++ endByte :: more) = (childSuffixes vs more).map .ok := by
  unfold elements
  have h1 := Values.len_le vs
  have h2 := Values.ntoks_le vs
  obtain ⟨n, hn⟩ : ∃ n, (encodes vs ++ endByte :: more).length + 1 = n + vs.len + 1 :=
    ⟨(encodes vs ++ endByte :: more).length - vs.len, by simp; omega⟩
  rw [hn]; exact elementsF_encodes vs n more hw hd

mutual
theorem decodeTree_encode (v : Value) (d : Nat) (more : Bytes) (hw : v.wf)
    (hl : (encode v).length + 1 < I32LIM) (hd : v.depth ≤ d) : decodeTree d (encode v ++ more) = .ok v := by
  cases v with
  | leaf t p =>
    obtain ⟨d', rfl⟩ : ∃ d', d = d' + 1 := ⟨d - 1, by simp [Value.depth] at hd; omega⟩
    rw [encode_leaf_append]
    simp only [decodeTree, tagOf_header t _ _ hw.1, valueOf_leaf t p more hw.2, Res.ok_bind, Res.pure_eq]
  | cont t k cs =>
    obtain ⟨d', rfl⟩ : ∃ d', d = d' + 1 := ⟨d - 1, by simp [Value.depth] at hd; omega⟩
    simp only [Value.wf] at hw
    simp only [Value.depth] at hd
    have hlen : (encode (.cont t k cs)).length = (header t (.cont k)).length + (encodes cs).length + 1 := by
      simp [encode]; omega
    have hdn := Values.depth_le_ntoks cs
    have hnl := Values.ntoks_le cs
    have ht : tagOf (encode (.cont t k cs) ++ more) = .ok t := by
      rw [encode_cont_append]; exact tagOf_header t _ _ hw.1
    simp only [decodeTree, ht, Res.ok_bind, valueOf_cont t k cs more hw.2 (by omega) (by omega),
      containerOf_cont, elements_encodes cs more hw.2 (by omega)]
    rw [decodeSeq_encode cs d' more hw.2 (by omega) (by omega)]
    rfl
theorem decodeSeq_encode (vs : Values) (d : Nat) (more : Bytes) (hw : vs.wf)
    (hl : (encodes vs).length + 1 < I32LIM) (hd : vs.depth ≤ d) :
    decodeSeq (decodeTree d) ((childSuffixes vs more).map .ok) = .ok vs := by
  cases vs with
  | nil => rfl
  | cons v vs =>
    simp only [Values.wf] at hw
    simp only [Values.depth] at hd
    have hlen : (encodes (.cons v vs)).length = (encode v).length + (encodes vs).length := by simp [encodes]
    simp only [childSuffixes, List.map_cons, decodeSeq, Res.ok_bind]
    rw [decodeTree_encode v d _ hw.1 (by omega) (by omega)]
    simp only [Res.ok_bind]
    rw [decodeSeq_encode vs d more hw.2 (by omega) (by omega)]
    rfl
end


theorem control_leafE (t : Tag) (p : Prim) (more : Bytes) :
    control (encode (.leaf t p) ++ more) = .ok ⟨t.type, p.vt⟩ := by
  rw [encode_leaf_append, control_header]

theorem value_leafE (t : Tag) (p : Prim) (more : Bytes) (h : p.wf) :
    value (encode (.leaf t p) ++ more) ⟨t.type, p.vt⟩ = .ok p.data := by
  rw [encode_leaf_append]; exact value_leaf t p more h

theorem fixedVal_leafE (t : Tag) (p : Prim) (more : Bytes) (h : p.wf) (n : Nat) (hn : p.data.length = n) :
    fixedVal (encode (.leaf t p) ++ more) ⟨t.type, p.vt⟩ n = .ok (leVal p.data) := by
  unfold fixedVal
  rw [value_leafE t p more h]
  simp only [Res.ok_bind, hn, if_true, Res.pure_eq]

/-- an unsigned integer written with any width is read back by `u64()` (through the chain
`u64 → u32 → u16 → u8` of the reader) -/
theorem u64_uint (t : Tag) (w : Width) (n : Nat) (more : Bytes) (h : (Prim.uint w n).wf) :
    u64 (encode (.leaf t (.uint w n)) ++ more) = .ok n := by
  have hv : leVal (Prim.uint w n).data = n := by
    simp only [Prim.data]; exact leVal_leBytes_of_lt (by rw [pow256]; exact h)
  have hf := fixedVal_leafE t (.uint w n) more h w.bytes (by simp [Prim.data])
  rw [hv] at hf
  cases w <;>
    simp only [u64, u32, u16, u8, control_leafE, Res.ok_bind, Prim.vt, Width.bytes, reduceCtorEq,
      ValueType.uint.injEq, if_false, if_true] at hf ⊢ <;> exact hf

theorem i64_sint (t : Tag) (w : Width) (i : Int) (more : Bytes) (h : (Prim.sint w i).wf) :
    i64 (encode (.leaf t (.sint w i)) ++ more) = .ok i := by
  obtain ⟨h1, h2⟩ := signed_roundtrip w i h
  have hv : leVal (Prim.sint w i).data = ofSigned w.bytes i := by
    simp only [Prim.data]; exact leVal_leBytes_of_lt h1
  have hf := fixedVal_leafE t (.sint w i) more h w.bytes (by simp [Prim.data])
  rw [hv] at hf
  cases w <;>
    simp only [i64, i32, i16, i8, control_leafE, Res.ok_bind, Prim.vt, Width.bytes, reduceCtorEq,
      ValueType.sint.injEq, if_false, if_true] at hf h2 ⊢ <;>
    simp only [hf, Res.ok_bind, Res.pure_eq, h2]

theorem str_roundtrip (t : Tag) (w : Width) (b : Bytes) (more : Bytes) (h : (Prim.str w b).wf) :
    strOf (encode (.leaf t (.str w b)) ++ more) = .ok b ∧ octetsOf (encode (.leaf t (.str w b)) ++ more) = .ok b := by
  have hw : w.bytes ≠ 0 := by cases w <;> simp [Width.bytes]
  have hv := value_leafE t (.str w b) more h
  simp only [Prim.vt] at hv
  simp only [strOf, octetsOf, control_leafE, Res.ok_bind, Prim.vt, ValueType.isStr, ValueType.varSizeLen, hw,
    Bool.not_true, Bool.false_eq_true, if_false, hv, Prim.data, and_self]

theorem utf8_roundtrip (t : Tag) (w : Width) (b : Bytes) (more : Bytes) (h : (Prim.utf8 w b).wf) :
    utf8Of (encode (.leaf t (.utf8 w b)) ++ more) = .ok b := by
  have hv := value_leafE t (.utf8 w b) more h
  simp only [Prim.vt] at hv
  simp only [Prim.wf] at h
  simp only [utf8Of, control_leafE, Res.ok_bind, Prim.vt, ValueType.isUtf8, Bool.not_true, Bool.false_eq_true,
    if_false, hv, Prim.data, h.2, if_true, Res.pure_eq]

theorem bool_null_roundtrip (t : Tag) (b : Bool) (more : Bytes) :
    boolOf (encode (.leaf t (.bool b)) ++ more) = .ok b ∧ nullOf (encode (.leaf t .null) ++ more) = .ok () := by
  cases b <;> simp only [boolOf, nullOf, control_leafE, Res.ok_bind, Prim.vt, Res.pure_eq, if_true, and_self]

/-! ### the writer methods that choose the width themselves -/

theorem mkUint_wf (n : Nat) (h : n < 2 ^ 64) : (Prim.mkUint n).wf := by
  unfold Prim.mkUint
  split
  · simp [Prim.wf, Width.bytes]; omega
  · split
    · simp [Prim.wf, Width.bytes]; omega
    · split
      · simp [Prim.wf, Width.bytes]; omega
      · simp [Prim.wf, Width.bytes]; omega

theorem mkSint_wf (i : Int) (h : -(2 ^ 63 : Nat) ≤ i ∧ i < (2 ^ 63 : Nat)) : (Prim.mkSint i).wf := by
  unfold Prim.mkSint
  split
  · simp [Prim.wf, Width.bytes]; omega
  · split
    · simp [Prim.wf, Width.bytes]; omega
    · split
      · simp [Prim.wf, Width.bytes]; omega
      · simp [Prim.wf, Width.bytes]; omega

theorem lenWidth_fits (n : Nat) (h : n < 2 ^ 64) : n < 2 ^ (8 * (lenWidth n).bytes) := by
  unfold lenWidth
  split
  · simp [Width.bytes]; omega
  · split
    · simp [Width.bytes]; omega
    · split
      · simp [Width.bytes]; omega
      · simp [Width.bytes]; omega


theorem TagType.code_ofCode {n : Nat} {t : TagType} (h : TagType.ofCode n = some t) : t.code = n := by
  unfold TagType.ofCode at h
  split at h <;> simp at h <;> subst h <;> rfl

theorem ValueType.code_ofCode_lt : ∀ n, n < 32 →
    ((ValueType.ofCode n).all fun v => v.code == n) = true := by decide

theorem ValueType.code_ofCode {n : Nat} {v : ValueType} (hn : n < 32) (h : ValueType.ofCode n = some v) : v.code = n := by
  have := ValueType.code_ofCode_lt n hn
  rw [h] at this; simpa using this

theorem Control.raw_parse {b : UInt8} {c : Control} (h : Control.parse b = .ok c) : c.raw = b := by
  unfold Control.parse at h
  rcases Res.bind_eq_ok.mp h with ⟨tt, h1, h2⟩
  rcases Res.bind_eq_ok.mp h2 with ⟨vt, h3, h4⟩
  simp at h4; subst h4
  have e1 := TagType.code_ofCode (okOr_eq_ok.mp h1)
  have e2 := ValueType.code_ofCode (Nat.mod_lt _ (by decide)) (okOr_eq_ok.mp h3)
  simp only [Control.raw, e1, e2]
  have : b.toNat / 32 * 32 + b.toNat % 32 = b.toNat := by omega
  rw [this]; simp


theorem leBytes_leVal_len {s : Bytes} {k : Nat} (h : s.length = k) : leBytes k (leVal s) = s := by
  subst h; exact leBytes_leVal s

theorem split3 (s : Bytes) (a b : Nat) :
    s = s.take a ++ ((s.drop a).take b ++ (s.drop (a + b))) := by
  conv => lhs; rw [← List.take_append_drop a s, ← List.take_append_drop b (s.drop a)]
  simp [List.drop_drop]

/-- the tag decoded by `tag()` re-encodes to the tag bytes of the input -/
theorem tagOf_bytes {b : UInt8} {tl : Bytes} {c : Control} {t : Tag}
    (hc : control (b :: tl) = .ok c) (ht : tagOf (b :: tl) = .ok t) :
    t.type = c.tag ∧ c.tag.size ≤ tl.length ∧ t.bytes = tl.take c.tag.size := by
  unfold tagOf at ht
  simp only [hc, Res.ok_bind, tagStart_cons] at ht
  rcases Res.bind_eq_ok.mp ht with ⟨s, hs, h2⟩
  rcases getTo_some (okOr_eq_ok.mp hs) with ⟨hle, hs'⟩
  have hl : s.length = c.tag.size := by rw [hs', List.length_take]; omega
  rw [← hs']
  refine ⟨?_, hle, ?_⟩ <;> cases htag : c.tag <;> simp only [htag, TagType.size] at h2 hl
  -- t.type = c.tag
  · simp at h2; subst h2; rfl
  · cases s with
    | nil => simp at hl
    | cons x r => simp at h2; subst h2; rfl
  · simp only [arr, hl, if_true, Res.ok_bind, Res.pure_eq, Res.ok.injEq] at h2; subst h2; rfl
  · simp only [arr, hl, if_true, Res.ok_bind, Res.pure_eq, Res.ok.injEq] at h2; subst h2; rfl
  · simp only [arr, hl, if_true, Res.ok_bind, Res.pure_eq, Res.ok.injEq] at h2; subst h2; rfl
  · simp only [arr, hl, if_true, Res.ok_bind, Res.pure_eq, Res.ok.injEq] at h2; subst h2; rfl
  · rw [if_pos (by omega)] at h2; simp at h2; subst h2; rfl
  · rw [if_pos (by omega)] at h2; simp at h2; subst h2; rfl
  -- t.bytes = s
  · simp at h2; subst h2
    cases s with
    | nil => rfl
    | cons _ _ => simp at hl
  · cases s with
    | nil => simp at hl
    | cons x r =>
      simp at h2; subst h2
      have : r = [] := by cases r with
        | nil => rfl
        | cons _ _ => simp at hl
      subst this
      simp [Tag.bytes, leBytes]
  · simp only [arr, hl, if_true, Res.ok_bind, Res.pure_eq, Res.ok.injEq] at h2; subst h2
    exact leBytes_leVal_len hl
  · simp only [arr, hl, if_true, Res.ok_bind, Res.pure_eq, Res.ok.injEq] at h2; subst h2
    exact leBytes_leVal_len hl
  · simp only [arr, hl, if_true, Res.ok_bind, Res.pure_eq, Res.ok.injEq] at h2; subst h2
    exact leBytes_leVal_len hl
  · simp only [arr, hl, if_true, Res.ok_bind, Res.pure_eq, Res.ok.injEq] at h2; subst h2
    exact leBytes_leVal_len hl
  · rw [if_pos (by omega)] at h2; simp at h2; subst h2
    simp only [Tag.bytes]
    rw [leBytes_leVal_len (by simp; omega), leBytes_leVal_len (by simp; omega), leBytes_leVal_len (by simp; omega)]
    have := split3 s 2 2
    have e : s.drop (2 + 2) = (s.drop 4).take 2 := by
      rw [List.take_of_length_le (by simp; omega)]
    rw [e] at this
    rw [List.append_assoc]; exact this.symm
  · rw [if_pos (by omega)] at h2; simp at h2; subst h2
    simp only [Tag.bytes]
    rw [leBytes_leVal_len (by simp; omega), leBytes_leVal_len (by simp; omega), leBytes_leVal_len (by simp; omega)]
    have := split3 s 2 2
    have e : s.drop (2 + 2) = (s.drop 4).take 4 := by
      rw [List.take_of_length_le (by simp; omega)]
    rw [e] at this
    rw [List.append_assoc]; exact this.symm


/-- for a string element the value length is the little-endian value of its length field -/
theorem valueLen_var {b : UInt8} {tl : Bytes} {c : Control} {n : Nat} (hv : 0 < c.vt.varSizeLen)
    (h : valueLen (b :: tl) c = .ok n) :
    c.vt.varSizeLen ≤ 8 ∧ c.vt.varSizeLen ≤ (tl.drop c.tag.size).length ∧
    n = leVal ((tl.drop c.tag.size).take c.vt.varSizeLen) := by
  unfold valueLen at h
  have hfs : c.vt.fixedSize = none := by
    cases hvt : c.vt <;> simp [hvt, ValueType.varSizeLen] at hv <;> rfl
  simp only [hfs, valueLenStart_cons] at h
  rcases Res.bind_eq_ok.mp h with ⟨s, hs, h2⟩
  rcases getFrom_some (okOr_eq_ok.mp hs) with ⟨_, rfl⟩
  rcases Res.bind_eq_ok.mp h2 with ⟨sl, hsl, h3⟩
  rcases getTo_some (okOr_eq_ok.mp hsl) with ⟨hle, rfl⟩
  split at h3
  · rename_i hw
    split at h3
    · simp at h3; exact ⟨by omega, hle, h3.symm⟩
    · simp at h3
  · simp at h3

theorem isContainer_varSizeLen {vt : ValueType} (h : vt.isContainer = true) : vt.varSizeLen = 0 := by
  cases vt <;> simp [ValueType.isContainer, ValueType.isContainerStart, ValueType.isContainerEnd] at h <;> rfl

/-- re-encoding a decoded element (`ToTLV for TLVElement` with the element's own tag) reproduces
exactly the bytes of the element: the first `container_len()` bytes of the input -/
theorem reencode_take (bs out : Bytes) (hne : bs ≠ []) (hu : bs.length < I32LIM)
    (h : reencode bs = .ok out) : ∃ n, containerLen bs = .ok n ∧ out = bs.take n := by
  cases bs with
  | nil => exact absurd rfl hne
  | cons b tl =>
    unfold reencode at h
    simp only [List.isEmpty_cons, Bool.false_eq_true, if_false] at h
    rcases Res.bind_eq_ok.mp h with ⟨t, ht, h2⟩
    rcases Res.bind_eq_ok.mp h2 with ⟨c, hc, h3⟩
    rcases Res.bind_eq_ok.mp h3 with ⟨payload, hp, h4⟩
    obtain ⟨htt, hsz, htb⟩ := tagOf_bytes hc ht
    -- the payload
    unfold rawValue at hp
    simp only [hc, Res.ok_bind] at hp
    unfold containerValue at hp
    rcases Res.bind_eq_ok.mp hp with ⟨n, hn, hp2⟩
    rcases Res.bind_eq_ok.mp hp2 with ⟨s, hs, hp3⟩
    rcases getTo_some (okOr_eq_ok.mp hp3) with ⟨hns, rfl⟩
    obtain ⟨hslen, hseq⟩ := valueStart_len hs
    -- control byte
    have hraw : Control.raw ⟨t.type, c.vt⟩ = b := by
      have : (⟨t.type, c.vt⟩ : Control) = c := by rw [htt]
      rw [this]; simp only [control] at hc; exact Control.raw_parse hc
    have hplen : (s.take n).length = n := by rw [List.length_take]; omega
    -- the length of the whole element
    have hclen : containerLen (b :: tl) = .ok (1 + c.tag.size + c.vt.varSizeLen + n) := by
      unfold containerLen
      simp only [hc, Res.ok_bind, hn, hdrLen]
      rw [checkedAdd_ok (by have hLU := i32lim_lt_usize; simp at hu ⊢; omega)]
      simp only [Res.ok_bind]
      rw [if_pos (by simp; omega)]; rfl
    refine ⟨_, hclen, ?_⟩
    -- the input, cut at the header fields
    have hsplit := split3 tl c.tag.size c.vt.varSizeLen
    have hs' : s = tl.drop (c.tag.size + c.vt.varSizeLen) := by rw [hseq, List.drop_drop]
    have htake : (b :: tl).take (1 + c.tag.size + c.vt.varSizeLen + n) =
        b :: (tl.take c.tag.size ++ ((tl.drop c.tag.size).take c.vt.varSizeLen ++ s.take n)) := by
      have e : 1 + c.tag.size + c.vt.varSizeLen + n = (c.tag.size + c.vt.varSizeLen + n) + 1 := by omega
      rw [e, List.take_succ_cons]
      congr 1
      conv => lhs; rw [hsplit]
      rw [← hs']
      have l1 : (tl.take c.tag.size).length = c.tag.size := by rw [List.length_take]; omega
      have l2 : ((tl.drop c.tag.size).take c.vt.varSizeLen).length = c.vt.varSizeLen := by
        rw [List.length_take, List.length_drop]; omega
      rw [List.take_append, l1]
      have : c.tag.size + c.vt.varSizeLen + n - c.tag.size = c.vt.varSizeLen + n := by omega
      rw [this, List.take_of_length_le (by omega), List.take_append, l2]
      have : c.vt.varSizeLen + n - c.vt.varSizeLen = n := by omega
      rw [this, List.take_of_length_le (l := (tl.drop c.tag.size).take c.vt.varSizeLen) (by omega)]
    rw [htake]
    by_cases hv : c.vt.varSizeLen > 0
    · simp only [hv, if_true, Res.pure_eq, Res.ok.injEq] at h4
      subst h4
      have hnc : c.vt.isContainer = false := by
        cases hic : c.vt.isContainer with
        | false => rfl
        | true => have := isContainer_varSizeLen hic; omega
      unfold containerValueLen at hn
      simp only [hnc, Bool.false_eq_true, if_false] at hn
      obtain ⟨h8, hle, hnv⟩ := valueLen_var hv hn
      have hlf : (leBytes 8 (s.take n).length).take c.vt.varSizeLen = (tl.drop c.tag.size).take c.vt.varSizeLen := by
        obtain ⟨m, hm⟩ : ∃ m, 8 = c.vt.varSizeLen + m := ⟨8 - c.vt.varSizeLen, by omega⟩
        rw [hplen, hm, leBytes_append_take, hnv]
        exact leBytes_leVal_len (by rw [List.length_take]; omega)
      rw [hlf]
      simp only [header, hraw, htb, List.cons_append, List.append_assoc]
    · have hv0 : c.vt.varSizeLen = 0 := by omega
      simp only [hv, if_false, Res.pure_eq, Res.ok.injEq] at h4
      subst h4
      simp only [header, hraw, htb, hv0, List.take_zero, List.nil_append, List.cons_append]


theorem mkUint_eq (n : Nat) : ∃ w, Prim.mkUint n = .uint w n := by
  unfold Prim.mkUint
  split
  · exact ⟨_, rfl⟩
  · split
    · exact ⟨_, rfl⟩
    · split <;> exact ⟨_, rfl⟩

theorem mkSint_eq (i : Int) : ∃ w, Prim.mkSint i = .sint w i := by
  unfold Prim.mkSint
  split
  · exact ⟨_, rfl⟩
  · split
    · exact ⟨_, rfl⟩
    · split <;> exact ⟨_, rfl⟩

/-! ### the fallible writer `TLVWrite::tlv` (after the fix): refuses what does not fit, otherwise `encode` -/

/-- `Prim.wf` = what the Rust types enforce + the writer's length check -/
theorem Prim.wf_iff (p : Prim) : p.wf ↔ p.typed ∧ p.lenFits = true := by
  cases p <;> simp [Prim.wf, Prim.typed, Prim.lenFits, and_comm]

mutual
theorem Value.wf_iff : ∀ v : Value, v.wf ↔ v.typed ∧ v.lenFits = true
  | .leaf t p => by
    simp only [Value.wf, Value.typed, Value.lenFits, Prim.wf_iff]
    exact ⟨fun ⟨a, b, c⟩ => ⟨⟨a, b⟩, c⟩, fun ⟨⟨a, b⟩, c⟩ => ⟨a, b, c⟩⟩
  | .cont t k cs => by
    simp only [Value.wf, Value.typed, Value.lenFits, Values.wf_iff cs]
    exact ⟨fun ⟨a, b, c⟩ => ⟨⟨a, b⟩, c⟩, fun ⟨⟨a, b⟩, c⟩ => ⟨a, b, c⟩⟩
theorem Values.wf_iff : ∀ vs : Values, vs.wf ↔ vs.typed ∧ vs.lenFits = true
  | .nil => by simp [Values.wf, Values.typed, Values.lenFits]
  | .cons v vs => by
    simp only [Values.wf, Values.typed, Values.lenFits, Value.wf_iff v, Values.wf_iff vs, Bool.and_eq_true]
    exact ⟨fun ⟨⟨a, b⟩, c, d⟩ => ⟨⟨a, c⟩, b, d⟩, fun ⟨⟨a, c⟩, b, d⟩ => ⟨⟨a, b⟩, c, d⟩⟩
end

mutual
/-- the fallible writer either refuses the tree (`InvalidData`: some string does not fit its length field)
or produces exactly `encode v` -/
theorem write_eq : ∀ v : Value, write v = if v.lenFits then .ok (encode v) else .err .invalidData
  | .leaf t p => by
    cases h : p.lenFits <;> simp [write, writeLeaf, Value.lenFits, encode, h]
  | .cont t k cs => by
    cases h : cs.lenFits <;> simp [write, writes_eq cs, Value.lenFits, encode, h]
theorem writes_eq : ∀ vs : Values, writes vs = if vs.lenFits then .ok (encodes vs) else .err .invalidData
  | .nil => by simp [writes, Values.lenFits, encodes]
  | .cons v vs => by
    cases h1 : v.lenFits <;> cases h2 : vs.lenFits <;>
      simp [writes, write_eq v, writes_eq vs, Values.lenFits, encodes, h1, h2]
end

theorem write_ok_iff (v : Value) (b : Bytes) : write v = .ok b ↔ v.lenFits = true ∧ b = encode v := by
  rw [write_eq]
  split
  · rename_i h; simp [h, eq_comm]
  · rename_i h; simp [h]

/-! ### the `i32` level counter overflows on a whole run: 2^31 nested structure starts (symbolic, by a loop lemma) -/

theorem header_anon_struct : header .anon (.cont .struct) = [0x15] := by decide

/-- skipping over `k` anonymous structure starts raises the `i32` level by `k` (as long as it fits) -/
theorem skipLoop_opens : ∀ (k f : Nat) (rest : Bytes) (l : Nat), l + k + 1 < I32LIM →
    skipLoop (f + k) (List.replicate k 0x15 ++ rest) (l + 1) = skipLoop f rest (l + 1 + k)
  | 0, f, rest, l, _ => by simp
  | k + 1, f, rest, l, h => by
    have e : List.replicate (k + 1) (0x15 : UInt8) ++ rest
        = header .anon (.cont .struct) ++ (List.replicate k 0x15 ++ rest) := by
      rw [header_anon_struct, List.replicate_succ]; rfl
    rw [e, show f + (k + 1) = (f + k) + 1 by omega, skipLoop_open _ _ _ _ _ (by omega)]
    rw [skipLoop_opens k f rest (l + 1) (by omega)]
    congr 1; omega

/-- at `level = i32::MAX` the next container start makes the whole loop panic -/
theorem skipLoop_overflow (f : Nat) (X : Bytes) :
    skipLoop (f + 1) (0x15 :: X) (I32LIM - 2 + 1) = .panic .overflow := by
  have e : (0x15 : UInt8) :: X = header .anon (.cont .struct) ++ X := by rw [header_anon_struct]; rfl
  have hl : I32LIM - 2 + 1 = I32LIM - 1 := by unfold I32LIM; omega
  simp only [skipLoop, e, control_header, Res.ok_bind, hl, levelStep_overflow, Res.panic_bind]

theorem containerNext_open (t : Tag) (k : Kind) (X : Bytes) :
    containerNext (header t (.cont k) ++ X) = skipLoop (header t (.cont k) ++ X).length X 1 := by
  have hne : (header t (.cont k) ++ X).isEmpty = false := by simp [header]
  simp only [containerNext, hne, Bool.false_eq_true, if_false, control_header, Res.ok_bind,
    ValueType.isContainerEnd, nextEnter_open, ValueType.isContainer, ValueType.isContainerStart, Bool.true_or, if_true]

/-- **whole-run witness**: `container_next` (the advance of the element iterator) on an input consisting of
at least 2^31 anonymous structure-start bytes panics with the `i32` overflow — proved symbolically by the loop
lemma `skipLoop_opens`, no 2-GiB list is evaluated -/
theorem containerNext_overflow (bs : Bytes) (hall : ∀ b ∈ bs, b = 0x15) (hlen : I32LIM ≤ bs.length) :
    containerNext bs = .panic .overflow := by
  have hrep : bs = List.replicate bs.length 0x15 := List.eq_replicate_iff.mpr ⟨rfl, hall⟩
  have hI : 2 ≤ I32LIM := by unfold I32LIM; omega
  obtain ⟨m, hm⟩ : ∃ m, bs.length = 1 + ((I32LIM - 2) + (1 + m)) := ⟨bs.length - I32LIM, by omega⟩
  generalize hK : I32LIM - 2 = K at hm
  have h1 : ∀ n, List.replicate (1 + n) (0x15 : UInt8) = 0x15 :: List.replicate n 0x15 := by
    intro n; rw [Nat.add_comm, List.replicate_succ]
  have hsplit : bs = header .anon (.cont .struct) ++
      (List.replicate K 0x15 ++ (0x15 :: List.replicate m 0x15)) := by
    rw [header_anon_struct]
    conv => lhs; rw [hrep, hm, h1, ← List.replicate_append_replicate, h1]
    rfl
  rw [hsplit, containerNext_open, ← hsplit, hm, show 1 + (K + (1 + m)) = (1 + m + 1) + K by omega]
  rw [skipLoop_opens K (1 + m + 1) _ 0 (by omega)]
  rw [show 0 + 1 + K = I32LIM - 2 + 1 by omega]
  exact skipLoop_overflow _ _

/-- … and so does the first `next()` of the element iterator over such a sequence -/
theorem iterNext_overflow (bs : Bytes) (hall : ∀ b ∈ bs, b = 0x15) (hlen : I32LIM ≤ bs.length) :
    iterNext bs = (some (.panic .overflow), []) := by
  have hn := containerNext_overflow bs hall hlen
  have hI : 2 ≤ I32LIM := by unfold I32LIM; omega
  cases bs with
  | nil => simp at hlen; omega
  | cons b tl =>
    have hb : b = 0x15 := hall b (by simp)
    subst hb
    have hc : control (0x15 :: tl) = .ok ⟨.anon, .cont .struct⟩ := by simp only [control]; decide
    have hcur : current (0x15 :: tl) = .ok (0x15 :: tl) := by
      simp [current, hc, ValueType.isContainerEnd]
    simp only [iterNext, hcur, hn]
/-! ### the writer entry points with a caller-side length: `stri` / `utf8i`, `str_cb` / `utf8_cb` -/

/-- with the right length, `stri` / `str` writes exactly the leaf `Prim.mkStr data` -/
theorem writeStri_str (t : Tag) (data : Bytes) :
    writeStri false t data.length data = encode (.leaf t (Prim.mkStr data)) := by
  simp [writeStri, encode, Prim.mkStr, Prim.vt, Prim.payload]

theorem writeStri_utf8 (t : Tag) (data : Bytes) :
    writeStri true t data.length data = encode (.leaf t (Prim.mkUtf8 data)) := by
  simp [writeStri, encode, Prim.mkUtf8, Prim.vt, Prim.payload]

theorem lenWidth_le_255 {n : Nat} (h : n ≤ 255) : lenWidth n = .w1 := by simp [lenWidth, h]
theorem lenWidth_le_65535 {n : Nat} (h1 : ¬ n ≤ 255) (h2 : n ≤ 65535) : lenWidth n = .w2 := by
  simp [lenWidth, h1, h2]

/-- `str_cb` / `utf8_cb` with at most 65535 bytes from the callback: the shortest-form leaf -/
theorem writeStrCb_str (t : Tag) (data : Bytes) (h : data.length ≤ 65535) :
    writeStrCb false t data = .ok (encode (.leaf t (Prim.mkStr data))) := by
  unfold writeStrCb
  by_cases h1 : data.length ≤ 255
  · simp [h1, encode, Prim.mkStr, Prim.vt, Prim.payload, lenWidth_le_255 h1, Width.bytes]
  · simp [h1, h, encode, Prim.mkStr, Prim.vt, Prim.payload, lenWidth_le_65535 h1 h, Width.bytes]

theorem writeStrCb_utf8 (t : Tag) (data : Bytes) (h : data.length ≤ 65535) :
    writeStrCb true t data = .ok (encode (.leaf t (Prim.mkUtf8 data))) := by
  unfold writeStrCb
  by_cases h1 : data.length ≤ 255
  · simp [h1, encode, Prim.mkUtf8, Prim.vt, Prim.payload, lenWidth_le_255 h1, Width.bytes]
  · simp [h1, h, encode, Prim.mkUtf8, Prim.vt, Prim.payload, lenWidth_le_65535 h1 h, Width.bytes]

/-- beyond 65535 bytes the callback writers panic (a literal `panic!`, not an error) -/
theorem writeStrCb_panics (u : Bool) (t : Tag) (data : Bytes) (h : 65535 < data.length) :
    writeStrCb u t data = .panic .explicit := by
  unfold writeStrCb
  rw [if_neg (by omega), if_neg (by omega)]

end Tlv
