//! C12, wire stream (`W <d0>`): the REAL group transmit path.
//!
//! One case = one lifetime of a device's storage. The device is a real `Matter` object whose
//! fabric (with a group key set + group key map, stored through the real `FabricPersist`) and
//! Global Group Encrypted Data Message Counter boundary are re-hydrated by the real
//! `Matter::startup` from a recording / crash-injecting `KvBlobStore` at every (re)start.
//! Group messages are opened with the real `Exchange::initiate_group` (reserve -> store ->
//! `initiate_for_session` -> stash) and sent with the real `ImClient::group_invoke_with`
//! (`Exchange::send_with` -> `Session::pre_send` -> encode -> `NetworkSend::send_to`); the counter
//! is read from the plain header of the datagram the transport hands to the network.
//!
//! ops
//!   `open <rand>`          `initiate_group`; the exchange waits in slot 0 (newest first).
//!                          out: `<stores|-> <live> <boundary> ok|err:<Code>`
//!   `send <i>`             `group_invoke_with` on the i-th waiting exchange.
//!                          out: the counter of the one group data datagram seen on the wire
//!   `opencrash b|a <rand>` `initiate_group` with a power loss right before (`b`) / right after (`a`)
//!                          its store became durable (if it stores nothing it completes, and the
//!                          power loss follows). out: `<stores|-> died|done <live> <boundary>`
//!                          (`live boundary` = counter state after the restart)
//!   `crash`                power loss + restart. out: `<live> <boundary>`
//!   `openfail <rand>`      `initiate_group` whose store FAILS (returns an error; no power loss); if it
//!                          stores nothing it is an ordinary `open`. The oracle stays on.
//!                          out: `<stores|-> <live> <boundary> ok|err:<Code>`
//! `rand` is the `next_u32()` draw of the crypto handed to `initiate_group` (first-use seed).
use core::future::Future;
use core::num::NonZeroU8;
use core::pin::pin;
use std::cell::RefCell;
use std::panic::{catch_unwind, AssertUnwindSafe};

use embassy_futures::select::{select, Either};

use rs_matter::crypto::{default_crypto, test_only_crypto};
use rs_matter::dm::devices::test::{DAC_PRIVKEY, TEST_DEV_ATT, TEST_DEV_COMM, TEST_DEV_DET};
use rs_matter::error::Error;
use rs_matter::fabric::FabricPersist;
use rs_matter::im::client::ImClient;
use rs_matter::persist::{KvBlobStore, GROUP_DATA_COUNTER_KEY};
use rs_matter::transport::exchange::Exchange;
use rs_matter::transport::network::{Address, NetworkReceive, NetworkSend, NoNetwork, SocketAddr};
use rs_matter::Matter;

use super::{le32, parse_d0, FixedRng, MemKv};
use crate::c04_group::{provision, GROUP_ID};
use crate::proto::{Case, Out};
use crate::simnet::{run_sim, Perfect, SimEnd, SimNet};

/// the store seen by the code under test: delegates to the case's `MemKv`
pub(super) struct KvRef<'a>(pub &'a RefCell<MemKv>);

impl KvBlobStore for KvRef<'_> {
    fn load<'b>(&mut self, key: u16, buf: &'b mut [u8]) -> Result<Option<&'b [u8]>, Error> {
        self.0.borrow_mut().load(key, buf)
    }
    fn store(&mut self, key: u16, data: &[u8], buf: &mut [u8]) -> Result<(), Error> {
        // (a deliberate panic in here unwinds through the `RefMut`, which releases the borrow)
        self.0.borrow_mut().store(key, data, buf)
    }
    fn remove(&mut self, key: u16, buf: &mut [u8]) -> Result<(), Error> {
        self.0.borrow_mut().remove(key, buf)
    }
}

/// what the transport hands to the network
#[derive(Default)]
pub(super) struct RecSock {
    pub log: RefCell<Vec<(Vec<u8>, Address)>>,
}

impl NetworkSend for &RecSock {
    async fn send_to(&mut self, data: &[u8], addr: Address) -> Result<(), Error> {
        self.log.borrow_mut().push((data.to_vec(), addr));
        Ok(())
    }
}

impl NetworkReceive for &RecSock {
    async fn wait_available(&mut self) -> Result<(), Error> {
        core::future::pending::<()>().await;
        Ok(())
    }
    async fn recv_from(&mut self, _buffer: &mut [u8]) -> Result<(usize, Address), Error> {
        core::future::pending::<()>().await;
        unreachable!()
    }
}

fn is_multicast(a: &Address) -> bool {
    match a {
        Address::Udp(SocketAddr::V6(a)) => a.ip().is_multicast(),
        Address::Udp(SocketAddr::V4(a)) => a.ip().is_multicast(),
        _ => false,
    }
}

/// Plain (unencrypted) message header, decoded independently of rs-matter:
/// flags(1) session id(2) security flags(1) counter(4, LE) ...
/// returns (counter, group session?, control message?)
pub(super) fn plain_ctr(b: &[u8]) -> Option<(u32, bool, bool)> {
    if b.len() < 8 {
        return None;
    }
    let sec = b[3];
    Some((u32::from_le_bytes([b[4], b[5], b[6], b[7]]), sec & 0x01 != 0, sec & 0x40 != 0))
}

thread_local! {
    /// the KV blobs of a commissioned fabric with a group key set (produced once per process by the
    /// real `FabricPersist::store`), every case starts from a copy
    static TEMPLATE: RefCell<Option<Vec<(u16, Vec<u8>)>>> = const { RefCell::new(None) };
}

pub(super) fn template() -> Vec<(u16, Vec<u8>)> {
    TEMPLATE.with(|t| {
        if t.borrow().is_none() {
            let kvc = RefCell::new(MemKv::default());
            let crypto = test_only_crypto();
            let matter = Box::new(Matter::new(&TEST_DEV_DET, TEST_DEV_COMM, &TEST_DEV_ATT, 0));
            let fab_idx = provision(&matter, &crypto).expect("provision");
            matter
                .with_state(|st| {
                    let fabric = st.fabrics.fabric(fab_idx)?;
                    FabricPersist::new(matter.kv(KvRef(&kvc))).store(fabric)
                })
                .expect("persist fabric");
            let blobs: Vec<(u16, Vec<u8>)> = kvc.borrow().map.iter().map(|(k, v)| (*k, v.clone())).collect();
            *t.borrow_mut() = Some(blobs);
        }
        t.borrow().clone().unwrap()
    })
}

fn drain_group_stores(kvc: &RefCell<MemKv>) -> String {
    let log: Vec<(u16, Vec<u8>)> = std::mem::take(&mut kvc.borrow_mut().log);
    let toks: Vec<String> = log
        .iter()
        .map(|(k, d)| if *k == GROUP_DATA_COUNTER_KEY { format!("s{}", le32(d)) } else { format!("s?{}", k) })
        .collect();
    if toks.is_empty() {
        "-".into()
    } else {
        toks.join(" ")
    }
}

fn err_name(e: &Error) -> String {
    format!("err:{:?}", e.code())
}

fn poll_with<F: Future>(net: &SimNet, runner: core::pin::Pin<&mut impl Future>, fut: F, ms: u64) -> Option<F::Output> {
    let fut = pin!(fut);
    match run_sim(net, select(runner, fut), ms) {
        SimEnd::Done(Either::Second(v)) => Some(v),
        _ => None,
    }
}

enum Next {
    /// the case is over
    End,
    /// power loss: the op at this index is answered after the restart, with this prefix
    Crash(usize, String),
}

pub(super) fn run_w(out: &mut Out, case: &Case, words: &[&str]) {
    embassy_time::MockDriver::get().reset();
    let kvc = RefCell::new(MemKv::default());
    for (k, v) in template() {
        kvc.borrow_mut().map.insert(k, v);
    }
    if let Some(d) = parse_d0(words.get(1).copied()) {
        kvc.borrow_mut().map.insert(GROUP_DATA_COUNTER_KEY, (d as u32).to_le_bytes().to_vec());
    }
    let net = SimNet::new(1, Box::new(Perfect));
    let fab_idx = NonZeroU8::new(1).unwrap();
    let (mut n_crash, mut n_send, mut n_store) = (0u32, 0u32, 0u32);
    let mut start = 0usize;
    let mut carried: Option<String> = None;
    loop {
        // ---- (re)start: everything volatile is new, the storage is what survived
        {
            let mut kv = kvc.borrow_mut();
            kv.die_after_store = false;
            kv.die_before_store = false;
            kv.fail_after = None;
            kv.log.clear();
        }
        let matter = Box::new(Matter::new(&TEST_DEV_DET, TEST_DEV_COMM, &TEST_DEV_ATT, 0));
        let boot = catch_unwind(AssertUnwindSafe(|| matter.startup(matter.kv(KvRef(&kvc)))));
        let state = || {
            let (l, b) = matter.with_state(|st| st.verif_sessions().verif_group_data_ctr_state());
            format!("{} {}", l, b)
        };
        if let Some(prefix) = carried.take() {
            let tail = match &boot {
                Ok(Ok(())) => state(),
                Ok(Err(e)) => format!("boot:{}", err_name(e)),
                Err(_) => "boot:panic".into(),
            };
            out.op(&case.ops[start - 1], &format!("{}{}", prefix, tail));
        }
        let sock = RecSock::default();
        let run_crypto = test_only_crypto();
        let mut runner = pin!(matter.run(&run_crypto, &sock, &sock, NoNetwork));
        let mut waiting: Vec<Exchange<'_>> = Vec::new();
        let mut next = Next::End;
        for (idx, op) in case.ops.iter().enumerate().skip(start) {
            let w: Vec<&str> = op.split_whitespace().collect();
            let rand_at = |i: usize| -> u32 { w.get(i).and_then(|x| x.parse().ok()).unwrap_or(0) };
            let res: String = match w.first().copied().unwrap_or("") {
                "open" | "openfail" => {
                    let fail = w[0] == "openfail";
                    kvc.borrow_mut().fail_after = if fail { Some(0) } else { None };
                    let crypto = default_crypto(FixedRng(rand_at(1)), DAC_PRIVKEY);
                    let r = catch_unwind(AssertUnwindSafe(|| {
                        Exchange::initiate_group(&matter, &crypto, matter.kv(KvRef(&kvc)), fab_idx, GROUP_ID)
                    }));
                    kvc.borrow_mut().fail_after = None;
                    let stores = drain_group_stores(&kvc);
                    if stores != "-" {
                        n_store += 1;
                    }
                    let verdict = match r {
                        Ok(Ok(ex)) => {
                            waiting.insert(0, ex);
                            "ok".to_string()
                        }
                        Ok(Err(e)) => err_name(&e),
                        Err(_) => "panic".into(),
                    };
                    out.stat(&format!("w_open_{}", verdict.replace(':', "_")), 1);
                    format!("{} {} {}", stores, state(), verdict)
                }
                "send" => {
                    let i = rand_at(1) as usize;
                    if i >= waiting.len() {
                        "-".into()
                    } else {
                        let ex = waiting.remove(i);
                        let before = sock.log.borrow().len();
                        let r = catch_unwind(AssertUnwindSafe(|| {
                            poll_with(&net, runner.as_mut(), ex.group_invoke_with(|b| Ok(b)), 5_000)
                        }));
                        // `group_invoke_with` returns once the message is handed to the transport;
                        // let the transport put it on the wire
                        let _ = catch_unwind(AssertUnwindSafe(|| {
                            let _ = run_sim(&net, runner.as_mut(), 20);
                        }));
                        let seen: Vec<(Vec<u8>, Address)> = sock.log.borrow()[before..].to_vec();
                        let group: Vec<String> = seen
                            .iter()
                            .filter_map(|(b, a)| match plain_ctr(b) {
                                Some((c, true, false)) => Some(if is_multicast(a) { c.to_string() } else { format!("{}@unicast", c) }),
                                _ => None,
                            })
                            .collect();
                        match r {
                            Ok(Some(Ok(()))) if group.len() == 1 => {
                                n_send += 1;
                                group[0].clone()
                            }
                            Ok(Some(Ok(()))) => format!("wire:{}:{}", group.len(), group.join(",")),
                            Ok(Some(Err(e))) => format!("{}:{}", err_name(&e), group.join(",")),
                            Ok(None) => format!("hang:{}", group.join(",")),
                            Err(_) => "panic".into(),
                        }
                    }
                }
                "opencrash" => {
                    let after = w.get(1).copied() == Some("a");
                    {
                        let mut kv = kvc.borrow_mut();
                        kv.die_after_store = after;
                        kv.die_before_store = !after;
                    }
                    let crypto = default_crypto(FixedRng(rand_at(2)), DAC_PRIVKEY);
                    let r = catch_unwind(AssertUnwindSafe(|| {
                        Exchange::initiate_group(&matter, &crypto, matter.kv(KvRef(&kvc)), fab_idx, GROUP_ID).map(|_| ())
                    }));
                    let stores = drain_group_stores(&kvc);
                    if stores != "-" {
                        n_store += 1;
                    }
                    let how = match r {
                        Ok(Ok(())) => "done".to_string(),
                        Ok(Err(e)) => err_name(&e),
                        Err(_) => "died".into(),
                    };
                    out.stat(&format!("w_opencrash_{}_{}", if after { "after" } else { "before" }, how.replace(':', "_")), 1);
                    n_crash += 1;
                    next = Next::Crash(idx, format!("{} {} ", stores, how));
                    break;
                }
                "crash" => {
                    n_crash += 1;
                    out.stat("w_crash", 1);
                    next = Next::Crash(idx, String::new());
                    break;
                }
                _ => "badop".into(),
            };
            out.op(op, &res);
        }
        // the volatile world goes away (exchanges first: they refer to the `Matter` object)
        drop(waiting);
        match next {
            Next::End => break,
            Next::Crash(idx, prefix) => {
                start = idx + 1;
                carried = Some(prefix);
            }
        }
    }
    if n_crash >= 1 && n_send >= 2 && n_store >= 1 {
        out.buf.push_str("#nt\n");
    }
}
