import RsMatterVerif.Lemmas.Counters
/-!
# C12 — durable counters never hand out the same value twice, across restarts too

Theorems over `Model/Counters.lean`, for **every** history of operations (`List …Op`): power
losses (`crash` / `boot`) may stand before or after every individual store, in any number.

Shape, per counter:
* `…_invariant`       every reachable state satisfies the ghost invariant (`GInv` / `EInv` / `CInv`
                      of `Lemmas/Counters.lean`): each cyclic value is the image of an unbounded
                      position and the safety facts are inequalities between positions;
* `…_values_distinct` the values that reached the wire are pairwise distinct, as long as the
                      history consumed less than one cycle of the counter range — the bound is
                      explicit (`gCost`, `eCost`, `cCost`: one position per reservation, one epoch
                      per power loss, `delta` per jump). A cyclic counter necessarily repeats after
                      a full cycle, so this is the full strength available;
* `…_used_only_if_covered`  whenever a value is (or can be) used, a boundary is in storage and its
                      position is strictly past the value's position (Check-In: not before it,
                      because a restart resumes with `boundary + 1`);
* `…_restart_resumes_past_used`  the state after a power loss continues at a position past every
                      used position, and its first value is none of the used values;
* `…_boundary_reached` the `live == boundary` equality test cannot be stepped over.
-/
namespace C12
open Counters

/-! ## 1. Global group data message counter -/

/-- reachable states and their ghosts -/
def gReach (d0 : Option Nat) (ops : List GOp) : GSys × GGhost :=
  (gRun (GSys.boot d0) ops, gGhostRun (GSys.boot d0) (GGhost.boot d0) ops)

/-- Every history keeps the ghost invariant. -/
theorem group_invariant (d0 : Option Nat) (h : GStart d0) (ops : List GOp) :
    GInv (gReach d0 ops).1 (gReach d0 ops).2 :=
  ginv_run ops (ginv_boot d0 h)

/-- the ghost consumes at most `gCost ops` positions -/
theorem group_spent_le (d0 : Option Nat) (ops : List GOp) : (gReach d0 ops).2.spent ≤ gCost ops := by
  have := gspent_run ops (GSys.boot d0) (GGhost.boot d0)
  have h0 : (GGhost.boot d0).spent = 0 := by cases d0 <;> rfl
  simp only [gReach]; omega

/-- **Wire values are pairwise distinct** (also against the values still waiting in exchanges), for
every history that consumes at most one cycle of the 28-bit range: `gCost ops ≤ mask`, i.e.
`#reservations + 1000 · #power-losses ≤ 2^28 − 1`. -/
theorem group_wire_values_distinct (d0 : Option Nat) (h : GStart d0) (ops : List GOp)
    (hb : gCost ops ≤ mask) :
    ((gReach d0 ops).1.ready ++ (gReach d0 ops).1.used).Nodup :=
  ginv_values_nodup (group_invariant d0 h ops) (Nat.le_trans (group_spent_le d0 ops) hb)

theorem group_used_values_distinct (d0 : Option Nat) (h : GStart d0) (ops : List GOp)
    (hb : gCost ops ≤ mask) : (gReach d0 ops).1.used.Nodup :=
  (List.nodup_append.mp (group_wire_values_distinct d0 h ops hb)).2.1

/-- **A value is used only when a durable boundary covers it**: in every reachable state, every
value that reached the wire and every value that can still reach it (stashed in an exchange) sits
at a position strictly before the position of the boundary held in storage — and such a boundary
exists. Unconditional (no cycle bound needed: it is a statement about positions). -/
theorem group_used_only_if_covered (d0 : Option Nat) (h : GStart d0) (ops : List GOp) :
    let s := (gReach d0 ops).1
    let g := (gReach d0 ops).2
    s.ready = g.rpos.map gval ∧ s.used = g.upos.map gval ∧
    ∀ p ∈ g.rpos ++ g.upos, ∃ d, s.durable = some d ∧ gnorm d = gval g.dpos ∧ p < g.dpos := by
  intro s g
  have hi : GInv s g := group_invariant d0 h ops
  refine ⟨hi.ready_eq, hi.used_eq, ?_⟩
  intro p hp
  have hlt : p < g.dpos := by
    rcases List.mem_append.mp hp with h1 | h1
    · exact (hi.rrange p h1).2.2
    · exact (hi.urange p h1).2.2
  cases hd : s.durable with
  | none =>
    have := hi.nodur hd
    rcases List.mem_append.mp hp with h1 | h1
    · rw [this.1] at h1; exact absurd h1 (by simp)
    · rw [this.2.1] at h1; exact absurd h1 (by simp)
  | some d => exact ⟨d, rfl, (hi.dur d hd).2.1, hlt⟩

/-- the caller may stash (and later send) a reserved value only after the store, and at that moment
the stored boundary is ahead of the value by at least one and at most one epoch of positions -/
theorem group_stash_within_epoch (d0 : Option Nat) (h : GStart d0) (ops : List GOp) (v : Nat)
    (hv : (gReach d0 ops).1.inflight = some (v, none)) :
    let g := (gReach d0 ops).2
    (gReach d0 ops).1.durable ≠ none ∧ v = gval (g.lpos - 1) ∧
      g.lpos - 1 < g.dpos ∧ g.dpos ≤ g.lpos - 1 + gEpoch := by
  intro g
  have hi : GInv (gReach d0 ops).1 g := group_invariant d0 h ops
  obtain ⟨_, h1, h2, _, h4⟩ := hi.infl v none hv
  obtain ⟨h5, h6, h7⟩ := h4 rfl
  exact ⟨h5, h2, by omega, by omega⟩

/-- **A restart resumes strictly past every used value**: after a power loss in any reachable
state with a stored boundary, the live counter sits at the position of that boundary, which is
past the position of every value that reached the wire. -/
theorem group_restart_resumes_past_used (d0 : Option Nat) (h : GStart d0) (ops : List GOp) :
    let s' := (gReach d0 (ops ++ [.crash])).1
    let g' := (gReach d0 (ops ++ [.crash])).2
    (s'.vol.live ≠ 0 → s'.vol.live = gval g'.lpos) ∧ s'.used = g'.upos.map gval ∧
    ∀ p ∈ g'.upos, p < g'.lpos := by
  intro s' g'
  have hi : GInv s' g' := group_invariant d0 h (ops ++ [.crash])
  refine ⟨fun hl => (hi.vol hl).1, hi.used_eq, fun p hp => ?_⟩
  have := (hi.urange p hp).2.1
  omega

theorem gCost_append_crash : ∀ (ops : List GOp), gCost (ops ++ [.crash]) = gCost ops + gEpoch
  | [] => by simp [gCost]
  | o :: os => by
    rw [List.cons_append, gCost_cons, gCost_cons o os, gCost_append_crash os]; omega

/-- … and, within one cycle, the value the restarted node hands out first was never on the wire. -/
theorem group_restart_value_fresh (d0 : Option Nat) (h : GStart d0) (ops : List GOp)
    (hb : gCost ops + gEpoch < mask) :
    let s' := (gReach d0 (ops ++ [.crash])).1
    s'.vol.live ∉ s'.used := by
  intro s'
  have hi : GInv s' (gReach d0 (ops ++ [.crash])).2 := group_invariant d0 h (ops ++ [.crash])
  have hsp := group_spent_le d0 (ops ++ [.crash])
  have hc := gCost_append_crash ops
  have hM := mask_eq
  intro hm
  by_cases hl : s'.vol.live = 0
  · -- an uninitialised counter has no storage, hence nothing was ever used
    have := (hi.nodur (hi.uninit hl).2.1).2.1
    rw [hi.used_eq, this] at hm; exact absurd hm (by simp)
  · have hv := (hi.vol hl).1
    rw [hi.used_eq] at hm
    obtain ⟨p, hp, hpv⟩ := List.mem_map.mp hm
    have hr := hi.urange p hp
    have hw := hi.window
    have : p = (gReach d0 (ops ++ [.crash])).2.lpos :=
      gval_inj (by omega) (by rw [hc] at hsp; omega) (by rw [hpv, ← hv])
    omega

/-- **The `live == boundary` test cannot be stepped over**: the live position never passes the
boundary position, stays within one epoch of it, and the equality of the cyclic values holds
exactly when the positions coincide. -/
theorem group_boundary_reached (d0 : Option Nat) (h : GStart d0) (ops : List GOp)
    (hl : (gReach d0 ops).1.vol.live ≠ 0) :
    let s := (gReach d0 ops).1
    let g := (gReach d0 ops).2
    g.lpos ≤ g.bpos ∧ g.bpos ≤ g.lpos + gEpoch ∧ (s.vol.live = s.vol.boundary ↔ g.lpos = g.bpos) := by
  intro s g
  have hi : GInv s g := group_invariant d0 h ops
  obtain ⟨h1, h2, h3, h4⟩ := hi.vol hl
  refine ⟨h3, h4, ?_, ?_⟩
  · intro he
    have hE := gEpoch_eq
    have hM := mask_eq
    exact gval_inj h3 (by omega) (by rw [← h1, ← h2]; exact he)
  · intro he; rw [h1, h2, he]

/-- single steps from `v` -/
def gIter : Nat → Nat → Nat
  | 0, v => v
  | j + 1, v => gIter j (gAdvance v 1)

theorem gIter_val (j : Nat) : ∀ p, gIter j (gval p) = gval (p + j) := by
  induction j with
  | zero => intro p; rfl
  | succ j ih => intro p; simp only [gIter]; rw [gAdvance_one, ih]; congr 1; omega

/-- Arithmetic core of the same fact, stated on values only: stepping by one from any value `v` of
the range reaches the extended boundary `advance(v, EPOCH)` after exactly `gSpan v` ∈ {999, 1000}
steps and at no earlier step — also across the wrap, where the epoch covers 999 values because
0 is skipped. -/
theorem group_boundary_visited_exactly (v j : Nat) (h1 : 1 ≤ v) (h2 : v ≤ mask) (hj : j ≤ gEpoch) :
    gIter j v = gAdvance v gEpoch ↔ j = gSpan v := by
  have hv := gval_pred h1 h2
  have hE := gEpoch_eq
  have hM := mask_eq
  have hs := gSpan_bounds v
  rw [← hv, gIter_val, gAdvance_epoch, hv]
  constructor
  · intro he
    rcases Nat.le_total j (gSpan v) with hle | hle
    · have := gval_inj (p := v - 1 + j) (q := v - 1 + gSpan v) (by omega) (by omega) he; omega
    · have := gval_inj (p := v - 1 + gSpan v) (q := v - 1 + j) (by omega) (by omega) he.symm; omega
  · intro he; rw [he]

/-- every boundary the code hands to the store is a value of the range (never the 0 marker) -/
theorem group_stored_boundary_in_range (d0 : Option Nat) (h : GStart d0) (ops : List GOp) (v b : Nat)
    (hv : (gReach d0 ops).1.inflight = some (v, some b)) : 1 ≤ b ∧ b ≤ mask := by
  obtain ⟨_, _, _, h3, _⟩ := (group_invariant d0 h ops).infl v (some b) hv
  rw [(h3 b rfl).1]; exact gval_pos _

/-! ### non-vacuity of the hypotheses and a few concrete runs (tests, not theorems) -/

example : GStart none := fun _ hd => absurd hd (by simp)
example : GStart (some 268435000) := fun d hd => by
  simp only [Option.some.injEq] at hd; subst hd; decide
example : gCost [.reserve 0, .store, .stash, .use 0, .crash, .reserve 0] ≤ mask := by decide
/-- across the wrap: start 3 below the top, send, lose power, send again -/
example : (gRun (GSys.boot (some 268435453))
    [.reserve 0, .store, .stash, .use 0, .reserve 0, .store, .stash, .use 0, .crash,
     .reserve 0, .store, .stash, .use 0]).used = [997, 268435454, 268435453] := by decide
/-- a power loss between `reserve` and the store loses the reservation, not the invariant -/
example : (gRun (GSys.boot (some 268435455)) [.reserve 0, .crash, .reserve 0, .store, .stash, .use 0]).used
    = [268435455] := by decide
example : gSpan 268435455 = 999 ∧ gSpan 268434456 = 1000 ∧ gSpan 268434457 = 999 := by decide

/-- Observation outside C12's quantifier (it needs a *failing* store): `reserve` moves the in-memory
boundary before the caller's store can fail; if the store fails, `initiate_group` returns the error
and drops the reservation, and the next reservation demands no store although nothing covers it.
Modelled here by dropping the in-flight reservation by hand. -/
example :
    let s1 := gStep (GSys.boot (some 5000)) (.reserve 0)            -- (5000, Some 6000)
    let s2 := { s1 with inflight := none }                           -- the store failed: error path
    let s3 := gRun s2 [.reserve 0, .store, .stash, .use 0]           -- (5001, None): no store demanded
    s3.used = [5001] ∧ s3.durable = some 5000 := by decide

/-! ## 2. Event numbers -/

/-- Every history that stays below the wrap of the u64 keeps the invariant. The bound is explicit:
start number + `eCost ops` (1 per push, one epoch per power loss) + one epoch + 1 < 2^64. -/
theorem event_invariant (d0 : Option Nat) (h : EStart d0) (ops : List EOp)
    (hb : (ESys.boot d0).vol.next + eCost ops + eEpoch + 1 < U64) :
    EInv (eRun (ESys.boot d0) ops) :=
  (einv_run ops (einv_boot d0 h) hb).1

/-- **Event numbers are never handed out twice**: newest first, the list of numbers handed out is
strictly decreasing. -/
theorem event_numbers_distinct (d0 : Option Nat) (h : EStart d0) (ops : List EOp)
    (hb : (ESys.boot d0).vol.next + eCost ops + eEpoch + 1 < U64) :
    (eRun (ESys.boot d0) ops).used.Pairwise (· > ·) ∧ (eRun (ESys.boot d0) ops).used.Nodup := by
  have hi := event_invariant d0 h ops hb
  exact ⟨hi.sorted, pairwise_gt_nodup _ hi.sorted⟩

/-- **A number is handed out only when a stored epoch covers it**: in every reachable state
(in particular right after the `push` that returned it) every number handed out is below the epoch
value held in storage, and that value is what a restart resumes from. -/
theorem event_used_only_if_covered (d0 : Option Nat) (h : EStart d0) (ops : List EOp)
    (hb : (ESys.boot d0).vol.next + eCost ops + eEpoch + 1 < U64) :
    let s := eRun (ESys.boot d0) ops
    ∀ u ∈ s.used, ∃ d, s.durable = some d ∧ u < d ∧ (eStep s .crash).vol.next = d := by
  intro s u hu
  have hi := event_invariant d0 h ops hb
  cases hd : s.durable with
  | none => have := (hi.nodur hd).2; rw [this] at hu; exact absurd hu (by simp)
  | some d =>
    have h1 := hi.below u hu
    have h2 := (hi.dur d hd).2.2.2.1
    refine ⟨d, rfl, by omega, ?_⟩
    simp only [eStep, hd, EVol.load]

/-- **A restart resumes strictly past every number handed out.** -/
theorem event_restart_resumes_past_used (d0 : Option Nat) (h : EStart d0) (ops : List EOp)
    (hb : (ESys.boot d0).vol.next + eCost ops + eEpoch + 1 < U64) :
    let s := eRun (ESys.boot d0) ops
    ∀ u ∈ s.used, u < (eStep s .crash).vol.next := by
  intro s u hu
  obtain ⟨d, _, h2, h3⟩ := event_used_only_if_covered d0 h ops hb u hu
  rw [h3]; exact h2

/-- **The epoch test cannot be stepped over**: the next number never passes the stored epoch value,
which is always a multiple of the epoch size and at most one epoch ahead. -/
theorem event_boundary_reached (d0 : Option Nat) (h : EStart d0) (ops : List EOp)
    (hb : (ESys.boot d0).vol.next + eCost ops + eEpoch + 1 < U64) (d : Nat)
    (hd : (eRun (ESys.boot d0) ops).durable = some d) :
    let s := eRun (ESys.boot d0) ops
    d % eEpoch = 0 ∧ s.vol.next ≤ d ∧ d ≤ s.vol.next + eEpoch := by
  intro s
  obtain ⟨h1, _, _, h4, h5⟩ := (event_invariant d0 h ops hb).dur d hd
  exact ⟨h1, h4, h5⟩

example : EStart none := fun _ hd => absurd hd (by simp)
example : EStart (some 30000) := fun d hd => by
  simp only [Option.some.injEq] at hd; subst hd; decide
example : (ESys.boot (some 30000)).vol.next + eCost [.push, .crash, .push, .pushCrash] + eEpoch + 1 < U64 := by
  decide
/-- first boot: the epoch is stored with the very first number -/
example : (eRun (ESys.boot none) [.push, .push, .crash, .push]).used = [10000, 2, 1] ∧
    (eRun (ESys.boot none) [.push, .push, .crash, .push]).durable = some 20000 := by decide

/-! ## 3. Check-In counter (under the application protocol the interface prescribes) -/

def cReach (d0 : Option Nat) (init epoch : Nat) (ops : List COp) : CSys × CGhost :=
  (cRun (CSys.boot d0 init epoch) ops,
   cGhostRun (CSys.boot d0 init epoch) (CGhost.boot d0 init epoch) ops)

/-- `WellBehaved`: the application stored the boundary whenever the interface told it to (after
`new`, after `advance`/`advance_by` returned a value) before sending the next Check-In, and called
`advance` once per batch. It is computed by the model itself (`CSys.well`, see `cStep`, `.use`). -/
abbrev WellBehaved (d0 : Option Nat) (init epoch : Nat) (ops : List COp) : Prop :=
  (cReach d0 init epoch ops).1.well = true

theorem checkin_invariant (d0 : Option Nat) (init epoch : Nat) (h : CStart d0 init epoch)
    (ops : List COp) (hok : ∀ op ∈ ops, COpOk op) :
    CInv (cReach d0 init epoch ops).1 (cReach d0 init epoch ops).2 :=
  cinv_run ops (cinv_boot d0 init epoch h) hok

theorem checkin_spent_le (d0 : Option Nat) (init epoch : Nat) (ops : List COp) :
    (cReach d0 init epoch ops).2.spent ≤ cCost epoch ops := by
  have := cspent_run ops (CSys.boot d0 init epoch) (CGhost.boot d0 init epoch)
  have h0 : (CGhost.boot d0 init epoch).spent = 0 := by cases d0 <;> rfl
  have h1 : (CSys.boot d0 init epoch).ctr.epoch = epoch := rfl
  rw [h1] at this
  simp only [cReach]; omega

/-- **Check-In counter values are pairwise distinct** for an obedient application, for every history
that consumes less than one cycle of the u32: `cCost epoch ops < 2^32` (1 per `advance`, `delta`
per `advance_by`, one epoch per restart). -/
theorem checkin_values_distinct (d0 : Option Nat) (init epoch : Nat) (h : CStart d0 init epoch)
    (ops : List COp) (hok : ∀ op ∈ ops, COpOk op) (hw : WellBehaved d0 init epoch ops)
    (hb : cCost epoch ops < U32) :
    (cReach d0 init epoch ops).1.used.Nodup :=
  cinv_values_nodup (checkin_invariant d0 init epoch h ops hok) hw
    (Nat.lt_of_le_of_lt (checkin_spent_le d0 init epoch ops) hb)

/-- **A value is used only when a stored boundary covers it**: for an obedient application every
value that reached the wire sits at a position not after the position of the boundary held in
storage (a restart resumes with `boundary + 1`), and such a boundary exists. -/
theorem checkin_used_only_if_covered (d0 : Option Nat) (init epoch : Nat) (h : CStart d0 init epoch)
    (ops : List COp) (hok : ∀ op ∈ ops, COpOk op) (hw : WellBehaved d0 init epoch ops) :
    let s := (cReach d0 init epoch ops).1
    let g := (cReach d0 init epoch ops).2
    s.used = g.upos.map cval ∧
    ∀ p ∈ g.upos, ∃ d, s.durable = some d ∧ d = cval g.dpos ∧ p ≤ g.dpos := by
  intro s g
  have hi : CInv s g := checkin_invariant d0 init epoch h ops hok
  refine ⟨hi.used_eq, fun p hp => ?_⟩
  obtain ⟨_, _, ⟨d, hd⟩, h4⟩ := (hi.wl hw).1 p hp
  exact ⟨d, hd, (hi.dur d hd).1, h4⟩

/-- **A restart resumes strictly past every used value**: after `boot` the counter sits at the
position of the stored boundary, so the next value (`next()` = position + 1) is past every used one. -/
theorem checkin_restart_resumes_past_used (d0 : Option Nat) (init epoch : Nat)
    (h : CStart d0 init epoch) (ops : List COp) (hok : ∀ op ∈ ops, COpOk op) (i : Nat) (hi : i < U32)
    (hw : WellBehaved d0 init epoch ops) :
    let s' := (cReach d0 init epoch (ops ++ [.boot i])).1
    let g' := (cReach d0 init epoch (ops ++ [.boot i])).2
    s'.ctr.next = cval (g'.vpos + 1) ∧ s'.used = g'.upos.map cval ∧ ∀ p ∈ g'.upos, p < g'.vpos + 1 := by
  intro s' g'
  have hok' : ∀ op ∈ ops ++ [COp.boot i], COpOk op := by
    intro op hop
    rcases List.mem_append.mp hop with h1 | h1
    · exact hok op h1
    · simp only [List.mem_singleton] at h1; subst h1; exact hi
  have hinv : CInv s' g' := checkin_invariant d0 init epoch h (ops ++ [.boot i]) hok'
  have hrun : ∀ (ops : List COp) (s : CSys) (o : COp), cRun s (ops ++ [o]) = cStep (cRun s ops) o := by
    intro ops
    induction ops with
    | nil => intro s o; rfl
    | cons a as ih => intro s o; simp only [List.cons_append, cRun]; exact ih _ _
  have hwell : s'.well = true := by
    show (cRun (CSys.boot d0 init epoch) (ops ++ [.boot i])).well = true
    rw [hrun]; exact hw
  have hpk : peek1 s' = 0 := by
    show peek1 (cRun (CSys.boot d0 init epoch) (ops ++ [.boot i])) = 0
    rw [hrun]; rfl
  refine ⟨?_, hinv.used_eq, fun p hp => ?_⟩
  · have hU := U32_eq
    unfold CK.next; rw [hinv.val.1]; simp only [cval, U32_eq]; omega
  · have := ((hinv.wl hwell).1 p hp).2.1
    rw [hpk] at this; omega

/-- **The `value == next_epoch` test cannot be stepped over** (also by `advance_by`, which
re-anchors): the position of the value is always strictly before the position of the in-memory
boundary and within one epoch of it; `advance` hits the equality exactly when the positions meet
(`ck_advance_eq`), `advance_by` re-anchors exactly when the jump reaches it (`ck_advanceBy_eq`). -/
theorem checkin_boundary_reached (d0 : Option Nat) (init epoch : Nat) (h : CStart d0 init epoch)
    (ops : List COp) (hok : ∀ op ∈ ops, COpOk op) :
    let s := (cReach d0 init epoch ops).1
    let g := (cReach d0 init epoch ops).2
    g.vpos < g.npos ∧ g.npos ≤ g.vpos + epoch ∧
    ((s.ctr.advance).2.isSome ↔ g.vpos + 1 = g.npos) ∧
    ∀ delta, ((s.ctr.advanceBy delta).2.isSome ↔ g.vpos + delta ≥ g.npos) := by
  intro s g
  have hinv : CInv s g := checkin_invariant d0 init epoch h ops hok
  obtain ⟨hv, hn, h1, h2⟩ := hinv.val
  have hep : s.ctr.epoch = epoch := by
    have : ∀ (ops : List COp) (s0 : CSys), (cRun s0 ops).ctr.epoch = s0.ctr.epoch := by
      intro ops
      induction ops with
      | nil => intro s0; rfl
      | cons a as ih => intro s0; simp only [cRun]; rw [ih, cstep_epoch]
    exact this ops _
  refine ⟨h1, by omega, ?_, ?_⟩
  · rw [ck_advance_eq hv hn h1 h2 hinv.ep.2]
    by_cases hc : g.vpos + 1 = g.npos
    · rw [if_pos hc]; simp [hc]
    · rw [if_neg hc]; simp [hc]
  · intro delta
    rw [ck_advanceBy_eq delta hv hn h1 h2 hinv.ep.2]
    by_cases hc : g.vpos + delta ≥ g.npos
    · rw [if_pos hc]; simp [hc]
    · rw [if_neg hc]; simp; omega

example : CStart (some 4294967290) 7 10 := ⟨fun d hd => by
  simp only [Option.some.injEq] at hd; subst hd; decide, by decide, by decide, by decide⟩
/-- an obedient history across the wrap of the u32: restart, store, send, advance … -/
example : WellBehaved (some 4294967290) 0 4
    [.persist, .use, .advanceStore, .use, .advanceStore, .boot 0, .persist, .use, .advance] := by decide
example : (cReach (some 4294967290) 0 4
    [.persist, .use, .advanceStore, .use, .advanceStore, .boot 0, .persist, .use, .advance]).1.used
    = [4294967295, 4294967292, 4294967291] := by decide
/-- the hypothesis is needed: sending before storing after a restart repeats a value -/
example : (cRun (CSys.boot (some 100) 0 10) [.use, .boot 0, .use]).used = [101, 101] ∧
    ¬ WellBehaved (some 100) 0 10 [.use, .boot 0, .use] := by decide

end C12
