import RsMatterVerif.Model.Counters
import Driver.Util
/-! Driver for C12: replays crash/restart histories of the three durable counters on
`Model/Counters` (correspondence) and evaluates the property's specification on the
*implementation's* outputs (oracle):

* no value reaches the wire twice in the lifetime of the storage (multiset of used values);
* at the moment a value is used, the boundary held in storage covers it (is ahead of it in the
  cyclic order of the counter range; for the Check-In counter `value ≤ boundary`, because a restart
  resumes with `boundary + 1`), for the Check-In counter only while the application has obeyed the
  interface (store when told, one `advance` per batch);
* a restart resumes past every used value.

Store FAILURES (`storefail`, `openfail`, `pushfail`, `persistfail`, `advstfail`, `checkinfail`) are
ordinary operations: the oracle stays on — a failed store makes nothing durable, so whatever is
used afterwards must still be covered by what IS in storage.

The oracle state is built only from the case header (start boundary) and the implementation's
outputs (`store`d boundaries, used values); it does not look at the model. The cover predicates
(`Counters.gCovers`, `Counters.cCovers`) are the ones the theorems `group_used_covered` /
`checkin_used_covered` are stated with. -/
namespace Driver.C12
open Counters

inductive Kind | g | w | e | k | i | c | none
deriving DecidableEq

structure St where
  kind : Kind := .none
  gs : GSys := GSys.boot Option.none
  es : ESys := ESys.boot Option.none
  cs : CSys := CSys.boot Option.none 0 1
  -- oracle state (implementation outputs only)
  odur : Option Nat := Option.none
  oused : List Nat := []
  /-- event numbers used, as disjoint runs -/
  oruns : List (Nat × Nat) := []
  opending : Bool := true
  opeeked : Bool := false
  owell : Bool := true
  /-- positions consumed so far (upper bound), to stay within one cycle of the range -/
  ospent : Nat := 0
  oepoch : Nat := 1
  /-- the oracle applies (inside the range the property can speak about) -/
  oon : Bool := true

def optS (o : Option Nat) : String := match o with | some b => toString b | Option.none => "-"

def parseD0 (s : String) : Option (Option Nat) :=
  if s = "none" then some Option.none else s.toNat?.map some

/-- group counter: the stored boundary `d` covers `v` (`Counters.gCovers`, the predicate of theorem
`group_used_covered`) -/
def gAhead (v d : Nat) : Bool := gCovers v d

/-- a restart that resumes at `l` is past the used value `u` (an uninitialised counter, `l = 0`, is
past nothing) -/
def gPast (u l : Nat) : Bool := l ≥ 1 && gCovers u l

/-- 2^64 minus a margin: event numbers beyond it are next to the wrap of the u64, where the
property (stated for one cycle of the range) says nothing -/
def eTop : Nat := U64 - 1048576

def verdict (ora : Option String) (model impl : String) : String :=
  match ora with
  | some why => s!"ORA {why}"
  | Option.none => if model = impl then "ok" else s!"DIS {model}"

/-! ### g -/

def idxOf (ws : List String) : Option Nat :=
  match ws with
  | [] => some 0
  | [i] => i.toNat?
  | _ => Option.none

def stepG (st : St) (ws : List String) (out : String) : St × String :=
  let o := words out
  match ws with
  | ["reserve", rs] =>
    match rs.toNat? with
    | Option.none => (st, "BAD rand")
    | some rand =>
      match st.gs.inflight with
      | some _ => (st, verdict Option.none "busy" out)
      | Option.none =>
        let r := st.gs.vol.reserve rand
        let gs' := gStep st.gs (.reserve rand)
        let m := s!"{r.2.1} {optS r.2.2} {r.1.live} {r.1.boundary}"
        ({ st with gs := gs' }, verdict Option.none m out)
  | ["store"] =>
    let gs' := gStep st.gs .store
    let m := match st.gs.inflight with
      | some (_, b) => toString b
      | Option.none => "-"
    -- oracle: the implementation's store becomes the durable boundary
    let odur := match out.toNat? with | some b => some b | Option.none => st.odur
    ({ st with gs := gs', odur := odur }, verdict Option.none m out)
  | ["storefail"] =>
    -- the store fails: nothing becomes durable (the oracle's boundary stays), the caller undoes
    -- the reservation (`unreserve_global_group_data_ctr`)
    let gs' := gStep st.gs .storeFail
    let m := match st.gs.inflight with
      | some _ => s!"{gs'.vol.live} {gs'.vol.boundary}"
      | Option.none => "-"
    ({ st with gs := gs' }, verdict Option.none m out)
  | "stash" :: is =>
    match idxOf is with
    | Option.none => (st, "BAD idx")
    | some i =>
      let gs' := gStep st.gs (.stash i)
      let m := match st.gs.held[i]? with | some v => toString v | Option.none => "-"
      ({ st with gs := gs' }, verdict Option.none m out)
  | "abandon" :: is =>
    match idxOf is with
    | Option.none => (st, "BAD idx")
    | some i =>
      let gs' := gStep st.gs (.abandon i)
      let m := match st.gs.held[i]? with | some v => toString v | Option.none => "-"
      ({ st with gs := gs' }, verdict Option.none m out)
  | ["use", is] =>
    match is.toNat? with
    | Option.none => (st, "BAD idx")
    | some i =>
      let gs' := gStep st.gs (.use i)
      let m := match st.gs.ready[i]? with | some v => toString v | Option.none => "-"
      match out.toNat? with
      | Option.none => ({ st with gs := gs' }, verdict Option.none m out)
      | some v =>
        let ora : Option String :=
          if st.oused.contains v then some s!"value {v} reached the wire twice"
          else match st.odur with
            | Option.none => some s!"value {v} used while no boundary is stored"
            | some d => if gAhead v d then Option.none else some s!"value {v} used while the stored boundary {d} does not cover it"
        ({ st with gs := gs', oused := v :: st.oused }, verdict ora m out)
  | ["peek", rs] =>
    match rs.toNat? with
    | Option.none => (st, "BAD rand")
    | some rand =>
      let gs' := gStep st.gs (.peek rand)
      let m := s!"{gs'.vol.live} {gs'.vol.live} {gs'.vol.boundary}"
      ({ st with gs := gs' }, verdict Option.none m out)
  | ["crash"] =>
    let gs' := gStep st.gs .crash
    let m := s!"{gs'.vol.live} {gs'.vol.boundary}"
    let ora : Option String :=
      match o with
      | [ls, _] =>
        match ls.toNat? with
        | some l =>
          match st.oused.find? (fun u => !gPast u l) with
          | some u => some s!"restart resumes at {l}, not past the used value {u}"
          | Option.none => Option.none
        | Option.none => Option.none
      | _ => Option.none
    ({ st with gs := gs' }, verdict ora m out)
  | _ => (st, "BAD op")

/-! ### W: the real group transmit path (`initiate_group` + `group_invoke_with`, counter read from the wire) -/

/-- the oracle for a value seen on the wire (same specification as `use` in stream `g`) -/
def wireOracle (st : St) (v : Nat) : Option String :=
  if !st.oon then Option.none
  else if st.oused.contains v then some s!"counter {v} reached the wire twice"
  else match st.odur with
    | Option.none => some s!"counter {v} on the wire while no boundary is stored"
    | some d => if gAhead v d then Option.none else some s!"counter {v} on the wire while the stored boundary {d} does not cover it"

def resumeOracle (st : St) (l : Nat) : Option String :=
  if !st.oon then Option.none else
  match st.oused.find? (fun u => !gPast u l) with
  | some u => some s!"restart resumes at {l}, not past the counter {u} seen on the wire"
  | Option.none => Option.none

/-- the implementation's stores (`s<b>` tokens) become the durable boundary of the oracle -/
def wStores (st : St) (toks : List String) : St :=
  toks.foldl (fun st t =>
    if t.startsWith "s" then
      match (t.drop 1).toString.toNat? with
      | some b => { st with odur := some b }
      | Option.none => st
    else st) st

/-- `initiate_group` after its critical section: `initiate_for_session` (fails when every exchange
slot of the group session is taken) and the stash -/
def wFinish (gs0 s1 : GSys) : GSys × String :=
  let full := gs0.ready.length ≥ Consts.maxExchanges
  (if full then gStep s1 (.abandon 0) else gStep s1 (.stash 0), if full then "err:NoSpaceExchanges" else "ok")

def stepW (st : St) (ws : List String) (out : String) : St × String :=
  let o := words out
  match ws with
  | ["open", rs] =>
    match rs.toNat? with
    | Option.none => (st, "BAD rand")
    | some rand =>
      let r := st.gs.vol.reserve rand
      let s1 := gStep (gStep st.gs (.reserve rand)) .store
      let (s2, how) := wFinish st.gs s1
      let stores := match r.2.2 with | some b => s!"s{b}" | Option.none => "-"
      let m := s!"{stores} {s2.vol.live} {s2.vol.boundary} {how}"
      (wStores { st with gs := s2 } o, verdict Option.none m out)
  | ["openfail", rs] =>
    match rs.toNat? with
    | Option.none => (st, "BAD rand")
    | some rand =>
      let r := st.gs.vol.reserve rand
      match r.2.2 with
      | some _ =>
        -- the store fails: `initiate_group` undoes the reservation and returns the error; nothing
        -- became durable. The oracle stays ON: whatever is sent later must be covered by what IS
        -- in storage.
        let s2 := gStep (gStep st.gs (.reserve rand)) .storeFail
        let m := s!"- {s2.vol.live} {s2.vol.boundary} err:StdIoError"
        (wStores { st with gs := s2 } o, verdict Option.none m out)
      | Option.none =>
        -- no store is attempted: an ordinary `open`
        let s1 := gStep (gStep st.gs (.reserve rand)) .store
        let (s2, how) := wFinish st.gs s1
        let m := s!"- {s2.vol.live} {s2.vol.boundary} {how}"
        (wStores { st with gs := s2 } o, verdict Option.none m out)
  | ["send", is] =>
    match is.toNat? with
    | Option.none => (st, "BAD idx")
    | some i =>
      let gs' := gStep st.gs (.use i)
      let m := match st.gs.ready[i]? with | some v => toString v | Option.none => "-"
      match out.toNat? with
      | Option.none => ({ st with gs := gs' }, verdict Option.none m out)
      | some v => ({ st with gs := gs', oused := v :: st.oused }, verdict (wireOracle st v) m out)
  | ["opencrash", how, rs] =>
    match rs.toNat? with
    | Option.none => (st, "BAD rand")
    | some rand =>
      let r := st.gs.vol.reserve rand
      let s1 := gStep st.gs (.reserve rand)
      let (s2, pre) : GSys × String := match r.2.2 with
        | some b =>
          if how = "a" then (gStep (gStep s1 .store) .crash, s!"s{b} died")
          else (gStep s1 .crash, "- died")
        | Option.none =>
          let (s3, hw) := wFinish st.gs (gStep s1 .store)
          (gStep s3 .crash, if hw = "ok" then "- done" else s!"- {hw}")
      let m := s!"{pre} {s2.vol.live} {s2.vol.boundary}"
      let st1 := wStores { st with gs := s2 } o
      let ora := match o.reverse with
        | _ :: ls :: _ => match ls.toNat? with | some l => resumeOracle st1 l | Option.none => Option.none
        | _ => Option.none
      (st1, verdict ora m out)
  | ["crash"] =>
    let gs' := gStep st.gs .crash
    let m := s!"{gs'.vol.live} {gs'.vol.boundary}"
    let ora := match o with
      | [ls, _] => match ls.toNat? with | some l => resumeOracle st l | Option.none => Option.none
      | _ => Option.none
    ({ st with gs := gs' }, verdict ora m out)
  | _ => (st, "BAD op")

/-! ### e -/

/-- model tokens of one push: (store token?) and the number -/
def ePushModel (s : ESys) : ESys × Option Nat × Nat :=
  let r := s.vol.nextNumber
  (eStep s .push, r.2.1, r.2.2)

/-- run `k` pushes on the model, producing the run-length encoded token list (reversed) -/
def ePushN : Nat → ESys → Option (Nat × Nat) → List String → ESys × List String
  | 0, s, run, acc =>
    (s, match run with | some (a, b) => s!"r{a}-{b}" :: acc | Option.none => acc)
  | k + 1, s, run, acc =>
    let (s', st, n) := ePushModel s
    let (run, acc) := match st with
      | some v =>
        let acc := match run with | some (a, b) => s!"r{a}-{b}" :: acc | Option.none => acc
        (Option.none, s!"s{v}" :: acc)
      | Option.none => (run, acc)
    let (run, acc) := match run with
      | some (a, b) => if (b + 1) % U64 = n then (some (a, n), acc) else (some (n, n), s!"r{a}-{b}" :: acc)
      | Option.none => (some (n, n), acc)
    ePushN k s' run acc

def parseRun (t : String) : Option (Nat × Nat) :=
  match (t.drop 1).toString.splitOn "-" with
  | [a, b] => match a.toNat?, b.toNat? with
    | some x, some y => some (x, y)
    | _, _ => Option.none
  | _ => Option.none

/-- oracle over the implementation's tokens of a push -/
def eOracle (st : St) : List String → St × Option String
  | [] => (st, Option.none)
  | t :: ts =>
    if t.startsWith "s" then
      match (t.drop 1).toString.toNat? with
      | some v => eOracle { st with odur := some v, oon := st.oon && v < eTop } ts
      | Option.none => (st, some s!"unreadable store token {t}")
    else if t.startsWith "r" then
      match parseRun t with
      | some (a, b) =>
        let st1 := { st with oruns := (a, b) :: st.oruns, oon := st.oon && b < eTop && a ≤ b }
        if !st1.oon then eOracle st1 ts else
        match st.oruns.find? (fun (x, y) => !(b < x || y < a)) with
        | some (x, y) => (st1, some s!"event numbers {a}-{b} overlap the earlier {x}-{y}")
        | Option.none =>
          match st.odur with
          | Option.none => (st1, some s!"event numbers {a}-{b} handed out while no epoch is stored")
          | some d =>
            if b < d then eOracle st1 ts
            else (st1, some s!"event numbers {a}-{b} handed out while the stored epoch {d} does not cover them")
      | Option.none => (st, some s!"unreadable run token {t}")
    else eOracle st ts

def eResumeOracle (st : St) (next : Nat) : Option String :=
  if !st.oon || next ≥ eTop then Option.none else
  match st.oruns.find? (fun (_, y) => !(y < next)) with
  | some (x, y) => some s!"restart resumes at {next}, not past the used numbers {x}-{y}"
  | Option.none => Option.none

def stepE (st : St) (ws : List String) (out : String) : St × String :=
  let o := words out
  match ws with
  | ["push", ks] =>
    match ks.toNat? with
    | Option.none => (st, "BAD count")
    | some k =>
      let k := min k 200000
      let (es', toks) := ePushN k st.es Option.none []
      let m := if toks.isEmpty then "-" else " ".intercalate toks.reverse
      let (st1, ora) := eOracle st o
      ({ st1 with es := es' }, verdict ora m out)
  | ["pushfail"] =>
    -- `push` while the store fails: no number is handed out when an epoch is due
    let r := st.es.vol.nextNumber
    let es' := eStep st.es .pushFail
    let m := match r.2.1 with
      | some _ => "err"
      | Option.none => s!"r{r.2.2}-{r.2.2}"
    let (st1, ora) := eOracle st o
    ({ st1 with es := es' }, verdict ora m out)
  | ["pushcrash"] =>
    let r := st.es.vol.nextNumber
    let es' := match r.2.1 with
      | some _ => eStep st.es .pushCrash
      | Option.none => eStep (eStep st.es .push) .crash
    let m := match r.2.1 with
      | some v => s!"s{v} died {es'.vol.next}"
      | Option.none => s!"r{r.2.2}-{r.2.2} done {es'.vol.next}"
    let (st1, ora) := eOracle st o
    let ora := match ora with
      | some w => some w
      | Option.none => match o.getLast?.bind String.toNat? with
        | some nx => eResumeOracle st1 nx
        | Option.none => Option.none
    ({ st1 with es := es' }, verdict ora m out)
  | ["crash"] =>
    let es' := eStep st.es .crash
    let m := toString es'.vol.next
    let ora := match out.toNat? with | some nx => eResumeOracle st nx | Option.none => Option.none
    ({ st with es := es' }, verdict ora m out)
  | _ => (st, "BAD op")

/-! ### k / i -/

def cBudgetOk (st : St) : Bool := st.ospent + 2 * st.oepoch + 2 < U32

def stepC (st : St) (icd : Bool) (ws : List String) (out : String) : St × String :=
  match ws with
  | ["boot", is] =>
    match is.toNat? with
    | Option.none => (st, "BAD init")
    | some i =>
      let cs' := cStep st.cs (.boot i)
      let m := if icd then toString cs'.ctr.next else s!"{cs'.ctr.next} {cs'.ctr.persistValue}"
      let st1 := { st with cs := cs', opending := true, opeeked := false, ospent := st.ospent + st.oepoch }
      let ora : Option String :=
        match (words out).head?.bind String.toNat? with
        | some nx =>
          if st1.oon && st1.owell && cBudgetOk st1 && st1.oused.contains nx then
            some s!"restart resumes with {nx}, a value that already reached the wire"
          else Option.none
        | Option.none => Option.none
      (st1, verdict ora m out)
  | ["persist"] =>
    let cs' := cStep st.cs .persist
    let m := toString st.cs.ctr.persistValue
    let odur := match out.toNat? with | some b => some b | Option.none => st.odur
    ({ st with cs := cs', odur := odur, opending := false }, verdict Option.none m out)
  | ["persistfail"] =>
    -- the store fails: nothing becomes durable, the boundary stays pending
    ({ st with cs := cStep st.cs .persistFail }, verdict Option.none "err" out)
  | ["use"] =>
    let cs' := cStep st.cs .use
    let m := toString st.cs.ctr.next
    let well := st.owell && !st.opending && !st.opeeked
    match out.toNat? with
    | Option.none => ({ st with cs := cs', owell := well, opeeked := true }, verdict Option.none m out)
    | some v =>
      let ora : Option String :=
        if !(st.oon && well && cBudgetOk st) then Option.none
        else if st.oused.contains v then some s!"value {v} reached the wire twice"
        else match st.odur with
          | Option.none => some s!"value {v} used while no boundary is stored"
          | some d => if cCovers v d then Option.none else some s!"value {v} used while the stored boundary {d} does not cover it"
      ({ st with cs := cs', owell := well, opeeked := true, oused := v :: st.oused }, verdict ora m out)
  | ["adv"] =>
    let r := st.cs.ctr.advance
    let cs' := cStep st.cs .advance
    let told := out.toNat?.isSome
    ({ st with cs := cs', opeeked := false, opending := st.opending || told, ospent := st.ospent + 1 },
      verdict Option.none (optS r.2) out)
  | ["advst"] =>
    let r := st.cs.ctr.advance
    let cs' := cStep st.cs .advanceStore
    let (odur, pend) := match out.toNat? with
      | some b => (some b, false)
      | Option.none => (st.odur, st.opending)
    ({ st with cs := cs', opeeked := false, odur := odur, opending := pend, ospent := st.ospent + 1 },
      verdict Option.none (optS r.2) out)
  | ["advstfail"] =>
    -- `advance_counter` whose store fails (if one is due): the implementation answers `err`, nothing
    -- became durable; the application has been told (by the error) that the boundary is pending
    let r := st.cs.ctr.advance
    let cs' := cStep st.cs .advanceStoreFail
    let m := if r.2.isSome then "err" else "-"
    ({ st with cs := cs', opeeked := false, opending := st.opending || out = "err", ospent := st.ospent + 1 },
      verdict Option.none m out)
  | ["jump", ds] =>
    match ds.toNat? with
    | Option.none => (st, "BAD delta")
    | some d =>
      let r := st.cs.ctr.advanceBy d
      let cs' := cStep st.cs (.jump d)
      let m := if icd then (if r.2.isSome then "y" else "-") else optS r.2
      let told := out ≠ "-"
      ({ st with cs := cs', opending := st.opending || told, ospent := st.ospent + d }, verdict Option.none m out)
  | _ => (st, "BAD op")

/-! ### C: the real `Icd::send_check_in` (counter decrypted from the Check-In datagram) -/

def firstBad (rs : List String) : String :=
  match rs.find? (fun r => r.startsWith "ORA") with
  | some r => r
  | Option.none => match rs.find? (fun r => r ≠ "ok") with
    | some r => r
    | Option.none => "ok"

/-- the stores one `send_check_in` performs, as the model sees them, when the first `n` stores
succeed and every later one fails (`n = none`: all succeed): (retry of a due boundary?, outcome) and
(store of `advance_counter`?, outcome) -/
def cwPlan (cs : CSys) (n : Option Nat) : Bool × Bool :=
  let okRetry := match n with | Option.none => true | some k => k ≥ 1
  let used := if cs.due then 1 else 0
  let okAdv := match n with | Option.none => true | some k => k ≥ used + 1
  (okRetry, okAdv)

/-- one real `send_check_in`: out = `<counter> <stores joined by +|-> <how>`; `how` = ok | err:<Code>.
The oracle is fed in the order of the real events: the retry store (if any), the value on the wire,
the store of `advance_counter` (if any). -/
def cwCheckin (st : St) (n : Option Nat) (o : List String) : St × String :=
  let (okRetry, okAdv) := cwPlan st.cs n
  let due := st.cs.due
  let adv0 := st.cs.ctr.advance.2
  match o with
  | [c, ss, how] =>
    let stores : List String := if ss = "-" then [] else (ss.splitOn "+")
    if due && !okRetry then
      -- nothing is sent, nothing stored
      let (st1, _) := stepC st true ["persistfail"] "err"
      let m := "wire:0: - err:StdIoError"
      (st1, if s!"{c} {ss} {how}" = m then "ok" else s!"DIS {m}")
    else
      let (st1, r0, rest) : St × String × List String :=
        if due then
          match stores with
          | x :: xs => let (a, b) := stepC st true ["persist"] x; (a, b, xs)
          | [] => let (a, _) := stepC st true ["persist"] "?"; (a, s!"DIS retry store {st.cs.ctr.persistValue} missing", [])
        else (st, "ok", stores)
      let (st2, r1) := stepC st1 true ["use"] c
      let (st3, r2) : St × String :=
        if okAdv then
          match rest with
          | [x] => stepC st2 true ["advst"] x
          | [] => stepC st2 true ["advst"] "-"
          | _ => (st2, "DIS too many stores")
        else
          let (a, b) := stepC st2 true ["advstfail"] (if adv0.isSome then "err" else "-")
          (a, if rest.isEmpty then b else "DIS store reported although it failed")
      let expHow := if !okAdv && adv0.isSome then "err:StdIoError" else "ok"
      let r3 := if how = expHow then "ok" else s!"DIS how {expHow}"
      (st3, firstBad [r0, r1, r2, r3])
  | _ => (st, "DIS unreadable checkin output")

def stepCW (st : St) (ws : List String) (out : String) : St × String :=
  let o := words out
  match ws with
  | ["checkin"] => cwCheckin st Option.none o
  | ["checkinfail", ns] =>
    match ns.toNat? with
    | some n => cwCheckin st (some n) o
    | Option.none => (st, "BAD n")
  | ["checkincrash", how, is] =>
    -- (a due boundary is stored first; a power loss is injected at the FIRST store of the call)
    let due := st.cs.due
    let adv := st.cs.ctr.advance.2
    let (c, s, h, nx) : String × String × String × String := match o with
      | [c, s, h, nx] => (c, s, h, nx)
      | _ => ("?", "?", "?", "?")
    if due then
      -- the first store is the retry: power loss before / after it, nothing was sent
      let (st1, _) := if how = "a" then stepC st true ["persist"] s else (st, "ok")
      let stored := if how = "a" then toString st.cs.ctr.persistValue else "-"
      let (st3, r3) := stepC st1 true ["boot", is] nx
      let r4 := if c = "wire:0:" ∧ s = stored ∧ h = "died" then "ok" else s!"DIS wire:0: {stored} died {st3.cs.ctr.next}"
      (st3, firstBad [r3, r4])
    else
    -- what the harness can see of the store: nothing if the power went before it became durable
    let (advOp, stored, hw) : String × String × String := match adv with
      | some b => if how = "a" then ("advst", toString b, "died") else ("adv", "-", "died")
      | Option.none => ("advst", "-", "done")
    let (st1, r1) := stepC st true ["use"] c
    -- a store that did not become durable is not reported: feed the model's own answer
    let (st2, r2) := stepC st1 true [advOp] (if advOp = "adv" then optS adv else s)
    let (st3, r3) := stepC st2 true ["boot", is] nx
    let r4 := if s = stored ∧ h = hw then "ok" else s!"DIS {st.cs.ctr.next} {stored} {hw} {st3.cs.ctr.next}"
    (st3, firstBad [r1, r2, r3, r4])
  | _ => stepC st true ws out

def step (st : St) (line : String) : St × String :=
  let (op, out) := splitArrow line
  match words op with
  | "case" :: _ :: k :: rest =>
    if k = "g" ∨ k = "G" ∨ k = "W" then
      match rest.head?.bind parseD0 with
      | some d0 => ({ kind := if k = "W" then .w else .g, gs := GSys.boot d0, odur := d0 }, "case")
      | Option.none => ({}, "BAD d0")
    else if k = "e" then
      match rest.head?.bind parseD0 with
      | some d0 => ({ kind := .e, es := ESys.boot d0, odur := d0,
                      oon := match d0 with | some d => d < eTop | Option.none => true }, "case")
      | Option.none => ({}, "BAD d0")
    else if k = "k" ∨ k = "i" ∨ k = "C" then
      match rest with
      | [ds, es, is] =>
        match parseD0 ds, es.toNat?, is.toNat? with
        | some d0, some ep, some ini =>
          ({ kind := if k = "k" then .k else if k = "C" then .c else .i, cs := CSys.boot d0 ini ep, odur := d0, oepoch := ep,
             ospent := ep, oon := ep ≤ 16777216 }, "case")
        | _, _, _ => ({}, "BAD header")
      | _ => ({}, "BAD header")
    else ({}, "BAD kind")
  | ws =>
    match st.kind with
    | .g => stepG st ws out
    | .w => stepW st ws out
    | .e => stepE st ws out
    | .k => stepC st false ws out
    | .i => stepC st true ws out
    | .c => stepCW st ws out
    | .none => (st, "BAD no case")

def run : IO UInt32 := Driver.runLoop ({} : St) step

end Driver.C12
