import RsMatterVerif.Generated.Consts
/-!
# Model of the PASE initiator (C02)

Transliteration of `sc/pase/initiator.rs` `PaseInitiator::{perform, exchange_pbkdf_params,
exchange_pake1_pake2, exchange_pake3_status}`: what the initiator accepts from its peer, message by
message, and when it completes the session.

**SPAKE2+ is symbolic**, as in `Model/Pase.lean`: the confirmation value `cB` the initiator expects in
Pake2 is the free term `ConfB v ctx pA pB` (`cB = MAC(KcB(w0, w1, pA, pB, TT(ctx)), pA)`), where
* `v` is the *verifier class* `(passcode, salt, iterations)` - what `w0`, `w1` (and the responder's
  `L`) are derived from: the initiator derives it from ITS passcode and the salt / iteration count
  of the PBKDFParamResponse it received,
* `ctx` is the transcript `Spake2P::start_context` / `finish_context` hash: the PBKDFParamRequest as
  sent and the PBKDFParamResponse **as received, byte for byte** (`payload` identities),
* `pA` is its own share, `pB` the share in the Pake2 it received.
A received `cB` equals the expected one only if all of these coincide: whoever computed it knew the
verifier of this passcode for this salt / iteration count and saw this very transcript and shares.
Import-free apart from the generated constants.
-/
namespace PaseInit

def minSaltLen : Nat := Consts.spake2pSaltMinLen
def maxSaltLen : Nat := Consts.spake2pSaltLen

/-- what `w0`, `w1`, `L` are derived from -/
structure VClass where
  passcode : Nat
  salt : Nat
  iterations : Nat
deriving Repr, DecidableEq, Inhabited

/-- the transcript the context hash covers: identities of the two payloads, byte for byte -/
structure Ctx where
  req : Nat
  resp : Nat
deriving Repr, DecidableEq, Inhabited

/-- `cB` of the handshake - a free constructor -/
structure ConfB where
  v : VClass
  ctx : Ctx
  pA : Nat
  pB : Nat
deriving Repr, DecidableEq, Inhabited

inductive CB
  | mac (c : ConfB)
  /-- 32 bytes that are no confirmation value of any handshake -/
  | junk (n : Nat)
deriving Repr, DecidableEq, Inhabited

/-- a PBKDFParamResponse that parses -/
structure Resp where
  /-- identity of the payload bytes as received -/
  payload : Nat
  /-- the echoed initiator random -/
  random : Nat
  /-- the `pbkdf_parameters` structure is present -/
  hasParams : Bool
  salt : Nat
  saltLen : Nat
  iterations : Nat
deriving Repr, DecidableEq, Inhabited

/-- what arrives on the initiator's exchange -/
inductive Msg
  | resp (r : Resp)
  /-- opcode PBKDFParamResponse, TLV does not parse (`get_root_node_struct`: the root structure must be
  terminated and span the whole payload; then the derived decoder) -/
  | respMalformed
  /-- Pake2 with a share that is a valid point (`pB`) and a 32-byte `cB` -/
  | pake2 (pB : Nat) (cb : CB)
  /-- opcode Pake2: TLV does not parse (root structure not terminated / trailing bytes, since the repair of
  `C02-initiator-tlv-envelope`) / `pB` not 65 bytes / `cB` not 32 bytes / `pB` not a valid point -/
  | pake2Malformed
  /-- a StatusReport: `SessionEstablishmentSuccess` or not -/
  | status (success : Bool)
  /-- opcode StatusReport, payload does not parse -/
  | statusMalformed
  /-- any other opcode -/
  | otherOpcode
deriving Repr, DecidableEq, Inhabited

inductive Stage
  /-- PBKDFParamRequest (payload `req`, random `rnd`) sent -/
  | waitResp
  /-- Pake1 with own share `pA` sent; `exp` = the `cB` that will be accepted -/
  | waitPake2 (exp : ConfB)
  /-- Pake3 (`cA`) sent -/
  | waitStatus (proved : ConfB)
  /-- `complete_session`: the PASE session exists on the initiator's side -/
  | established (proved : ConfB)
  /-- `perform` returned an error -/
  | failed
deriving Repr, DecidableEq, Inhabited

structure St where
  passcode : Nat
  /-- the initiator's random -/
  rnd : Nat
  /-- identity of the PBKDFParamRequest payload it sent -/
  req : Nat
  /-- its share (`setup_prover` draws a fresh scalar) -/
  pA : Nat
  stage : Stage := .waitResp
deriving Repr, DecidableEq, Inhabited

/-- what the initiator does next -/
inductive Out
  | sendPake1
  | sendPake3
  | sessionUp
  /-- `perform` fails; `notify` = it sends a StatusReport `InvalidParameter` first -/
  | fail (notify : Bool)
  /-- not listening any more -/
  | ignored
deriving Repr, DecidableEq, Inhabited

def step (s : St) (m : Msg) : St × Out :=
  match s.stage with
  | .waitResp =>
    -- `exchange_pbkdf_params`, after `recv_fetch`
    match m with
    | .status _ | .statusMalformed => ({ s with stage := .failed }, .fail true)   -- a StatusReport: error
    | .resp r =>
      if r.random != s.rnd then ({ s with stage := .failed }, .fail true)        -- echoed random mismatch
      else if !r.hasParams then ({ s with stage := .failed }, .fail true)         -- missing PBKDF params
      else if r.saltLen < minSaltLen || r.saltLen > maxSaltLen then ({ s with stage := .failed }, .fail true)
      else
        -- `finish_context(response payload)`, `setup_prover(passcode, salt, iterations)`, Pake1
        let exp : ConfB := { v := { passcode := s.passcode, salt := r.salt, iterations := r.iterations },
                             ctx := { req := s.req, resp := r.payload }, pA := s.pA, pB := 0 }
        ({ s with stage := .waitPake2 exp }, .sendPake1)
    | .respMalformed => ({ s with stage := .failed }, .fail true)                  -- `from_tlv` fails
    | _ => ({ s with stage := .failed }, .fail true)                               -- unexpected opcode
  | .waitPake2 exp =>
    -- `exchange_pake1_pake2`, after `recv_fetch`
    match m with
    | .status _ | .statusMalformed => ({ s with stage := .failed }, .fail true)
    | .pake2 pB cb =>
      -- `complete_prover`: verifies `cB` against the value computed from w0, w1, pA, pB and the transcript
      let want : ConfB := { exp with pB := pB }
      if cb = .mac want then ({ s with stage := .waitStatus want }, .sendPake3)
      else ({ s with stage := .failed }, .fail true)
    | .pake2Malformed => ({ s with stage := .failed }, .fail true)
    | _ => ({ s with stage := .failed }, .fail true)
  | .waitStatus proved =>
    -- `exchange_pake3_status`: no status report is sent on failure here
    match m with
    | .status true => ({ s with stage := .established proved }, .sessionUp)
    | _ => ({ s with stage := .failed }, .fail false)
  | .established _ => (s, .ignored)
  | .failed => (s, .ignored)

def run (s : St) : List Msg → St
  | [] => s
  | m :: ms => run (step s m).1 ms

/-! ## The honest responder's side of the values (for the two-party statements)

What an honest responder that holds the verifier of class `vR` computes, from ITS view of the
handshake: the request and the response as IT saw / sent them, the `pA` it received, its own `pB`. -/
structure RespView where
  vR : VClass
  reqSeen : Nat
  respSent : Nat
  pASeen : Nat
  pB : Nat
deriving Repr, DecidableEq, Inhabited

def RespView.cb (r : RespView) : CB :=
  .mac { v := r.vR, ctx := { req := r.reqSeen, resp := r.respSent }, pA := r.pASeen, pB := r.pB }

end PaseInit
