import RsMatterVerif.Model.Admin
/-!
# The factory reset of the RUNNING node, hit by a store fault at ANY of its store calls (C07)

`Model/Admin.lean` places injected faults at most on the third next store call (`kvfail`), so a
factory reset can only be hit on one of the first three fabric keys.  `Matter::factory_reset`
(lib.rs:621) performs 260 store calls, and the harness adds the network part of
`InteractionModelState::reset_persist` (im.rs:181) as the 261st:

| position k | call |
|---|---|
| 1 … 255 | `Fabrics::reset_persist`: `remove(FABRIC_KEYS_START + k)`; the first failing call ends the part |
| 256 | `BasicInfoSettings::reset_persist`: `remove(BASIC_INFO_KEY)` (not in the model) |
| 257, 258 | `Rtc::reset_persist`: `remove(LKG_UTC_KEY)`, `remove(TRUSTED_TIME_SOURCE_KEY)` (not in the model) |
| 259 | `ResumableSessions::reset_persist`: memory first, then `remove(CASE_RESUMPTION_KEY)` |
| 260 | `Sessions::reset_persist`: `remove(GROUP_DATA_COUNTER_KEY)` (not in the model) |
| 261 | networks: memory, then `remove(NETWORKS_KEY)` |

Every part resets its in-memory state BEFORE it touches the store and the parts are chained with
`Result::and` (repo fix 91b47f3): whatever the store answers, the fabrics, the sessions of the
fabrics and the cached resumption records are gone from memory; the first error is answered.  A
fault on the resumption key leaves the stored blob behind: that is remembered (`store_failed`, repo
fix of `C07-faulty-factory-reset-stale-resumption-blob`) and `AddNOC` stores the (empty) cache before
it hands out a fabric index again.

The extended alphabet `OpR` = the operations of `Model/Admin` + `fresetAt k` keeps the shared
`Op` (C08 / C11 case-split over it) as it is.
-/
namespace Admin

/-- position of the store call that removes the CASE resumption blob (refinement fact: the order of
the parts in `Matter::factory_reset`) -/
def resetPosResum : Nat := 259
/-- position of the removal of the networks blob (last call) -/
def resetPosNets : Nat := 261

/-- `fresetk k`: `Matter::factory_reset` + the network part, the `k`-th store call of the reset
fails (`k = 0` or `k > 261`: none does). A fault that was pending before is dropped by the harness. -/
def factoryResetAt (n : Node) (k : Nat) : Node × Status :=
  let faulty : Bool := decide (1 ≤ k) && decide (k ≤ resetPosNets)
  -- lib.rs `Matter::factory_reset`: the sessions of every fabric go first; `Fabrics::reset_persist` -
  -- memory, then one `remove` per fabric key, the part ends at the failing call
  let hi := if faulty && decide (k ≤ 255) then k else 256
  let (kv, hist) := delFabricKeys hi 1 256 n.kv n.hist
  -- the resumption cache: memory FIRST (whatever the store answers), then the key; a failing
  -- removal is remembered (`store_failed`)
  let n := { n with fabrics := [], sessions := n.sessions.filter (fun s => s.mode.fab = 0),
                    kv := kv, hist := hist, failIn := 0, resum := [],
                    resumStale := decide (k = resetPosResum) }
  let n := if k ≠ resetPosResum ∧ n.kv.resum ≠ .absent then kvCommit n { n.kv with resum := .absent } else n
  -- the network part of the reset (im.rs:181)
  let n := { n with nets := [], managed := false }
  let n := if k ≠ resetPosNets ∧ n.kv.nets.isSome then kvCommit n { n.kv with nets := none } else n
  (n, if faulty then .err "NoSpace" else .ok)

/-- the alphabet of C07: every operation of the shared model + the factory reset with the fault
placed on its `k`-th store call -/
inductive OpR
  | base (op : Op)
  | fresetAt (k : Nat)
deriving Repr, DecidableEq

def stepR (cfg : Cfg) (n : Node) : OpR → Node × Status
  | .base op => step cfg n op
  | .fresetAt k => factoryResetAt n k

end Admin
