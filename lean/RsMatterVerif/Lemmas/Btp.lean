import RsMatterVerif.Model.BtpLink
/-!
# Lemmas about `Model/Btp.lean`: the representation invariant of a BTP session and the
totality (never-panic) lemmas of its operations.
-/
namespace Btp

@[simp] theorem maxMessageSize_eq : maxMessageSize = 3166 := rfl
@[simp] theorem minMtu_eq : minMtu = 23 := rfl
@[simp] theorem maxMtu_eq : maxMtu = 247 := rfl
@[simp] theorem gattHeaderSize_eq : gattHeaderSize = 3 := rfl
@[simp] theorem ackTimeoutSecs_eq : ackTimeoutSecs = 15 := rfl
@[simp] theorem maxTxPacketSize_eq : maxTxPacketSize = 1232 := rfl

theorem clamp_bounds (x lo hi : Nat) (h : lo ≤ hi) : lo ≤ clamp x lo hi ∧ clamp x lo hi ≤ hi := by
  unfold clamp; split
  · omega
  · split <;> omega

theorem initialWindowSize_ok {mtu : Nat} (h : 20 ≤ mtu) :
    ∃ w, initialWindowSize mtu = .ok w ∧ w ≤ 255 ∧ (mtu ≤ 244 → 6 ≤ w) := by
  refine ⟨min (maxMessageSize / mtu / 2) 255, ?_, by omega, ?_⟩
  · unfold initialWindowSize; simp; omega
  · intro h2
    have : 6 ≤ 3166 / mtu / 2 := by
      have : 12 ≤ 3166 / mtu := by
        rw [Nat.le_div_iff_mul_le (by omega)]; omega
      omega
    simp; omega

/-- a decoded header carries bytes -/
structure Hdr.Wf (h : Hdr) : Prop where
  seq : h.seqNum < 256
  ack : h.ackNum < 256
  len : h.msgLen < 65536

/-- Representation invariant of a session (numeric part). -/
structure SInv (s : Session) : Prop where
  sendWs : s.send.windowSize = s.windowSize
  sendLe : s.send.level ≤ s.windowSize
  recvSum : s.recv.level + s.recv.ackLevel = s.windowSize
  msgLe : s.recv.msgCt ≤ s.recv.ackLevel
  wsLe : s.windowSize ≤ 255
  lastLt : s.send.lastSent < 256
  ackSeqLt : s.recv.ackSeq < 256
  remLt : s.recv.remMsgLen < 65536
  bufLe : s.recv.buf.length ≤ maxMessageSize
  est : s.established = true → 20 ≤ s.mtu ∧ s.mtu ≤ 244 ∧ 1 ≤ s.windowSize
  notEst : s.established = false → s.windowSize = 0
  hsPend : s.handshakePending = true → s.initiator = false →
    s.established = true ∧ s.send.level = s.windowSize

theorem sinv_fresh (i r : Bool) : SInv (Session.fresh i r) := by
  constructor <;> simp [Session.fresh]

theorem setup_sinv (s : Session) (v mtu ws now : Nat) (hm : 20 ≤ mtu ∧ mtu ≤ 244) (hw : 1 ≤ ws ∧ ws ≤ 255) :
    SInv (s.setup v mtu ws now) := by
  constructor <;> simp only [Session.setup] <;> (try split) <;> (try simp) <;> omega


/-- the outcome of an operation: either a new state satisfying `P`, or a clean error -/
def Clean {α : Type} (r : Except Fail α) (P : α → Prop) : Prop :=
  match r with
  | .ok a => P a
  | .error e => e.isPanic = false

theorem selectMtu_bounds (s : Session) (g : Option Nat) (m : Nat) :
    23 ≤ s.selectMtu g m ∧ s.selectMtu g m ≤ 247 := by
  have c := fun x => clamp_bounds x 23 247 (by omega)
  unfold Session.selectMtu
  simp only [minMtu_eq, maxMtu_eq]
  repeat' split
  all_goals first | exact c _ | omega

theorem csub_ok {a b : Nat} {why : String} (h : b ≤ a) : csub a b why = .ok (a - b) := by
  simp [csub, h]

theorem decodeReq_err {p : List Nat} {e : Fail} (h : decodeReq p = .error e) : e.isPanic = false := by
  unfold decodeReq at h
  split at h <;> simp at h
  subst h; rfl

theorem decodeResp_err {p : List Nat} {e : Fail} (h : decodeResp p = .error e) : e.isPanic = false := by
  unfold decodeResp at h
  split at h <;> simp at h
  subst h; rfl

theorem handshakeReq_clean (s : Session) (g : Option Nat) (h : Hdr) (p : List Nat) (now : Nat) :
    Clean (s.processRxHandshakeReq g h p now) SInv := by
  unfold Session.processRxHandshakeReq
  split
  · simp [Clean, Fail.isPanic]
  · cases hd : decodeReq p with
    | error e => exact decodeReq_err hd
    | ok req =>
      simp only
      have hb := selectMtu_bounds s g req.mtu
      rw [csub_ok (by simp; omega)]
      simp only [gattHeaderSize_eq]
      obtain ⟨w, hw, hw255, hw6⟩ := initialWindowSize_ok (mtu := s.selectMtu g req.mtu - 3) (by omega)
      rw [hw]
      simp only
      split
      · simp [Clean, Fail.isPanic]
      · simp only [Clean]
        apply setup_sinv <;> omega

theorem handshakeResp_clean (s : Session) (h : Hdr) (p : List Nat) (now : Nat) (hp : ∀ b ∈ p, b < 256) :
    Clean (s.processRxHandshakeResp h p now) SInv := by
  unfold Session.processRxHandshakeResp
  split
  · simp [Clean, Fail.isPanic]
  · cases hd : decodeResp p with
    | error e => exact decodeResp_err hd
    | ok resp =>
      simp only
      split
      · simp [Clean, Fail.isPanic]
      · rename_i hc
        simp only [Clean]
        simp at hc
        have h1 : ¬ resp.mtu < 20 := of_decide_eq_false hc.1.1
        have : resp.windowSize < 256 := by
          unfold decodeResp at hd
          split at hd <;> simp at hd
          subst hd
          simp
          apply hp; simp
        apply setup_sinv <;> omega


theorem ringPush_length_le (b d : List Nat) : (ringPush b d).length ≤ 3166 := by
  unfold ringPush; simp; omega

theorem ringPush_eq (b d : List Nat) (h : b.length + d.length ≤ 3166) : ringPush b d = b ++ d := by
  have : (b ++ d).length - maxMessageSize = 0 := by simp; omega
  show List.drop ((b ++ d).length - maxMessageSize) (b ++ d) = b ++ d
  rw [this]; rfl

/-- numeric invariant of the receive window for the negotiated window `w` -/
structure RInv (w : Nat) (r : RecvWindow) : Prop where
  sum : r.level + r.ackLevel = w
  msgLe : r.msgCt ≤ r.ackLevel
  ackSeqLt : r.ackSeq < 256
  remLt : r.remMsgLen < 65536
  bufLe : r.buf.length ≤ 3166

theorem cadd_ok {a b lim : Nat} {why : String} (h : a + b < lim) : cadd a b lim why = .ok (a + b) := by
  simp [cadd, h]

theorem startRem_lt (r : RecvWindow) (h : Hdr) (hh : h.Wf) (hr : r.remMsgLen < 65536) :
    r.startRem h.getMsgLen < 65536 := by
  unfold RecvWindow.startRem Hdr.getMsgLen
  have := hh.len
  split <;> rename_i heq
  · split at heq <;> simp at heq
    omega
  · exact hr

theorem recvCommit_clean (w : Nat) (hw : w ≤ 255) (r : RecvWindow) (hr : RInv w r) (hl : 1 ≤ r.level)
    (h : Hdr) (hh : h.Wf) (pfx p : List Nat) (rem now : Nat) (hrem : rem < 65536) :
    Clean (r.commit h pfx p rem now) (RInv w) := by
  unfold RecvWindow.commit
  have h1 := hr.sum
  have h2 := hr.msgLe
  have hb := ringPush_length_le (ringPush r.buf pfx) p
  rw [csub_ok hl, cadd_ok (by omega)]
  simp only
  by_cases hf : (h.fin && !p.isEmpty) = true
  · simp only [hf, if_true]
    rw [cadd_ok (by omega)]
    simp only [Clean]
    constructor <;> simp only [] <;> first | omega | exact hh.seq | exact hrem | exact hb
  · simp only [hf]
    simp only [Clean]
    constructor <;> simp only [] <;> first | omega | exact hh.seq | exact hrem | exact hb

theorem recvAccept_clean (w : Nat) (hw : w ≤ 255) (r : RecvWindow) (hr : RInv w r) (h : Hdr) (hh : h.Wf)
    (p : List Nat) (mtu now : Nat) :
    Clean (r.acceptIncoming h p mtu now) (RInv w) := by
  unfold RecvWindow.acceptIncoming
  split
  · simp [Clean, Fail.isPanic]
  split
  · simp [Clean, Fail.isPanic]
  rename_i hl
  repeat (split; simp [Clean, Fail.isPanic])
  have hl' : 1 ≤ r.level := by
    simp at hl; omega
  apply recvCommit_clean w hw r hr hl' h hh
  have := startRem_lt r h hh hr.remLt
  omega


theorem sendCheck_clean (w : SendWindow) (hle : w.level ≤ w.windowSize) (h : Hdr) :
    Clean (w.checkIncoming h) (fun _ => ∀ a, h.getAck = some a → wrapSub w.lastSent a < w.windowSize - w.level) := by
  unfold SendWindow.checkIncoming
  split
  · rename_i hn
    simp only [Clean]
    intro a ha; rw [hn] at ha; cases ha
  · rename_i a ha
    rw [csub_ok hle]
    simp only
    split
    · simp [Clean, Fail.isPanic]
    · simp only [Clean]
      intro a' ha'
      rw [ha] at ha'
      cases ha'
      omega

theorem sendAccept_ok (w : SendWindow) (hle : w.level ≤ w.windowSize) (h : Hdr) (now : Nat)
    (hck : ∀ a, h.getAck = some a → wrapSub w.lastSent a < w.windowSize - w.level) :
    ∃ w', w.acceptIncoming h now = .ok w' ∧ w'.windowSize = w.windowSize ∧ w'.level ≤ w.windowSize ∧
      w'.lastSent = w.lastSent ∧ (h.getAck = none → w' = w) := by
  unfold SendWindow.acceptIncoming
  split
  · exact ⟨w, rfl, rfl, hle, rfl, fun _ => rfl⟩
  · rename_i a ha
    have := hck a ha
    split
    · exact ⟨_, rfl, rfl, by simp, rfl, by intro h; simp [ha] at h⟩
    · rw [csub_ok (by omega)]
      exact ⟨_, rfl, rfl, by simp, rfl, by intro h; simp [ha] at h⟩

theorem rinv_of_sinv {s : Session} (h : SInv s) : RInv s.windowSize s.recv :=
  ⟨h.recvSum, h.msgLe, h.ackSeqLt, h.remLt, by have := h.bufLe; simpa using this⟩

theorem processRxData_clean (s : Session) (hs : SInv s) (h : Hdr) (hh : h.Wf) (p : List Nat) (now : Nat) :
    Clean (s.processRxData h p now) SInv := by
  unfold Session.processRxData
  have hle : s.send.level ≤ s.send.windowSize := by rw [hs.sendWs]; exact hs.sendLe
  have c1 := sendCheck_clean s.send hle h
  cases hc : s.send.checkIncoming h with
  | error e => rw [hc] at c1; exact c1
  | ok u =>
    rw [hc] at c1
    simp only [Clean] at c1
    simp only
    have c2 := recvAccept_clean s.windowSize hs.wsLe s.recv (rinv_of_sinv hs) h hh p s.mtu now
    cases hr : s.recv.acceptIncoming h p s.mtu now with
    | error e => rw [hr] at c2; exact c2
    | ok r =>
      rw [hr] at c2
      simp only [Clean] at c2
      simp only
      obtain ⟨w', hw', e1, e2, e3, e4⟩ := sendAccept_ok s.send hle h now c1
      rw [hw']
      simp only [Clean]
      constructor <;> simp only []
      · rw [e1]; exact hs.sendWs
      · rw [hs.sendWs] at e2; exact e2
      · exact c2.sum
      · exact c2.msgLe
      · exact hs.wsLe
      · rw [e3]; exact hs.lastLt
      · exact c2.ackSeqLt
      · exact c2.remLt
      · have := c2.bufLe; simpa using this
      · exact hs.est
      · exact hs.notEst
      · intro hp hi
        obtain ⟨he, hl⟩ := hs.hsPend hp hi
        refine ⟨he, ?_⟩
        -- nothing is outstanding, so no acknowledgement can have been accepted
        have hnone : h.getAck = none := by
          cases hga : h.getAck with
          | none => rfl
          | some a =>
            have := c1 a hga
            rw [hs.sendWs, hl] at this
            omega
        rw [e4 hnone]; exact hl


def Bytes (l : List Nat) : Prop := ∀ b ∈ l, b < 256

theorem takeIf_bytes {c : Bool} {bs : List Nat} {x : Nat} {r : List Nat} (hb : Bytes bs)
    (h : takeIf c bs = some (x, r)) : x < 256 ∧ Bytes r := by
  unfold takeIf at h
  split at h
  · split at h
    · cases h
    · simp at h
      obtain ⟨rfl, rfl⟩ := h
      exact ⟨hb _ (by simp), fun b hb' => hb b (by simp [hb'])⟩
  · simp at h
    obtain ⟨rfl, rfl⟩ := h
    exact ⟨by omega, hb⟩

theorem decodeHdr_clean (bs : List Nat) (hb : Bytes bs) :
    Clean (decodeHdr bs) (fun hp => hp.1.Wf ∧ Bytes hp.2) := by
  unfold decodeHdr
  split
  · simp [Clean, Fail.isPanic]
  · rename_i f r0
    have hr0 : Bytes r0 := fun b hb' => hb b (by simp [hb'])
    simp only
    split
    · simp [Clean, Fail.isPanic]
    · rename_i op r1 h1
      obtain ⟨_, hr1⟩ := takeIf_bytes hr0 h1
      split
      · simp [Clean, Fail.isPanic]
      · rename_i an r2 h2
        obtain ⟨han, hr2⟩ := takeIf_bytes hr1 h2
        split
        · simp [Clean, Fail.isPanic]
        · rename_i sn r3 h3
          obtain ⟨hsn, hr3⟩ := takeIf_bytes hr2 h3
          split
          · split
            · rename_i lo hi r4
              simp only [Clean]
              have hlo := hr3 lo (by simp)
              have hhi := hr3 hi (by simp)
              refine ⟨⟨hsn, han, ?_⟩, fun b hb' => hr3 b (by simp [hb'])⟩
              simp only []; omega
            · simp [Clean, Fail.isPanic]
          · simp only [Clean]
            exact ⟨⟨hsn, han, by simp⟩, hr3⟩

/-- **`process_rx` is total**: on every state satisfying the invariant and every byte string the
model of `Session::process_rx` either returns a new state satisfying the invariant, or a clean
error (never a panic). On an error the state is unchanged by construction (`Except`). -/
theorem processRx_clean (s : Session) (hs : SInv s) (g : Option Nat) (data : List Nat) (hd : Bytes data)
    (now : Nat) : Clean (s.processRx g data now) SInv := by
  unfold Session.processRx
  have c := decodeHdr_clean data hd
  cases hdec : decodeHdr data with
  | error e => rw [hdec] at c; exact c
  | ok hp =>
    rw [hdec] at c
    obtain ⟨h, p⟩ := hp
    simp only [Clean] at c
    simp only
    unfold Session.processRxSeg
    split
    · split
      · exact handshakeResp_clean s h p now c.2
      · exact handshakeReq_clean s g h p now
    · exact processRxData_clean s hs h c.1 p now


/-! ## Transmit side -/

/-- the ring buffer part of the receive window is untouched -/
def SameRing (r r' : RecvWindow) : Prop :=
  r'.buf = r.buf ∧ r'.msgCt = r.msgCt ∧ r'.remMsgLen = r.remMsgLen

theorem SameRing.refl (r : RecvWindow) : SameRing r r := ⟨rfl, rfl, rfl⟩

theorem hdr_len_le (h : Hdr) : h.len ≤ 6 := by
  unfold Hdr.len
  repeat' split
  all_goals omega

theorem announcedMtu_bounds (g : Option Nat) : 23 ≤ announcedMtu g ∧ announcedMtu g ≤ 247 := by
  unfold announcedMtu
  split
  · exact clamp_bounds _ 23 247 (by omega)
  · simp

theorem prepTxHandshake_clean (s : Session) (hs : SInv s) (g : Option Nat) (now : Nat) :
    Clean (s.prepTxHandshake g now) (fun r => SInv r.1 ∧ r.1.handshakePending = false ∧
      r.1.established = s.established ∧ (s.handshakePending = false → r = (s, [])) ∧ SameRing s.recv r.1.recv) := by
  unfold Session.prepTxHandshake
  split
  · rename_i hp
    split
    · rename_i hi
      have hb := announcedMtu_bounds g
      simp only
      rw [csub_ok (by simp; omega)]
      simp only [gattHeaderSize_eq]
      obtain ⟨w, hw, _, _⟩ := initialWindowSize_ok (mtu := announcedMtu g - 3) (by omega)
      rw [hw]
      simp only [Clean]
      refine ⟨?_, by simp, by simp, by intro h; simp [hp] at h, SameRing.refl _⟩
      constructor <;> simp only []
      · exact hs.sendWs
      · exact hs.sendLe
      · exact hs.recvSum
      · exact hs.msgLe
      · exact hs.wsLe
      · exact hs.lastLt
      · exact hs.ackSeqLt
      · exact hs.remLt
      · exact hs.bufLe
      · exact hs.est
      · exact hs.notEst
      · intro h; cases h
    · rename_i hi
      have hi' : s.initiator = false := by simpa using hi
      obtain ⟨he, hl⟩ := hs.hsPend hp hi'
      obtain ⟨_, _, hw1⟩ := hs.est he
      unfold SendWindow.postSend
      rw [csub_ok (by omega)]
      simp only [Clean]
      refine ⟨?_, by simp, by simp, by intro h; simp [hp] at h, SameRing.refl _⟩
      constructor <;> simp only []
      · exact hs.sendWs
      · omega
      · exact hs.recvSum
      · exact hs.msgLe
      · exact hs.wsLe
      · omega
      · exact hs.ackSeqLt
      · exact hs.remLt
      · exact hs.bufLe
      · exact hs.est
      · exact hs.notEst
      · intro h; cases h
  · rename_i hp
    simp only [Clean]
    exact ⟨hs, by simpa using hp, by simp, by simp, SameRing.refl _⟩


theorem buildSegment_clean (s : Session) (data : List Nat) (off : Nat) (hoff : off ≤ data.length)
    (hmtu : data ≠ [] → 20 ≤ s.mtu) :
    Clean (s.buildSegment data off) (fun r => off + r.2.length ≤ data.length) := by
  unfold Session.buildSegment
  simp only
  split
  · rename_i hne
    have hne' : data ≠ [] := by
      intro h; simp [h] at hne
    split
    · omega
    · have := hmtu hne'
      rw [csub_ok (Nat.le_trans (hdr_len_le _) (by omega : 6 ≤ s.mtu))]
      simp only [Clean, List.length_take, List.length_drop]
      omega
  · simp only [Clean, List.length_nil]; omega

theorem recvPostSend_ok (w : Nat) (hw : w ≤ 255) (r : RecvWindow) (hr : RInv w r) :
    ∃ r', r.postSend = .ok r' ∧ RInv w r' ∧ SameRing r r' := by
  unfold RecvWindow.postSend
  have h1 := hr.sum
  split
  · rename_i hp
    rw [cadd_ok (by omega)]
    refine ⟨_, rfl, ?_, ⟨rfl, rfl, rfl⟩⟩
    have hm : r.msgCt = 0 := by
      unfold RecvWindow.pendingAck at hp
      split at hp
      · rename_i hc; simp at hc; exact hc.2
      · simp at hp
    constructor <;> simp only []
    · omega
    · omega
    · exact hr.ackSeqLt
    · exact hr.remLt
    · exact hr.bufLe
  · exact ⟨r, rfl, hr, ⟨rfl, rfl, rfl⟩⟩

theorem prepTxData_clean (s : Session) (hs : SInv s) (hnp : s.handshakePending = false)
    (data : List Nat) (off now : Nat) (hoff : off ≤ data.length)
    (hest : data ≠ [] → s.established = true) :
    Clean (s.prepTxData data off now) (fun r => SInv r.1 ∧ r.1.handshakePending = false ∧
      r.1.established = s.established ∧ off ≤ r.2.2 ∧ r.2.2 ≤ data.length ∧ SameRing s.recv r.1.recv) := by
  unfold Session.prepTxData
  split
  · simp only [Clean]; exact ⟨hs, hnp, trivial, Nat.le_refl _, hoff, SameRing.refl _⟩
  · rename_i hfull
    have c := buildSegment_clean s data off hoff (fun h => (hs.est (hest h)).1)
    cases hb : s.buildSegment data off with
    | error e => rw [hb] at c; exact c
    | ok hp =>
      rw [hb] at c
      obtain ⟨h, p⟩ := hp
      simp only [Clean] at c
      simp only
      split
      · simp [Clean, Fail.isPanic]
      · have hlv : 1 ≤ s.send.level := by
          unfold SendWindow.isFull at hfull
          simp at hfull
          omega
        unfold SendWindow.postSend
        rw [csub_ok hlv]
        simp only
        obtain ⟨r', hr', hri, hsame⟩ := recvPostSend_ok s.windowSize hs.wsLe s.recv (rinv_of_sinv hs)
        rw [hr']
        simp only [Clean]
        refine ⟨?_, hnp, trivial, by omega, by omega, hsame⟩
        have := hs.sendLe
        constructor <;> simp only []
        · exact hs.sendWs
        · omega
        · exact hri.sum
        · exact hri.msgLe
        · exact hs.wsLe
        · omega
        · exact hri.ackSeqLt
        · exact hri.remLt
        · have := hri.bufLe; simpa using this
        · exact hs.est
        · exact hs.notEst
        · intro h; rw [hnp] at h; cases h

/-! ## The ring buffer as a queue of reassembled messages -/

attribute [local irreducible] ringPush

/-- a complete SDU as it sits in the ring buffer: two length bytes, then the payload -/
def recBytes (m : List Nat) : List Nat := [m.length % 256, m.length / 256 % 256] ++ m

def flat (ms : List (List Nat)) : List Nat := (ms.map recBytes).flatten

theorem flat_append (a b : List (List Nat)) : flat (a ++ b) = flat a ++ flat b := by
  simp [flat]

theorem flat_single (m : List Nat) : flat [m] = recBytes m := by simp [flat]

/-- **Representation of the receive ring buffer**: `rs` is the specification-side reassembly of all
segments accepted so far, `n` the number of messages already handed out. The ring holds the
remaining complete messages, length-prefixed, followed by the message in progress. -/
structure RingRep (r : RecvWindow) (rs : Spec.Reasm) (n : Nat) : Prop where
  nLe : n ≤ rs.done.length
  cnt : r.msgCt = rs.done.length - n
  rem : r.remMsgLen = rs.remaining
  buf : r.buf = flat (rs.done.drop n) ++
    (if rs.remaining > 0 then
      [(rs.cur.length + rs.remaining) % 256, (rs.cur.length + rs.remaining) / 256 % 256] ++ rs.cur else [])
  lens : ∀ m ∈ rs.done, 0 < m.length ∧ m.length < 65536
  curLen : rs.cur.length + rs.remaining < 65536
  curNil : rs.remaining = 0 → rs.cur = []

theorem ringRep_init : RingRep {} {} 0 := by
  constructor <;> simp [flat]


theorem commit_inv {r : RecvWindow} {h : Hdr} {pfx p : List Nat} {rem now : Nat} {r' : RecvWindow}
    (hok : r.commit h pfx p rem now = .ok r') :
    r'.buf = ringPush (ringPush r.buf pfx) p ∧ r'.remMsgLen = rem ∧
    r'.msgCt = (if h.fin && !p.isEmpty then r.msgCt + 1 else r.msgCt) ∧
    r'.level + 1 = r.level ∧ r'.ackSeq = h.seqNum ∧ r'.ackLevel = r.ackLevel + 1 ∧
    r'.receivedAt = some now := by
  unfold RecvWindow.commit at hok
  unfold csub cadd at hok
  split at hok
  · cases hok
  · rename_i l hl
    split at hl
    · cases hl
      split at hok
      · cases hok
      · rename_i al hal
        split at hal
        · cases hal
          by_cases hf : (h.fin && !p.isEmpty) = true
          · simp only [hf, if_true] at hok
            split at hok
            · cases hok
            · rename_i mc hmc
              split at hmc
              · cases hmc
                have hh := Except.ok.inj hok; rw [← hh]
                refine ⟨rfl, rfl, ?_, ?_, rfl, rfl, rfl⟩
                · simp only [hf, if_true]
                · simp only []; omega
              · cases hmc
          · simp only [hf] at hok
            have hh := Except.ok.inj hok; rw [← hh]
            refine ⟨rfl, rfl, ?_, ?_, rfl, rfl, rfl⟩
            · simp only [hf]; rfl
            · simp only []; omega
        · cases hal
    · cases hl

theorem acceptIncoming_inv {r : RecvWindow} {h : Hdr} {p : List Nat} {mtu now : Nat} {r' : RecvWindow}
    (hok : r.acceptIncoming h p mtu now = .ok r') :
    r.checkDataIntegrity h p.length mtu = true ∧ r.level ≠ 0 ∧
    ¬ (h.getMsgLen.isSome = true ∧ r.remMsgLen > 0) ∧ fitsButNotFinal h mtu = false ∧
    p.length ≤ r.startRem h.getMsgLen ∧
    ¬ (h.fin = false ∧ p ≠ [] ∧ r.startRem h.getMsgLen - p.length = 0) ∧
    ¬ (h.fin = true ∧ r.startRem h.getMsgLen - p.length > 0) ∧
    (sduPrefix h.getMsgLen).length + p.length ≤ ringFree r.buf ∧
    r.commit h (sduPrefix h.getMsgLen) p (r.startRem h.getMsgLen - p.length) now = .ok r' := by
  unfold RecvWindow.acceptIncoming at hok
  split at hok
  · cases hok
  rename_i h1
  split at hok
  · cases hok
  rename_i h2
  split at hok
  · cases hok
  rename_i h3
  split at hok
  · cases hok
  rename_i h4
  split at hok
  · cases hok
  rename_i h4b
  split at hok
  · cases hok
  rename_i h5
  split at hok
  · cases hok
  rename_i h6
  split at hok
  · cases hok
  rename_i h7
  split at hok
  · cases hok
  rename_i h8
  refine ⟨by simpa using h1, by simpa using h2, by simpa using h3, by simpa using h4, by omega, ?_, ?_, by omega, hok⟩
  · simpa using h6
  · simpa using h7


/-- an accepted segment is not a continue / ending segment outside an SDU -/
theorem acceptIncoming_not_orphan {r : RecvWindow} {h : Hdr} {p : List Nat} {mtu now : Nat} {r' : RecvWindow}
    (hok : r.acceptIncoming h p mtu now = .ok r') : orphanSegment r h = false := by
  unfold RecvWindow.acceptIncoming at hok
  split at hok
  · cases hok
  split at hok
  · cases hok
  split at hok
  · cases hok
  split at hok
  · cases hok
  split at hok
  · cases hok
  rename_i h4b
  simpa using h4b

theorem integrity_hs {r : RecvWindow} {h : Hdr} {n mtu : Nat} (hc : r.checkDataIntegrity h n mtu = true) :
    h.hs = false := by
  unfold RecvWindow.checkDataIntegrity at hc
  split at hc
  · cases hc
  · rename_i hh; simpa using hh

theorem ringPush_nil (b : List Nat) (hb : b.length ≤ 3166) : ringPush b [] = b := by
  rw [ringPush_eq _ _ (by simpa using hb)]; simp

theorem drop_snoc {α : Type} (l : List α) (x : α) (n : Nat) (h : n ≤ l.length) :
    (l ++ [x]).drop n = l.drop n ++ [x] := by
  rw [List.drop_append_of_le_length h]

theorem accept_refines {r : RecvWindow} {rs : Spec.Reasm} {n : Nat} {h : Hdr} {p : List Nat}
    {mtu now : Nat} {r' : RecvWindow}
    (hrep : RingRep r rs n) (hbuf : r.buf.length ≤ 3166) (hh : h.Wf)
    (hok : r.acceptIncoming h p mtu now = .ok r') : RingRep r' (rs.feed h p) n := by
  obtain ⟨hint, _, hin, _, hple, hnf, hf, hfree, hcommit⟩ := acceptIncoming_inv hok
  obtain ⟨ebuf, erem, ecnt, _, _, _, _⟩ := commit_inv hcommit
  have hhs := integrity_hs hint
  have hfree' : r.buf.length + (sduPrefix h.getMsgLen).length + p.length ≤ 3166 := by
    unfold ringFree at hfree; simp at hfree; omega
  rw [ringPush_eq r.buf _ (by omega), ringPush_eq _ _ (by simp; omega)] at ebuf
  have hrem := hrep.rem
  have hb := hrep.buf
  have hcl := hrep.curLen
  have hcn := hrep.curNil
  have hwf := hh.len
  cases hbeg : h.beg
  · -- continuation / ending / ack segment
    have hg : h.getMsgLen = none := by simp [Hdr.getMsgLen, hbeg]
    rw [hg] at ebuf erem hple hnf hf
    simp only [RecvWindow.startRem, sduPrefix, List.append_nil] at ebuf erem hple hnf hf
    rw [hrem] at erem hple hnf hf
    cases hfin : h.fin
    · -- not final
      simp only [hfin, Bool.false_and] at ecnt
      have hfeed : rs.feed h p = { cur := rs.cur ++ p, remaining := rs.remaining - p.length, done := rs.done } := by
        simp [Spec.Reasm.feed, hbeg, hfin]
      rw [hfeed]
      by_cases hp : p = []
      · subst hp
        constructor <;> simp only [List.append_nil, List.length_nil, Nat.sub_zero]
        · exact hrep.nLe
        · rw [ecnt]; exact hrep.cnt
        · rw [erem]; simp
        · rw [ebuf]; simpa using hb
        · exact hrep.lens
        · exact hcl
        · exact hcn
      · have hpl : 0 < p.length := List.length_pos_iff.mpr hp
        have hr0 : rs.remaining - p.length ≠ 0 := by
          intro h0; exact hnf ⟨hfin, hp, h0⟩
        constructor <;> simp only []
        · exact hrep.nLe
        · rw [ecnt]; exact hrep.cnt
        · exact erem
        · rw [ebuf, hb]
          have h1 : rs.remaining > 0 := by omega
          have h2 : rs.remaining - p.length > 0 := by omega
          simp only [h1, h2, if_true, List.length_append]
          have : rs.cur.length + p.length + (rs.remaining - p.length) = rs.cur.length + rs.remaining := by omega
          rw [this]; simp
        · exact hrep.lens
        · simp only [List.length_append]; omega
        · intro h0; omega
    · -- final
      have hr0 : rs.remaining - p.length = 0 := by
        have := hf
        simp only [hfin, true_and] at this
        omega
      by_cases hp : p = []
      · subst hp
        have hrem0 : rs.remaining = 0 := by simpa using hr0
        have hcur := hcn hrem0
        have hfeed : rs.feed h [] = { cur := [], remaining := 0, done := rs.done } := by
          simp [Spec.Reasm.feed, hbeg, hfin, hcur]
        rw [hfeed]
        simp only [hfin, List.isEmpty_nil, Bool.not_true, Bool.and_false] at ecnt
        constructor <;> simp only []
        · exact hrep.nLe
        · rw [ecnt]; exact hrep.cnt
        · rw [erem]; simpa using hrem0
        · rw [ebuf, hb]; simp [hrem0]
        · exact hrep.lens
        · simp
        · intro _; trivial
      · have hpl : 0 < p.length := List.length_pos_iff.mpr hp
        have hne : (rs.cur ++ p).isEmpty = false := by simp [hp]
        have hpe : p.isEmpty = false := by simp [hp]
        simp only [hfin, hpe, Bool.not_false, Bool.and_true, if_true] at ecnt
        have hrp : rs.remaining = p.length := by omega
        have h1 : rs.remaining > 0 := by omega
        have hfeed : rs.feed h p = { cur := [], remaining := 0, done := rs.done ++ [rs.cur ++ p] } := by
          simp [Spec.Reasm.feed, hbeg, hfin, hp]
        rw [hfeed]
        constructor <;> simp only [List.length_append, List.length_singleton]
        · have := hrep.nLe; simp; omega
        · rw [ecnt, hrep.cnt]; have := hrep.nLe; omega
        · rw [erem]; exact hr0
        · rw [ebuf, hb, drop_snoc _ _ _ hrep.nLe, flat_append, flat_single]
          simp only [recBytes, List.length_append, hrp]
          simp [hpl]
        · intro m hm
          rcases List.mem_append.mp hm with hm | hm
          · exact hrep.lens m hm
          · have : m = rs.cur ++ p := by simpa using hm
            subst this
            simp only [List.length_append]; omega
        · simp
        · intro _; trivial
  · -- beginning segment
    have hg : h.getMsgLen = some h.msgLen := by simp [Hdr.getMsgLen, hbeg, hhs]
    rw [hg] at ebuf erem hple hnf hf hin
    have hrem0 : rs.remaining = 0 := by
      have : ¬ (r.remMsgLen > 0) := fun hc => hin ⟨rfl, hc⟩
      rw [hrem] at this; omega
    have hcur := hcn hrem0
    simp only [RecvWindow.startRem] at erem hple hnf hf
    rw [hb] at ebuf
    simp only [hrem0, Nat.lt_irrefl, if_false, List.append_nil, gt_iff_lt] at ebuf
    cases hfin : h.fin
    · -- first segment of a longer SDU
      simp only [hfin, Bool.false_and] at ecnt
      have hfeed : rs.feed h p = { cur := p, remaining := h.msgLen - p.length, done := rs.done } := by
        simp [Spec.Reasm.feed, hbeg, hfin]
      rw [hfeed]
      constructor <;> simp only []
      · exact hrep.nLe
      · rw [ecnt]; exact hrep.cnt
      · exact erem
      · rw [ebuf]
        by_cases hp : p = []
        · subst hp
          simp only [List.length_nil, Nat.sub_zero, List.append_nil, Nat.zero_add, sduPrefix]
          try (split <;> simp)
        · have hpl : 0 < p.length := List.length_pos_iff.mpr hp
          have hr0 : h.msgLen - p.length ≠ 0 := fun h0 => hnf ⟨hfin, hp, h0⟩
          have h2 : h.msgLen - p.length > 0 := by omega
          have h3 : h.msgLen > 0 := by omega
          simp only [sduPrefix, h3, h2, if_true]
          have : p.length + (h.msgLen - p.length) = h.msgLen := by omega
          rw [this]; simp
      · exact hrep.lens
      · omega
      · intro h0
        by_cases hp : p = []
        · exact hp
        · exact absurd h0 (fun h0 => hnf ⟨hfin, hp, h0⟩)
    · -- single-segment SDU
      have hr0 : h.msgLen - p.length = 0 := by
        have := hf
        simp only [hfin, true_and] at this
        omega
      have hml : h.msgLen = p.length := by omega
      by_cases hp : p = []
      · subst hp
        have hfeed : rs.feed h [] = { cur := [], remaining := 0, done := rs.done } := by
          simp [Spec.Reasm.feed, hbeg, hfin]
        rw [hfeed]
        simp only [hfin, List.isEmpty_nil, Bool.not_true, Bool.and_false] at ecnt
        have h0 : h.msgLen = 0 := by simpa using hml
        constructor <;> simp only []
        · exact hrep.nLe
        · rw [ecnt]; exact hrep.cnt
        · rw [erem]; exact hr0
        · rw [ebuf]; simp [sduPrefix, h0]
        · exact hrep.lens
        · simp
        · intro _; trivial
      · have hpl : 0 < p.length := List.length_pos_iff.mpr hp
        have hpe : p.isEmpty = false := by simp [hp]
        simp only [hfin, hpe, Bool.not_false, Bool.and_true, if_true] at ecnt
        have h3 : h.msgLen > 0 := by omega
        have hfeed : rs.feed h p = { cur := [], remaining := 0, done := rs.done ++ [p] } := by
          simp [Spec.Reasm.feed, hbeg, hfin, hp]
        rw [hfeed]
        constructor <;> simp only []
        · have := hrep.nLe; simp; omega
        · rw [ecnt, hrep.cnt]; have := hrep.nLe; simp; omega
        · rw [erem]; exact hr0
        · rw [ebuf, drop_snoc _ _ _ hrep.nLe, flat_append, flat_single]
          simp [sduPrefix, recBytes, hml, hpl]
        · intro m hm
          rcases List.mem_append.mp hm with hm | hm
          · exact hrep.lens m hm
          · have : m = p := by simpa using hm
            subst this; omega
        · simp
        · intro _; trivial


theorem flat_cons (m : List Nat) (l : List (List Nat)) : flat (m :: l) = recBytes m ++ flat l := by
  simp [flat]

theorem fetch_refines {r : RecvWindow} {rs : Spec.Reasm} {n : Nat} (cap : Nat)
    (hrep : RingRep r rs n) (hm : r.msgCt ≠ 0) :
    ∃ m r', rs.done[n]? = some m ∧ r.fetchMessage cap = .ok (r', some (m.take cap)) ∧
      RingRep r' rs (n + 1) ∧ r'.level = r.level ∧ r'.ackLevel = r.ackLevel ∧ r'.ackSeq = r.ackSeq ∧
      r'.remMsgLen = r.remMsgLen ∧ r'.msgCt + 1 = r.msgCt ∧ r'.receivedAt = r.receivedAt ∧
      r'.buf.length ≤ r.buf.length := by
  have hcnt := hrep.cnt
  have hn : n < rs.done.length := by omega
  have hdrop : rs.done.drop n = rs.done[n] :: rs.done.drop (n + 1) := List.drop_eq_getElem_cons hn
  have hlen := hrep.lens rs.done[n] (List.getElem_mem hn)
  have hb := hrep.buf
  rw [hdrop] at hb
  generalize htail : (if rs.remaining > 0 then
      [(rs.cur.length + rs.remaining) % 256, (rs.cur.length + rs.remaining) / 256 % 256] ++ rs.cur else []) = tail at hb
  have hb' : r.buf = (rs.done[n].length % 256) :: (rs.done[n].length / 256 % 256) ::
      (rs.done[n] ++ (flat (rs.done.drop (n + 1)) ++ tail)) := by
    rw [hb, flat_cons]; simp [recBytes]
  have hll : rs.done[n].length % 256 + 256 * (rs.done[n].length / 256 % 256) = rs.done[n].length := by omega
  refine ⟨rs.done[n], { r with buf := flat (rs.done.drop (n + 1)) ++ tail, msgCt := r.msgCt - 1 }, ?_, ?_, ?_,
    rfl, rfl, rfl, rfl, ?_, rfl, ?_⟩
  · simp [hn]
  · unfold RecvWindow.fetchMessage
    have : (r.msgCt == 0) = false := by simpa using hm
    simp only [this]
    rw [hb']
    simp only [hll]
    have h1 : ¬ ((rs.done[n] ++ (flat (rs.done.drop (n + 1)) ++ tail)).length < min rs.done[n].length cap) := by
      simp only [List.length_append]; omega
    have h2 : ¬ ((rs.done[n] ++ (flat (rs.done.drop (n + 1)) ++ tail)).length < rs.done[n].length) := by
      simp only [List.length_append]; omega
    simp only [h1, h2, if_false]
    rw [csub_ok (by omega)]
    simp only [Bool.false_eq_true, if_false]
    have e1 : (rs.done[n] ++ (flat (rs.done.drop (n + 1)) ++ tail)).drop rs.done[n].length =
        flat (rs.done.drop (n + 1)) ++ tail := by simp
    have e2 : (rs.done[n] ++ (flat (rs.done.drop (n + 1)) ++ tail)).take (min rs.done[n].length cap) =
        rs.done[n].take cap := by
      rw [List.take_append_of_le_length (by omega)]
      rw [List.take_eq_take_iff]
      simp; omega
    rw [e1, e2]
  · constructor
    · omega
    · simp only []; omega
    · exact hrep.rem
    · rw [← htail]
    · exact hrep.lens
    · exact hrep.curLen
    · exact hrep.curNil
  · simp only []; omega
  · rw [hb']; simp only [List.length_cons, List.length_append]; omega

end Btp
