import RsMatterVerif.Lemmas.Transport
/-!
# Session tables with unique internal ids (shared by the C10 / C20 run-level theorems)

`Sessions` hands out internal ids (`Session::id`, here `uid`) from a counter and looks sessions up by
the first match. All table operations of `Model/Transport.lean` are characterised here by *membership*
under the invariant that the uids in the table are pairwise different (`UidNodup`), so that the
invariants of the transition systems built on top do not depend on the order of the table
(`swap_remove` reorders it).
-/
namespace Transport

/-- the internal ids in the table are pairwise different -/
def UidNodup (t : Table) : Prop := (t.sessions.map (·.uid)).Nodup

/-- all ids handed out so far lie below the allocator position (no wrap of the 28-bit counter yet) -/
def UidBelow (t : Table) : Prop := ∀ s ∈ t.sessions, s.uid < t.nextUid

theorem nodup_map_inj {α β : Type} (f : α → β) : ∀ (l : List α), (l.map f).Nodup →
    ∀ a ∈ l, ∀ b ∈ l, f a = f b → a = b := by
  intro l
  induction l with
  | nil => intro _ a ha; simp at ha
  | cons x xs ih =>
    intro hn a ha b hb hab
    rw [List.map_cons, List.nodup_cons] at hn
    rcases List.mem_cons.1 ha with h1 | h1 <;> rcases List.mem_cons.1 hb with h2 | h2
    · rw [h1, h2]
    · exfalso; apply hn.1; rw [← h1, hab]; exact List.mem_map_of_mem h2
    · exfalso; apply hn.1; rw [← h2, ← hab]; exact List.mem_map_of_mem h1
    · exact ih hn.2 a h1 b h2 hab

/-! ## `swap_remove` -/

theorem swapRemove_concat (init : List Sess) (last : Sess) (i : Nat) :
    swapRemove (init ++ [last]) i = if i = init.length then init else (init ++ [last]).set i last |>.dropLast := by
  unfold swapRemove
  simp only [List.getLast?_concat, List.length_append, List.length_singleton, Nat.add_right_cancel_iff,
    List.dropLast_concat]

theorem swapRemove_perm (l : List Sess) (i : Nat) (h : i < l.length) :
    (swapRemove l i).Perm (l.eraseIdx i) := by
  rcases List.eq_nil_or_concat l with hl | ⟨init, last, hl⟩
  · subst hl; simp at h
  · rw [List.concat_eq_append] at hl
    subst hl
    rw [swapRemove_concat]
    simp only [List.length_append, List.length_singleton] at h
    by_cases hi : i = init.length
    · subst hi
      simp only [↓reduceIte]
      rw [List.eraseIdx_eq_take_drop_succ]
      simp
    · have hlt : i < init.length := by omega
      simp only [hi, ↓reduceIte]
      rw [List.set_append_left _ _ hlt, List.dropLast_concat, List.eraseIdx_append_of_lt_length hlt,
        List.set_eq_take_append_cons_drop, if_pos hlt, List.eraseIdx_eq_take_drop_succ]
      refine List.Perm.trans List.perm_middle ?_
      refine List.Perm.trans ?_ List.perm_append_comm
      exact List.Perm.refl _

theorem mem_swapRemove (l : List Sess) (i : Nat) (h : i < l.length) (x : Sess) :
    x ∈ swapRemove l i ↔ ∃ j, j ≠ i ∧ l[j]? = some x := by
  rw [(swapRemove_perm l i h).mem_iff, List.mem_eraseIdx_iff_getElem?]

theorem swapRemove_map_nodup {β : Type} (f : Sess → β) (l : List Sess) (i : Nat) (h : i < l.length)
    (hn : (l.map f).Nodup) : ((swapRemove l i).map f).Nodup := by
  rw [((swapRemove_perm l i h).map f).nodup_iff]
  exact List.Nodup.sublist ((List.eraseIdx_sublist l i).map f) hn

/-! ## look-ups -/

theorem find_some_index (t : Table) (uid i : Nat) (h : t.find uid = some i) :
    ∃ s, t.sessions[i]? = some s ∧ s.uid = uid := by
  unfold Table.find at h
  obtain ⟨hi, hp, _⟩ := List.findIdx?_eq_some_iff_getElem.1 h
  exact ⟨t.sessions[i], by simp [hi], by simpa using hp⟩

theorem find_none_iff (t : Table) (uid : Nat) : t.find uid = none ↔ ∀ s ∈ t.sessions, s.uid ≠ uid := by
  unfold Table.find
  rw [List.findIdx?_eq_none_iff]
  constructor
  · intro h s hs; simpa using h s hs
  · intro h s hs; simpa using h s hs

theorem sess_none_iff (t : Table) (uid : Nat) : t.sess uid = none ↔ ∀ s ∈ t.sessions, s.uid ≠ uid := by
  unfold Table.sess
  rw [List.find?_eq_none]
  constructor
  · intro h s hs; simpa using h s hs
  · intro h s hs; simpa using h s hs

theorem sess_some_mem (t : Table) (uid : Nat) (s : Sess) (h : t.sess uid = some s) :
    s ∈ t.sessions ∧ s.uid = uid := by
  unfold Table.sess at h
  exact ⟨List.mem_of_find?_eq_some h, by simpa using List.find?_some h⟩

/-- under unique uids the look-up by uid is membership -/
theorem sess_eq_some_iff (t : Table) (hn : UidNodup t) (uid : Nat) (s : Sess) :
    t.sess uid = some s ↔ s ∈ t.sessions ∧ s.uid = uid := by
  constructor
  · exact sess_some_mem t uid s
  · intro ⟨hm, hu⟩
    cases hs : t.sess uid with
    | none => exact absurd hu ((sess_none_iff t uid).1 hs s hm)
    | some s' =>
      obtain ⟨hm', hu'⟩ := sess_some_mem t uid s' hs
      rw [nodup_map_inj (fun (x : Sess) => x.uid) t.sessions hn s' hm' s hm (by rw [hu', hu])]

theorem find_isSome_of_mem (t : Table) (s : Sess) (hs : s ∈ t.sessions) : ∃ i, t.find s.uid = some i := by
  cases hf : t.find s.uid with
  | none => exact absurd rfl ((find_none_iff t s.uid).1 hf s hs)
  | some i => exact ⟨i, rfl⟩

/-! ## `setSess` (write a session back under its uid) -/

/-- index-wise: the entry found under the uid is replaced -/
theorem setSess_sessions (t : Table) (x : Sess) :
    (t.setSess x).sessions = match t.find x.uid with
      | some i => t.sessions.set i x
      | none => t.sessions := by
  unfold Table.setSess
  cases t.find x.uid <;> rfl

theorem setSess_map_uid (t : Table) (x : Sess) : (t.setSess x).sessions.map (·.uid) = t.sessions.map (·.uid) := by
  rw [setSess_sessions]
  cases hf : t.find x.uid with
  | none => rfl
  | some i =>
    obtain ⟨s, hs, hu⟩ := find_some_index t x.uid i hf
    simp only [List.map_set]
    have hi : i < t.sessions.length := by
      rcases List.getElem?_eq_some_iff.1 hs with ⟨hi, _⟩; exact hi
    have : (t.sessions.map (·.uid))[i]? = some x.uid := by
      rw [List.getElem?_map, hs]; simp [hu]
    apply List.ext_getElem?
    intro j
    rw [List.getElem?_set]
    by_cases hij : i = j
    · subst hij
      rw [this]; simp [hi]
    · simp [hij]

theorem setSess_nextUid (t : Table) (x : Sess) : (t.setSess x).nextUid = t.nextUid := by
  unfold Table.setSess; cases t.find x.uid <;> rfl

theorem setSess_uidNodup (t : Table) (x : Sess) (hn : UidNodup t) : UidNodup (t.setSess x) := by
  unfold UidNodup; rw [setSess_map_uid]; exact hn

/-- membership after writing back `x` over the session `s` with the same uid -/
theorem mem_setSess (t : Table) (hn : UidNodup t) (x : Sess) (hx : ∃ s ∈ t.sessions, s.uid = x.uid) (y : Sess) :
    y ∈ (t.setSess x).sessions ↔ y = x ∨ (y ∈ t.sessions ∧ y.uid ≠ x.uid) := by
  obtain ⟨s, hs, hu⟩ := hx
  rw [setSess_sessions]
  obtain ⟨i, hf⟩ := find_isSome_of_mem t s hs
  rw [hu] at hf
  rw [hf]
  obtain ⟨s0, hs0, hu0⟩ := find_some_index t x.uid i hf
  have hi : i < t.sessions.length := (List.getElem?_eq_some_iff.1 hs0).1
  simp only
  constructor
  · intro hy
    rcases List.mem_iff_getElem?.1 hy with ⟨j, hj⟩
    rw [List.getElem?_set] at hj
    by_cases hij : i = j
    · subst hij
      simp only [hi, ↓reduceIte, Option.some.injEq] at hj
      exact Or.inl hj.symm
    · simp only [hij, ↓reduceIte] at hj
      right
      refine ⟨List.mem_of_getElem? hj, fun hyu => hij ?_⟩
      -- two entries with the same uid at different positions
      have hmap : (t.sessions.map (·.uid)).Nodup := hn
      have h1 : (t.sessions.map (·.uid))[i]? = some x.uid := by rw [List.getElem?_map, hs0]; simp [hu0]
      have h2 : (t.sessions.map (·.uid))[j]? = some x.uid := by rw [List.getElem?_map, hj]; simp [hyu]
      exact (List.getElem?_inj (by simpa using hi) hmap).1 (h1.trans h2.symm)
  · intro hy
    rcases hy with hy | ⟨hy, hne⟩
    · subst hy
      exact List.mem_iff_getElem?.2 ⟨i, by rw [List.getElem?_set]; simp [hi]⟩
    · rcases List.mem_iff_getElem?.1 hy with ⟨j, hj⟩
      have hij : i ≠ j := by
        intro h; subst h
        rw [hs0] at hj
        simp only [Option.some.injEq] at hj
        subst hj
        exact hne hu0
      exact List.mem_iff_getElem?.2 ⟨j, by rw [List.getElem?_set]; simp [hij, hj]⟩

/-- writing back under a uid that is not in the table changes nothing -/
theorem setSess_absent (t : Table) (x : Sess) (h : ∀ s ∈ t.sessions, s.uid ≠ x.uid) : t.setSess x = t := by
  unfold Table.setSess
  rw [(find_none_iff t x.uid).2 h]

/-! ## `get` (look-up that refreshes `last_use`) -/

theorem get_snd (t : Table) (uid now : Nat) :
    (t.get uid now).2 = (t.sess uid).map (fun s => { s with lastUse := now }) := by
  unfold Table.get
  cases t.sess uid <;> rfl

theorem get_fst (t : Table) (uid now : Nat) :
    (t.get uid now).1 = match t.sess uid with
      | some s => t.setSess { s with lastUse := now }
      | none => t := by
  unfold Table.get
  cases t.sess uid <;> rfl

/-! ## `remove` -/

theorem remove_sessions (t : Table) (uid : Nat) :
    (t.remove uid).1.sessions = match t.find uid with
      | some i => swapRemove t.sessions i
      | none => t.sessions := by
  unfold Table.remove
  cases t.find uid <;> rfl

theorem remove_nextUid (t : Table) (uid : Nat) : (t.remove uid).1.nextUid = t.nextUid := by
  unfold Table.remove; cases t.find uid <;> rfl

theorem remove_uidNodup (t : Table) (uid : Nat) (hn : UidNodup t) : UidNodup (t.remove uid).1 := by
  unfold UidNodup
  rw [remove_sessions]
  cases hf : t.find uid with
  | none => exact hn
  | some i =>
    obtain ⟨s, hs, _⟩ := find_some_index t uid i hf
    exact swapRemove_map_nodup _ _ _ (List.getElem?_eq_some_iff.1 hs).1 hn

/-- under unique uids `remove` deletes exactly the session with that uid -/
theorem mem_remove (t : Table) (hn : UidNodup t) (uid : Nat) (y : Sess) :
    y ∈ (t.remove uid).1.sessions ↔ y ∈ t.sessions ∧ y.uid ≠ uid := by
  rw [remove_sessions]
  cases hf : t.find uid with
  | none =>
    simp only
    exact ⟨fun hy => ⟨hy, (find_none_iff t uid).1 hf y hy⟩, fun h => h.1⟩
  | some i =>
    obtain ⟨s, hs, hu⟩ := find_some_index t uid i hf
    have hi : i < t.sessions.length := (List.getElem?_eq_some_iff.1 hs).1
    simp only
    rw [mem_swapRemove _ _ hi]
    constructor
    · intro ⟨j, hji, hj⟩
      refine ⟨List.mem_of_getElem? hj, fun hyu => hji ?_⟩
      have h1 : (t.sessions.map (·.uid))[i]? = some uid := by rw [List.getElem?_map, hs]; simp [hu]
      have h2 : (t.sessions.map (·.uid))[j]? = some uid := by rw [List.getElem?_map, hj]; simp [hyu]
      exact ((List.getElem?_inj (by simpa using hi) hn).1 (h1.trans h2.symm)).symm
    · intro ⟨hy, hne⟩
      rcases List.mem_iff_getElem?.1 hy with ⟨j, hj⟩
      refine ⟨j, fun hji => hne ?_, hj⟩
      subst hji
      rw [hs] at hj
      simp only [Option.some.injEq] at hj
      rw [← hj]; exact hu

theorem remove_sess_none (t : Table) (hn : UidNodup t) (uid : Nat) : (t.remove uid).1.sess uid = none := by
  rw [sess_none_iff]
  intro s hs
  exact ((mem_remove t hn uid s).1 hs).2

theorem remove_sess_other (t : Table) (hn : UidNodup t) (uid u : Nat) (hne : u ≠ uid) :
    (t.remove uid).1.sess u = t.sess u := by
  have hn' := remove_uidNodup t uid hn
  cases hs : t.sess u with
  | none =>
    rw [sess_none_iff] at hs ⊢
    intro s hm
    exact hs s ((mem_remove t hn uid s).1 hm).1
  | some s =>
    obtain ⟨hm, hu⟩ := sess_some_mem t u s hs
    exact (sess_eq_some_iff _ hn' u s).2 ⟨(mem_remove t hn uid s).2 ⟨hm, by rw [hu]; exact hne⟩, hu⟩

/-! ## `add` -/

theorem add_ok_sessions (t : Table) (ctr : Nat) (r : Bool) (now port uid : Nat)
    (h : (t.add ctr r now port).2 = .ok uid) :
    uid = t.nextUid ∧ t.sessions.length < Consts.maxSessions ∧
    (t.add ctr r now port).1.sessions = t.sessions ++
      [{ uid := uid, ctr := ctr % (Consts.msgCtrRange + 1), reserved := r, lastUse := now, port := port }] := by
  unfold Table.add at h ⊢
  by_cases hc : t.sessions.length ≥ Consts.maxSessions
  · simp [hc] at h
  · simp only [hc, ↓reduceIte, Except.ok.injEq] at h ⊢
    subst h
    exact ⟨rfl, by omega, rfl⟩

theorem add_err_sessions (t : Table) (ctr : Nat) (r : Bool) (now port : Nat) (e : Err)
    (h : (t.add ctr r now port).2 = .error e) : (t.add ctr r now port).1.sessions = t.sessions := by
  unfold Table.add at h ⊢
  by_cases hc : t.sessions.length ≥ Consts.maxSessions
  · simp [hc]
  · simp [hc] at h

/-- `add` keeps the uids unique and below the allocator position as long as the 28-bit id counter
has not wrapped (fewer than 2^28 sessions were ever created) -/
theorem add_uid_inv (t : Table) (ctr : Nat) (r : Bool) (now port : Nat)
    (hn : UidNodup t) (hb : UidBelow t) (hw : t.nextUid < 0x0fffffff) :
    UidNodup (t.add ctr r now port).1 ∧ UidBelow (t.add ctr r now port).1 := by
  have hnext : (t.add ctr r now port).1.nextUid = t.nextUid + 1 := by
    unfold Table.add
    have : ¬ t.nextUid + 1 > 0x0fffffff := by omega
    by_cases hc : t.sessions.length ≥ Consts.maxSessions <;> simp [hc, this]
  cases hr : (t.add ctr r now port).2 with
  | error e =>
    have hs := add_err_sessions t ctr r now port e hr
    refine ⟨by unfold UidNodup; rw [hs]; exact hn, ?_⟩
    intro s hm; rw [hs] at hm; rw [hnext]; exact Nat.lt_succ_of_lt (hb s hm)
  | ok uid =>
    obtain ⟨hu, _, hs⟩ := add_ok_sessions t ctr r now port uid hr
    constructor
    · unfold UidNodup
      rw [hs, List.map_append, List.nodup_append]
      refine ⟨hn, by simp, ?_⟩
      intro a ha b hb'
      simp only [List.map_cons, List.map_nil, List.mem_singleton] at hb'
      obtain ⟨s, hsm, rfl⟩ := List.mem_map.1 ha
      have := hb s hsm
      omega
    · intro s hm
      rw [hs, List.mem_append] at hm
      rw [hnext]
      rcases hm with hm | hm
      · exact Nat.lt_succ_of_lt (hb s hm)
      · simp only [List.mem_singleton] at hm
        subst hm
        simp only
        omega

end Transport
