//! C02: the Administrator Commissioning commands `OpenCommissioningWindow` / `OpenBasicCommissioningWindow`
//! run through the REAL cluster handler (`dm/clusters/adm_comm.rs`): the harness supplies the invoke context
//! (a real `InteractionModel` as the handler context, an exchange on a non-CASE session of the device, the
//! command details and the request TLV) and calls `ClusterHandler::handle_open_*` directly.
use core::num::NonZeroU8;

use rs_matter::crypto::Crypto;
use rs_matter::dm::clusters::adm_comm::{
    AdminCommHandler, ClusterHandler, OpenBasicCommissioningWindowRequest, OpenCommissioningWindowRequest,
};
use rs_matter::dm::clusters::net_comm::DummyNetworks;
use rs_matter::dm::{
    AsyncHandler, AttrChangeNotifier, AttrId, ClusterId, CmdDetails, Dataver, EmptyHandler, EndptId, EventEmitter,
    HandlerContext, InvokeContext, MatchContext, Metadata, Node, OperationContext, OwnAttrChangeNotifier, OwnEventEmitter,
};
use rs_matter::error::Error;
use rs_matter::im::events::EventTLVWrite;
use rs_matter::im::{EventId, EventNumber, EventPriority, IMBuffer, ImStats, InteractionModel, InteractionModelState};
use rs_matter::dm::clusters::net_comm::NetworksAccess;
use rs_matter::persist::{DummyKvBlobStore, KvBlobStoreAccess};
use rs_matter::tlv::{OctetStr, TLVElement, TLVTag, TLVWrite, ToTLV};
use rs_matter::transport::exchange::{Exchange, MatterBuffers};
use rs_matter::utils::storage::pooled::Buffers;
use rs_matter::utils::storage::WriteBuf;
use rs_matter::Matter;

const ADM_COMM_CLUSTER: ClusterId = 0x003c;

/// the invoke context of one command
struct CmdCtx<'a, H> {
    hc: &'a H,
    exchange: &'a Exchange<'a>,
    cmd: CmdDetails,
    data: TLVElement<'a>,
}

impl<H: HandlerContext> AttrChangeNotifier for CmdCtx<'_, H> {
    fn notify_attr_changed(&self, endpoint_id: EndptId, cluster_id: ClusterId, attr_id: AttrId) {
        self.hc.notify_attr_changed(endpoint_id, cluster_id, attr_id)
    }
    fn notify_cluster_changed(&self, endpoint_id: EndptId, cluster_id: ClusterId) {
        self.hc.notify_cluster_changed(endpoint_id, cluster_id)
    }
    fn notify_endpoint_changed(&self, endpoint_id: EndptId) {
        self.hc.notify_endpoint_changed(endpoint_id)
    }
    fn notify_all_changed(&self) {
        self.hc.notify_all_changed()
    }
}

impl<H: HandlerContext> EventEmitter for CmdCtx<'_, H> {
    fn emit_event<F>(&self, endpoint_id: EndptId, cluster_id: ClusterId, event_id: EventId, priority: EventPriority, f: F) -> Result<EventNumber, Error>
    where
        F: FnOnce(EventTLVWrite<'_>) -> Result<(), Error>,
    {
        self.hc.emit_event(endpoint_id, cluster_id, event_id, priority, f)
    }
}

impl<H: HandlerContext> HandlerContext for CmdCtx<'_, H> {
    fn matter(&self) -> &Matter<'_> {
        self.hc.matter()
    }
    fn crypto(&self) -> impl Crypto + '_ {
        self.hc.crypto()
    }
    fn kv(&self) -> impl KvBlobStoreAccess + '_ {
        self.hc.kv()
    }
    fn networks(&self) -> impl NetworksAccess + '_ {
        self.hc.networks()
    }
    fn metadata(&self) -> impl Metadata + '_ {
        self.hc.metadata()
    }
    fn handler(&self) -> impl AsyncHandler + '_ {
        self.hc.handler()
    }
    fn buffers(&self) -> impl Buffers<IMBuffer> + '_ {
        self.hc.buffers()
    }
    fn im_stats(&self) -> impl ImStats + '_ {
        self.hc.im_stats()
    }
    fn notify_fabric_removed(&self, fab_idx: NonZeroU8) {
        self.hc.notify_fabric_removed(fab_idx)
    }
}

impl<H: HandlerContext> MatchContext for CmdCtx<'_, H> {
    fn endpt(&self) -> Option<EndptId> {
        Some(self.cmd.endpoint_id)
    }
    fn cluster(&self) -> Option<ClusterId> {
        Some(self.cmd.cluster_id)
    }
}

impl<H: HandlerContext> OwnAttrChangeNotifier for CmdCtx<'_, H> {
    fn notify_own_attr_changed(&self, attr_id: AttrId) {
        self.hc.notify_attr_changed(self.cmd.endpoint_id, self.cmd.cluster_id, attr_id)
    }
    fn notify_own_cluster_changed(&self) {
        self.hc.notify_cluster_changed(self.cmd.endpoint_id, self.cmd.cluster_id)
    }
    fn notify_own_endpoint_changed(&self) {
        self.hc.notify_endpoint_changed(self.cmd.endpoint_id)
    }
}

impl<H: HandlerContext> OwnEventEmitter for CmdCtx<'_, H> {
    fn emit_own_event<F>(&self, event_id: EventId, priority: EventPriority, f: F) -> Result<EventNumber, Error>
    where
        F: FnOnce(EventTLVWrite<'_>) -> Result<(), Error>,
    {
        self.hc.emit_event(self.cmd.endpoint_id, self.cmd.cluster_id, event_id, priority, f)
    }
}

impl<H: HandlerContext> OperationContext for CmdCtx<'_, H> {
    fn exchange(&self) -> &Exchange<'_> {
        self.exchange
    }
}

impl<H: HandlerContext> InvokeContext for CmdCtx<'_, H> {
    fn cmd(&self) -> &CmdDetails {
        &self.cmd
    }
    fn data(&self) -> &TLVElement<'_> {
        &self.data
    }
}

pub enum Cmd<'a> {
    /// `OpenCommissioningWindow(timeout, verifier, discriminator, iterations, salt)`
    Open { timeout: u16, verifier: &'a [u8], discriminator: u16, iterations: u32, salt: &'a [u8] },
    /// `OpenBasicCommissioningWindow(timeout)`
    OpenBasic { timeout: u16 },
    /// `RevokeCommissioning`
    Revoke,
}

static NODE: Node<'static> = Node::new(&[]);

/// run the command on `exchange` through the real handler; `ok`, `err:<code>` or `err:Failure cs=<cluster status>`
pub fn invoke<'a, C: Crypto>(device: &'a Matter<'a>, crypto: &C, exchange: &Exchange<'a>, cmd: &Cmd<'_>) -> String {
    let buffers: Box<MatterBuffers> = Box::new(MatterBuffers::new());
    let state: Box<InteractionModelState<DummyNetworks, 1, 64>> = Box::new(InteractionModelState::new(DummyNetworks));
    let kv = device.kv(DummyKvBlobStore);
    let im = InteractionModel::new(device, crypto, &*buffers, (&NODE, EmptyHandler), &kv, &*state);
    let handler = AdminCommHandler::new(Dataver::new(1));
    let mut buf = [0u8; 256];
    let mut wb = WriteBuf::new(&mut buf);
    let built: Result<(), Error> = (|| {
        wb.start_struct(&TLVTag::Anonymous)?;
        match cmd {
            Cmd::Open { timeout, verifier, discriminator, iterations, salt } => {
                timeout.to_tlv(&TLVTag::Context(0), &mut wb)?;
                OctetStr::new(verifier).to_tlv(&TLVTag::Context(1), &mut wb)?;
                discriminator.to_tlv(&TLVTag::Context(2), &mut wb)?;
                iterations.to_tlv(&TLVTag::Context(3), &mut wb)?;
                OctetStr::new(salt).to_tlv(&TLVTag::Context(4), &mut wb)?;
            }
            Cmd::OpenBasic { timeout } => {
                timeout.to_tlv(&TLVTag::Context(0), &mut wb)?;
            }
            Cmd::Revoke => {}
        }
        wb.end_container()
    })();
    if built.is_err() {
        return "skip".into();
    }
    let data = TLVElement::new(wb.as_slice());
    let cmd_id = match cmd {
        Cmd::Open { .. } => 0,
        Cmd::OpenBasic { .. } => 1,
        Cmd::Revoke => 2,
    };
    let ctx = CmdCtx { hc: &im, exchange, cmd: CmdDetails::new(0, ADM_COMM_CLUSTER, cmd_id, 0, false, None), data: data.clone() };
    let res = match cmd {
        Cmd::Open { .. } => handler.handle_open_commissioning_window(&ctx, OpenCommissioningWindowRequest::new(data)),
        Cmd::OpenBasic { .. } => handler.handle_open_basic_commissioning_window(&ctx, OpenBasicCommissioningWindowRequest::new(data)),
        Cmd::Revoke => handler.handle_revoke_commissioning(&ctx),
    };
    match res {
        Ok(()) => "ok".into(),
        Err(e) => match ctx.cmd.cluster_status() {
            Some(cs) => format!("err:{:?} cs={}", e.code(), cs),
            None => format!("err:{:?}", e.code()),
        },
    }
}
