import RsMatterVerif.Model.Dedup
/-!
# Model of the rs-matter transport core (C09 / C10 / C15 / C20)

Transliteration, branch by branch, of
* `transport/mrp.rs`      — `RetransEntry`, `backoff_ms`, `ReliableMessage::{pre_send, post_recv}`
* `transport/session.rs`  — `Session::{post_recv, pre_send, get_exch_for_rx, add_exch, remove_exch}`,
  `Sessions::{add, remove, get, get_next_sess_id, get_next_exch_id, get_session_for_eviction}`,
  `ReservedSession::{reserve_now, update, complete, drop}`
* `transport/exchange.rs` — `ExchangeState::is_for_rx`, `Exchange::drop`, `Transport::initiate_for_session`,
  the state change of `Transport::accept_if`
* `transport.rs`          — `handle_dropped_exchange` (the table part), `handle_accept_timeout_rx_packet`,
  `handle_orphaned_rx_packet` (decision part)

`u16`/`u32` are `Nat` with the wrap the Rust performs written out. Time is `Nat` milliseconds.
Not modelled: group sessions (the `Group` mode branches of `pre_send` / `Exchange::drop`), TCP/BTP
addresses (`adjust_reliability` is the identity on UDP), encryption, the executor.
Import-free (apart from the generated constants and `Model/Dedup`).
-/
namespace Transport
open Dedup (RxState)

inductive Err
  | txTimeout | duplicate | noExchange | noSession | noSpaceExchanges | noSpaceSessions | panic
deriving Repr, DecidableEq, Inhabited

def Err.name : Err → String
  | .txTimeout => "TxTimeout"
  | .duplicate => "Duplicate"
  | .noExchange => "NoExchange"
  | .noSession => "NoSession"
  | .noSpaceExchanges => "NoSpaceExchanges"
  | .noSpaceSessions => "NoSpaceSessions"
  | .panic => "panic"

/-! ## MRP: per-exchange reliability state (`mrp.rs`) -/

structure Retrans where
  /-- `base_delay_interval_ms` -/
  base : Nat
  /-- `msg_ctr`: the counter of the message waiting for its acknowledgement -/
  ctr : Nat
  /-- `counter`: number of retransmissions so far -/
  count : Nat
deriving Repr, DecidableEq, Inhabited

structure Ack where
  ctr : Nat
  acked : Bool
deriving Repr, DecidableEq, Inhabited

structure Mrp where
  retrans : Option Retrans := none
  ack : Option Ack := none
  recvAt : Option Nat := none
deriving Repr, DecidableEq, Inhabited

/-- `delay = delay * 16 / 10`, `k` times (the `for` loop of `backoff_ms`) -/
def scaleLoop : Nat → Nat → Nat
  | 0, d => d
  | k + 1, d => scaleLoop k (d * Consts.mrpBackoffBaseNum / Consts.mrpBackoffBaseDen)

/-- the delay before jitter -/
def backoffBase (base count : Nat) : Nat :=
  let d0 := base * Consts.mrpMarginNum / Consts.mrpMarginDen
  if count > Consts.mrpBackoffThreshold then scaleLoop (count - Consts.mrpBackoffThreshold) d0 else d0

/-- `RetransEntry::backoff_ms(base_interval_ms, counter, jitter_rand)` -/
def backoffMs (base count jitter : Nat) : Nat :=
  let d := backoffBase base count
  d + (d * jitter * Consts.mrpJitterNum) / (255 * Consts.mrpJitterDen)

/-- `RetransEntry::new(base_delay_interval_ms, msg_ctr)` -/
def Retrans.new (sai : Option Nat) (ctr : Nat) : Retrans :=
  let base := match sai with
    | some v => if v > 0 then v else Consts.mrpBaseRetryMs
    | none => Consts.mrpBaseRetryMs
  { base := base, ctr := ctr, count := 0 }

/-- `RetransEntry::delay_ms(jitter)` -/
def Retrans.delayMs (r : Retrans) (jitter : Nat) : Nat := backoffMs r.base r.count jitter

/-- `RetransEntry::pre_send(ctr)` -/
def Retrans.preSend (r : Retrans) (ctr : Nat) : Except Err Retrans :=
  if r.ctr = ctr then
    if r.count < Consts.mrpMaxTransmissions then .ok { r with count := r.count + 1 }
    else .error .txTimeout
  else .error .panic

/-- `ReliableMessage::pre_send`. `hdrAck` is the ack field already present in the outgoing header.
Returns the new state, the ack field of the outgoing header and the error, if any. -/
def Mrp.preSend (m : Mrp) (txCtr : Nat) (reliable : Bool) (hdrAck : Option Nat) (sai : Option Nat) :
    Mrp × Option Nat × Option Err :=
  let ack' : Option Ack := m.ack.map (fun a => { a with acked := true })
  let outAck : Option Nat := match m.ack with
    | some a => some a.ctr
    | none => hdrAck
  if reliable then
    match m.retrans with
    | some r =>
      match r.preSend txCtr with
      | .ok r' => ({ retrans := some r', ack := ack', recvAt := none }, outAck, none)
      | .error .panic => ({ m with ack := ack' }, outAck, some .panic)
      | .error _ => ({ retrans := none, ack := none, recvAt := m.recvAt }, outAck, some .txTimeout)
    | none => ({ retrans := some (Retrans.new sai txCtr), ack := ack', recvAt := none }, outAck, none)
  else ({ m with ack := ack', recvAt := none }, outAck, none)

/-- `ReliableMessage::post_recv` -/
def Mrp.postRecv (m : Mrp) (rxCtr : Nat) (ackOpt : Option Nat) (reliable : Bool) (now : Nat) :
    Mrp × Option Err :=
  let cont (m : Mrp) : Mrp × Option Err :=
    let m1 : Mrp := if reliable then { m with ack := some { ctr := rxCtr, acked := false } } else m
    ({ m1 with recvAt := some now }, none)
  match ackOpt, m.retrans with
  | some a, some r =>
    if r.ctr ≠ a then (m, some .duplicate)
    else cont { m with retrans := none, ack := none }
  | _, _ => cont m

def Mrp.isRetransPending (m : Mrp) : Bool := m.retrans.isSome
def Mrp.isAckPending (m : Mrp) : Bool :=
  match m.ack with
  | some a => !a.acked
  | none => false
/-- `has_rx_timed_out(timeout_ms)` -/
def Mrp.hasRxTimedOut (m : Mrp) (timeout now : Nat) : Bool :=
  match m.recvAt with
  | some t => decide (now ≥ t + timeout)
  | none => false

/-! ## Session (`session.rs`, `exchange.rs`) -/

/-- `Role` with its sub-state: Initiator(Owned|Dropped) | Responder(AcceptPending|Owned|Dropped) -/
inductive RoleSt | io | id | rp | ro | rd
deriving Repr, DecidableEq, Inhabited

def RoleSt.isResponder : RoleSt → Bool
  | .rp | .ro | .rd => true
  | _ => false
def RoleSt.isDropped : RoleSt → Bool
  | .id | .rd => true
  | _ => false
def RoleSt.setDropped : RoleSt → RoleSt
  | .io | .id => .id
  | _ => .rd
def RoleSt.name : RoleSt → String
  | .io => "IO" | .id => "ID" | .rp => "RP" | .ro => "RO" | .rd => "RD"

structure Exch where
  id : Nat
  role : RoleSt
  mrp : Mrp := {}
deriving Repr, DecidableEq, Inhabited

inductive Mode | plain | pase | case
deriving Repr, DecidableEq, Inhabited

def Mode.enc : Mode → Bool
  | .plain => false
  | _ => true

structure Sess where
  uid : Nat
  localSid : Nat := 0
  peerSid : Nat := 0
  /-- `msg_ctr`: the next send counter -/
  ctr : Nat
  rx : RxState := RxState.unsynced
  mode : Mode := .plain
  exchs : List (Option Exch) := []
  lastUse : Nat := 0
  expired : Bool := false
  reserved : Bool := false
  /-- UDP port of the peer address (the harness uses one host) -/
  port : Nat := 0
deriving Repr, DecidableEq, Inhabited

/-- the header fields of a received message the session layer looks at -/
structure RxHdr where
  ctr : Nat
  exch : Nat
  initiator : Bool
  ack : Option Nat
  reliable : Bool
  /-- `MessageMeta::is_new_exchange()`: not a standalone ack, not a secure-channel status report -/
  newOk : Bool
deriving Repr, DecidableEq, Inhabited

/-- `ExchangeState::is_for_rx` -/
def Exch.isForRx (e : Exch) (h : RxHdr) : Bool :=
  e.id == h.exch && (h.initiator == e.role.isResponder)

def findSlot (h : RxHdr) : List (Option Exch) → Nat → Option Nat
  | [], _ => none
  | (some e) :: rest, i => if e.isForRx h then some i else findSlot h rest (i + 1)
  | none :: rest, i => findSlot h rest (i + 1)

/-- `Session::get_exch_for_rx` -/
def Sess.getExchForRx (s : Sess) (h : RxHdr) : Option Nat := findSlot h s.exchs 0

def firstNone : List (Option Exch) → Nat → Option Nat
  | [], _ => none
  | none :: _, i => some i
  | (some _) :: rest, i => firstNone rest (i + 1)

/-- `Session::add_exch` -/
def Sess.addExch (s : Sess) (id : Nat) (role : RoleSt) : Option (Sess × Nat) :=
  let e : Exch := { id := id, role := role }
  if s.exchs.length < Consts.maxExchanges then
    some ({ s with exchs := s.exchs ++ [some e] }, s.exchs.length)
  else
    match firstNone s.exchs 0 with
    | some i => some ({ s with exchs := s.exchs.set i (some e) }, i)
    | none => none

def Sess.slot (s : Sess) (i : Nat) : Option Exch := (s.exchs[i]?).join

def Sess.setMrp (s : Sess) (i : Nat) (m : Mrp) : Sess :=
  match s.slot i with
  | some e => { s with exchs := s.exchs.set i (some { e with mrp := m }) }
  | none => s

/-- `Session::post_recv`; `Ok(true)` = a new exchange was created -/
def Sess.postRecv (s : Sess) (h : RxHdr) (now : Nat) : Sess × Except Err Bool :=
  let r := Dedup.postRecv s.rx h.ctr s.mode.enc false
  let s := { s with rx := r.1 }
  if !r.2 then (s, .error .duplicate) else
  match s.getExchForRx h with
  | some i =>
    match s.slot i with
    | some e =>
      let (m, err) := e.mrp.postRecv h.ctr h.ack h.reliable now
      match err with
      | some er => (s.setMrp i m, .error er)
      | none => (s.setMrp i m, .ok false)
    | none => (s, .error .panic)
  | none =>
    if !h.initiator || !h.newOk then (s, .error .noExchange)
    else if s.expired then (s, .error .noSession)
    else
      match s.addExch h.exch .rp with
      | some (s', i) =>
        let (m, err) := ({} : Mrp).postRecv h.ctr h.ack h.reliable now
        match err with
        | some er => (s'.setMrp i m, .error er)
        | none => (s'.setMrp i m, .ok true)
      | none => (s, .error .noSpaceExchanges)

/-- what `pre_send` writes into the outgoing header -/
structure TxOut where
  ctr : Nat
  retransmission : Bool
  ack : Option Nat
deriving Repr, DecidableEq, Inhabited

/-- `Session::pre_send` (unicast modes). `idx = none`: a message outside any exchange slot
(fresh standalone ack for a duplicate, close-session). -/
def Sess.preSend (s : Sess) (idx : Option Nat) (reliable : Bool) (hdrAck : Option Nat)
    (sai : Option Nat) : Sess × Except Err TxOut :=
  match idx with
  | none => ({ s with ctr := s.ctr + 1 }, .ok { ctr := s.ctr, retransmission := false, ack := hdrAck })
  | some i =>
    match s.slot i with
    | none => (s, .error .panic)
    | some e =>
      let rc : Option Nat := e.mrp.retrans.map (·.ctr)
      let c := match rc with
        | some c => c
        | none => s.ctr
      let s1 := match rc with
        | some _ => s
        | none => { s with ctr := s.ctr + 1 }
      let (m, outAck, err) := e.mrp.preSend c reliable hdrAck sai
      let s2 := s1.setMrp i m
      match err with
      | some .txTimeout =>
        let s3 := if s2.mode = .case && !s2.expired then { s2 with expired := true } else s2
        (s3, .error .txTimeout)
      | some er => (s2, .error er)
      | none => (s2, .ok { ctr := c, retransmission := rc.isSome, ack := outAck })

/-- `Session::remove_exch`: `true` = the slot was freed -/
def Sess.removeExch (s : Sess) (i : Nat) : Sess × Except Err Bool :=
  match s.slot i with
  | none => (s, .error .panic)
  | some e =>
    if e.mrp.isRetransPending || e.mrp.isAckPending then
      ({ s with exchs := s.exchs.set i (some { e with role := e.role.setDropped }) }, .ok false)
    else
      ({ s with exchs := s.exchs.set i none }, .ok true)

def Sess.noExchanges (s : Sess) : Bool := s.exchs.all (·.isNone)

/-! ## Session table (`Sessions`) -/

structure Table where
  nextUid : Nat := 0
  nextSid : Nat := 1
  nextExch : Nat := 0
  sessions : List Sess := []
deriving Repr, DecidableEq, Inhabited

/-- `x.overflowing_add(1).0`, skipping 0 -/
def bump (x : Nat) : Nat :=
  let y := (x + 1) % 65536
  if y = 0 then 1 else y

/-- the allocator loop shared by both id allocators: returns (chosen id, next position).
The Rust loop has no bound; `fuel` = 65536 candidates is more than the ids any table can hold. -/
def allocLoop (live : List Nat) : Nat → Nat → Nat × Nat
  | 0, cur => (cur, bump cur)
  | fuel + 1, cur =>
    if live.all (· != cur) then (cur, bump cur) else allocLoop live fuel (bump cur)

def Table.liveSessIds (t : Table) : List Nat := t.sessions.map (·.localSid)

/-- `Sessions::get_next_sess_id` -/
def Table.nextSessId (t : Table) : Table × Nat :=
  let r := allocLoop t.liveSessIds 65536 t.nextSid
  ({ t with nextSid := r.2 }, r.1)

def liveInitIds (s : Sess) : List Nat :=
  s.exchs.filterMap (fun o => match o with
    | some e => if e.role.isResponder then none else some e.id
    | none => none)

/-- exchange ids of the live initiator-role exchanges of all sessions (the fixed role test) -/
def Table.liveInitExchIds (t : Table) : List Nat := t.sessions.flatMap liveInitIds

/-- `Sessions::get_next_exch_id` after lazy seeding (`next_exch_id ≠ 0`) -/
def Table.nextExchId (t : Table) : Table × Nat :=
  let r := allocLoop t.liveInitExchIds 65536 t.nextExch
  ({ t with nextExch := r.2 }, r.1)

def Table.find (t : Table) (uid : Nat) : Option Nat := t.sessions.findIdx? (·.uid == uid)

def Table.sess (t : Table) (uid : Nat) : Option Sess := t.sessions.find? (·.uid == uid)

def Table.setSess (t : Table) (s : Sess) : Table :=
  match t.find s.uid with
  | some i => { t with sessions := t.sessions.set i s }
  | none => t

/-- `Sessions::get(id)`: touches `last_use` -/
def Table.get (t : Table) (uid now : Nat) : Table × Option Sess :=
  match t.sess uid with
  | some s => let s' := { s with lastUse := now }; (t.setSess s', some s')
  | none => (t, none)

/-- `Sessions::add` -/
def Table.add (t : Table) (ctr : Nat) (reserved : Bool) (now : Nat) (port : Nat := 0) : Table × Except Err Nat :=
  let uid := t.nextUid
  let n := if uid + 1 > 0x0fffffff then 0 else uid + 1
  let t := { t with nextUid := n }
  if t.sessions.length ≥ Consts.maxSessions then (t, .error .noSpaceSessions)
  else
    let s : Sess := { uid := uid, ctr := ctr % (Consts.msgCtrRange + 1), reserved := reserved, lastUse := now, port := port }
    ({ t with sessions := t.sessions ++ [s] }, .ok uid)

/-- `Vec::swap_remove(i)` -/
def swapRemove (l : List Sess) (i : Nat) : List Sess :=
  match l.getLast? with
  | none => l
  | some last => if i + 1 = l.length then l.dropLast else (l.set i last).dropLast

/-- `Sessions::remove(id)` -/
def Table.remove (t : Table) (uid : Nat) : Table × Bool :=
  match t.find uid with
  | some i => ({ t with sessions := swapRemove t.sessions i }, true)
  | none => (t, false)

def evictLoop : List Sess → Nat → Option Nat → Nat → Option Nat
  | [], _, best, _ => best
  | s :: rest, i, best, ts =>
    if (s.expired || decide (s.lastUse < ts)) && !s.reserved && s.noExchanges then
      if s.expired then some i else evictLoop rest (i + 1) (some i) s.lastUse
    else evictLoop rest (i + 1) best ts

/-- `Sessions::get_session_for_eviction`: index into the table -/
def Table.evictionIdx (t : Table) (now : Nat) : Option Nat := evictLoop t.sessions 0 none now

def Table.evictionUid (t : Table) (now : Nat) : Option Nat :=
  match t.evictionIdx now with
  | some i => (t.sessions[i]?).map (·.uid)
  | none => none

/-- `Transport::initiate_for_session`: (exchange id, slot index) -/
def Table.initiate (t : Table) (uid now : Nat) : Table × Except Err (Nat × Nat) :=
  let (t, so) := t.get uid now
  match so with
  | none => (t, .error .noSession)
  | some s =>
    if s.expired then (t, .error .noSession) else
    let (t, xid) := t.nextExchId
    match s.addExch xid .io with
    | some (s', i) => (t.setSess s', .ok (xid, i))
    | none => (t, .error .noSpaceExchanges)

/-- state change of `Transport::accept_if` for a chosen slot: AcceptPending → Owned -/
def Table.accept (t : Table) (uid i now : Nat) : Table × Bool :=
  let (t, so) := t.get uid now
  match so with
  | none => (t, false)
  | some s =>
    match s.slot i with
    | some e =>
      if e.role = .rp then
        (t.setSess { s with exchs := s.exchs.set i (some { e with role := .ro }) }, true)
      else (t, false)
    | none => (t, false)

/-- `Exchange::drop` (unicast modes): `Ok(true)` = closed cleanly; otherwise the closer is notified -/
def Table.dropExchange (t : Table) (uid i now : Nat) : Table × Except Err Bool :=
  let (t, so) := t.get uid now
  match so with
  | none => (t, .error .noSession)
  | some s =>
    let (s', r) := s.removeExch i
    (t.setSess s', r)

/-- `ReservedSession::update` + `complete` + drop, and the incomplete drop -/
def Table.reservedUpdate (t : Table) (uid localSid peerSid : Nat) (mode : Mode) (now : Nat) :
    Table × Bool :=
  let (t, so) := t.get uid now
  match so with
  | none => (t, false)
  | some s => (t.setSess { s with localSid := localSid, peerSid := peerSid, mode := mode, port := peerSid }, true)

def Table.reservedComplete (t : Table) (uid now : Nat) : Table × Except Err Unit :=
  let (t, so) := t.get uid now
  match so with
  | none => (t, .ok ())   -- the session was removed meanwhile: nothing to do (after the repair)
  | some s => (t.setSess { s with reserved := false }, .ok ())

/-- first dropped exchange with (`true`) / without (`false`) a pending retransmission, in table order:
`Sessions::get_exch(pred)` -/
def findDropped (wantRetrans : Bool) : List Sess → Option (Nat × Nat)
  | [] => none
  | s :: rest =>
    let rec go : List (Option Exch) → Nat → Option Nat
      | [], _ => none
      | (some e) :: es, i =>
        if e.role.isDropped && (e.mrp.isRetransPending == wantRetrans) then some i else go es (i + 1)
      | none :: es, i => go es (i + 1)
    match go s.exchs 0 with
    | some i => some (s.uid, i)
    | none => findDropped wantRetrans rest

inductive SweepOut
  | nothing
  /-- the session was closed (close-session sent with a fresh exchange id and counter) -/
  | closedSession (uid : Nat) (xid : Nat) (ctr : Nat)
  /-- the slot was freed; `ack = some (ctr, acked counter)` if a standalone ack was written -/
  | closedExchange (uid i xid : Nat) (ack : Option (Nat × Nat))
deriving Repr, DecidableEq, Inhabited

/-- `TransportRunner::handle_dropped_exchange` (table part) -/
def Table.sweepDropped (t : Table) (now : Nat) : Table × SweepOut :=
  match findDropped true t.sessions with
  | some (uid, _) =>
    -- `get_exch` touches the session twice; then `write_evict_session_packet`
    let (t, _) := t.get uid now
    let (t, xid) := t.nextExchId
    match t.sess uid with
    | some s =>
      let (t, _) := t.remove uid
      (t, .closedSession uid xid s.ctr)
    | none => (t, .nothing)
  | none =>
    match findDropped false t.sessions with
    | some (uid, i) =>
      let (t, so) := t.get uid now
      match so with
      | some s =>
        match s.slot i with
        | some e =>
          if e.mrp.isAckPending then
            let (s', r) := s.preSend (some i) false none none
            let s'' := { s' with exchs := s'.exchs.set i none }
            match r with
            | .ok o => (t.setSess s'', .closedExchange uid i e.id (some (o.ctr, (o.ack.getD 0))))
            | .error _ => (t.setSess s'', .closedExchange uid i e.id none)
          else
            (t.setSess { s with exchs := s.exchs.set i none }, .closedExchange uid i e.id none)
        | none => (t, .nothing)
      | none => (t, .nothing)
    | none => (t, .nothing)

/-- `Session::is_for_rx` for the headers the harness builds (no node ids) -/
def Sess.isForRx (s : Sess) (port sessId : Nat) : Bool :=
  s.localSid == sessId && s.port == port && (s.mode.enc == (sessId != 0)) && !s.reserved

/-- `Sessions::get_for_rx`: first match in table order; touches `last_use` -/
def Table.getForRx (t : Table) (port sessId now : Nat) : Table × Option Sess :=
  match t.sessions.find? (fun s => s.isForRx port sessId) with
  | some s => t.get s.uid now
  | none => (t, none)

/-- `handle_accept_timeout_rx_packet` on an occupied RX slot: `true` = slot emptied
(the exchange nobody accepted within the deadline is marked dropped) -/
def Table.sweepAccept (t : Table) (port sessId : Nat) (h : RxHdr) (now : Nat) : Table × Bool :=
  let (t, so) := t.getForRx port sessId now
  match so with
  | none => (t, false)
  | some s =>
    match s.getExchForRx h with
    | none => (t, false)
    | some i =>
      match s.slot i with
      | none => (t, false)
      | some e =>
        if e.role = .rp && e.mrp.hasRxTimedOut Consts.acceptTimeoutMs now then
          (t.setSess { s with exchs := s.exchs.set i (some { e with role := .rd }) }, true)
        else (t, false)

/-- `handle_orphaned_rx_packet` on an occupied RX slot: `true` = slot emptied -/
def Table.sweepOrphan (t : Table) (port sessId : Nat) (h : RxHdr) (now : Nat) : Table × Bool :=
  let (t, so) := t.getForRx port sessId now
  match so with
  | none => (t, true)
  | some s =>
    match s.getExchForRx h with
    | none => (t, true)
    | some i =>
      match s.slot i with
      | none => (t, true)
      | some e => (t, e.role.isDropped)

/-! ## Canonical text of the state (compared with the implementation's snapshot) -/

def optS (f : α → String) : Option α → String
  | some a => f a
  | none => "-"

def Mrp.show (m : Mrp) : String :=
  "t" ++ optS (fun (r : Retrans) => s!"{r.ctr}/{r.count}") m.retrans ++
  " a" ++ optS (fun (a : Ack) => s!"{a.ctr}/{if a.acked then 1 else 0}") m.ack

def Exch.show (e : Exch) : String := s!"[{e.id} {e.role.name} {e.mrp.show}]"

def Mode.name : Mode → String
  | .plain => "x" | .pase => "p" | .case => "c"

def Sess.show (s : Sess) : String :=
  s!"s{s.uid} l{s.localSid} c{s.ctr} {if s.expired then "e" else "-"}{if s.reserved then "r" else "-"} {s.mode.name} P{s.port}" ++
  String.join (s.exchs.map (fun o => match o with
    | some e => " " ++ e.show
    | none => " [-]"))

def Table.show (t : Table) : String :=
  s!"n{t.nextSid} x{t.nextExch} ::" ++ String.join (t.sessions.map (fun s => " " ++ s.show ++ " |"))

end Transport
