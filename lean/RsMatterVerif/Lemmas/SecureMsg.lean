import RsMatterVerif.Model.SecureMsg
/-! # Lemmas for C03: byte-level header codecs and the ideal AEAD table (`Model/SecureMsg`) -/
namespace SecureMsg

def BytesOK (bs : Bytes) : Prop := ∀ b ∈ bs, b < 256

/-- results of the codecs can be compared by `decide` -/
instance {α : Type} [DecidableEq α] : DecidableEq (Except Err α) := fun a b =>
  match a, b with
  | .ok x, .ok y => if h : x = y then isTrue (by rw [h]) else isFalse (fun e => h (by injection e))
  | .error x, .error y => if h : x = y then isTrue (by rw [h]) else isFalse (fun e => h (by injection e))
  | .ok _, .error _ => isFalse (fun e => by cases e)
  | .error _, .ok _ => isFalse (fun e => by cases e)

instance (bs : Bytes) : Decidable (BytesOK bs) := inferInstanceAs (Decidable (∀ b ∈ bs, b < 256))

theorem le_length (n v : Nat) : (le n v).length = n := by
  induction n generalizing v with
  | zero => rfl
  | succ n ih => simp [le, ih]

theorem le_bytesOK (n v : Nat) : BytesOK (le n v) := by
  induction n generalizing v with
  | zero => intro b hb; simp [le] at hb
  | succ n ih =>
    intro b hb
    simp only [le, List.mem_cons] at hb
    rcases hb with rfl | hb
    · exact Nat.mod_lt _ (by decide)
    · exact ih _ b hb

theorem leVal_le (n v : Nat) (h : v < 256 ^ n) : leVal (le n v) = v := by
  induction n generalizing v with
  | zero => simp [le, leVal]; omega
  | succ n ih =>
    simp only [le, leVal]
    have : v / 256 < 256 ^ n := by
      rw [Nat.div_lt_iff_lt_mul (by decide)]; rw [Nat.pow_succ] at h; exact h
    rw [ih _ this]; omega

theorem le_leVal (bs : Bytes) (h : BytesOK bs) : le bs.length (leVal bs) = bs := by
  induction bs with
  | nil => rfl
  | cons b bs ih =>
    have hb : b < 256 := h b (by simp)
    have hbs : BytesOK bs := fun x hx => h x (by simp [hx])
    simp only [List.length_cons, le, leVal]
    have h1 : (b + 256 * leVal bs) % 256 = b := by omega
    have h2 : (b + 256 * leVal bs) / 256 = leVal bs := by omega
    rw [h1, h2, ih hbs]

theorem leVal_lt (bs : Bytes) (h : BytesOK bs) : leVal bs < 256 ^ bs.length := by
  induction bs with
  | nil => simp [leVal]
  | cons b bs ih =>
    have hb : b < 256 := h b (by simp)
    have hbs : BytesOK bs := fun x hx => h x (by simp [hx])
    have := ih hbs
    simp only [leVal, List.length_cons, Nat.pow_succ]
    omega

theorem takeLe_append (n v : Nat) (rest : Bytes) (h : v < 256 ^ n) :
    takeLe n (le n v ++ rest) = .ok (v, rest) := by
  unfold takeLe
  have hl := le_length n v
  simp [hl, List.take_append_of_le_length, List.drop_append_of_le_length, leVal_le n v h]

theorem takeLe_sound {n : Nat} {bs rest : Bytes} {v : Nat} (hb : BytesOK bs)
    (h : takeLe n bs = .ok (v, rest)) : bs = le n v ++ rest ∧ v < 256 ^ n := by
  unfold takeLe at h
  split at h
  · rename_i hle
    injection h with h
    injection h with h1 h2
    subst h1 h2
    have hlen : (bs.take n).length = n := by simp [List.length_take]; omega
    have hok : BytesOK (bs.take n) := fun x hx => hb x (List.mem_of_mem_take hx)
    have := le_leVal (bs.take n) hok
    rw [hlen] at this
    constructor
    · rw [this, List.take_append_drop]
    · have := leVal_lt (bs.take n) hok
      rw [hlen] at this; exact this
  · cases h

theorem fromBits_lt {all b : Nat} (h : fromBits all b = true) : b ≤ all := by
  unfold fromBits at h
  have : b &&& all = b := by simpa using h
  rw [← this]; exact Nat.and_le_right

theorem BytesOK.of_append_right {a b : Bytes} (h : BytesOK (a ++ b)) : BytesOK b :=
  fun x hx => h x (by simp [hx])

theorem BytesOK.append {a b : Bytes} (ha : BytesOK a) (hb : BytesOK b) : BytesOK (a ++ b) := by
  intro x hx
  rcases List.mem_append.mp hx with h | h
  · exact ha x h
  · exact hb x h

/-- one parsing step, forwards: reading `n` bytes off `le n v ++ rest` -/
theorem takeLe_bind_append {α : Type} (n v : Nat) (rest : Bytes) (h : v < 256 ^ n)
    (k : Nat × Bytes → Except Err α) :
    (takeLe n (le n v ++ rest) >>= k) = k (v, rest) := by
  rw [takeLe_append n v rest h]; rfl

/-- one parsing step, backwards -/
theorem takeLe_bind_sound {α : Type} {n : Nat} {bs : Bytes} {k : Nat × Bytes → Except Err α} {r : α}
    (hb : BytesOK bs) (h : (takeLe n bs >>= k) = .ok r) :
    ∃ v rest, bs = le n v ++ rest ∧ v < 256 ^ n ∧ BytesOK rest ∧ k (v, rest) = .ok r := by
  cases e : takeLe n bs with
  | error x => rw [e] at h; cases h
  | ok p =>
    obtain ⟨v, rest⟩ := p
    rw [e] at h
    obtain ⟨h1, h2⟩ := takeLe_sound hb e
    refine ⟨v, rest, h1, h2, ?_, h⟩
    rw [h1] at hb; exact hb.of_append_right

/- `PlainHdr.WF` (field ranges of a header that came off the wire / may go onto it) is defined in `Model/SecureMsg` -/

theorem msgflags_lt {b : Nat} (h : fromBits MSGFLAGS_ALL b = true) : b < 256 ^ 1 := by
  have := fromBits_lt h
  simp [MSGFLAGS_ALL, F_DSIZ_UNICAST, F_DSIZ_GROUP, F_SRC, Consts.msgFlagDsizUnicast,
    Consts.msgFlagDsizGroup, Consts.msgFlagSrc] at this
  omega

theorem secflags_lt {b : Nat} (h : fromBits SECFLAGS_ALL b = true) : b < 256 ^ 1 := by
  have := fromBits_lt h
  simp [SECFLAGS_ALL, S_GROUP, S_MSGEXT, S_CONTROL, S_PRIVACY, Consts.secFlagGroup,
    Consts.secFlagMsgExt, Consts.secFlagControl, Consts.secFlagPrivacy] at this
  omega

theorem exchflags_lt {b : Nat} (h : fromBits EXCHFLAGS_ALL b = true) : b < 256 ^ 1 := by
  have := fromBits_lt h
  simp [EXCHFLAGS_ALL, X_INITIATOR, X_ACK, X_RELIABLE, X_SECEX, X_VENDOR, Consts.exchFlagInitiator,
    Consts.exchFlagAck, Consts.exchFlagReliable, Consts.exchFlagSecex, Consts.exchFlagVendor] at this
  omega

/-- **decoding what was encoded** gives the header back, whatever follows it -/
theorem PlainHdr.decode_encode (h : PlainHdr) (hw : h.WF) (rest : Bytes) :
    PlainHdr.decode (h.encode ++ rest) = .ok (h, rest) := by
  obtain ⟨hf, hs, hsf, hc, hsrc, hdst⟩ := hw
  unfold PlainHdr.decode PlainHdr.encode
  simp only [List.append_assoc]
  rw [takeLe_bind_append 1 _ _ (msgflags_lt hf)]
  simp only [hf, Bool.not_true, Bool.false_eq_true, if_false]
  rw [takeLe_bind_append 2 _ _ hs]
  simp only []
  rw [takeLe_bind_append 1 _ _ (secflags_lt hsf)]
  simp only [hsf, Bool.not_true, Bool.false_eq_true, if_false]
  rw [takeLe_bind_append 4 _ _ hc]
  simp only []
  rw [takeLe_bind_append _ _ _ hsrc]
  simp only []
  rw [takeLe_bind_append _ _ _ hdst]
  rfl
/-- **what decodes was encoded**: the parsed bytes are exactly the encoding of the parsed header —
every header field is a function of the bytes that become the associated data, and vice versa -/
theorem PlainHdr.decode_sound {bs rest : Bytes} {h : PlainHdr} (hb : BytesOK bs)
    (hd : PlainHdr.decode bs = .ok (h, rest)) : bs = h.encode ++ rest ∧ h.WF ∧ BytesOK rest := by
  unfold PlainHdr.decode at hd
  obtain ⟨flags, r1, e1, l1, b1, hd⟩ := takeLe_bind_sound hb hd
  simp only at hd
  by_cases hf : fromBits MSGFLAGS_ALL flags = true
  · simp only [hf, Bool.not_true, Bool.false_eq_true, if_false] at hd
    obtain ⟨sid, r2, e2, l2, b2, hd⟩ := takeLe_bind_sound b1 hd
    simp only at hd
    obtain ⟨sf, r3, e3, l3, b3, hd⟩ := takeLe_bind_sound b2 hd
    simp only at hd
    by_cases hsf : fromBits SECFLAGS_ALL sf = true
    · simp only [hsf, Bool.not_true, Bool.false_eq_true, if_false] at hd
      obtain ⟨ctr, r4, e4, l4, b4, hd⟩ := takeLe_bind_sound b3 hd
      simp only at hd
      obtain ⟨src, r5, e5, l5, b5, hd⟩ := takeLe_bind_sound b4 hd
      simp only at hd
      obtain ⟨dst, r6, e6, l6, b6, hd⟩ := takeLe_bind_sound b5 hd
      simp only [pure, Except.pure] at hd
      injection hd with hd
      injection hd with h1 h2
      subst h1 h2
      refine ⟨?_, ⟨hf, l2, hsf, l4, l5, l6⟩, b6⟩
      simp only [PlainHdr.encode, List.append_assoc]
      rw [e1, e2, e3, e4, e5, e6]
    · simp only [Bool.not_eq_true] at hsf
      simp only [hsf, Bool.not_false, if_true] at hd
      cases hd
  · simp only [Bool.not_eq_true] at hf
    simp only [hf, Bool.not_false, if_true] at hd
    cases hd

/-- the encoder is injective on well-formed headers: changing any field changes the bytes -/
theorem PlainHdr.encode_injective {h h' : PlainHdr} (hw : h.WF) (hw' : h'.WF)
    (he : h.encode = h'.encode) : h = h' := by
  have h1 := PlainHdr.decode_encode h hw []
  have h2 := PlainHdr.decode_encode h' hw' []
  rw [he, h2] at h1
  injection h1 with h1
  injection h1 with h1 _
  exact h1.symm

theorem PlainHdr.encode_bytesOK (h : PlainHdr) : BytesOK h.encode := by
  unfold PlainHdr.encode
  repeat (first | apply BytesOK.append | apply le_bytesOK)

/-! ### protocol header -/

structure ProtoHdr.WF (p : ProtoHdr) : Prop where
  exchFlags : fromBits EXCHFLAGS_ALL p.exchFlags = true
  opcode : p.opcode < 256 ^ 1
  exchId : p.exchId < 256 ^ 2
  protoId : p.protoId < 256 ^ 2
  vendor : p.vendor < 256 ^ vendorLen p.exchFlags
  ack : p.ack < 256 ^ ackLen p.exchFlags

theorem ProtoHdr.decode_encode (p : ProtoHdr) (hw : p.WF) (rest : Bytes) :
    ProtoHdr.decode (p.encode ++ rest) = .ok (p, rest) := by
  obtain ⟨hf, ho, hx, hp, hv, ha⟩ := hw
  unfold ProtoHdr.decode ProtoHdr.encode
  simp only [List.append_assoc]
  rw [takeLe_bind_append 1 _ _ (exchflags_lt hf)]
  simp only [hf, Bool.not_true, Bool.false_eq_true, if_false]
  rw [takeLe_bind_append 1 _ _ ho]
  simp only []
  rw [takeLe_bind_append 2 _ _ hx]
  simp only []
  rw [takeLe_bind_append 2 _ _ hp]
  simp only []
  rw [takeLe_bind_append _ _ _ hv]
  simp only []
  rw [takeLe_bind_append _ _ _ ha]
  rfl

/-- **what decodes was encoded** (protocol header): the parsed bytes are exactly the encoding of
the parsed header, which is well-formed — together with `ProtoHdr.decode_encode`: `encode` and
`decode` are mutually inverse between well-formed protocol headers and decodable byte prefixes -/
theorem ProtoHdr.decode_sound {bs rest : Bytes} {p : ProtoHdr} (hb : BytesOK bs)
    (hd : ProtoHdr.decode bs = .ok (p, rest)) : bs = p.encode ++ rest ∧ p.WF ∧ BytesOK rest := by
  unfold ProtoHdr.decode at hd
  obtain ⟨flags, r1, e1, l1, b1, hd⟩ := takeLe_bind_sound hb hd
  simp only at hd
  by_cases hf : fromBits EXCHFLAGS_ALL flags = true
  · simp only [hf, Bool.not_true, Bool.false_eq_true, if_false] at hd
    obtain ⟨opc, r2, e2, l2, b2, hd⟩ := takeLe_bind_sound b1 hd
    simp only at hd
    obtain ⟨xid, r3, e3, l3, b3, hd⟩ := takeLe_bind_sound b2 hd
    simp only at hd
    obtain ⟨pid, r4, e4, l4, b4, hd⟩ := takeLe_bind_sound b3 hd
    simp only at hd
    obtain ⟨ven, r5, e5, l5, b5, hd⟩ := takeLe_bind_sound b4 hd
    simp only at hd
    obtain ⟨ack, r6, e6, l6, b6, hd⟩ := takeLe_bind_sound b5 hd
    simp only [pure, Except.pure] at hd
    injection hd with hd
    injection hd with h1 h2
    subst h1 h2
    refine ⟨?_, ⟨hf, l2, l3, l4, l5, l6⟩, b6⟩
    simp only [ProtoHdr.encode, List.append_assoc]
    rw [e1, e2, e3, e4, e5, e6]
  · simp only [Bool.not_eq_true] at hf
    simp only [hf, Bool.not_false, if_true] at hd
    cases hd

/-- the protocol-header encoder is injective on well-formed headers -/
theorem ProtoHdr.encode_injective {p q : ProtoHdr} (hp : p.WF) (hq : q.WF)
    (he : p.encode = q.encode) : p = q := by
  have h1 := ProtoHdr.decode_encode p hp []
  have h2 := ProtoHdr.decode_encode q hq []
  rw [he, h2] at h1
  injection h1 with h1
  injection h1 with h1 _
  exact h1.symm

theorem ProtoHdr.encode_bytesOK (p : ProtoHdr) : BytesOK p.encode := by
  unfold ProtoHdr.encode
  repeat (first | apply BytesOK.append | apply le_bytesOK)

/-! ### ideal AEAD table -/

theorem EncRec.opens_iff (r : EncRec) (k : Nat) (n a c : Bytes) :
    r.opens k n a c = true ↔ r.key = k ∧ r.nonce = n ∧ r.aad = a ∧ r.ct = c := by
  simp [EncRec.opens, and_assoc]

/-- nothing else decrypts: a successful `dec` exhibits the `Enc` term of the table -/
theorem Aead.dec_some {t : Aead} {k : Nat} {n a c p : Bytes} (h : t.dec k n a c = some p) :
    ∃ r ∈ t, r.key = k ∧ r.nonce = n ∧ r.aad = a ∧ r.ct = c ∧ r.pt = p := by
  unfold Aead.dec at h
  cases e : t.find? (fun r => r.opens k n a c) with
  | none => rw [e] at h; cases h
  | some r =>
    rw [e] at h
    simp only [Option.map_some, Option.some.injEq] at h
    have hm := List.mem_of_find?_eq_some e
    have ho := List.find?_some e
    rw [EncRec.opens_iff] at ho
    exact ⟨r, hm, ho.1, ho.2.1, ho.2.2.1, ho.2.2.2, h⟩

/-- `dec k n a (Enc k n a p) = some p` for the encryption made last -/
theorem Aead.dec_head (r : EncRec) (t : Aead) :
    Aead.dec (r :: t) r.key r.nonce r.aad r.ct = some r.pt := by
  simp [Aead.dec, List.find?, EncRec.opens]

/-- decryption is a function of (key, nonce, aad, cipher text): two encryptions that agree on them
have the same plaintext (true of every real cipher; an invariant of tables filled by encrypting) -/
def Aead.Functional (t : Aead) : Prop :=
  ∀ r ∈ t, ∀ r' ∈ t, r.key = r'.key → r.nonce = r'.nonce → r.aad = r'.aad → r.ct = r'.ct → r.pt = r'.pt

/-- `dec k n a (Enc k n a p) = some p` for every encryption of a functional table -/
theorem Aead.dec_mem {t : Aead} (hf : t.Functional) {r : EncRec} (hr : r ∈ t) :
    t.dec r.key r.nonce r.aad r.ct = some r.pt := by
  unfold Aead.dec
  cases e : t.find? (fun q => q.opens r.key r.nonce r.aad r.ct) with
  | none =>
    have := List.find?_eq_none.mp e r hr
    simp [EncRec.opens] at this
  | some q =>
    have hm := List.mem_of_find?_eq_some e
    have ho := List.find?_some e
    rw [EncRec.opens_iff] at ho
    simp only [Option.map_some, Option.some.injEq]
    exact hf q hm r hr ho.1 ho.2.1 ho.2.2.1 ho.2.2.2

/-- the nonce determines security flags, counter and node id -/
theorem nonce_injective {f c n f' c' n' : Nat} (hf : f < 256 ^ 1) (hc : c < 256 ^ 4) (hn : n < 256 ^ 8)
    (hf' : f' < 256 ^ 1) (hc' : c' < 256 ^ 4) (hn' : n' < 256 ^ 8)
    (h : nonce f c n = nonce f' c' n') : f = f' ∧ c = c' ∧ n = n' := by
  unfold nonce at h
  have h1 := takeLe_append 1 f (le 4 c ++ le 8 n) hf
  simp only [List.append_assoc] at h
  rw [h, takeLe_append 1 f' _ hf'] at h1
  injection h1 with h1
  injection h1 with h1 h2
  have h3 := takeLe_append 4 c (le 8 n) hc
  rw [← h2, takeLe_append 4 c' _ hc'] at h3
  injection h3 with h3
  injection h3 with h3 h4
  have h5 := leVal_le 8 n hn
  rw [← h4, leVal_le 8 n' hn'] at h5
  exact ⟨h1.symm, h3.symm, h5.symm⟩
end SecureMsg
