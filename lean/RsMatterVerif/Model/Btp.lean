import RsMatterVerif.Generated.Consts
/-!
# Model of `rs-matter/src/transport/network/btp/session.rs` (+ `session/packet.rs`, `utils/storage/ringbuf.rs`)

The BTP session as a pure state machine, transliterated branch by branch from the Rust
(the tree *with* the `fix:` commits of C18, see `docs/C18.md`).

* `u8`/`u16`/`usize` values are `Nat`.  Wherever the Rust uses `-`, `+`, `-=`, `+=`, `/` on narrow
  integers the model uses the *checked* helpers `csub`/`cadd`/`cdiv` that return `Fail.panic`
  (debug build semantics: "attempt to subtract with overflow"); where the Rust uses
  `wrapping_add`/`Wrapping` the model wraps (`% 256`).
* The ring buffer (`RingBuf<N>`) is a bounded FIFO byte list (oldest byte first); `push` drops the
  oldest bytes on overflow exactly like the Rust (never reached: every push is guarded by `free()`).
* `Instant` is a number of seconds (`Option Nat`, `none` = `Instant::MAX`), the clock is a parameter.
* The peer address is abstracted to "non-zero": `established = (address ≠ 0)`.

Import-free apart from the generated constants (the driver executable links this file).
-/
namespace Btp

inductive Fail where
  | invalidData
  | invalid
  | noSpace
  | invalidArgument
  | panic (why : String)
deriving Repr, DecidableEq, Inhabited

def Fail.name : Fail → String
  | .invalidData => "InvalidData"
  | .invalid => "Invalid"
  | .noSpace => "NoSpace"
  | .invalidArgument => "InvalidArgument"
  | .panic _ => "panic"

def Fail.isPanic : Fail → Bool
  | .panic _ => true
  | _ => false

/-- checked subtraction (`a - b` on an unsigned integer with overflow checks) -/
def csub (a b : Nat) (why : String) : Except Fail Nat :=
  if b ≤ a then .ok (a - b) else .error (.panic why)

/-- checked addition below `lim` (`256` for `u8`, `65536` for `u16`) -/
def cadd (a b lim : Nat) (why : String) : Except Fail Nat :=
  if a + b < lim then .ok (a + b) else .error (.panic why)

/-! ## Constants -/

/-- `MAX_MESSAGE_SIZE = MAX_RX_PACKET_SIZE * 2`: capacity of the receive ring buffer -/
def maxMessageSize : Nat := Consts.btpMaxRxPacketSize * 2
def gattHeaderSize : Nat := Consts.btpGattHeaderSize
def minMtu : Nat := Consts.btpMinMtuBase + Consts.btpGattHeaderSize
def maxMtu : Nat := Consts.btpMaxSegmentSize + Consts.btpGattHeaderSize
def maxTxPacketSize : Nat := Consts.btpMaxTxBase - Consts.btpMaxTxIp - Consts.btpMaxTxUdp
def ackTimeoutSecs : Nat := Consts.btpConnIdleTimeoutSecs / Consts.btpAckTimeoutDiv
def connIdleTimeoutSecs : Nat := Consts.btpConnIdleTimeoutSecs

/-! ## `packet.rs`: the BTP header -/

structure Hdr where
  /-- `HANDSHAKE = 0x40` -/
  hs : Bool := false
  /-- `MANAGEMENT = 0x20` -/
  mgmt : Bool := false
  /-- `ACK = 0x08` -/
  ack : Bool := false
  /-- `ENDING_SEGMENT = 0x04` -/
  fin : Bool := false
  /-- `CONTINUE = 0x02` -/
  cont : Bool := false
  /-- `BEGINNING_SEGMENT = 0x01` -/
  beg : Bool := false
  opcode : Nat := 0
  ackNum : Nat := 0
  seqNum : Nat := 0
  msgLen : Nat := 0
deriving Repr, DecidableEq, Inhabited

namespace Hdr
def getOpcode (h : Hdr) : Option Nat := if h.mgmt then some h.opcode else none
def getAck (h : Hdr) : Option Nat := if h.ack then some h.ackNum else none
def getSeq (h : Hdr) : Option Nat := if !h.hs then some h.seqNum else none
def getMsgLen (h : Hdr) : Option Nat := if h.beg && !h.hs then some h.msgLen else none
def isStandaloneAck (h : Hdr) : Bool :=
  !h.hs && h.getMsgLen.isNone && !h.cont && !h.fin && h.getAck.isSome
/-- `BtpHdr::len` -/
def len (h : Hdr) : Nat :=
  1 + (if h.mgmt then 1 else 0) + (if h.ack then 1 else 0) + (if !h.hs then 1 else 0)
    + (if h.beg && !h.hs then 2 else 0)
def flagsByte (h : Hdr) : Nat :=
  (if h.hs then 0x40 else 0) + (if h.mgmt then 0x20 else 0) + (if h.ack then 0x08 else 0)
    + (if h.fin then 0x04 else 0) + (if h.cont then 0x02 else 0) + (if h.beg then 0x01 else 0)
/-- `BtpHdr::encode` -/
def encode (h : Hdr) : List Nat :=
  [h.flagsByte] ++ (if h.mgmt then [h.opcode] else []) ++ (if h.ack then [h.ackNum] else [])
    ++ (if !h.hs then [h.seqNum] else [])
    ++ (if h.beg && !h.hs then [h.msgLen % 256, h.msgLen / 256 % 256] else [])
end Hdr

def bit (b k : Nat) : Bool := (b / k) % 2 == 1

/-- one optional byte of the header: present iff `c` -/
def takeIf (c : Bool) (bs : List Nat) : Option (Nat × List Nat) :=
  if c then
    match bs with
    | [] => none
    | x :: r => some (x, r)
  else some (0, bs)

/-- `BtpHdr::decode` (`from_bits_truncate`: unknown flag bits are dropped); returns the rest = payload -/
def decodeHdr (bs : List Nat) : Except Fail (Hdr × List Nat) :=
  match bs with
  | [] => .error .invalid
  | f :: r0 =>
    let hs := bit f 0x40
    let mgmt := bit f 0x20
    let ack := bit f 0x08
    let fin := bit f 0x04
    let cont := bit f 0x02
    let beg := bit f 0x01
    match takeIf mgmt r0 with
    | none => .error .invalid
    | some (op, r1) =>
      match takeIf ack r1 with
      | none => .error .invalid
      | some (an, r2) =>
        match takeIf (!hs) r2 with
        | none => .error .invalid
        | some (sn, r3) =>
          if beg && !hs then
            match r3 with
            | lo :: hi :: r4 =>
              .ok ({ hs, mgmt, ack, fin, cont, beg, opcode := op, ackNum := an, seqNum := sn,
                     msgLen := lo + 256 * hi }, r4)
            | _ => .error .invalid
          else
            .ok ({ hs, mgmt, ack, fin, cont, beg, opcode := op, ackNum := an, seqNum := sn,
                   msgLen := 0 }, r3)

structure HandshakeReq where
  versions : Nat
  mtu : Nat
  windowSize : Nat
deriving Repr, DecidableEq, Inhabited

/-- `HandshakeReq::decode` (trailing bytes are ignored) -/
def decodeReq (bs : List Nat) : Except Fail HandshakeReq :=
  match bs with
  | v0 :: v1 :: v2 :: v3 :: m0 :: m1 :: w :: _ =>
    .ok { versions := v0 + 256 * v1 + 65536 * v2 + 16777216 * v3, mtu := m0 + 256 * m1, windowSize := w }
  | _ => .error .invalid

/-- `HandshakeReq::versions().min().unwrap_or(4)`: nibble-shifted bytes `(v >> 4i) & 0xff`, `i < 7`,
zero entries skipped -/
def reqVersion (versions : Nat) : Nat :=
  let vs := (List.range 7).map (fun i => (versions / 16 ^ i) % 256)
  match (vs.filter (· > 0)) with
  | [] => 4
  | x :: r => r.foldl min x

structure HandshakeResp where
  version : Nat
  mtu : Nat
  windowSize : Nat
deriving Repr, DecidableEq, Inhabited

def decodeResp (bs : List Nat) : Except Fail HandshakeResp :=
  match bs with
  | v :: m0 :: m1 :: w :: _ => .ok { version := v, mtu := m0 + 256 * m1, windowSize := w }
  | _ => .error .invalid

/-! ## `ringbuf.rs` as a bounded FIFO byte list -/

/-- `RingBuf::push`: append, dropping the oldest bytes beyond the capacity -/
def ringPush (buf data : List Nat) : List Nat :=
  let b := buf ++ data
  b.drop (b.length - maxMessageSize)

def ringFree (buf : List Nat) : Nat := maxMessageSize - buf.length

/-! ## The two windows -/

structure SendWindow where
  windowSize : Nat := 0
  /-- 0 = completely full -/
  level : Nat := 0
  lastSent : Nat := 255
  sentAt : Option Nat := none
deriving Repr, DecidableEq, Inhabited

structure RecvWindow where
  buf : List Nat := []
  msgCt : Nat := 0
  level : Nat := 0
  ackLevel : Nat := 0
  ackSeq : Nat := 255
  receivedAt : Option Nat := none
  remMsgLen : Nat := 0
deriving Repr, DecidableEq, Inhabited

structure Session where
  initiator : Bool := false
  /-- `address != BtAddr([0; 6])` -/
  established : Bool := false
  version : Nat := 0
  mtu : Nat := 0
  windowSize : Nat := 0
  handshakePending : Bool := false
  recv : RecvWindow := {}
  send : SendWindow := {}
  relaxed : Bool := false
deriving Repr, DecidableEq, Inhabited

/-- `(Wrapping(last_sent_seq_num) - Wrapping(ack_seq_num)).0` -/
def wrapSub (a b : Nat) : Nat := (a + 256 - b) % 256

/-- `SendWindow::check_incoming` (added by the fix): an acknowledgement must refer to one of the
`window_size - level` segments that are sent and not yet acknowledged. -/
def SendWindow.checkIncoming (w : SendWindow) (h : Hdr) : Except Fail Unit :=
  match h.getAck with
  | none => .ok ()
  | some a =>
    match csub w.windowSize w.level "send window: window_size - level" with
    | .error e => .error e
    | .ok outstanding =>
      if wrapSub w.lastSent a ≥ outstanding then .error .invalidData else .ok ()

/-- `SendWindow::accept_incoming` -/
def SendWindow.acceptIncoming (w : SendWindow) (h : Hdr) (now : Nat) : Except Fail SendWindow :=
  match h.getAck with
  | none => .ok w
  | some a =>
    if w.lastSent = a then .ok { w with level := w.windowSize, sentAt := none }
    else
      match csub w.windowSize (wrapSub w.lastSent a) "send window: window_size - unacknowledged" with
      | .error e => .error e
      | .ok l => .ok { w with level := l, sentAt := some now }

def SendWindow.nextSeq (w : SendWindow) : Nat := (w.lastSent + 1) % 256

/-- `SendWindow::post_send` -/
def SendWindow.postSend (w : SendWindow) (now : Nat) : Except Fail SendWindow :=
  match csub w.level 1 "send window: level -= 1" with
  | .error e => .error e
  | .ok l => .ok { w with level := l, lastSent := (w.lastSent + 1) % 256, sentAt := some now }

/-- `RecvWindow::check_data_integrity` -/
def RecvWindow.checkDataIntegrity (r : RecvWindow) (h : Hdr) (plen mtu : Nat) : Bool :=
  if h.hs then false
  else if h.getOpcode.isSome then false
  else if h.isStandaloneAck && plen ≠ 0 then false
  else if !h.isStandaloneAck && (h.getMsgLen.isNone && !h.cont && !h.fin) then false
  else if !h.isStandaloneAck && (h.getMsgLen.isSome && h.cont) then false
  else if !h.isStandaloneAck && (!h.fin && plen + h.len ≠ mtu) then false
  else
    match h.getSeq with
    | none => false
    | some s => (r.ackSeq + 1) % 256 == s

/-- `RecvWindow::check_handshake_integrity` -/
def checkHandshakeIntegrity (h : Hdr) : Bool :=
  !(!h.hs || !h.fin || !(h.getOpcode == some 0x6c) || h.getMsgLen.isSome || h.cont
    || h.getSeq.isSome || h.getAck.isSome)

/-- the two length bytes pushed in front of a new, non-empty SDU -/
def sduPrefix (begun : Option Nat) : List Nat :=
  match begun with
  | some ml => if ml > 0 then [ml % 256, ml / 256 % 256] else []
  | none => []

/-- remaining SDU length before this segment's payload is counted -/
def RecvWindow.startRem (r : RecvWindow) (begun : Option Nat) : Nat :=
  match begun with
  | some ml => ml
  | none => r.remMsgLen

/-- "An SDU that fits in a single BTP segment must be final" -/
def fitsButNotFinal (h : Hdr) (mtu : Nat) : Bool :=
  match h.getMsgLen with
  | some ml => ml + h.len ≤ mtu && !h.fin
  | none => false

/-- "CONTINUE / ENDING segment without an SDU in progress": not a beginning segment, not a stand-alone
acknowledgement, and nothing is being reassembled -/
def orphanSegment (r : RecvWindow) (h : Hdr) : Bool :=
  h.getMsgLen.isNone && r.remMsgLen == 0 && !h.isStandaloneAck

/-- the mutating tail of `RecvWindow::accept_incoming` -/
def RecvWindow.commit (r : RecvWindow) (h : Hdr) (pfx payload : List Nat) (rem now : Nat) :
    Except Fail RecvWindow :=
  match csub r.level 1 "recv window: level -= 1" with
  | .error e => .error e
  | .ok l =>
    match cadd r.ackLevel 1 256 "recv window: ack_level += 1" with
    | .error e => .error e
    | .ok al =>
      match (if h.fin && !payload.isEmpty then cadd r.msgCt 1 256 "recv window: buf_messages_ct += 1"
             else .ok r.msgCt) with
      | .error e => .error e
      | .ok mc =>
        .ok { r with buf := ringPush (ringPush r.buf pfx) payload, remMsgLen := rem, level := l,
                     ackSeq := h.seqNum, ackLevel := al, receivedAt := some now, msgCt := mc }

/-- `RecvWindow::accept_incoming` (fixed tree: every check happens before the first mutation) -/
def RecvWindow.acceptIncoming (r : RecvWindow) (h : Hdr) (payload : List Nat) (mtu now : Nat) :
    Except Fail RecvWindow :=
  if !r.checkDataIntegrity h payload.length mtu then .error .invalidData
  else if r.level == 0 then .error .invalidData                            -- window overrun (fix)
  else if h.getMsgLen.isSome && r.remMsgLen > 0 then .error .invalidData   -- new SDU inside an SDU (fix)
  else if fitsButNotFinal h mtu then .error .invalidData
  else if orphanSegment r h then .error .invalidData                       -- continue / ending without an SDU (fix)
  else if r.startRem h.getMsgLen < payload.length then .error .invalidData
  else if !h.fin && !payload.isEmpty && r.startRem h.getMsgLen - payload.length == 0 then
    .error .invalidData                                                    -- length reached, not final (fix)
  else if h.fin && r.startRem h.getMsgLen - payload.length > 0 then .error .invalidData
  else if ringFree r.buf < (sduPrefix h.getMsgLen).length + payload.length then .error .invalidData
  else r.commit h (sduPrefix h.getMsgLen) payload (r.startRem h.getMsgLen - payload.length) now

/-- `RecvWindow::pending_ack` -/
def RecvWindow.pendingAck (r : RecvWindow) : Option Nat :=
  if r.ackLevel > 0 && r.msgCt == 0 then some r.ackSeq else none

/-- `SendWindow::is_full` (fixed tree: the last slot is kept for a segment that really carries an
acknowledgement, `pending_ack().is_none()` instead of `ack_level == 0`) -/
def SendWindow.isFull (w : SendWindow) (r : RecvWindow) : Bool :=
  w.level == 0 || (w.level == 1 && r.pendingAck.isNone)

/-- `RecvWindow::post_send` -/
def RecvWindow.postSend (r : RecvWindow) : Except Fail RecvWindow :=
  if r.pendingAck.isSome then
    match cadd r.level r.ackLevel 256 "recv window: level += ack_level" with
    | .error e => .error e
    | .ok l => .ok { r with level := l, ackLevel := 0 }
  else .ok r

/-- `RecvWindow::fetch_message(buf)` with `buf.len() = cap`: new window + the bytes handed out.
`none` = no complete SDU buffered (`Ok(0)`). -/
def RecvWindow.fetchMessage (r : RecvWindow) (cap : Nat) : Except Fail (RecvWindow × Option (List Nat)) :=
  if r.msgCt == 0 then .ok (r, none)
  else
    match r.buf with
    | lo :: hi :: rest =>
      let len := lo + 256 * hi
      let popLen := min len cap
      if rest.length < popLen then .error .invalid
      else if rest.length < len then .error .invalid
      else
        match csub r.msgCt 1 "recv window: buf_messages_ct -= 1" with
        | .error e => .error e
        | .ok mc => .ok ({ r with buf := rest.drop len, msgCt := mc }, some (rest.take popLen))
    | _ => .error .invalid

/-! ## Session -/

/-- `Session::initial_window_size` (`u16 / u16`: division by zero panics) -/
def initialWindowSize (mtu : Nat) : Except Fail Nat :=
  if mtu = 0 then .error (.panic "initial_window_size: divide by zero")
  else .ok (min (maxMessageSize / mtu / 2) 255)

def clamp (x lo hi : Nat) : Nat := if x < lo then lo else if x > hi then hi else x

/-- `Session::setup` (fixed tree: both windows restart from scratch; at the initiator the peer's
handshake response counts as the received, not yet acknowledged segment number 0 - it takes one
slot of the receive window and starts the acknowledgement timer: `level = window_size - 1`
(`saturating_sub`), `ack_level = 1`, `ack_seq = 0`, `received_at = Instant::now()`) -/
def Session.setup (s : Session) (version mtu windowSize now : Nat) : Session :=
  { s with
    established := true, version := version, mtu := mtu, windowSize := windowSize,
    handshakePending := !s.initiator,
    recv := if s.initiator then { level := windowSize - 1, ackLevel := 1, ackSeq := 0, receivedAt := some now }
            else { level := windowSize, ackSeq := 255 },
    send := { windowSize := windowSize, level := windowSize } }

/-- the MTU selection of `process_rx_handshake_req` (before the GATT header is taken off) -/
def Session.selectMtu (s : Session) (gattMtu : Option Nat) (reqMtu : Nat) : Nat :=
  if reqMtu = 0 then
    (match gattMtu with | some g => clamp g minMtu maxMtu | none => minMtu)
  else if (match gattMtu with | some g => g != reqMtu | none => true) then
    (if s.relaxed then clamp (min reqMtu (gattMtu.getD minMtu)) minMtu maxMtu else minMtu)
  else clamp reqMtu minMtu maxMtu

/-- `Session::process_rx_handshake_req` -/
def Session.processRxHandshakeReq (s : Session) (gattMtu : Option Nat) (h : Hdr) (payload : List Nat)
    (now : Nat) : Except Fail Session :=
  if !checkHandshakeIntegrity h then .error .invalidData
  else
    match decodeReq payload with
    | .error e => .error e
    | .ok req =>
      let version := reqVersion req.versions
      let mtu := s.selectMtu gattMtu req.mtu
      match csub mtu gattHeaderSize "handshake: mtu - GATT_HEADER_SIZE" with
      | .error e => .error e
      | .ok mtu =>
        match initialWindowSize mtu with
        | .error e => .error e
        | .ok iw =>
          let ws := min req.windowSize iw
          if ws = 0 then .error .invalidData      -- fix: a zero window cannot carry the response
          else .ok (s.setup version mtu ws now)

/-- `Session::process_rx_handshake_resp` -/
def Session.processRxHandshakeResp (s : Session) (h : Hdr) (payload : List Nat) (now : Nat) :
    Except Fail Session :=
  if !checkHandshakeIntegrity h then .error .invalidData
  else
    match decodeResp payload with
    | .error e => .error e
    | .ok resp =>
      -- fix: the peer's choice is validated
      if resp.mtu < minMtu - gattHeaderSize || resp.mtu > maxMtu - gattHeaderSize || resp.windowSize = 0 then
        .error .invalidData
      else .ok (s.setup resp.version resp.mtu resp.windowSize now)

/-- `Session::process_rx_data` (fixed tree: the acknowledgement is validated before anything is stored) -/
def Session.processRxData (s : Session) (h : Hdr) (payload : List Nat) (now : Nat) : Except Fail Session :=
  match s.send.checkIncoming h with
  | .error e => .error e
  | .ok () =>
    match s.recv.acceptIncoming h payload s.mtu now with
    | .error e => .error e
    | .ok r =>
      match s.send.acceptIncoming h now with
      | .error e => .error e
      | .ok w => .ok { s with recv := r, send := w }

/-- `Session::process_rx` on a decoded segment -/
def Session.processRxSeg (s : Session) (gattMtu : Option Nat) (h : Hdr) (payload : List Nat) (now : Nat) :
    Except Fail Session :=
  if h.hs then
    if s.initiator then s.processRxHandshakeResp h payload now
    else s.processRxHandshakeReq gattMtu h payload now
  else s.processRxData h payload now

/-- `Session::process_rx` on raw bytes -/
def Session.processRx (s : Session) (gattMtu : Option Nat) (data : List Nat) (now : Nat) : Except Fail Session :=
  match decodeHdr data with
  | .error e => .error e
  | .ok (h, payload) => s.processRxSeg gattMtu h payload now

/-- capacity of the buffer handed to `prep_tx_*` by the GATT glue / the harness -/
def txBufLen : Nat := 512

def handshakeHdr : Hdr := { hs := true, beg := true, fin := true, mgmt := true, opcode := 0x6c }

/-- the MTU announced in our Handshake Request -/
def announcedMtu (gattMtu : Option Nat) : Nat :=
  match gattMtu with
  | some g => clamp g minMtu maxMtu
  | none => minMtu

/-- `Session::prep_tx_handshake`: the bytes (`[]` = nothing to send) -/
def Session.prepTxHandshake (s : Session) (gattMtu : Option Nat) (now : Nat) : Except Fail (Session × List Nat) :=
  if s.handshakePending then
    if s.initiator then
      let mtu := announcedMtu gattMtu
      match csub mtu gattHeaderSize "handshake req: mtu - GATT_HEADER_SIZE" with
      | .error e => .error e
      | .ok m =>
        match initialWindowSize m with
        | .error e => .error e
        | .ok ws =>
          .ok ({ s with handshakePending := false },
               handshakeHdr.encode ++ [4, 0, 0, 0, mtu % 256, mtu / 256 % 256, ws])
    else
      match s.send.postSend now with
      | .error e => .error e
      | .ok w =>
        .ok ({ s with send := w, handshakePending := false },
             handshakeHdr.encode ++ [s.version, s.mtu % 256, s.mtu / 256 % 256, s.windowSize])
  else .ok (s, [])

/-- the header every outgoing data / ack segment starts from: next sequence number + pending ACK -/
def Session.baseHdr (s : Session) : Hdr :=
  { seqNum := s.send.nextSeq, ack := s.recv.pendingAck.isSome, ackNum := s.recv.pendingAck.getD 0 }

/-- header + payload of the next segment of `prep_tx_data` (`data = []`: a stand-alone ACK) -/
def Session.buildSegment (s : Session) (data : List Nat) (offset : Nat) : Except Fail (Hdr × List Nat) :=
  let h0 : Hdr := s.baseHdr
  if !data.isEmpty then
    let h1 : Hdr := if offset = 0 then { h0 with beg := true, msgLen := data.length % 65536 }
                    else { h0 with cont := true }
    if offset > data.length then .error (.panic "prep_tx_data: slice start out of range")
    else
      match csub s.mtu h1.len "prep_tx_data: mtu - hdr.len()" with
      | .error e => .error e
      | .ok maxPayload =>
        let chunkEnd := min (data.drop offset).length maxPayload
        .ok (if chunkEnd = (data.drop offset).length then { h1 with fin := true } else h1,
             (data.drop offset).take chunkEnd)
  else .ok (h0, [])

/-- `Session::prep_tx_data(data, offset, buf)`: new session, segment bytes (`[]` = window full), new offset -/
def Session.prepTxData (s : Session) (data : List Nat) (offset now : Nat) :
    Except Fail (Session × List Nat × Nat) :=
  if s.send.isFull s.recv then .ok (s, [], offset)
  else
    match s.buildSegment data offset with
    | .error e => .error e
    | .ok (h, payload) =>
      if (h.encode ++ payload).length > txBufLen then .error .noSpace
      else
        match s.send.postSend now with
        | .error e => .error e
        | .ok w =>
          match s.recv.postSend with
          | .error e => .error e
          | .ok r => .ok ({ s with send := w, recv := r }, h.encode ++ payload, offset + payload.length)

/-- `Session::is_ack_due(now, ack_timeout_secs)` -/
def Session.isAckDue (s : Session) (now timeout : Nat) : Bool :=
  s.recv.pendingAck.isSome &&
    (s.recv.level ≤ 1 || (match s.recv.receivedAt with | some t => t + timeout ≤ now | none => false))

/-- `Session::is_timed_out(now, conn_idle_timeout_secs)` -/
def Session.isTimedOut (s : Session) (now timeout : Nat) : Bool :=
  match s.send.sentAt with | some t => t + timeout < now | none => false

def Session.messageAvailable (s : Session) : Bool := s.recv.msgCt > 0

def Session.fetchMessage (s : Session) (cap : Nat) : Except Fail (Session × Option (List Nat)) :=
  match s.recv.fetchMessage cap with
  | .error e => .error e
  | .ok (r, m) => .ok ({ s with recv := r }, m)

/-- `Session::new()` + `set_initiator` + `set_relaxed_mtu_nego` -/
def Session.fresh (initiator relaxed : Bool) : Session :=
  { initiator := initiator, handshakePending := initiator, relaxed := relaxed }

end Btp
