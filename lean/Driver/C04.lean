import RsMatterVerif.Model.Dedup
import Driver.Util
/-! Driver for C04: replays counter histories on `Model/Dedup` and evaluates the set-based
specification on the *implementation's* verdicts. -/
namespace Driver.C04
open Dedup

/-- Group oracle, written from the property text: per tracked sender (the `maxGroupCtrEntries`
most recently heard ones), the unbounded positions accepted so far. `first` is the position of the
trust-first message (everything before it counts as seen). -/
structure GSpecEntry where
  fab : Nat
  node : Nat
  first : Nat
  maxPos : Nat
  accepted : List Nat
  lastHeard : Nat

inductive Kind | unicast | plain | group | glue
deriving DecidableEq

structure St where
  kind : Kind := .unicast
  rx : RxState := RxState.unsynced
  store : GStore := GStore.empty
  /-- accepted counters according to the implementation (oracle state) -/
  acc : List Nat := []
  gspec : List GSpecEntry := []
  gclock : Nat := 0
  /-- unsecured sessions: epoch state of the specification, built from the implementation's verdicts -/
  pspec : PSpec := PSpec.init

def verdict (b : Bool) : String := if b then "acc" else "dup"

/-- Group specification for one message, given what the implementation said.
Returns (must-accept?, must-reject?, updated entry if accepted). -/
def gExpect (e : GSpecEntry) (c : Nat) : Option Bool :=
  let m := e.maxPos % U32
  if c = m then some false
  else
    let fwd := (c + U32 - m) % U32
    if 1 ≤ fwd ∧ fwd ≤ I32MAX then some true
    else
      let back := (m + U32 - c) % U32
      if back > L then some false
      else
        let pos := e.maxPos - back
        if pos < e.first then some false   -- before the trust-first message: counted as seen
        else if e.accepted.contains pos then some false   -- never accepted twice
        else none   -- in-window first-timer of a group sender: the property demands nothing

def gUpdate (e : GSpecEntry) (c : Nat) (clk : Nat) (accepted : Bool) : GSpecEntry :=
  let m := e.maxPos % U32
  let fwd := (c + U32 - m) % U32
  if !accepted then { e with lastHeard := clk }
  else if 1 ≤ fwd ∧ fwd ≤ I32MAX then
    { e with maxPos := e.maxPos + fwd, accepted := (e.maxPos + fwd) :: e.accepted, lastHeard := clk }
  else
    let back := (m + U32 - c) % U32
    { e with accepted := (e.maxPos - back) :: e.accepted, lastHeard := clk }

def lruSpecIdx (es : List GSpecEntry) : Nat :=
  let rec go (i best bestV : Nat) : List GSpecEntry → Nat
    | [] => best
    | e :: r => if e.lastHeard < bestV then go (i + 1) i e.lastHeard r else go (i + 1) best bestV r
  match es with
  | [] => 0
  | e :: r => go 1 0 e.lastHeard r

def groupOp (st : St) (f n c : Nat) (out : String) : St × String :=
  let r := st.store.postRecv f n c
  let implAcc := out = "acc"
  let clk := st.gclock + 1
  -- oracle
  let idx := st.gspec.findIdx? (fun e => e.fab = f ∧ e.node = n)
  let (want, gs') : Option Bool × List GSpecEntry :=
    match idx with
    | some i =>
      match st.gspec[i]? with
      | some e => (gExpect e c, st.gspec.set i (gUpdate e c clk implAcc))
      | none => (none, st.gspec)
    | none =>
      let base := c + U32  -- unbounded position of the trust-first message
      let ne : GSpecEntry := { fab := f, node := n, first := base, maxPos := base, accepted := [base], lastHeard := clk }
      if st.gspec.length < Consts.maxGroupCtrEntries then (some true, st.gspec ++ [ne])
      else (some true, st.gspec.set (lruSpecIdx st.gspec) ne)
  let st' := { st with store := r.1, gspec := gs', gclock := clk }
  match want with
  | some w =>
    if w ≠ implAcc then (st', s!"ORA spec={verdict w} impl={out}")
    else if verdict r.2 = out then (st', "ok") else (st', s!"DIS {verdict r.2}")
  | none => if verdict r.2 = out then (st', "ok") else (st', s!"DIS {verdict r.2}")

def step (st : St) (line : String) : St × String :=
  let (op, out) := splitArrow line
  match words op with
  | "case" :: _ :: k :: _ =>
    let kind := if k = "g" then Kind.group else if k = "gg" then Kind.glue
      else if k = "p" then Kind.plain else Kind.unicast
    ({ kind := kind }, "case")
  | [cs] =>
    match cs.toNat? with
    | none => (st, "BAD ctr")
    | some c =>
      if c ≥ U32 then (st, "BAD range") else
      let enc := st.kind ≠ Kind.plain
      let r := postRecvPlain st.rx c enc
      let implAcc := out = "acc"
      -- oracle: the set-based specification over the implementation's own verdicts
      -- (secure unicast and unsecured with the restart rule: exact)
      let ora : Option String :=
        if st.kind = Kind.unicast then
          let want := specAccept st.acc c
          if want = implAcc then none
          else some s!"spec={verdict want} impl={out} accepted_so_far={st.acc.take 8}"
        else if st.kind = Kind.plain then
          let want := specPlainAccept st.pspec c
          if want = implAcc then none
          else some s!"unsecured spec={verdict want} impl={out} accepted_since_restart={st.pspec.acc.take 8}"
        else none
      let st' := { st with rx := r.1, acc := if implAcc then c :: st.acc else st.acc,
                           pspec := specPlainNext st.pspec c implAcc }
      match ora with
      | some why => (st', s!"ORA {why}")
      | none => if verdict r.2 = out then (st', "ok") else (st', s!"DIS {verdict r.2}")
  | [ns, cs, mk] =>
    if st.kind = Kind.glue then
      -- group glue: `<node> <ctr> <d|c|x|m>` through the real receive path; fabric index 1
      match ns.toNat?, cs.toNat? with
      | some n, some c =>
        if c ≥ U32 then (st, "BAD range") else
        if mk = "d" then
          groupOp st 1 n c out
        else if mk = "c" then
          -- control messages are not subject to the data counter store and leave it untouched
          (st, if out = "acc" then "ok" else s!"DIS acc")
        else
          -- not authentic: never accepted, and the store is untouched (checked by what follows)
          if out = "acc" then (st, "ORA an unauthenticated group message was accepted")
          else if out = "noauth" then (st, "ok") else (st, "DIS noauth")
      | _, _ => (st, "BAD nums")
    else
    match ns.toNat?, cs.toNat?, mk.toNat? with
    | some f0, some n0, some c0 =>
      let f := f0
      let n := n0
      let c := c0
      if c ≥ U32 then (st, "BAD range") else
      groupOp st f n c out
    | _, _, _ => (st, "BAD nums")
  | _ => (st, "BAD op")

def run : IO UInt32 := Driver.runLoop ({} : St) step

end Driver.C04
