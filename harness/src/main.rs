//! `vh <Cxx> gen --seed N --tier quick|thorough --out FILE`
//! `vh <Cxx> replay --in FILE --out FILE`
//!
//! Runs the *real* rs-matter code (path dependency on the current working tree, feature `verif`)
//! on generated or replayed operation sequences and writes the line protocol read by the Lean driver.
mod proto;
mod rng;

mod c04;

use std::collections::HashMap;

pub struct Args {
    pub seed: u64,
    pub thorough: bool,
    pub input: Option<String>,
    pub out: String,
    pub extra: HashMap<String, String>,
}

fn main() {
    let argv: Vec<String> = std::env::args().collect();
    if argv.len() < 3 {
        eprintln!("usage: vh <Cxx> gen|replay [--seed N] [--tier T] [--in F] --out F");
        std::process::exit(2);
    }
    let prop = argv[1].as_str();
    let mode = argv[2].as_str();
    let mut a = Args { seed: 1, thorough: false, input: None, out: "/dev/stdout".into(), extra: HashMap::new() };
    let mut i = 3;
    while i + 1 < argv.len() {
        match argv[i].as_str() {
            "--seed" => a.seed = argv[i + 1].parse().unwrap_or(1),
            "--tier" => a.thorough = argv[i + 1] == "thorough",
            "--in" => a.input = Some(argv[i + 1].clone()),
            "--out" => a.out = argv[i + 1].clone(),
            k => {
                a.extra.insert(k.trim_start_matches("--").to_string(), argv[i + 1].clone());
            }
        }
        i += 2;
    }
    // Panics inside the code under test are caught per case by the property modules; keep the
    // default hook quiet so that expected panics do not flood stderr.
    std::panic::set_hook(Box::new(|_| {}));
    let text = match (prop, mode) {
        ("C04", "gen") => c04::gen(&a),
        ("C04", "replay") => c04::replay(&a),
        _ => {
            eprintln!("unknown property/mode {} {}", prop, mode);
            std::process::exit(2);
        }
    };
    std::fs::write(&a.out, text).expect("write output");
}
