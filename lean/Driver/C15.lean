import Driver.TransportCommon
/-! Driver for C15: model correspondence (`Driver.TC.modelStep`) + the property's specification
evaluated on the implementation's own outputs:
* a message that is not a retransmission carries a counter strictly greater than all earlier ones
  of that session;
* a retransmission carries the counter of its original and — when the builder is idempotent, i.e.
  the op text is the same — exactly the original's header output (counter, piggy-backed ack, session id);
* session ids handed out by the allocator differ from the ids of live sessions, and stay unique
  once installed;
* on every session no two live exchanges share (exchange id, role). -/
namespace Driver.C15
open Driver.TC

structure Orig where
  uid : Nat
  slot : Nat
  ctr : Nat
  op : String
  out : String
  /-- a reliable message without ack flag was received on that exchange while this one was pending
  (peer violating the one-outstanding-message discipline): identity of the piggy-backed ack is not demanded -/
  tainted : Bool := false

structure OSt where
  /-- per session uid: largest counter sent so far -/
  sentMax : List (Nat × Nat) := []
  origs : List Orig := []
  pendingSids : List Nat := []
  sidTaint : Bool := false
  prev : ISnap := {}

structure St where
  m : MSt := {}
  o : OSt := {}

def dupBy (f : α → β) [BEq β] : List α → Bool
  | [] => false
  | a :: rest => rest.any (fun b => f b == f a) || dupBy f rest

def field (ws : List String) (k : String) : Option String :=
  match ws.dropWhile (· != k) with
  | _ :: v :: _ => some v
  | _ => none

def stillPending (snap : ISnap) (g : Orig) : Bool :=
  (snap.sess g.uid).any (fun s => (s.slots.getD g.slot none).any (fun x => x.rt.any (fun p => p.1 == g.ctr)))

/-- the specification on the implementation's outputs; `none` = fine -/
def oracle (o : OSt) (w : List String) (res : String) (snap : ISnap) : OSt × Option String :=
  let n (i : Nat) : Nat := ((w.getD i "").toNat?).getD 0
  let rw := words res
  let (o, verdict) : OSt × Option String :=
    match w.getD 0 "" with
    | "tx" =>
      match field rw "ctr", field rw "rt" with
      | some cs, some rts =>
        let c := cs.toNat?.getD 0
        let uid := n 1
        let slot := (w.getD 2 "-").toNat?
        if rts = "0" then
          let bad := o.sentMax.any (fun p => p.1 == uid && c ≤ p.2)
          let o1 := { o with sentMax := (uid, c) :: o.sentMax.filter (·.1 != uid) }
          let o2 := match slot with
            | some sl =>
              -- became a pending original iff the implementation now shows a pending retransmission for it
              let pend := (snap.sess uid).any (fun s => ((s.slots.getD sl none).any (fun x => x.rt.any (·.1 == c))))
              if pend then { o1 with origs := { uid := uid, slot := sl, ctr := c, op := " ".intercalate w, out := res } ::
                                o1.origs.filter (fun g => !(g.uid == uid && g.slot == sl)) }
              else o1
            | none => o1
          (o2, if bad then some s!"new message reuses or goes below an earlier counter of session {uid}: ctr={c}" else none)
        else
          match slot with
          | none => (o, some "retransmission flagged for a message outside any exchange")
          | some sl =>
            match o.origs.find? (fun g => g.uid == uid && g.slot == sl) with
            | none => (o, some s!"retransmission without a pending original on session {uid} slot {sl}")
            | some g =>
              if g.ctr != c then (o, some s!"retransmission counter {c} differs from the original's {g.ctr}")
              else if g.op = " ".intercalate w && !g.tainted && res.replace " rt 1 " " rt 0 " != g.out then
                (o, some s!"retransmission differs from the original: '{res}' vs '{g.out}'")
              else (o, none)
      | _, _ =>
        -- a send on a live exchange must not panic (a retransmission whose counter does not match the
        -- remembered one trips `RetransEntry::pre_send`'s consistency check)
        let live := match (w.getD 2 "-").toNat? with
          | some sl => (o.prev.sess (n 1)).any (fun s => (s.slots.getD sl none).isSome)
          | none => false
        (o, if res = "panic" && live then some "sending on a live exchange panicked" else none)
    | "rx" =>
      -- reliable, no ack flag, addressed to an exchange id with a pending original: taint (see `Orig.tainted`)
      if w.getD 5 "-" = "-" && w.getD 6 "" = "r" then
        let uid := n 1
        let ex := n 3
        let hit (g : Orig) : Bool := g.uid == uid &&
          (o.prev.sess uid).any (fun s => (s.slots.getD g.slot none).any (fun x => x.id == ex))
        ({ o with origs := o.origs.map (fun g => if hit g then { g with tainted := true } else g) }, none)
      else (o, none)
    | "setctr" => ({ o with sentMax := o.sentMax.filter (·.1 != n 1) }, none)
    | "sid" =>
      let v := res.toNat?.getD 0
      let live := o.prev.sessions.map (·.lsid)
      ({ o with pendingSids := v :: o.pendingSids },
        if v = 0 then some "session id 0 allocated"
        else if live.contains v then some s!"allocated session id {v} is the id of a live session"
        else none)
    | "setsid" => ({ o with pendingSids := [] }, none)
    | "lsid" | "upd" =>
      let v := n 2
      if res != "ok" then (o, none)
      else if o.pendingSids.contains v then ({ o with pendingSids := o.pendingSids.erase v }, none)
      else ({ o with sidTaint := true }, none)
    | "init" =>
      match rw with
      | ["x", xs, _] =>
        let x := xs.toNat?.getD 0
        let clash := (o.prev.sess (n 1)).any (fun s => s.live.any (fun e => !e.isResponder && e.id == x))
        (o, if clash then some s!"initiate returned exchange id {x} which a live initiator exchange of session {n 1} already has" else none)
      | _ => (o, none)
    | _ => (o, none)
  -- invariants on every snapshot
  let exDup := snap.sessions.find? (fun s => dupBy (fun (e : ISlot) => (e.id, e.isResponder)) s.live)
  let sidDup := !o.sidTaint && dupBy (·.lsid) (snap.sessions.filter (fun s => s.lsid != 0))
  -- forget originals whose retransmission is no longer pending
  let o := { o with origs := o.origs.filter (stillPending snap), prev := snap }
  let verdict := match verdict with
    | some v => some v
    | none =>
      match exDup with
      | some s => some s!"two live exchanges of session {s.uid} share exchange id and role"
      | none => if sidDup then some "two live sessions share a local session id" else none
  (o, verdict)

def step (st : St) (line : String) : St × String :=
  let (op, out) := splitArrow line
  match words op with
  | "case" :: _ :: kind => ({ m := newCase kind }, "case")
  | w =>
    let (res, snapS) := splitHash out
    let (m', dis) := modelStep st.m op out
    let (o', ora) := if st.m.isMrp then (st.o, none) else oracle st.o w res (parseSnap snapS)
    let st' : St := { m := m', o := o' }
    match ora with
    | some why => (st', s!"ORA {why}")
    | none =>
      match dis with
      | some mo => (st', s!"DIS {mo}")
      | none => (st', "ok")

def run : IO UInt32 := Driver.runLoop ({} : St) step

end Driver.C15
