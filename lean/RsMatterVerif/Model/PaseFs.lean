import RsMatterVerif.Model.Pase
/-!
# The fail-safe around the PASE responder (C02)

A layer over `Model/Pase.lean`, as `failsafe.rs` is a module next to `sc/pase.rs`:

* `sc/pase/responder.rs` `handle_pasepake3`: right after `session.complete()` the fail-safe is armed
  for `DEFAULT_FAILSAFE_EXPIRY_SECS` if it is not armed (`FailSafe::arm` from `Idle` with a PASE session
  mode cannot fail);
* `failsafe.rs` `FailSafe::expire` (nothing when `Idle`; else: every PASE session is removed -
  `Sessions::remove_pase(None)` when the trigger did not arrive on a PASE session - and the state is
  `Idle`), `FailSafe::check_failsafe_timeout` (`now ≥ armed_at + timeout` ⇒ `expire`);
* `dm/clusters/adm_comm.rs` `handle_revoke_commissioning` on a session that is not a PASE session:
  `failsafe.expire(…)`, then `Pase::close_comm_window`. (With no window present `close_comm_window`
  answers `Ok(false)`, which the handler does not look at: the command succeeds - the code's comment and
  the Matter specification speak of the cluster status `WindowNotOpen`; modelled as the code is.)

Not modelled: fabrics / networks roll-back of `expire` (no fabric is involved in a PASE-only
history: `fab_idx = 0`), `ArmFailSafe` / `CommissioningComplete` of the general commissioning cluster,
a `RevokeCommissioning` that arrives ON a PASE session (that session is only marked expired so that
the response can be sent). Import-free apart from `Model/Pase`.
-/
namespace Pase

def failsafeMs : Nat := Consts.defaultFailsafeExpirySecs * 1000

structure FSt where
  st : St := {}
  /-- `State::Armed`: the instant `armed_at + timeout_secs` -/
  fs : Option Nat := none
deriving Repr, DecidableEq, Inhabited

def isPase : Slot → Bool
  | .pase _ => true
  | _ => false

/-- `FailSafe::expire` with `expire_sess_id` not a PASE session -/
def expireFs (f : FSt) : FSt :=
  match f.fs with
  | none => f
  | some _ => { st := { f.st with table := f.st.table.filter (fun sl => !isPase sl) }, fs := none }

inductive FEv
  /-- an event of the responder model: API / time operation or a delivered datagram -/
  | ev (e : Ev)
  /-- the command `RevokeCommissioning` through `AdminCommHandler::handle_revoke_commissioning` -/
  | cmdRevoke
  /-- the periodic `check_failsafe_timeout` -/
  | fsPoll
deriving Repr, DecidableEq, Inhabited

def stepF (f : FSt) : FEv → FSt × Out
  | .ev e =>
    let r := stepEv f.st e
    -- `SessionEstablishmentSuccess` is answered by exactly the Pake3 that created the session
    let fs := if r.2 = .statusSuccess && f.fs.isNone then some (r.1.now + failsafeMs) else f.fs
    ({ st := r.1, fs := fs }, r.2)
  | .cmdRevoke =>
    let f1 := expireFs f
    ({ f1 with st := { f1.st with window := none } }, .ok)
  | .fsPoll =>
    match f.fs with
    | some d => if f.st.now ≥ d then (expireFs f, .none) else (f, .none)
    | none => (f, .none)

def runF (f : FSt) : List FEv → FSt
  | [] => f
  | e :: es => runF (stepF f e).1 es

end Pase
