//! In-process device + client pair for C14 (modelled on rs-matter/tests/common/e2e.rs): two `Matter`
//! instances joined by zero-copy pipes, a pre-established CASE session, the REAL `InteractionModel`
//! + `Responder` on the device side over a harness cluster whose attribute values have
//! generator-chosen encoded sizes.
use core::net::{Ipv4Addr, SocketAddr, SocketAddrV4};
use core::num::NonZeroU8;
use std::sync::Mutex;

use embassy_futures::select::select4;
use embassy_sync::zerocopy_channel::{Channel, Receiver, Sender};

use rs_matter::acl::{AclEntry, AuthMode};
use rs_matter::crypto::{test_only_crypto, Crypto};
use rs_matter::dm::clusters::net_comm::DummyNetworks;
use rs_matter::dm::devices::test::{TEST_DEV_ATT, TEST_DEV_COMM, TEST_DEV_DET};
use rs_matter::dm::devices::DEV_TYPE_ON_OFF_LIGHT;
use rs_matter::dm::{
    Access, Async, Attribute, Cluster, Dataver, Endpoint, Event, Handler, InvokeContext, InvokeReply, MatchContext,
    Metadata, Node, NonBlockingHandler, Privilege, Quality, ReadContext, ReadReply, Reply, WriteContext,
};
use rs_matter::error::{Error, ErrorCode};
use rs_matter::im::{InteractionModel, InteractionModelState};
use rs_matter::persist::DummyKvBlobStore;
use rs_matter::respond::Responder;
use rs_matter::tlv::{TLVTag, TLVWrite};
use rs_matter::transport::exchange::{Exchange, MatterBuffers};
use rs_matter::transport::network::{
    Address, NetworkReceive, NetworkSend, NoNetwork, MAX_RX_PACKET_SIZE, MAX_TX_PACKET_SIZE,
};
use rs_matter::transport::session::{NocCatIds, ReservedSession, SessionMode};
use rs_matter::utils::select::Coalesce;
use rs_matter::utils::sync::blocking::raw::MatterRawMutex;
use rs_matter::{attributes, clusters, commands, events, with};
use rs_matter::{Matter, MATTER_PORT};

pub const PEER_ID: u64 = 445566;
pub const REMOTE_PEER_ID: u64 = 123456;
pub const EVENTS_BUF: usize = 4096;
/// data versions of the harness cluster on endpoint 1 / endpoint 2
pub const DATAVERS: [u32; 2] = [7, 9];

const ADDR: Address = Address::Udp(SocketAddr::V4(SocketAddrV4::new(Ipv4Addr::UNSPECIFIED, 0)));

pub const CLUSTER_ID: u32 = 0xFFF1_FC20;
pub const ENDPOINT: u16 = 1;
pub const ENDPOINT2: u16 = 2;
pub const N_SCALAR: u32 = 16;
pub const N_LIST: u32 = 6;

/// Value sizes of the harness cluster (per endpoint) for the current read.
pub struct Sizes {
    pub scalars: [[usize; N_SCALAR as usize]; 2],
    pub lists: [[Vec<usize>; N_LIST as usize]; 2],
}

pub static SIZES: Mutex<Sizes> = Mutex::new(Sizes {
    scalars: [[0; N_SCALAR as usize]; 2],
    lists: [
        [Vec::new(), Vec::new(), Vec::new(), Vec::new(), Vec::new(), Vec::new()],
        [Vec::new(), Vec::new(), Vec::new(), Vec::new(), Vec::new(), Vec::new()],
    ],
});

/// index of the endpoint in the tables (endpoint 1 -> 0, endpoint 2 -> 1)
pub fn ep_idx(ep: u16) -> usize {
    if ep == ENDPOINT2 {
        1
    } else {
        0
    }
}

/// deterministic content of the payload of the `n`-th event pushed for a read
pub fn ev_pattern(n: usize, len: usize) -> Vec<u8> {
    (0..len).map(|p| (n * 13 + p + 5) as u8).collect()
}

/// deterministic content of value `(attr, elem)`
pub fn pattern(attr: u32, elem: usize, len: usize) -> Vec<u8> {
    (0..len).map(|p| (attr as usize * 31 + elem * 7 + p) as u8).collect()
}

macro_rules! scalar {
    ($id:expr) => {
        Attribute::new($id, Access::RV, Quality::NONE)
    };
}
macro_rules! list {
    ($id:expr) => {
        Attribute::new($id, Access::RV, Quality::A)
    };
}

pub const CLUSTER: Cluster<'static> = Cluster {
    id: CLUSTER_ID,
    revision: 1,
    feature_map: 0,
    attributes: attributes!(
        scalar!(0), scalar!(1), scalar!(2), scalar!(3), scalar!(4), scalar!(5), scalar!(6), scalar!(7),
        scalar!(8), scalar!(9), scalar!(10), scalar!(11), scalar!(12), scalar!(13), scalar!(14), scalar!(15),
        list!(16), list!(17), list!(18), list!(19), list!(20), list!(21),
    ),
    commands: commands!(),
    events: events!(Event::new(1, Access::RV), Event::new(2, Access::RV)),
    with_attrs: with!(all),
    with_cmds: with!(all),
    with_events: with!(all),
};

pub struct SizeHandler {
    dataver: [Dataver; 2],
}

impl SizeHandler {
    fn do_read(&self, ctx: impl ReadContext, reply: impl ReadReply) -> Result<(), Error> {
        let attr = ctx.attr();
        let e = ep_idx(attr.endpoint_id);
        if let Some(mut writer) = reply.with_dataver(self.dataver[e].get())? {
            if attr.is_system() {
                return CLUSTER.read(attr, writer);
            }
            let sizes = SIZES.lock().unwrap();
            let id = attr.attr_id;
            // the content differs per endpoint
            let pid = id + 40 * e as u32;
            if id < N_SCALAR {
                let v = pattern(pid, 0, sizes.scalars[e][id as usize]);
                let tag = writer.tag();
                writer.writer().str(tag, &v)?;
                writer.complete()
            } else if id < N_SCALAR + N_LIST {
                let lens = &sizes.lists[e][(id - N_SCALAR) as usize];
                let li = attr.list_index.clone().map(|li| li.into_option());
                let tag = writer.tag();
                {
                    let mut tw = writer.writer();
                    match li {
                        None => {
                            tw.start_array(tag)?;
                            for (k, len) in lens.iter().enumerate() {
                                tw.str(&TLVTag::Anonymous, &pattern(pid, k, *len))?;
                            }
                            tw.end_container()?;
                        }
                        Some(None) => {
                            tw.start_array(tag)?;
                            tw.end_container()?;
                        }
                        Some(Some(i)) => {
                            let len = lens.get(i as usize).ok_or(ErrorCode::ConstraintError)?;
                            tw.str(tag, &pattern(pid, i as usize, *len))?;
                        }
                    }
                }
                writer.complete()
            } else {
                Err(ErrorCode::AttributeNotFound.into())
            }
        } else {
            Ok(())
        }
    }
}

impl Handler for SizeHandler {
    fn read(&self, ctx: impl ReadContext, reply: impl ReadReply) -> Result<(), Error> {
        self.do_read(ctx, reply)
    }
    fn write(&self, _ctx: impl WriteContext) -> Result<(), Error> {
        Err(ErrorCode::AttributeNotFound.into())
    }
    fn invoke(&self, _ctx: impl InvokeContext, _reply: impl InvokeReply) -> Result<(), Error> {
        Err(ErrorCode::CommandNotFound.into())
    }
    fn bump_dataver(&self, _ctx: impl MatchContext) {
        self.dataver[0].changed();
        self.dataver[1].changed();
    }
}

impl NonBlockingHandler for SizeHandler {}

pub struct SizeModel(pub Async<SizeHandler>);

pub const NODE: Node<'static> = Node {
    endpoints: &[
        Endpoint::new(ENDPOINT, &[DEV_TYPE_ON_OFF_LIGHT], clusters!(CLUSTER)),
        Endpoint::new(ENDPOINT2, &[DEV_TYPE_ON_OFF_LIGHT], clusters!(CLUSTER)),
    ],
};

impl Metadata for SizeModel {
    fn access<F, R>(&self, f: F) -> R
    where
        F: FnOnce(&Node<'_>) -> R,
    {
        f(&NODE)
    }
}

impl rs_matter::dm::AsyncHandler for SizeModel {
    fn read_awaits(&self, _ctx: impl ReadContext) -> bool {
        false
    }
    fn write_awaits(&self, _ctx: impl WriteContext) -> bool {
        false
    }
    fn invoke_awaits(&self, _ctx: impl InvokeContext) -> bool {
        false
    }
    async fn read(&self, ctx: impl ReadContext, reply: impl ReadReply) -> Result<(), Error> {
        rs_matter::dm::AsyncHandler::read(&self.0, ctx, reply).await
    }
    async fn write(&self, ctx: impl WriteContext) -> Result<(), Error> {
        rs_matter::dm::AsyncHandler::write(&self.0, ctx).await
    }
    async fn invoke(&self, ctx: impl InvokeContext, reply: impl InvokeReply) -> Result<(), Error> {
        rs_matter::dm::AsyncHandler::invoke(&self.0, ctx, reply).await
    }
    fn bump_dataver(&self, ctx: impl MatchContext) {
        rs_matter::dm::AsyncHandler::bump_dataver(&self.0, ctx)
    }
}

pub struct Runner<C> {
    pub matter: Matter<'static>,
    pub matter_client: Matter<'static>,
    crypto: C,
    buffers: MatterBuffers,
    pub state: InteractionModelState<DummyNetworks, 3, EVENTS_BUF>,
}

pub fn new_runner() -> Runner<impl Crypto> {
    Runner {
        matter: new_matter(),
        matter_client: new_matter(),
        crypto: test_only_crypto(),
        buffers: MatterBuffers::new(),
        state: InteractionModelState::new(DummyNetworks),
    }
}

fn new_matter() -> Matter<'static> {
    let matter = Matter::new(&TEST_DEV_DET, TEST_DEV_COMM, &TEST_DEV_ATT, MATTER_PORT);
    matter.with_state(|state| {
        state.fabrics.add_with_post_init(|_| Ok(())).unwrap();
    });
    matter
}

fn init_matter(matter: &Matter, crypto: impl Crypto, local: u64, remote: u64) -> Result<(), Error> {
    matter.reset_transport()?;
    let mut session = ReservedSession::reserve_now(matter, crypto)?;
    session.update(
        local,
        remote,
        1,
        1,
        ADDR,
        SessionMode::Case { fab_idx: NonZeroU8::new(1).unwrap(), cat_ids: NocCatIds::default() },
        None,
        None,
        None,
        None,
    )?;
    session.complete();
    Ok(())
}

impl<C: Crypto> Runner<C> {
    pub fn add_default_acl(&self) {
        let mut acl = AclEntry::new(None, Privilege::ADMIN, AuthMode::Case);
        acl.add_subject(PEER_ID).unwrap();
        self.matter.with_state(|state| {
            state.fabrics.fabric_mut(NonZeroU8::new(1).unwrap()).unwrap().acl_add(acl).unwrap();
        });
    }

    pub async fn initiate_exchange(&self) -> Result<Exchange<'_>, Error> {
        Exchange::initiate(&self.matter_client, test_only_crypto(), NonZeroU8::new(1).unwrap(), REMOTE_PEER_ID).await
    }

    /// the device: transport of both nodes + responder + reporter; never completes by itself
    pub async fn run(&self) -> Result<(), Error> {
        init_matter(&self.matter, &self.crypto, REMOTE_PEER_ID, PEER_ID)?;
        init_matter(&self.matter_client, &self.crypto, PEER_ID, REMOTE_PEER_ID)?;
        self.state.suppress_start_up_event();

        let mut buf1 = [heapless::Vec::new(); 1];
        let mut buf2 = [heapless::Vec::new(); 1];
        let mut pipe1 = Pipe::<MAX_RX_PACKET_SIZE>::new(&mut buf1);
        let mut pipe2 = Pipe::<MAX_TX_PACKET_SIZE>::new(&mut buf2);
        let (send_remote, recv_local) = pipe1.split();
        let (send_local, recv_remote) = pipe2.split();

        let kv = self.matter.kv(DummyKvBlobStore);
        let handler = SizeModel(Async(SizeHandler { dataver: [Dataver::new(DATAVERS[0]), Dataver::new(DATAVERS[1])] }));
        let dm = InteractionModel::new(&self.matter, &self.crypto, &self.buffers, handler, &kv, &self.state);
        let responder = Responder::new_default(&dm);

        select4(
            self.matter_client.run(&self.crypto, SendImpl(send_local), RecvImpl(recv_local), NoNetwork),
            self.matter.run(&self.crypto, SendImpl(send_remote), RecvImpl(recv_remote), NoNetwork),
            responder.run::<4>(),
            dm.run(),
        )
        .coalesce()
        .await
    }
}

type Pipe<'a, const N: usize> = Channel<'a, MatterRawMutex, heapless::Vec<u8, N>>;

struct RecvImpl<'a, const N: usize>(Receiver<'a, MatterRawMutex, heapless::Vec<u8, N>>);
struct SendImpl<'a, const N: usize>(Sender<'a, MatterRawMutex, heapless::Vec<u8, N>>);

impl<const N: usize> NetworkSend for SendImpl<'_, N> {
    async fn send_to(&mut self, data: &[u8], _addr: Address) -> Result<(), Error> {
        let vec = self.0.send().await;
        vec.clear();
        vec.extend_from_slice(data).unwrap();
        self.0.send_done();
        Ok(())
    }
}

impl<const N: usize> NetworkReceive for RecvImpl<'_, N> {
    async fn wait_available(&mut self) -> Result<(), Error> {
        self.0.receive().await;
        Ok(())
    }
    async fn recv_from(&mut self, buffer: &mut [u8]) -> Result<(usize, Address), Error> {
        let vec = self.0.receive().await;
        buffer[..vec.len()].copy_from_slice(vec);
        let len = vec.len();
        self.0.receive_done();
        Ok((len, ADDR))
    }
}
