import Driver.Util
/-! Driver for C06: not built yet. -/
namespace Driver.C06

def run : IO UInt32 := do
  IO.eprintln "C06: driver not built yet"
  return 2

end Driver.C06
