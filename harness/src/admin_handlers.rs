//! Handler-level path of C07 / C08 / C11 (`case <id> admh …`): the same operation lines as the
//! state-level path, but every command goes through the REAL cluster handlers
//! (`GenCommHandler`, `NocHandler`, `AdmCommHandler` inside `EthSysHandler`) behind the real
//! `InteractionModel` + `Responder` + transport of a device `Matter`, sent by the generated cluster
//! clients of a controller `Matter` over the simulated network on virtual time.  The 1-second
//! timeout poll of the IM runs for real (`tick n` lets n virtual seconds pass).
//!
//! Sessions of the wanted kind are installed on both sides like `tests/common/e2e.rs` does
//! (`ReservedSession`, no keys); `cest` / `resume` mirror what the CASE responder does with the
//! resumption cache (as in the state-level path).  Statuses are reduced to accepted / rejected: the
//! handlers answer with cluster-specific status enums, the model speaks `ErrorCode`.
//!
//! This validates the glue that `admin_common.rs` only mirrors, including the `fix:` code that
//! lives in the handlers (resumption purge after `expire`, RemoveFabric, UpdateFabricLabel store).
use std::cell::RefCell;
use std::collections::BTreeMap;
use std::num::NonZeroU8;
use std::rc::Rc;

use embassy_futures::select::{select, select4};
use embassy_time::{Duration, Timer};

use rs_matter::crypto::{test_only_crypto, CanonPkcPublicKey, Crypto, PublicKey, SigningSecretKey};
use rs_matter::dm::clusters::gen_comm::{CommissioningErrorEnum, GeneralCommissioningClient};
use rs_matter::dm::clusters::noc::{NodeOperationalCertStatusEnum, OperationalCredentialsClient};
use rs_matter::dm::devices::test::{TEST_DEV_ATT, TEST_DEV_COMM, TEST_DEV_DET};
use rs_matter::dm::devices::DEV_TYPE_ROOT_NODE;
use rs_matter::dm::clusters::binding::{self, BindingHandler, Bindings};
use rs_matter::dm::clusters::groups::{self, GroupsHandler};
use rs_matter::dm::clusters::net_comm::NetworkType;
use rs_matter::dm::clusters::user_label::{self, UserLabelHandler, UserLabels};
use rs_matter::dm::endpoints::{WifiSysHandlerBuilder, ROOT_ENDPOINT_ID};
use rs_matter::dm::networks::wireless::NoopWirelessNetCtl;
use rs_matter::dm::{Async, Dataver, EpClMatcher};
use rs_matter::im::{AttrDataTag, AttrPath, GenericPath};
use rs_matter::im::client::{SubscribeOutcome, TxOutcome};
use rs_matter::persist::{PERSISTENT_SUBSCRIPTIONS_END, PERSISTENT_SUBSCRIPTIONS_START};
use rs_matter::tlv::TLVElement;
use rs_matter::dm::networks::wireless::WifiNetworks;
use rs_matter::dm::{
    AsyncHandler, Endpoint, HandlerContext, InvokeContext, InvokeReply, LifecycleOp, MatchContext, Metadata, Node, ReadContext, ReadReply,
    WriteContext,
};
use rs_matter::error::{Error, ErrorCode};
use rs_matter::im::client::ImClient;
use rs_matter::im::{CmdDataTag, CmdResp, IMStatusCode, InteractionModel, InteractionModelState};
use rs_matter::tlv::{TLVTag, TLVWrite};
use rs_matter::persist::KvBlobStoreAccess;
use rs_matter::respond::Responder;
use rs_matter::sc::case::ResumableSession;
use rs_matter::tlv::OctetStr;
use rs_matter::transport::exchange::{Exchange, MatterBuffers};
use rs_matter::transport::network::NoNetwork;
use rs_matter::transport::session::{AttChallenge, NocCatIds, ReservedSession, SessionMode};
use rs_matter::{clusters, Matter};

use super::admin_common::{canon_nets, canon_state, header, make_noc_for, rid16, tracked_key, Ca, Kv};
use rs_matter::dm::clusters::net_comm::NetworksAccess;
use crate::proto::{Case, Out};
use crate::simnet::{addr_of, run_sim, Perfect, SimEnd, SimNet};

/// the root endpoint with the system clusters of a Wi-Fi device (so that the network commissioning
/// commands reach the real `NetCommHandler`), plus an endpoint 1 with the Binding, UserLabel and Groups clusters
struct RootHandler<H>(H);

const EXT_ENDPOINT: u16 = 1;

impl<H> RootHandler<H> {
    const NODE: Node<'static> = Node {
        endpoints: &[
            Endpoint::new(0, &[DEV_TYPE_ROOT_NODE], clusters!(wifi;)),
            Endpoint::new(
                EXT_ENDPOINT,
                &[DEV_TYPE_ROOT_NODE],
                clusters!(binding::CLUSTER, user_label::CLUSTER, <GroupsHandler<'static> as groups::ClusterHandler>::CLUSTER),
            ),
        ],
    };
}

impl<H: AsyncHandler> AsyncHandler for RootHandler<H> {
    fn read_awaits(&self, _ctx: impl ReadContext) -> bool {
        false
    }
    fn write_awaits(&self, _ctx: impl WriteContext) -> bool {
        false
    }
    fn invoke_awaits(&self, _ctx: impl InvokeContext) -> bool {
        false
    }
    async fn read(&self, ctx: impl ReadContext, reply: impl ReadReply) -> Result<(), Error> {
        self.0.read(ctx, reply).await
    }
    async fn write(&self, ctx: impl WriteContext) -> Result<(), Error> {
        self.0.write(ctx).await
    }
    async fn invoke(&self, ctx: impl InvokeContext, reply: impl InvokeReply) -> Result<(), Error> {
        self.0.invoke(ctx, reply).await
    }
    fn bump_dataver(&self, ctx: impl MatchContext) {
        self.0.bump_dataver(ctx)
    }
    fn lifecycle(&self, ctx: impl HandlerContext, op: LifecycleOp) -> Result<(), Error> {
        self.0.lifecycle(ctx, op)
    }
}

impl<H> Metadata for RootHandler<H> {
    fn access<F, R>(&self, f: F) -> R
    where
        F: FnOnce(&Node<'_>) -> R,
    {
        f(&Self::NODE)
    }
}

type ImState = InteractionModelState<WifiNetworks<4>, 3, 4096>;

/// the node id under which the controller addresses the device over the session pair whose
/// device-side local session id is `dev_local` (it is the device session's local node id: the
/// message nonce is built from the sender's node id, so the two sides have to mirror each other)
fn ctl_peer(dev_local: u16) -> u64 {
    5000 + dev_local as u64
}

struct HCtx {
    kv: Kv,
    cas: Rc<Vec<Ca>>,
    noc_serial: RefCell<std::collections::HashMap<Vec<u8>, u64>>,
}

enum BootEnd {
    Finished,
    /// restart from this store at op index
    Restart(usize, BTreeMap<u16, Vec<u8>>),
}

fn num(w: &[&str], i: usize) -> u64 {
    w.get(i).and_then(|x| x.parse().ok()).unwrap_or(0)
}

/// one attribute write (a list value replaces the list); `Ok("ok")` iff every write status is Success
macro_rules! write_attr {
    ($exchange:expr, $ep:expr, $cluster:expr, $attr:expr, |$w:ident| $body:expr) => {
        async {
            let handle = $exchange
                .write_with(None, |builder| {
                    let entries = builder.write_requests()?;
                    let entries = entries.push()?.path($ep, $cluster, $attr)?.data(|$w| $body)?.end()?;
                    entries.end()?.end()
                })
                .await?;
            let mut good = true;
            let mut any = false;
            {
                let resp = handle.response()?;
                for st in resp.write_responses.iter().take(8) {
                    any = true;
                    good &= st?.status.status == IMStatusCode::Success;
                }
            }
            Ok::<String, Error>(if any && good { "ok".to_string() } else { "rej".to_string() })
        }
    };
}

/// a command on endpoint `$ep` whose fields `$body` writes; it answers with an IM status or with a
/// response struct whose field 0 is a status (0 = Success)
macro_rules! invoke_raw {
    ($exchange:expr, $ep:expr, $cluster:expr, $cmd:expr, |$w:ident| $body:expr) => {
        async {
            let chunk = $exchange
                .invoke_with(None, |msg| {
                    msg.suppress_response(false)?
                        .timed_request(false)?
                        .invoke_requests()?
                        .push()?
                        .path($ep, $cluster, $cmd)?
                        .data(|$w| {
                            $w.start_struct(&TLVTag::Context(CmdDataTag::Data as u8))?;
                            $body?;
                            $w.end_container()
                        })?
                        .end()?
                        .end()?
                        .end()
                })
                .await?;
            let mut good = false;
            if let Some(resp) = chunk.response()? {
                if let Some(list) = resp.invoke_responses {
                    for r in list.iter().take(4) {
                        match r? {
                            CmdResp::Status(st) => good = st.status.status == IMStatusCode::Success,
                            CmdResp::Cmd(c) => {
                                good = c.data.structure().and_then(|s| s.ctx(0)).and_then(|x| x.u8()).map(|x| x == 0).unwrap_or(false);
                            }
                        }
                    }
                }
            }
            chunk.complete().await?;
            Ok::<String, Error>(if good { "ok".to_string() } else { "rej".to_string() })
        }
    };
}

/// one boot of the device: run ops from `start` until the case ends or the node restarts
fn run_boot(h: &HCtx, ops: &[String], start: usize, restarted: bool, lines: &RefCell<Vec<(String, String)>>) -> BootEnd {
    let crypto = test_only_crypto();
    let device = Box::new(Matter::new(&TEST_DEV_DET, TEST_DEV_COMM, &TEST_DEV_ATT, 0));
    let controller = Box::new(Matter::new(&TEST_DEV_DET, TEST_DEV_COMM, &TEST_DEV_ATT, 0));
    controller.with_state(|state| {
        state.fabrics.add_with_post_init(|_| Ok(())).unwrap();
    });
    let net = SimNet::new(2, Box::new(Perfect));
    let ds = net.socket(0);
    let cs = net.socket(1);
    let buffers: Box<MatterBuffers> = Box::new(MatterBuffers::new());
    let im_state: Box<ImState> = Box::new(InteractionModelState::new(WifiNetworks::new()));
    im_state.suppress_start_up_event();
    let kv = device.kv(h.kv.clone());
    let net_ctl = NoopWirelessNetCtl::new(NetworkType::Wifi);
    let bindings: Bindings<8> = Bindings::new();
    let labels: UserLabels<1, 4> = UserLabels::new();
    let mut dv_rand = crypto.rand().unwrap();
    let handler = RootHandler(
        WifiSysHandlerBuilder::new(&net_ctl, &net_ctl)
            .build(crypto.rand().unwrap())
            .chain(
                EpClMatcher::new(Some(EXT_ENDPOINT), Some(binding::CLUSTER.id)),
                Async(BindingHandler::new(Dataver::new_rand(&mut dv_rand), EXT_ENDPOINT, &bindings).adapt()),
            )
            .chain(
                EpClMatcher::new(Some(EXT_ENDPOINT), Some(user_label::CLUSTER.id)),
                Async(UserLabelHandler::new(Dataver::new_rand(&mut dv_rand), EXT_ENDPOINT, &labels).adapt()),
            )
            .chain(
                EpClMatcher::new(Some(EXT_ENDPOINT), Some(<GroupsHandler<'static> as groups::ClusterHandler>::CLUSTER.id)),
                Async(GroupsHandler::new(Dataver::new_rand(&mut dv_rand)).adapt()),
            ),
    );
    let dm = InteractionModel::new(&*device, &crypto, &*buffers, handler, &kv, &*im_state);
    let responder = Responder::new_default(&dm);

    let dump = || {
        let nets = im_state.networks().access(|n| canon_nets(n));
        let core = canon_state(&device, &nets, &h.kv, &h.cas, &h.noc_serial.borrow());
        // --- the extension: what the real Write / Subscribe interactions change besides the
        // administrative state, in memory and as a node restarted from the store would load it
        let keymap = |fabrics: &rs_matter::fabric::Fabrics| -> String {
            let mut v: Vec<(u8, String)> = fabrics
                .iter()
                .map(|f| {
                    let ids: Vec<String> = f.groups().key_map_iter().map(|e| e.group_id.to_string()).collect();
                    (f.fab_idx().get(), format!("{}:{}", f.fab_idx().get(), if ids.is_empty() { "-".to_string() } else { ids.join("+") }))
                })
                .collect();
            v.sort();
            v.into_iter().map(|x| x.1).collect::<Vec<_>>().join(";")
        };
        // the group table WITH the names (the core dump has the ids only) and the group key sets
        // (id = start time of epoch key 0 . first byte of epoch key 0)
        let gnames = |fabrics: &rs_matter::fabric::Fabrics| -> String {
            let mut v: Vec<(u8, String)> = fabrics
                .iter()
                .map(|f| {
                    let mut gs: Vec<(u16, String)> = f.groups().iter().map(|g| (g.group_id, if g.group_name.is_empty() { "~".to_string() } else { g.group_name.as_str().to_string() })).collect();
                    gs.sort();
                    let gs: Vec<String> = gs.into_iter().map(|(id, n)| format!("{}={}", id, n)).collect();
                    (f.fab_idx().get(), format!("{}:{}", f.fab_idx().get(), if gs.is_empty() { "-".to_string() } else { gs.join("+") }))
                })
                .collect();
            v.sort();
            v.into_iter().map(|x| x.1).collect::<Vec<_>>().join(";")
        };
        let keysets = |fabrics: &rs_matter::fabric::Fabrics| -> String {
            let mut v: Vec<(u8, String)> = fabrics
                .iter()
                .map(|f| {
                    let mut ks: Vec<(u16, String)> = f
                        .groups()
                        .key_set_iter()
                        .map(|k| (k.group_key_set_id, k.epoch_keys.first().map(|e| format!("{}.{:02x}", e.epoch_start_time, e.epoch_key.access()[0])).unwrap_or_default()))
                        .collect();
                    ks.sort();
                    let ks: Vec<String> = ks.into_iter().map(|(id, n)| format!("{}={}", id, n)).collect();
                    (f.fab_idx().get(), format!("{}:{}", f.fab_idx().get(), if ks.is_empty() { "-".to_string() } else { ks.join("+") }))
                })
                .collect();
            v.sort();
            v.into_iter().map(|x| x.1).collect::<Vec<_>>().join(";")
        };
        // the vendor id of the fabric record (AddNOC's AdminVendorId, changed by SetVIDVerificationStatement)
        let vids = |fabrics: &rs_matter::fabric::Fabrics| -> String {
            let mut v: Vec<(u8, String)> = fabrics.iter().map(|f| (f.fab_idx().get(), format!("{}:{}", f.fab_idx().get(), f.vendor_id()))).collect();
            v.sort();
            v.into_iter().map(|x| x.1).collect::<Vec<_>>().join(";")
        };
        let v_mem = device.with_state(|state| vids(&state.fabrics));
        let k_mem = device.with_state(|state| keymap(&state.fabrics));
        let g_mem = device.with_state(|state| gnames(&state.fabrics));
        let s_mem = device.with_state(|state| keysets(&state.fabrics));
        let mut store = h.kv.clone();
        let mut buf = vec![0u8; 8192];
        let (k_kv, g_kv, s_kv, v_kv) = {
            let mut fabrics = rs_matter::fabric::Fabrics::new();
            match fabrics.load_persist(&mut store, &mut buf) {
                Ok(()) => (keymap(&fabrics), gnames(&fabrics), keysets(&fabrics), vids(&fabrics)),
                Err(_) => ("ERR".to_string(), "ERR".to_string(), "ERR".to_string(), "ERR".to_string()),
            }
        };
        let bind_str = |b: &Bindings<8>| -> String {
            let mut v: Vec<String> = Vec::new();
            for i in 0..b.len() {
                if let Some(e) = b.get(i) {
                    v.push(format!("{}.{}", e.fab_idx.get(), e.node.unwrap_or(0)));
                }
            }
            v.join(";")
        };
        let b_mem = bind_str(&bindings);
        let b_kv = {
            let fresh: Bindings<8> = Bindings::new();
            match fresh.load_persist(&mut store, &mut buf) {
                Ok(()) => bind_str(&fresh),
                Err(_) => "ERR".to_string(),
            }
        };
        let ul_str = |l: &UserLabels<1, 4>| -> String {
            l.verif_values(EXT_ENDPOINT).join(";")
        };
        let ul_mem = ul_str(&labels);
        let ul_kv = {
            let fresh: UserLabels<1, 4> = UserLabels::new();
            match fresh.load_persist(&mut store, &mut buf) {
                Ok(()) => ul_str(&fresh),
                Err(_) => "ERR".to_string(),
            }
        };
        let nl = |s: &str| if s.is_empty() { "-".to_string() } else { s.to_string() };
        let nl_mem = device.with_state(|state| nl(state.verif_node_label()));
        let nl_kv = {
            let mut bi = rs_matter::dm::clusters::basic_info::BasicInfoSettings::new();
            match bi.load_persist(&mut store, &mut buf) {
                Ok(()) => nl(bi.node_label.as_str()),
                Err(_) => "ERR".to_string(),
            }
        };
        let mut subs: Vec<String> = Vec::new();
        let mut cancelled = false;
        im_state.verif_subscriptions().verif_visit(&mut |it| {
            // A subscription whose report is in flight is outside the table for that time; it
            // counts unless it has been cancelled (then it is dropped when the attempt ends).
            use rs_matter::im::subscriptions::VerifItem;
            match it {
                VerifItem::Counters { reporting_cancelled, .. } => cancelled = reporting_cancelled,
                VerifItem::Sub(v) => subs.push(format!("{}.{}", v.fab_idx, v.peer_node_id)),
                VerifItem::Reporting(v) if !cancelled => {
                    subs.push(format!("{}.{}", v.fab_idx, v.peer_node_id))
                }
                _ => {}
            }
        });
        subs.sort();
        let mut ksubs: Vec<String> = Vec::new();
        for (k, v) in h.kv.0.borrow().map.iter() {
            if *k >= PERSISTENT_SUBSCRIPTIONS_START && *k < PERSISTENT_SUBSCRIPTIONS_END {
                let e = TLVElement::new(v.as_slice());
                let fab = e.structure().and_then(|s| s.ctx(0)).and_then(|x| x.u8()).unwrap_or(0);
                let peer = e.structure().and_then(|s| s.ctx(1)).and_then(|x| x.u64()).unwrap_or(0);
                ksubs.push(format!("{}.{}", fab, peer));
            }
        }
        ksubs.sort();
        format!(
            "{} X{{K[{}] KK[{}] G[{}] KG[{}] KS[{}] KKS[{}] V[{}] KV[{}] B[{}] KB[{}] UL[{}] KUL[{}] NL[{}] KNL[{}] SUB[{}] KSUB[{}]}}",
            core, k_mem, k_kv, g_mem, g_kv, s_mem, s_kv, v_mem, v_kv, b_mem, b_kv, ul_mem, ul_kv, nl_mem, nl_kv, subs.join(";"), ksubs.join(";")
        )
    };

    let end: RefCell<BootEnd> = RefCell::new(BootEnd::Finished);

    let flow = async {
        if restarted {
            // `Matter::startup` + `InteractionModel::startup`
            let r1 = device.startup(&kv);
            let r2 = dm.startup().await;
            let st = match (r1, r2) {
                (Ok(()), Ok(())) => "ok".to_string(),
                _ => "rej".to_string(),
            };
            let op = ops[start - 1].clone();
            Timer::after(Duration::from_millis(5)).await;
            lines.borrow_mut().push((op, format!("{} | {}", st, dump())));
        }
        let mut next_local_sess: u16 = 1;
        let mut tick_dropped: Option<String> = None;
        let mut i = start;
        while i < ops.len() {
            let op = ops[i].clone();
            let w: Vec<&str> = op.split_whitespace().collect();
            i += 1;
            if w.is_empty() {
                continue;
            }
            // restarts end this boot
            match w[0] {
                "restart" => {
                    let map = h.kv.0.borrow().map.clone();
                    *end.borrow_mut() = BootEnd::Restart(i, map);
                    return;
                }
                "crash" => {
                    let n = (num(&w, 1) as usize).min(h.kv.0.borrow().log.len());
                    let mut map: BTreeMap<u16, Vec<u8>> = h.kv.0.borrow().map.iter().filter(|(k, _)| !tracked_key(**k)).map(|(k, v)| (*k, v.clone())).collect();
                    for (k, v) in h.kv.0.borrow().log.iter().take(n) {
                        match v {
                            Some(d) => {
                                map.insert(*k, d.clone());
                            }
                            None => {
                                map.remove(k);
                            }
                        }
                    }
                    h.kv.0.borrow_mut().log.truncate(n);
                    *end.borrow_mut() = BootEnd::Restart(i, map);
                    return;
                }
                _ => {}
            }
            let sess_ops = ["open", "arm", "csr", "root", "addnoc", "updnoc", "label", "complete", "rmfab", "revoke", "acl", "net", "rmnet", "bcw", "gkm", "nlabel", "ulabel", "bind", "sub", "addgrp", "ksw", "vvs"];
            let sid = num(&w, 1) as u32;
            let mut mode = SessionMode::PlainText;
            let mut sess_local: u16 = 0;
            if sess_ops.contains(&w[0]) {
                let info = device.with_state(|state| {
                    let p = state.verif_parts();
                    let x = p.sessions.iter().find(|s| s.id() == sid).map(|s| (s.get_session_mode().clone(), s.verif_is_expired(), s.get_local_sess_id()));
                    x
                });
                match info {
                    None => {
                        lines.borrow_mut().push((op, format!("nosess | {}", dump())));
                        continue;
                    }
                    Some((_, true, _)) => {
                        lines.borrow_mut().push((op, format!("expired | {}", dump())));
                        continue;
                    }
                    Some((m, false, l)) => {
                        mode = m;
                        sess_local = l;
                    }
                }
            }
            let fab1 = NonZeroU8::new(1).unwrap();
            let faults_before = h.kv.0.borrow().failed_calls;
            let t_op = crate::simnet::now_ms();
            let status: String = match w[0] {
                "boot" => {
                    let r = device.open_basic_comm_window(900, &crypto, &());
                    if r.is_ok() { "ok".into() } else { "rej".into() }
                }
                "pase" | "cest" | "resume" => {
                    // install a session pair (device side: the wanted mode; controller side: a CASE
                    // session towards a distinct peer id so that `Exchange::initiate` can address it)
                    let want: Result<(SessionMode, u64), &'static str> = device.with_state(|state| {
                        let p = state.verif_parts();
                        match w[0] {
                            "pase" => {
                                if p.pase.comm_window().is_none() {
                                    Err("nowin")
                                } else {
                                    Ok((SessionMode::Pase { fab_idx: 0 }, 0))
                                }
                            }
                            "cest" => match NonZeroU8::new(num(&w, 1) as u8) {
                                Some(fi) if p.fabrics.get(fi).is_some() => Ok((SessionMode::Case { fab_idx: fi, cat_ids: NocCatIds::default() }, num(&w, 2))),
                                _ => Err("nofab"),
                            },
                            _ => match p.resumption.find_by_resumption_id(&rid16(num(&w, 1))).cloned() {
                                None => Err("norec"),
                                Some(rec) => {
                                    if p.fabrics.get(rec.fab_idx).is_none() {
                                        Err("Invalid")
                                    } else {
                                        Ok((SessionMode::Case { fab_idx: rec.fab_idx, cat_ids: rec.peer_cat_ids }, rec.peer_nodeid))
                                    }
                                }
                            },
                        }
                    });
                    match want {
                        Err(e) => e.to_string(),
                        Ok((m, peer)) => {
                            // the controller keeps one session per device session ever made: forget
                            // those whose device side is gone, so that its table does not fill up
                            let live: Vec<u16> = device.with_state(|state| {
                                let p = state.verif_parts();
                                let x = p.sessions.iter().map(|s| s.get_local_sess_id()).collect();
                                x
                            });
                            controller.with_state(|state| {
                                let p = state.verif_parts();
                                let dead: Vec<u32> = p.sessions.iter().filter(|s| !live.contains(&s.get_peer_sess_id())).map(|s| s.id()).collect();
                                for id in dead {
                                    p.sessions.remove(id);
                                }
                            });
                            let r: Result<u32, Error> = (|| {
                                let dev_local = next_local_sess;
                                let ctl_local = next_local_sess + 1000;
                                next_local_sess += 1;
                                let mut dsess = ReservedSession::reserve_now(&device, &crypto)?;
                                let att = AttChallenge::new();
                                dsess.update(ctl_peer(dev_local), peer, ctl_local, dev_local, addr_of(1), m.clone(), None, None, Some(att.reference()), None)?;
                                dsess.complete();
                                let id = device.with_state(|state| {
                                    let p = state.verif_parts();
                                    let x = p.sessions.iter().find(|s| s.get_local_sess_id() == dev_local).map(|s| s.id()).unwrap_or(u32::MAX);
                                    x
                                });
                                let mut csess = ReservedSession::reserve_now(&controller, &crypto)?;
                                csess.update(peer, ctl_peer(dev_local), dev_local, ctl_local, addr_of(0), SessionMode::Case { fab_idx: fab1, cat_ids: NocCatIds::default() }, None, None, None, None)?;
                                csess.complete();
                                Ok(id)
                            })();
                            match r {
                                Ok(id) => {
                                    device.with_state(|state| {
                                        let p = state.verif_parts();
                                        if let SessionMode::Case { fab_idx, .. } = &m {
                                            let newrid = if w[0] == "cest" { num(&w, 3) } else { num(&w, 2) };
                                            p.resumption.insert_or_update(ResumableSession::verif_new(*fab_idx, peer, rid16(newrid)));
                                        }
                                    });
                                    format!("s{}", id)
                                }
                                Err(_) => "rej".into(),
                            }
                        }
                    }
                }
                "tick" => {
                    // While the time passes the subscription reporter runs as well. A report to a
                    // subscriber that does not answer fails, and the reporter then drops the session
                    // it used (im.rs `process_subscriptions`, the `Err` branch) - an event from outside
                    // the administrative logic. It is named on the op line (`tick <secs> <sid>...`):
                    // the CASE sessions to a (fabric, node) with a subscription that went away meanwhile.
                    let mut subs: Vec<(u8, u64)> = Vec::new();
                    im_state.verif_subscriptions().verif_visit(&mut |it| {
                        use rs_matter::im::subscriptions::VerifItem;
                        match it {
                            VerifItem::Sub(v) | VerifItem::Reporting(v) => subs.push((v.fab_idx, v.peer_node_id)),
                            _ => {}
                        }
                    });
                    let case_sessions = || -> Vec<(u32, u8, u64)> {
                        device.with_state(|state| {
                            state
                                .verif_parts()
                                .sessions
                                .iter()
                                .filter_map(|s| match s.get_session_mode() {
                                    SessionMode::Case { fab_idx, .. } => Some((s.id(), fab_idx.get(), s.get_peer_node_id().unwrap_or(0))),
                                    _ => None,
                                })
                                .collect()
                        })
                    };
                    let before = case_sessions();
                    Timer::after(Duration::from_secs(num(&w, 1))).await;
                    let after = case_sessions();
                    let mut gone: Vec<u32> = before
                        .iter()
                        .filter(|(id, fab, peer)| subs.contains(&(*fab, *peer)) && !after.iter().any(|a| a.0 == *id))
                        .map(|x| x.0)
                        .collect();
                    gone.sort();
                    if !gone.is_empty() {
                        tick_dropped = Some(format!("tick {} {}", w[1], gone.iter().map(|x| x.to_string()).collect::<Vec<_>>().join(" ")));
                    }
                    "ok".into()
                }
                "poll" => "ok".into(),
                "flush" => {
                    let r = device.with_state(|state| state.verif_store_resumption(&kv));
                    if r.is_ok() { "ok".into() } else { "rej".into() }
                }
                "kvfail" => {
                    h.kv.0.borrow_mut().fail_in = num(&w, 1).min(3) as u32;
                    "ok".into()
                }
                _ => {
                    // a command over session `sid`
                    let ex = Exchange::initiate(&controller, &crypto, fab1, ctl_peer(sess_local)).await;
                    let r: Result<String, Error> = match ex {
                        Err(e) => Err(e),
                        Ok(exchange) => match w[0] {
                            "arm" => {
                                let secs = num(&w, 2) as u16;
                                async {
                                    let handle = exchange
                                        .general_commissioning()
                                        .arm_fail_safe(ROOT_ENDPOINT_ID, |req| req.expiry_length_seconds(secs)?.breadcrumb(secs as u64)?.end())
                                        .await?;
                                    let code = handle.response()?.error_code()?;
                                    handle.complete().await?;
                                    Ok(if code == CommissioningErrorEnum::OK { "ok".to_string() } else { "rej".to_string() })
                                }
                                .await
                            }
                            "complete" => {
                                async {
                                    let handle = exchange.general_commissioning().commissioning_complete(ROOT_ENDPOINT_ID).await?;
                                    let code = handle.response()?.error_code()?;
                                    handle.complete().await?;
                                    Ok(if code == CommissioningErrorEnum::OK { "ok".to_string() } else { "rej".to_string() })
                                }
                                .await
                            }
                            "csr" => {
                                let upd = num(&w, 2) == 1;
                                let nonce = [7u8; 32];
                                async {
                                    let handle = exchange
                                        .operational_credentials()
                                        .csr_request(ROOT_ENDPOINT_ID, |req| req.csr_nonce(OctetStr::new(&nonce))?.is_for_update_noc(if upd { Some(true) } else { None })?.end())
                                        .await?;
                                    let _ = handle.response()?.nocsr_elements()?;
                                    handle.complete().await?;
                                    Ok("ok".to_string())
                                }
                                .await
                            }
                            "root" => {
                                // OperationalCredentials (0x3E) AddTrustedRootCertificate (0x0B)
                                let ca = (num(&w, 2) as usize).clamp(1, h.cas.len()) - 1;
                                let rcac = h.cas[ca].rcac().to_vec();
                                invoke_status(exchange, false, 0x3e, 0x0b, Field::Str(rcac)).await
                            }
                            "addnoc" => {
                                let ca = (num(&w, 2) as usize).clamp(1, h.cas.len()) - 1;
                                let (fid, node, subj, serial) = (num(&w, 3), num(&w, 4), num(&w, 5), num(&w, 6));
                                let pk = csr_pubkey(&device);
                                let noc = make_noc_for(&crypto, &h.cas[ca], ca as u64 + 1, fid, node, serial, &pk);
                                h.noc_serial.borrow_mut().insert(noc.clone(), serial);
                                let ipk = [0x5au8; 16];
                                async {
                                    let handle = exchange
                                        .operational_credentials()
                                        .add_noc(ROOT_ENDPOINT_ID, |req| {
                                            req.noc_value(OctetStr::new(&noc))?.icac_value(None)?.ipk_value(OctetStr::new(&ipk))?.case_admin_subject(subj)?.admin_vendor_id(0xfff1)?.end()
                                        })
                                        .await?;
                                    let (st, idx) = {
                                        let resp = handle.response()?;
                                        (resp.status_code()?, resp.fabric_index()?)
                                    };
                                    handle.complete().await?;
                                    Ok(if st == NodeOperationalCertStatusEnum::OK { format!("ok{}", idx.unwrap_or(0)) } else { "rej".to_string() })
                                }
                                .await
                            }
                            "updnoc" => {
                                let (node, serial) = (num(&w, 2), num(&w, 3));
                                let pk = csr_pubkey(&device);
                                let sfab = mode.fab_idx();
                                let info = device.with_state(|state| {
                                    let p = state.verif_parts();
                                    let x = NonZeroU8::new(sfab).and_then(|f| p.fabrics.get(f)).map(|f| (f.root_ca().to_vec(), f.fabric_id()));
                                    x
                                });
                                let (ca, fid) = match info {
                                    Some((root, fid)) => (h.cas.iter().position(|c| c.rcac() == root.as_slice()).unwrap_or(0), fid),
                                    None => (0, 1),
                                };
                                let noc = make_noc_for(&crypto, &h.cas[ca], ca as u64 + 1, fid, node, serial, &pk);
                                h.noc_serial.borrow_mut().insert(noc.clone(), serial);
                                async {
                                    let handle = exchange
                                        .operational_credentials()
                                        .update_noc(ROOT_ENDPOINT_ID, |req| req.noc_value(OctetStr::new(&noc))?.icac_value(None)?.end())
                                        .await?;
                                    let st = handle.response()?.status_code()?;
                                    handle.complete().await?;
                                    Ok(if st == NodeOperationalCertStatusEnum::OK { "ok".to_string() } else { "rej".to_string() })
                                }
                                .await
                            }
                            "label" => {
                                let label = format!("L{}", num(&w, 2));
                                async {
                                    let handle = exchange.operational_credentials().update_fabric_label(ROOT_ENDPOINT_ID, |req| req.label(&label)?.end()).await?;
                                    let st = handle.response()?.status_code()?;
                                    handle.complete().await?;
                                    Ok(if st == NodeOperationalCertStatusEnum::OK { "ok".to_string() } else { "rej".to_string() })
                                }
                                .await
                            }
                            "rmfab" => {
                                let idx = num(&w, 2) as u8;
                                async {
                                    let handle = exchange.operational_credentials().remove_fabric(ROOT_ENDPOINT_ID, |req| req.fabric_index(idx)?.end()).await?;
                                    let st = handle.response()?.status_code()?;
                                    handle.complete().await?;
                                    Ok(if st == NodeOperationalCertStatusEnum::OK { "ok".to_string() } else { "rej".to_string() })
                                }
                                .await
                            }
                            "acl" => {
                                // AccessControl (0x1F) ACL (0): the whole list = the entries there are + one
                                // admin / CASE entry for subject <v> (a list write replaces)
                                let v = num(&w, 2);
                                let sfab = mode.fab_idx();
                                let mut subs: Vec<Vec<u64>> = device.with_state(|state| {
                                    let p = state.verif_parts();
                                    let x = NonZeroU8::new(sfab)
                                        .and_then(|f| p.fabrics.get(f))
                                        .map(|f| f.acl_iter().map(|e| e.subjects().into_option().map(|s| s.iter().copied().collect()).unwrap_or_default()).collect())
                                        .unwrap_or_default();
                                    x
                                });
                                subs.push(vec![v]);
                                write_attr!(exchange, ROOT_ENDPOINT_ID, 0x1f, 0, |wr| {
                                    wr.start_array(&TLVTag::Context(AttrDataTag::Data as u8))?;
                                    for e in &subs {
                                        wr.start_struct(&TLVTag::Anonymous)?;
                                        wr.u8(&TLVTag::Context(1), 5)?;
                                        wr.u8(&TLVTag::Context(2), 2)?;
                                        wr.start_array(&TLVTag::Context(3))?;
                                        for x in e {
                                            wr.u64(&TLVTag::Anonymous, *x)?;
                                        }
                                        wr.end_container()?;
                                        wr.null(&TLVTag::Context(4))?;
                                        wr.end_container()?;
                                    }
                                    wr.end_container()
                                })
                                .await
                            }
                            "gkm" => {
                                // GroupKeyManagement (0x3F) GroupKeyMap (0): the list [(group <v> -> key set 1)]
                                let ids: Vec<u16> = vec![num(&w, 2) as u16];
                                write_attr!(exchange, ROOT_ENDPOINT_ID, 0x3f, 0, |wr| {
                                    wr.start_array(&TLVTag::Context(AttrDataTag::Data as u8))?;
                                    for g in &ids {
                                        wr.start_struct(&TLVTag::Anonymous)?;
                                        wr.u16(&TLVTag::Context(1), *g)?;
                                        wr.u16(&TLVTag::Context(2), 1)?;
                                        wr.end_container()?;
                                    }
                                    wr.end_container()
                                })
                                .await
                            }
                            "addgrp" => {
                                // Groups (0x04) AddGroup (0x00) on endpoint 1: group <gid>, name g<n>. Refused
                                // (UnsupportedAccess) unless the group key map of the fabric has an entry for
                                // the group; a second AddGroup for the same endpoint / group re-names the group
                                let gid = num(&w, 2) as u16;
                                let name = format!("g{}", num(&w, 3));
                                invoke_raw!(exchange, EXT_ENDPOINT, 0x04, 0x00, |wr| {
                                    wr.u16(&TLVTag::Context(0), gid)?;
                                    wr.utf8(&TLVTag::Context(1), &name)
                                })
                                .await
                            }
                            "vvs" => {
                                // OperationalCredentials (0x3E) SetVIDVerificationStatement (0x0C): the vendor id
                                // field alone (1 + <v>; the statement and the VVSC are left as they are)
                                let vid = 1 + (num(&w, 2) as u16 % 0xfff0);
                                invoke_raw!(exchange, ROOT_ENDPOINT_ID, 0x3e, 0x0c, |wr| wr.u16(&TLVTag::Context(0), vid)).await
                            }
                            "ksw" => {
                                // GroupKeyManagement (0x3F) KeySetWrite (0x00): key set <id> with one epoch key
                                // made of the byte <v>, start time 1 + <v> (a second write of the id overwrites)
                                let id = num(&w, 2) as u16;
                                let v = num(&w, 3);
                                let key = [v as u8; 16];
                                invoke_raw!(exchange, ROOT_ENDPOINT_ID, 0x3f, 0x00, |wr| {
                                    wr.start_struct(&TLVTag::Context(0))?;
                                    wr.u16(&TLVTag::Context(0), id)?;
                                    wr.u8(&TLVTag::Context(1), 0)?;
                                    wr.str(&TLVTag::Context(2), &key)?;
                                    wr.u64(&TLVTag::Context(3), 1 + v)?;
                                    wr.null(&TLVTag::Context(4))?;
                                    wr.null(&TLVTag::Context(5))?;
                                    wr.null(&TLVTag::Context(6))?;
                                    wr.null(&TLVTag::Context(7))?;
                                    wr.end_container()
                                })
                                .await
                            }
                            "bind" => {
                                // Binding (0x1E) Binding (0) on endpoint 1: this fabric's list becomes [node target <v>]
                                let nodes: Vec<u64> = vec![num(&w, 2)];
                                write_attr!(exchange, EXT_ENDPOINT, 0x1e, 0, |wr| {
                                    wr.start_array(&TLVTag::Context(AttrDataTag::Data as u8))?;
                                    for n in &nodes {
                                        wr.start_struct(&TLVTag::Anonymous)?;
                                        wr.u64(&TLVTag::Context(1), *n)?;
                                        wr.u16(&TLVTag::Context(3), 1)?;
                                        wr.end_container()?;
                                    }
                                    wr.end_container()
                                })
                                .await
                            }
                            "ulabel" => {
                                // UserLabel (0x41) LabelList (0) on endpoint 1: one label
                                let v = format!("u{}", num(&w, 2));
                                write_attr!(exchange, EXT_ENDPOINT, 0x41, 0, |wr| {
                                    wr.start_array(&TLVTag::Context(AttrDataTag::Data as u8))?;
                                    wr.start_struct(&TLVTag::Anonymous)?;
                                    wr.utf8(&TLVTag::Context(0), "k")?;
                                    wr.utf8(&TLVTag::Context(1), &v)?;
                                    wr.end_container()?;
                                    wr.end_container()
                                })
                                .await
                            }
                            "nlabel" => {
                                // BasicInformation (0x28) NodeLabel (5)
                                let v = format!("n{}", num(&w, 2));
                                write_attr!(exchange, ROOT_ENDPOINT_ID, 0x28, 5, |wr| wr.utf8(&TLVTag::Context(AttrDataTag::Data as u8), &v)).await
                            }
                            "bcw" => {
                                // GeneralCommissioning (0x30) Breadcrumb (0)
                                let v = num(&w, 2);
                                write_attr!(exchange, ROOT_ENDPOINT_ID, 0x30, 0, |wr| wr.u64(&TLVTag::Context(AttrDataTag::Data as u8), v)).await
                            }
                            "net" => {
                                // NetworkCommissioning (0x31) AddOrUpdateWiFiNetwork (0x02)
                                let id = format!("net{}", num(&w, 2)).into_bytes();
                                invoke_status2(exchange, 0x31, 0x02, vec![Field::Str(id), Field::Str(b"pw".to_vec())]).await
                            }
                            "rmnet" => {
                                // NetworkCommissioning (0x31) RemoveNetwork (0x04)
                                let id = format!("net{}", num(&w, 2)).into_bytes();
                                invoke_status2(exchange, 0x31, 0x04, vec![Field::Str(id)]).await
                            }
                            "sub" => {
                                // Subscribe to BasicInformation NodeLabel, never due within a case
                                let paths = [AttrPath::from_gp(&GenericPath::new(Some(0), Some(0x28), Some(5)))];
                                async {
                                    let mut sender = exchange.subscribe_sender().await?;
                                    let mut chunk = loop {
                                        match sender.tx().await? {
                                            TxOutcome::BuildRequest(builder) => {
                                                sender = builder.keep_subs(true)?.min_int_floor(3000)?.max_int_ceil(3600)?.attr_requests_from(&paths)?.fabric_filtered(false)?.end()?;
                                            }
                                            TxOutcome::GotResponse(c) => break c,
                                        }
                                    };
                                    loop {
                                        let _ = chunk.response()?;
                                        match chunk.complete().await? {
                                            SubscribeOutcome::NextChunk(next) => chunk = next,
                                            SubscribeOutcome::Established(_) => break,
                                        }
                                    }
                                    // the server enters (and persists) the subscription right after its response
                                    Timer::after(Duration::from_millis(200)).await;
                                    Ok("ok".to_string())
                                }
                                .await
                            }
                            // AdministratorCommissioning (0x3C): OpenBasicCommissioningWindow (0x01) and
                            // RevokeCommissioning (0x02) must be timed invokes
                            "open" => invoke_status(exchange, true, 0x3c, 0x01, Field::U16(300)).await,
                            "revoke" => invoke_status(exchange, true, 0x3c, 0x02, Field::None).await,
                            _ => Ok("bad".to_string()),
                        },
                    };
                    match r {
                        Ok(s) => s,
                        Err(e) => {
                            if std::env::var("VH_DEBUG").is_ok() {
                                eprintln!("op `{}` failed: {:?}", op, e);
                            }
                            "rej".into()
                        }
                    }
                }
            };
            let status = if status == "rej" && h.kv.0.borrow().failed_calls != faults_before { "NoSpace".to_string() } else { status };
            let slow = w[0] != "tick" && crate::simnet::now_ms() - t_op > 900;
            // let the tasks the op has woken run (the subscription reporter drops the subscriptions of a
            // fabric that is gone and purges their persisted records) before the state is dumped
            Timer::after(Duration::from_millis(5)).await;
            if !slow {
                // (a replayed `tick <secs> <sid>...` line is re-derived, not believed)
                let op = if w[0] == "tick" { tick_dropped.take().unwrap_or(format!("tick {}", w[1])) } else { op };
                lines.borrow_mut().push((op, format!("{} | {}", status, dump())));
            }
            if slow {
                // an exchange that ran into retransmissions / time-outs cost virtual seconds the
                // model does not know about: the fail-safe and window deadlines of the rest of the
                // history would no longer be comparable - the case ends here
                lines.borrow_mut().push(("#".into(), "stat h_truncated_after_slow_op 1".into()));
                return;
            }
        }
    };

    let all = async {
        let dev = device.run(&crypto, &ds, &ds, NoNetwork);
        let ctl = controller.run(&crypto, &cs, &cs, NoNetwork);
        let srv = select(responder.run::<4>(), dm.run());
        // watchdog: a datagram storm (zero virtual time, unbounded wire log) must end the boot
        let watchdog = core::future::poll_fn(|_cx| {
            if net.log_len() > 20_000 {
                core::task::Poll::Ready(())
            } else {
                core::task::Poll::Pending
            }
        });
        match select(select4(dev, ctl, srv, flow), watchdog).await {
            embassy_futures::select::Either::First(embassy_futures::select::Either4::Fourth(())) => true,
            _ => false,
        }
    };
    let budget: u64 = std::env::var("VH_HBUDGET").ok().and_then(|x| x.parse().ok()).unwrap_or(3_600_000 * 4);
    let res = run_sim(&net, all, budget);
    if std::env::var("VH_DEBUG").is_ok() {
        eprintln!("boot ended: datagrams={}", net.log_len());
        for l in net.log().iter().rev().take(12).rev() {
            eprintln!("  t={} {}->{} len={} {:?}", l.t_ms, l.from, l.to, l.bytes.len(), l.verdict);
        }
    }
    match res {
        SimEnd::Done(true) => {}
        _ => {
            lines.borrow_mut().push(("#".into(), "harness: a runner ended or the virtual time budget was exhausted".into()));
        }
    }
    end.into_inner()
}

/// a command that answers with a status only; `Ok("ok")` iff the status is Success
enum Field {
    None,
    Str(Vec<u8>),
    U16(u16),
}

async fn invoke_status<'a>(exchange: Exchange<'a>, timed: bool, cluster: u32, cmd: u32, field0: Field) -> Result<String, Error> {
    let chunk = exchange
        .invoke_with(if timed { Some(5000) } else { None }, |msg| {
            msg.suppress_response(false)?
                .timed_request(timed)?
                .invoke_requests()?
                .push()?
                .path(ROOT_ENDPOINT_ID, cluster, cmd)?
                .data(|w| {
                    w.start_struct(&TLVTag::Context(CmdDataTag::Data as u8))?;
                    match &field0 {
                        Field::None => {}
                        Field::Str(b) => w.str(&TLVTag::Context(0), b)?,
                        Field::U16(v) => w.u16(&TLVTag::Context(0), *v)?,
                    }
                    w.end_container()
                })?
                .end()?
                .end()?
                .end()
        })
        .await?;
    let mut good = chunk.is_status_only();
    if let Some(resp) = chunk.response()? {
        if let Some(list) = resp.invoke_responses {
            let mut all = true;
            let mut any = false;
            for r in list.iter().take(8) {
                any = true;
                match r? {
                    CmdResp::Status(st) => all &= st.status.status == IMStatusCode::Success,
                    CmdResp::Cmd(_) => {}
                }
            }
            good = any && all;
        }
    }
    chunk.complete().await?;
    Ok(if good { "ok".to_string() } else { "rej".to_string() })
}

/// a command with octet-string fields that answers with a response struct whose field 0 is a status
/// (0 = Success) - or with an IM status
async fn invoke_status2<'a>(exchange: Exchange<'a>, cluster: u32, cmd: u32, fields: Vec<Field>) -> Result<String, Error> {
    let chunk = exchange
        .invoke_with(None, |msg| {
            msg.suppress_response(false)?
                .timed_request(false)?
                .invoke_requests()?
                .push()?
                .path(ROOT_ENDPOINT_ID, cluster, cmd)?
                .data(|w| {
                    w.start_struct(&TLVTag::Context(CmdDataTag::Data as u8))?;
                    for (i, f) in fields.iter().enumerate() {
                        match f {
                            Field::None => {}
                            Field::Str(b) => w.str(&TLVTag::Context(i as u8), b)?,
                            Field::U16(v) => w.u16(&TLVTag::Context(i as u8), *v)?,
                        }
                    }
                    w.end_container()
                })?
                .end()?
                .end()?
                .end()
        })
        .await?;
    let mut good = false;
    if let Some(resp) = chunk.response()? {
        if let Some(list) = resp.invoke_responses {
            for r in list.iter().take(4) {
                match r? {
                    CmdResp::Status(st) => good = st.status.status == IMStatusCode::Success,
                    CmdResp::Cmd(c) => {
                        good = c.data.structure().and_then(|s| s.ctx(0)).and_then(|x| x.u8()).map(|x| x == 0).unwrap_or(false);
                    }
                }
            }
        }
    }
    chunk.complete().await?;
    Ok(if good { "ok".to_string() } else { "rej".to_string() })
}

fn csr_pubkey(device: &Matter<'_>) -> CanonPkcPublicKey {
    let crypto = test_only_crypto();
    let mut pk = CanonPkcPublicKey::new();
    device.with_state(|state| {
        let p = state.verif_parts();
        if let Ok(sk) = crypto.secret_key(p.failsafe.verif_secret_key()) {
            if let Ok(pubk) = sk.pub_key() {
                let _ = pubk.write_canon(&mut pk);
            }
        }
    });
    pk
}

pub fn run_case_h(out: &mut Out, cas: &Rc<Vec<Ca>>, case: &Case) {
    out.case(case.id, &format!("{} h=1", header()));
    let h = HCtx { kv: Kv::default(), cas: cas.clone(), noc_serial: RefCell::new(Default::default()) };
    h.kv.0.borrow_mut().h_mode = true;
    let lines: RefCell<Vec<(String, String)>> = RefCell::new(Vec::new());
    let mut start = 0;
    let mut restarted = false;
    loop {
        match run_boot(&h, &case.ops, start, restarted, &lines) {
            BootEnd::Finished => break,
            BootEnd::Restart(next, map) => {
                {
                    let mut i = h.kv.0.borrow_mut();
                    i.map = map;
                    i.fail_in = 0;
                }
                start = next;
                restarted = true;
                if start > case.ops.len() {
                    break;
                }
            }
        }
    }
    for (op, res) in lines.into_inner() {
        if op == "#" {
            out.buf.push_str(&format!("#{}{}\n", if res.starts_with("stat ") { "" } else { " " }, res));
        } else {
            out.op(&op, &res);
        }
    }
}
