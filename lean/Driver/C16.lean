import RsMatterVerif.Model.Tlv
import RsMatterVerif.Model.TlvSchema
import Driver.Util
/-! Driver for C16: runs `Model/Tlv` on the harness lines and evaluates the property's
specification on the *implementation's* outputs (never `panic`, never `hang`, reported lengths and
slices inside the input, iterators finite and ending at the first error, re-encoding reproduces the
bytes, written trees / derived structures decode back to what was written). -/
namespace Driver.C16
open Tlv

/-! ### text helpers -/
def hexDigit (c : Char) : Option Nat :=
  if '0' ≤ c ∧ c ≤ '9' then some (c.toNat - '0'.toNat)
  else if 'a' ≤ c ∧ c ≤ 'f' then some (c.toNat - 'a'.toNat + 10)
  else none

def unhexL : List Char → Option Bytes
  | [] => some []
  | a :: b :: r => do
    let x ← hexDigit a
    let y ← hexDigit b
    let t ← unhexL r
    pure (UInt8.ofNat (x * 16 + y) :: t)
  | _ => none

def unhex (s : String) : Option Bytes := if s = "-" then some [] else unhexL s.toList

def hexChar (n : Nat) : Char := if n < 10 then Char.ofNat (48 + n) else Char.ofNat (87 + n)
def hex (b : Bytes) : String :=
  if b.isEmpty then "-" else String.ofList (b.flatMap fun x => [hexChar (x.toNat / 16), hexChar (x.toNat % 16)])

def errName : Err → String
  | .mismatch => "mismatch" | .invalidData => "invalidData" | .invalid => "invalid"
  | .notFound => "notFound" | .depth => "depth"

def fmtRes {α : Type} (r : Res α) (f : α → String) : String :=
  match r with
  | .ok a => let s := f a; if s = "" then "ok" else "ok:" ++ s
  | .err e => "e:" ++ errName e
  | .panic .fuel => "hang"
  | .panic _ => "panic"

def tagTok : Tag → String
  | .anon => "a" | .ctx n => s!"c:{n}" | .commonPrf16 n => s!"cp16:{n}" | .commonPrf32 n => s!"cp32:{n}"
  | .implPrf16 n => s!"ip16:{n}" | .implPrf32 n => s!"ip32:{n}"
  | .fullQual48 v p t => s!"q48:{v}:{p}:{t}" | .fullQual64 v p t => s!"q64:{v}:{p}:{t}"

def primTok : Prim → String
  | .sint w i => s!"s{w.bytes}:{i}" | .uint w n => s!"u{w.bytes}:{n}"
  | .bool true => "T" | .bool false => "F"
  | .f32 b => s!"f4:{b}" | .f64 b => s!"f8:{b}"
  | .utf8 w b => s!"t{w.bytes}:{hex b}" | .str w b => s!"o{w.bytes}:{hex b}" | .null => "N"

def kindTok : Kind → String
  | .struct => "{S" | .array => "{A" | .list => "{L"

def tvalTok : TVal → String
  | .prim p => primTok p | .cont k => kindTok k | .endCnt => "}"

mutual
def valueToks : Value → List String
  | .leaf t p => [tagTok t, primTok p]
  | .cont t k cs => [tagTok t, kindTok k] ++ valuesToks cs ++ ["}"]
def valuesToks : Values → List String
  | .nil => []
  | .cons v vs => valueToks v ++ valuesToks vs
end

def treeStr (v : Value) : String := " ".intercalate (valueToks v)

/-! ### tree parser (tokens of the harness) -/
def parseTag (s : String) : Option Tag :=
  match s.splitOn ":" with
  | ["a"] => some .anon
  | ["c", n] => n.toNat?.map .ctx
  | ["cp16", n] => n.toNat?.map .commonPrf16
  | ["cp32", n] => n.toNat?.map .commonPrf32
  | ["ip16", n] => n.toNat?.map .implPrf16
  | ["ip32", n] => n.toNat?.map .implPrf32
  | ["q48", v, p, t] => do pure (.fullQual48 (← v.toNat?) (← p.toNat?) (← t.toNat?))
  | ["q64", v, p, t] => do pure (.fullQual64 (← v.toNat?) (← p.toNat?) (← t.toNat?))
  | _ => none

def widthOf (s : String) : Option Width :=
  match s with
  | "1" => some .w1 | "2" => some .w2 | "4" => some .w4 | "8" => some .w8 | _ => none

/-- a leaf token; the writer-method forms (`ms*`, `mu*`, `mo`, `mt`, `co`, `ct`, `ds`, `du`) are
normalised to the explicit form the method produces (model of write.rs `i16..u64`, `str`, `utf8`,
`str_cb`, `utf8_cb`) -/
def parsePrim (s : String) : Option Prim :=
  match s.splitOn ":" with
  | ["T"] => some (.bool true)
  | ["F"] => some (.bool false)
  | ["N"] => some .null
  | [k, v] =>
    if k = "f4" then v.toNat?.map .f32
    else if k = "f8" then v.toNat?.map .f64
    else if k = "ds" then v.toInt?.map (.sint .w1)
    else if k = "du" then v.toNat?.map (.uint .w1)
    else if k = "ms2" ∨ k = "ms4" ∨ k = "ms8" then v.toInt?.map Prim.mkSint
    else if k = "mu2" ∨ k = "mu4" ∨ k = "mu8" then v.toNat?.map Prim.mkUint
    else if k = "mo" then (unhex v).map Prim.mkStr
    else if k = "mt" then (unhex v).map Prim.mkUtf8
    else if k = "co" then (unhex v).map fun b => .str (if b.length ≤ 255 then .w1 else .w2) b
    else if k = "ct" then (unhex v).map fun b => .utf8 (if b.length ≤ 255 then .w1 else .w2) b
    else
      let kind := k.take 1 |>.toString
      match widthOf (k.drop 1).toString with
      | none => none
      | some w =>
        if kind = "s" then v.toInt?.map (.sint w)
        else if kind = "u" then v.toNat?.map (.uint w)
        else if kind = "t" then (unhex v).map (.utf8 w)
        else if kind = "o" then (unhex v).map (.str w)
        else none
  | _ => none

/-- recursive descent on the token list; fuel = number of tokens -/
def parseNodes : Nat → List String → Bool → Option (Values × List String)
  | 0, _, _ => none
  | _ + 1, [], close => if close then none else some (.nil, [])
  | f + 1, t :: rest, close =>
    if t = "}" then (if close then some (.nil, rest) else none)
    else do
      let tag ← parseTag t
      match rest with
      | [] => none
      | v :: rest' =>
        if v.startsWith "{" then do
          let k ← (if v = "{S" then some Kind.struct else if v = "{A" then some Kind.array else if v = "{L" then some Kind.list else none)
          let (kids, r1) ← parseNodes f rest' true
          let (sibs, r2) ← parseNodes f r1 close
          pure (.cons (.cont tag k kids) sibs, r2)
        else do
          let p ← parsePrim v
          let (sibs, r2) ← parseNodes f rest' close
          pure (.cons (.leaf tag p) sibs, r2)

def parseTree (s : String) : Option Value :=
  let toks := words s
  match parseNodes (toks.length + 1) toks false with
  | some (.cons v .nil, []) => some v
  | _ => none

/-! ### oracle helpers (no model involved) -/
def isPrefixB : Bytes → Bytes → Bool
  | [], _ => true
  | _ :: _, [] => false
  | a :: as, b :: bs => a == b && isPrefixB as bs

def isInfixB (needle : Bytes) : Bytes → Bool
  | [] => needle.isEmpty
  | b :: bs => isPrefixB needle (b :: bs) || isInfixB needle bs

def okPayload (out : String) : Option String :=
  if out = "ok" then some "" else if out.startsWith "ok:" then some (out.drop 3).toString else none

/-- `[a,b,e:x]` → items -/
def listItems (out : String) : Option (List String) :=
  if out.startsWith "[" ∧ out.endsWith "]" then
    let inner := ((out.drop 1).dropEnd 1).toString
    some (if inner = "" then [] else inner.splitOn ",")
  else none

/-- iterator specification: finitely many items, elements are strictly shrinking suffixes of the
sequence, nothing follows an error -/
def iterSpec (items : List String) (bound : Nat) : Option String :=
  let rec go (prev : Nat) : List String → Option String
    | [] => none
    | x :: rest =>
      if x.startsWith "e:" then (if rest.isEmpty then none else some "items after an error (iterator not fused)")
      else match x.toNat? with
        | some n => if n < prev then go n rest else some s!"element of length {n} after one of length {prev}"
        | none => go prev rest
  go (bound + 1) items

structure St where
  kind : String := ""
  bytes : Bytes := []
  sname : String := ""
  /-- schema of the structure of an `s` case: a real wire structure (`TlvSchema.named`) or, for the
  harness' derive-shape structures (`@Name <declaration>`), the declaration numbered by `implicitTags` -/
  sty : Option TlvSchema.Ty := none
  /-- the schema is well-formed (distinct tags): only then the round-trip theorem / oracle applies -/
  swf : Bool := true
  /-- (hex written, canonical tree) of the `write`/`iterwrite` ops of this case -/
  written : List (String × String) := []
  /-- (hex, slots) of the `enc` ops of this case -/
  encoded : List (String × String) := []
  /-- implementation's `container_len` of this case, if seen -/
  clen : Option Nat := none

def natArg (ws : List String) : Nat := (ws.getD 1 "0").toNat?.getD 0

/-- the model's answer for an accessor op; `none` = no model for this op (oracle only) -/
def modelAcc (bs : Bytes) (ws : List String) : Option String :=
  let seq := containerOf bs
  let onSeq (f : Bytes → String) : String := match seq with | .ok s => f s | _ => "nc"
  match ws.getD 0 "" with
  | "control" => some <| fmtRes (control bs) fun c => s!"{c.tag.code},{c.vt.code}"
  | "tag" => some <| fmtRes (tagOf bs) tagTok
  | "value" => some <| fmtRes (valueOf bs) tvalTok
  | "raw_value" => some <| fmtRes (rawValue bs) hex
  | "container_len" => some <| fmtRes (containerLen bs) toString
  | "i8" => some <| fmtRes (i8 bs) toString
  | "u8" => some <| fmtRes (u8 bs) toString
  | "i16" => some <| fmtRes (i16 bs) toString
  | "u16" => some <| fmtRes (u16 bs) toString
  | "i32" => some <| fmtRes (i32 bs) toString
  | "u32" => some <| fmtRes (u32 bs) toString
  | "i64" => some <| fmtRes (i64 bs) toString
  | "u64" => some <| fmtRes (u64 bs) toString
  | "f32" => some <| fmtRes (f32 bs) toString
  | "f64" => some <| fmtRes (f64 bs) toString
  | "str" => some <| fmtRes (strOf bs) hex
  | "utf8" => some <| fmtRes (utf8Of bs) hex
  | "octets" => some <| fmtRes (octetsOf bs) hex
  | "bool" => some <| fmtRes (boolOf bs) fun b => if b then "1" else "0"
  | "null" => some <| fmtRes (nullOf bs) fun _ => ""
  | "is_container" => some <| fmtRes (isContainerOf bs) fun b => if b then "1" else "0"
  | "structure" => some <| fmtRes (structOf bs) fun s => toString s.length
  | "array" => some <| fmtRes (arrayOf bs) fun s => toString s.length
  | "list" => some <| fmtRes (listOf bs) fun s => toString s.length
  | "container" => some <| fmtRes (containerOf bs) fun s => toString s.length
  | "confirm_anon" => some <| fmtRes (confirmAnon bs) fun _ => ""
  | "ctx" => some <| fmtRes (ctxOf bs) toString
  | "try_ctx" => some <| fmtRes (tryCtx bs) fun o => match o with | some n => toString n | none => "none"
  | "is_empty" => some (if bs.isEmpty then "ok:1" else "ok:0")
  | "tree" => some <| fmtRes (decodeTree 40 bs) treeStr
  | "reencode" => some <| fmtRes (reencode bs) hex
  | "reencode_iter" => some <| fmtRes (reencodeIter bs) hex
  | "iter" => some <| onSeq fun s =>
      "[" ++ ",".intercalate ((elements s).map fun r => match r with
        | .ok e => toString e.length | .err e => "e:" ++ errName e | .panic .fuel => "hang" | .panic _ => "panic") ++ "]"
  | "tlviter" => some <| onSeq fun s =>
      "[" ++ ",".intercalate ((tlvElements s).map fun r => match r with
        | .ok (t, v) => tagTok t ++ "=" ++ tvalTok v | .err e => "e:" ++ errName e | .panic .fuel => "hang" | .panic _ => "panic") ++ "]"
  | "find_ctx" => some <| onSeq fun s => fmtRes (findCtx s (natArg ws)) fun e => toString e.length
  | "seq_ctx" => some <| onSeq fun s => fmtRes (seqCtx s (natArg ws)) fun e => toString e.length
  | "scan_ctx" => some <| onSeq fun s => fmtRes (scanCtx s (natArg ws)) fun (e, s') => s!"{e.length}:{s'.length}"
  | "seq_raw_value" => some <| onSeq fun s => fmtRes (rawValue s) hex
  | "fmt" => some <| match fmtOf bs with
      | .ok _ => "ok" | .err _ => "e:fmt" | .panic .fuel => "hang" | .panic _ => "panic"
  | "seq_fmt" => some <| onSeq fun s => match seqFmtOf s with
      | .ok _ => "ok" | .err _ => "e:fmt" | .panic .fuel => "hang" | .panic _ => "panic"
  | "tlv" => some <| fmtRes (tlvOf bs) fun (t, v) => tagTok t ++ "=" ++ tvalTok v
  | "total_len" => some <| fmtRes (totalLen bs) toString
  | _ => none

/-- specification of the property on one accessor output -/
def oracleAcc (st : St) (ws : List String) (out : String) : Option String :=
  let bs := st.bytes
  if out = "panic" then some "panic (arithmetic overflow / failed unwrap / out-of-range access) on untrusted input"
  else if (out.splitOn "hang").length > 1 then some "unbounded loop: iterator or accessor did not finish within len+2 steps"
  else
    let name := ws.getD 0 ""
    match okPayload out with
    | some p =>
      if name = "fmt_stack" then
        -- `Display` / `Debug` recurse once per nesting level: the stack they need on a message-sized input must
        -- fit a small task stack (64 KiB is already generous for the embedded targets of rs-matter)
        match p.toNat? with
        | some n => if bs.length ≤ 1280 ∧ n > 65536 then
              some s!"formatting (Display / Debug) an element of {bs.length} bytes took {n} bytes of stack: one recursion level per nesting level, a stack overflow (abort) on a smaller stack"
            else none
        | none => none
      else if name = "container_len" ∨ name = "total_len" then
        match p.toNat? with
        | some n => if n ≤ bs.length then none else some s!"reported element length {n} exceeds the input length {bs.length}"
        | none => none
      else if name = "raw_value" ∨ name = "str" ∨ name = "utf8" ∨ name = "octets" ∨ name = "seq_raw_value" then
        match unhex p with
        | some v => if isInfixB v bs then none else some "returned slice is not a sub-slice of the input"
        | none => none
      else if name = "structure" ∨ name = "array" ∨ name = "list" ∨ name = "container" then
        match p.toNat? with
        | some n => if n < bs.length then none else some "container content not inside the input"
        | none => none
      else if name = "reencode" ∨ name = "reencode_iter" then
        match unhex p with
        | some v =>
          if !isPrefixB v bs then some "re-encoding a decoded element does not reproduce its bytes"
          else match st.clen with
            | some n =>
              -- an end-of-container marker is not an element (read.rs: "formally speaking, is not a TLVElement")
              let isEnd : Bool := match bs with | b :: _ => b.toNat % 32 == 24 | [] => true
              if v.length = n || isEnd then none else some s!"re-encoding produced {v.length} bytes, the element has {n}"
            | none => none
        | none => none
      else none
    | none =>
      if name = "iter" ∨ name = "tlviter" then
        match listItems out with
        | some items => if name = "iter" then iterSpec items bs.length else
            (if items.dropLast.any (fun x => x.startsWith "e:") then some "items after an error (iterator not fused)" else none)
        | none => none
      else none

def step (st : St) (line : String) : St × String :=
  let (op, out) := splitArrow line
  let ws := words op
  match ws with
  | "case" :: _ :: k :: rest =>
    if k = "a" then
      match unhex (rest.getD 0 "-") with
      | some b => ({ kind := "a", bytes := b }, "case")
      | none => ({ kind := "a" }, "BAD hex")
    else if k = "s" then
      let nm := rest.getD 0 ""
      if nm.startsWith "@" then
        match TlvSchema.parseDecl (rest.drop 1) with
        | some ty => ({ kind := "s", sname := nm, sty := some ty, swf := ty.wfb }, "case")
        | none => ({ kind := "s", sname := nm }, "BAD declaration")
      else ({ kind := "s", sname := nm, sty := TlvSchema.named nm }, "case")
    else ({ kind := k }, "case")
  | [] => (st, "BAD empty")
  | name :: args =>
    if st.kind = "a" then
      let st' := if name = "container_len" then
          { st with clen := (okPayload out).bind String.toNat? } else st
      match oracleAcc st ws out with
      | some why => (st', s!"ORA {name}: {why}")
      | none =>
        match modelAcc st.bytes ws with
        | some m => if m = out then (st', "ok") else (st', s!"DIS {m}")
        | none => (st', "ok")
    else if st.kind = "w" then
      let rest := " ".intercalate args
      if out = "panic" ∨ out = "hang" then (st, s!"ORA {name}: {out} while writing / decoding a value tree") else
      if name = "write" ∨ name = "iterwrite" then
        match parseTree rest with
        | none => (st, "BAD tree")
        | some v =>
          if !v.lenFits then
            -- a string that does not fit the length field of its element type: the value cannot be
            -- represented; a writer that answers `Ok` has emitted a truncated length field (corrupt stream)
            let m := if name = "write" then fmtRes (write v) hex else "ok:" ++ hex (encode v)
            if (okPayload out).isSome then
              (st, s!"ORA {name}: a string longer than its length field can express was written with a truncated length instead of refused")
            else if m = out then (st, "ok") else (st, s!"DIS {m.take 200}")
          else
          let m := "ok:" ++ hex (encode v)
          let st' := match okPayload out with
            | some h => { st with written := (h, treeStr v) :: st.written }
            | none => st
          if (okPayload out).isNone then (st', s!"ORA {name}: the writer rejected a well-formed tree ({out})")
          else if m = out then (st', "ok") else (st', s!"DIS {m.take 200}")
      else if name = "decode" then
        let want := st.written.find? (fun (h, _) => h = rest)
        match want with
        | some (_, t) =>
          if out ≠ "ok:" ++ t then (st, s!"ORA decode: a written value tree does not decode back to an equal value (got {out.take 120})")
          else
            match unhex rest with
            | some b => let m := fmtRes (decodeTree 40 b) treeStr
                        if m = out then (st, "ok") else (st, s!"DIS {m.take 200}")
            | none => (st, "BAD hex")
        | none =>
          match unhex rest with
          | some b => let m := fmtRes (decodeTree 40 b) treeStr
                      if m = out then (st, "ok") else (st, s!"DIS {m.take 200}")
          | none => (st, "BAD hex")
      else (st, "BAD op")
    else if st.kind = "s" then
      if out = "panic" ∨ out = "hang" then (st, s!"ORA {name}: {out} in a derived structure codec") else
      if name = "enc" then
        let slots := " ".intercalate args
        -- the round trip is demanded for the values `from_tlv` can produce: a flags value holding undeclared
        -- bits (`from_bits_retain`) is written by the real encoder like any integer (`encodeReal`, compared
        -- below) but is outside the claim (`encodeVal` refuses it; theorem `bitflags_undefined_rejected`)
        let inClaim : Bool := match st.sty with
          | some ty => (TlvSchema.encodeText ty args).isSome
          | none => true
        let st' := match okPayload out with
          | some h => if inClaim then { st with encoded := (h, slots) :: st.encoded } else st
          | none => st
        match st.sty.bind (fun ty => TlvSchema.encodeRealText ty args) with
        | some b => if "ok:" ++ hex b = out then (st', "ok") else
            (if (okPayload out).isNone then (st', s!"ORA enc: derived encoder rejected an in-range value ({out})") else (st', s!"DIS ok:{hex b}"))
        | none => (st', "BAD slots")
      else if name = "wf" then
        -- the harness' expectation (every shape except the two deliberately colliding ones is a well-formed
        -- declaration) against `Ty.wfb` of the parsed declaration: a mismatch would silently disable the oracle
        let m := if st.swf then "T" else "F"
        if m = out then (st, "ok") else (st, s!"DIS {m}")
      else if name = "dec" then
        let h := args.getD 0 "-"
        let model : Bytes → St × String := fun b =>
          match st.sty with
          | some ty =>
            match TlvSchema.decodeText ty b with
            | some text => if out = "ok:" ++ text then (st, "ok") else (st, s!"DIS ok:{text.take 300}")
            | none => if out.startsWith "e:" then (st, "ok") else (st, "DIS e:*")
          | none => (st, "ok")
        match st.encoded.find? (fun (x, _) => x = h) with
        | some (_, slots) =>
          if st.swf ∧ out ≠ "ok:" ++ slots then (st, s!"ORA dec: a derived structure does not decode back to an equal value (got {out.take 120})")
          else
            match unhex h with
            | some b => model b
            | none => (st, "BAD hex")
        | none =>
          -- mutated encodings: the derived decoder may accept or reject, the model says which
          match unhex h with
          | some b => model b
          | none => (st, "BAD hex")
      else if name = "pdec" then
        -- `pdec <hex of an enc op> <hex>`: the same top-level fields in another order and / or with
        -- unknown fields added: the tolerant derived decoder must return the same value
        let h0 := args.getD 0 "-"
        let h := args.getD 1 "-"
        -- (an `enc` outside the round-trip claim — flags with undeclared bits — is not recorded: model only)
        let want : Option String := (st.encoded.find? (fun (x, _) => x = h0)).map (·.2)
        match unhex h with
        | some b =>
          let violated : Bool := match want with
            | some slots => st.swf && out != "ok:" ++ slots
            | none => false
          if violated then
            (st, s!"ORA pdec: permuted fields / unknown extra fields change what a derived structure decodes to (got {out.take 120})")
          else
            match st.sty with
            | some ty =>
              match TlvSchema.decodeText ty b with
              | some text => if out = "ok:" ++ text then (st, "ok") else (st, s!"DIS ok:{text.take 300}")
              | none => if out.startsWith "e:" then (st, "ok") else (st, "DIS e:*")
            | none => (st, "ok")
        | none => (st, "BAD pdec")
      else if name = "reenc" then
        -- real `from_tlv` followed by real `to_tlv` (structures whose fields cannot be observed directly)
        let h := args.getD 0 "-"
        match unhex h with
        | none => (st, "BAD hex")
        | some b =>
          if (st.encoded.find? (fun (x, _) => x = h)).isSome ∧ out ≠ "ok:" ++ h then
            (st, s!"ORA reenc: decoding and re-encoding a derived structure does not reproduce the encoder's bytes (got {out.take 120})")
          else
            match st.sty with
            | none => (st, "ok")
            | some ty =>
              match TlvSchema.decodeStruct ty b with
              | .ok v =>
                match TlvSchema.encodeStruct ty v with
                | some b' => if out = "ok:" ++ hex b' then (st, "ok") else (st, s!"DIS ok:{(hex b').take 300}")
                | none => (st, "DIS model cannot re-encode")
              | _ => if out.startsWith "e:" then (st, "ok") else (st, "DIS e:*")
      else (st, "BAD op")
    else (st, "BAD kind")

def run : IO UInt32 := Driver.runLoop ({} : St) step

end Driver.C16
