import RsMatterVerif.Model.TxWire
import RsMatterVerif.Lemmas.Transport
/-!
# Invariant of the per-session wire model (C15)

`Inv st W`: what holds between the state of a session (`Model/TxWire.lean`) and the list `W` of the
messages it has handed to the transport so far; preserved by every operation (`inv_step`), hence
along every history (`inv_run`).
-/
namespace TxWire
open Transport

/-! ## `Session::pre_send` through a slot, in closed form -/

/-- the counter `Session::pre_send` passes to the exchange: the pending entry's, else a new one -/
def cOf (s : Sess) (e : Exch) : Nat :=
  match e.mrp.retrans with
  | some r => r.ctr
  | none => s.ctr

theorem outAckOf_none (m : Mrp) : outAckOf m none = m.ackCtr := by
  unfold outAckOf
  cases m.ackCtr <;> rfl

theorem ite_expired_slot (c : Prop) [Decidable c] (t : Sess) (j : Nat) :
    (if c then ({ t with expired := true } : Sess) else t).slot j = t.slot j := by
  split <;> rfl

theorem ite_expired_ctr (c : Prop) [Decidable c] (t : Sess) :
    (if c then ({ t with expired := true } : Sess) else t).ctr = t.ctr := by
  split <;> rfl

theorem preSend_some_spec (s : Sess) (i : Nat) (e : Exch) (rel : Bool) (ha sai : Option Nat)
    (hs : s.slot i = some e) :
    (∀ j, (s.preSend (some i) rel ha sai).1.slot j =
        if i = j then some { e with mrp := (e.mrp.preSend (cOf s e) rel ha sai).1 } else s.slot j) ∧
    (s.preSend (some i) rel ha sai).1.ctr = (if e.mrp.retrans.isSome then s.ctr else s.ctr + 1) ∧
    (match (e.mrp.preSend (cOf s e) rel ha sai).2.2 with
      | none => (s.preSend (some i) rel ha sai).2 =
          .ok { ctr := cOf s e, retransmission := e.mrp.retrans.isSome, ack := outAckOf e.mrp ha }
      | some er => (s.preSend (some i) rel ha sai).2 = .error er) := by
  have hout := preSend_outAck e.mrp (cOf s e) rel ha sai
  have hslot : ∀ (t : Sess) (m : Mrp) (j : Nat), t.slot i = some e →
      (t.setMrp i m).slot j = if i = j then some { e with mrp := m } else t.slot j := by
    intro t m j ht
    rw [setMrp_slot, ht]
    rfl
  cases hr : e.mrp.retrans with
  | none =>
    have hc : cOf s e = s.ctr := by simp [cOf, hr]
    rw [hc] at hout ⊢
    unfold Sess.preSend
    simp only [hs, hr, Option.map_none]
    generalize e.mrp.preSend s.ctr rel ha sai = P at hout ⊢
    obtain ⟨m', oa, err⟩ := P
    simp only at hout
    subst hout
    have hs1 : ({ s with ctr := s.ctr + 1 } : Sess).slot i = some e := hs
    cases err with
    | none =>
      refine ⟨fun j => ?_, ?_, ?_⟩
      · simp only; rw [hslot _ _ _ hs1]; rfl
      · simp [setMrp_ctr]
      · simp
    | some er =>
      cases er
      all_goals
        refine ⟨fun j => ?_, ?_, ?_⟩
        · simp only [ite_expired_slot]; rw [hslot _ _ _ hs1]; rfl
        · first | (rw [ite_expired_ctr]; simp [setMrp_ctr]) | simp [setMrp_ctr]
        · simp
  | some r =>
    have hc : cOf s e = r.ctr := by simp [cOf, hr]
    rw [hc] at hout ⊢
    unfold Sess.preSend
    simp only [hs, hr, Option.map_some]
    generalize e.mrp.preSend r.ctr rel ha sai = P at hout ⊢
    obtain ⟨m', oa, err⟩ := P
    simp only at hout
    subst hout
    cases err with
    | none =>
      refine ⟨fun j => ?_, ?_, ?_⟩
      · simp only; rw [hslot _ _ _ hs]
      · simp [setMrp_ctr]
      · simp
    | some er =>
      cases er
      all_goals
        refine ⟨fun j => ?_, ?_, ?_⟩
        · simp only [ite_expired_slot]; rw [hslot _ _ _ hs]
        · first | (rw [ite_expired_ctr]; simp [setMrp_ctr]) | simp [setMrp_ctr]
        · simp

/-! ## The invariant -/

/-- `mix` is injective -/
theorem mix_inj {r1 r2 : Bool} {d1 d2 : Nat} (h : mix r1 d1 = mix r2 d2) : r1 = r2 ∧ d1 = d2 := by
  unfold mix at h
  cases r1 <;> cases r2 <;> simp only [Bool.false_eq_true, ↓reduceIte] at h <;> refine ⟨?_, ?_⟩ <;>
    first | rfl | omega | (exfalso; omega)

/-- the property: two messages handed to the transport under one counter are the same message -/
def SameMsg (a b : Wire) : Prop := a.ctr = b.ctr → a = b

structure Inv (st : St) (W : List Wire) : Prop where
  /-- every pending retransmission remembers a counter below the send counter -/
  below : SlotsBelow st.s st.s.ctr
  /-- so does everything sent so far -/
  wlt : ∀ w ∈ W, w.ctr < st.s.ctr
  /-- the pending entry of a slot remembers a digest, and every message sent under its counter is the
  message of that slot: same exchange, same (reliable flag, content), same acknowledgement field -/
  pend : ∀ j e r, st.s.slot j = some e → e.mrp.retrans = some r →
    ∃ g, st.dig j = some g ∧ ∀ w ∈ W, w.ctr = r.ctr →
      w.exch = e.id ∧ w.initiator = !e.role.isResponder ∧ mix w.reliable w.digest = g ∧ w.ack = e.mrp.ackCtr
  /-- two slots never wait for the same counter -/
  distinct : ∀ j k e f r q, st.s.slot j = some e → st.s.slot k = some f → e.mrp.retrans = some r →
    f.mrp.retrans = some q → r.ctr = q.ctr → j = k
  pw : W.Pairwise SameMsg

/-- the pending entry `r` of slot `j` in the new state is the continuation of a pending entry of the
same slot in the old state: same counter, same exchange, same owed acknowledgement, same digest -/
def PendFrom (st st' : St) (j : Nat) (e' : Exch) (r : Retrans) : Prop :=
  ∃ e r0, st.s.slot j = some e ∧ e.mrp.retrans = some r0 ∧ r0.ctr = r.ctr ∧ e.id = e'.id ∧
    e.role.isResponder = e'.role.isResponder ∧ e.mrp.ackCtr = e'.mrp.ackCtr ∧ st'.dig j = st.dig j

/-- a transition that sends nothing and creates no pending entry -/
theorem inv_quiet {st st' : St} {W : List Wire} (g : Inv st W) (hc : st'.s.ctr = st.s.ctr)
    (hp : ∀ j e' r, st'.s.slot j = some e' → e'.mrp.retrans = some r → PendFrom st st' j e' r) : Inv st' W := by
  refine { below := ?_, wlt := ?_, pend := ?_, distinct := ?_, pw := g.pw }
  · intro j e' r hs hr
    obtain ⟨e, r0, hs0, hr0, hcr, _⟩ := hp j e' r hs hr
    have := g.below j e r0 hs0 hr0
    rw [hc]; omega
  · intro w hw; rw [hc]; exact g.wlt w hw
  · intro j e' r hs hr
    obtain ⟨e, r0, hs0, hr0, hcr, hid, hrole, hack, hdig⟩ := hp j e' r hs hr
    obtain ⟨gg, hg, hall⟩ := g.pend j e r0 hs0 hr0
    refine ⟨gg, by rw [hdig]; exact hg, ?_⟩
    intro w hw hwc
    have := hall w hw (by rw [hcr]; exact hwc)
    rw [← hid, ← hrole, ← hack]
    exact this
  · intro j k e' f' r q hsj hsk hrj hrk hcq
    obtain ⟨e, r0, hs0, hr0, hcr, _⟩ := hp j e' r hsj hrj
    obtain ⟨f, q0, hs1, hr1, hcq1, _⟩ := hp k f' q hsk hrk
    exact g.distinct j k e f r0 q0 hs0 hs1 hr0 hr1 (by omega)

/-- a transition that sends a message under a NEW counter; slot `i` may start waiting for it -/
theorem inv_fresh {st st' : St} {W : List Wire} (g : Inv st W) (w : Wire) (i : Nat)
    (hc : st'.s.ctr = st.s.ctr + 1) (hw : w.ctr = st.s.ctr)
    (hp : ∀ j e' r, st'.s.slot j = some e' → e'.mrp.retrans = some r → PendFrom st st' j e' r ∨
      (j = i ∧ r.ctr = st.s.ctr ∧ st'.dig j = some (mix w.reliable w.digest) ∧ w.exch = e'.id ∧
        w.initiator = !e'.role.isResponder ∧ w.ack = e'.mrp.ackCtr)) : Inv st' (W ++ [w]) := by
  refine { below := ?_, wlt := ?_, pend := ?_, distinct := ?_, pw := ?_ }
  · intro j e' r hs hr
    rcases hp j e' r hs hr with ⟨e, r0, hs0, hr0, hcr, _⟩ | ⟨_, hcr, _⟩
    · have := g.below j e r0 hs0 hr0
      rw [hc]; omega
    · rw [hc]; omega
  · intro x hx
    rcases List.mem_append.1 hx with h | h
    · have := g.wlt x h; rw [hc]; omega
    · simp only [List.mem_singleton] at h; subst h; rw [hc]; omega
  · intro j e' r hs hr
    rcases hp j e' r hs hr with ⟨e, r0, hs0, hr0, hcr, hid, hrole, hack, hdig⟩ | ⟨_, hcr, hdig, h1, h2, h3⟩
    · obtain ⟨gg, hg, hall⟩ := g.pend j e r0 hs0 hr0
      refine ⟨gg, by rw [hdig]; exact hg, ?_⟩
      intro x hx hxc
      rcases List.mem_append.1 hx with h | h
      · have := hall x h (by rw [hcr]; exact hxc)
        rw [← hid, ← hrole, ← hack]
        exact this
      · simp only [List.mem_singleton] at h; subst h
        have := g.below j e r0 hs0 hr0
        omega
    · refine ⟨_, hdig, ?_⟩
      intro x hx hxc
      rcases List.mem_append.1 hx with h | h
      · have := g.wlt x h; omega
      · simp only [List.mem_singleton] at h; subst h
        exact ⟨h1, h2, rfl, h3⟩
  · intro j k e' f' r q hsj hsk hrj hrk hcq
    rcases hp j e' r hsj hrj with ⟨e, r0, hs0, hr0, hcr, _⟩ | ⟨hj, hcr, _⟩ <;>
      rcases hp k f' q hsk hrk with ⟨f, q0, hs1, hr1, hcq1, _⟩ | ⟨hk, hcq1, _⟩
    · exact g.distinct j k e f r0 q0 hs0 hs1 hr0 hr1 (by omega)
    · have := g.below j e r0 hs0 hr0; omega
    · have := g.below k f q0 hs1 hr1; omega
    · rw [hj, hk]
  · rw [List.pairwise_append]
    refine ⟨g.pw, List.pairwise_singleton _ _, ?_⟩
    intro a ha b hb hab
    simp only [List.mem_singleton] at hb; subst hb
    have := g.wlt a ha
    omega

/-- a transition that sends the message slot `i` is waiting for once more -/
theorem inv_retx {st st' : St} {W : List Wire} (g : Inv st W) (w : Wire) (i : Nat) (e : Exch) (r : Retrans)
    (gg : Nat) (hs : st.s.slot i = some e) (hr : e.mrp.retrans = some r) (hg : st.dig i = some gg)
    (hmix : mix w.reliable w.digest = gg) (hw : w.ctr = r.ctr) (hx : w.exch = e.id)
    (hi : w.initiator = !e.role.isResponder) (ha : w.ack = e.mrp.ackCtr)
    (hc : st'.s.ctr = st.s.ctr)
    (hp : ∀ j e' r', st'.s.slot j = some e' → e'.mrp.retrans = some r' → PendFrom st st' j e' r') :
    Inv st' (W ++ [w]) := by
  obtain ⟨gg0, hg0, hall0⟩ := g.pend i e r hs hr
  have hgg : gg0 = gg := by rw [hg] at hg0; exact (Option.some.inj hg0).symm
  subst hgg
  have q := inv_quiet g hc hp
  refine { below := q.below, wlt := ?_, pend := ?_, distinct := q.distinct, pw := ?_ }
  · intro x hx'
    rcases List.mem_append.1 hx' with h | h
    · exact q.wlt x h
    · simp only [List.mem_singleton] at h; subst h
      have := g.below i e r hs hr
      rw [hc]; omega
  · intro j e' r' hs' hr'
    obtain ⟨e0, r0, hs0, hr0, hcr, hid, hrole, hack, hdig⟩ := hp j e' r' hs' hr'
    obtain ⟨g1, hg1, hall⟩ := g.pend j e0 r0 hs0 hr0
    refine ⟨g1, by rw [hdig]; exact hg1, ?_⟩
    intro x hx' hxc
    rcases List.mem_append.1 hx' with h | h
    · have := hall x h (by rw [hcr]; exact hxc)
      rw [← hid, ← hrole, ← hack]
      exact this
    · simp only [List.mem_singleton] at h; subst h
      -- the new message carries slot `i`'s counter: `j = i`
      have hji : j = i := g.distinct j i e0 e r0 r hs0 hs hr0 hr (by omega)
      subst hji
      rw [hs] at hs0
      cases hs0
      rw [hg] at hg1
      cases hg1
      rw [← hid, ← hrole, ← hack]
      exact ⟨hx, hi, hmix, ha⟩
  · rw [List.pairwise_append]
    refine ⟨g.pw, List.pairwise_singleton _ _, ?_⟩
    intro a ha' b hb hab
    simp only [List.mem_singleton] at hb; subst hb
    have h4 := hall0 a ha' (by omega)
    obtain ⟨h1, h2⟩ := mix_inj (h4.2.2.1.trans hmix.symm)
    cases a; cases b
    simp only [Wire.mk.injEq] at *
    exact ⟨hab, by rw [h4.1, hx], by rw [h4.2.1, hi], h1, by rw [h4.2.2.2, ha], h2⟩

/-! ## What the other operations do to the slots -/

/-- slot by slot: `post_recv` leaves a slot alone, or runs `ReliableMessage::post_recv` on the exchange
the header addresses, or puts a new responder exchange (nothing pending) into a free slot -/
theorem postRecv_slot_cases (s : Sess) (h : RxHdr) (now : Nat) (j : Nat) :
    (s.postRecv h now).1.slot j = s.slot j ∨
    (∃ e, s.getExchForRx h = some j ∧ s.slot j = some e ∧
      (s.postRecv h now).1.slot j = some { e with mrp := (e.mrp.postRecv h.ctr h.ack h.reliable now).1 }) ∨
    (∃ m, (s.postRecv h now).1.slot j = some { id := h.exch, role := .rp, mrp := m } ∧ m.retrans = none) := by
  unfold Sess.postRecv
  simp only
  split
  · exact Or.inl rfl
  · generalize hs0 : ({ s with rx := (Dedup.postRecv s.rx h.ctr s.mode.enc false).1 } : Sess) = s0
    have hsl : ∀ k, s0.slot k = s.slot k := by subst hs0; intro k; rfl
    have hget : s0.getExchForRx h = s.getExchForRx h := by subst hs0; rfl
    split
    · rename_i i hgi
      split
      · rename_i e he
        generalize hP : e.mrp.postRecv h.ctr h.ack h.reliable now = P
        obtain ⟨m, err⟩ := P
        have hcase : (s0.setMrp i m).slot j = s.slot j ∨
            (∃ e, s.getExchForRx h = some j ∧ s.slot j = some e ∧
              (s0.setMrp i m).slot j = some { e with mrp := (e.mrp.postRecv h.ctr h.ack h.reliable now).1 }) := by
          rw [setMrp_slot]
          by_cases hij : i = j
          · subst hij
            right
            refine ⟨e, by rw [← hget]; exact hgi, by rw [← hsl]; exact he, ?_⟩
            simp [he, hP]
          · left
            simp [hij, hsl]
        cases err <;> rcases hcase with h1 | h1
        all_goals first | exact Or.inl h1 | exact Or.inr (Or.inl h1)
      · exact Or.inl (hsl j)
    · split
      · exact Or.inl (hsl j)
      · split
        · exact Or.inl (hsl j)
        · split
          · rename_i s' i ha
            have hadd := addExch_slot s0 s' h.exch .rp i ha
            generalize hP : ({} : Mrp).postRecv h.ctr h.ack h.reliable now = P
            obtain ⟨m, err⟩ := P
            have hm : m.retrans = none := by
              cases hx : m.retrans with
              | none => rfl
              | some r =>
                have := postRecv_mrp_retrans ({} : Mrp) h.ctr h.ack h.reliable now r (by rw [hP]; exact hx)
                simp at this
            have hcase : (s'.setMrp i m).slot j = s.slot j ∨
                (s'.setMrp i m).slot j = some { id := h.exch, role := .rp, mrp := m } := by
              rw [setMrp_slot]
              by_cases hij : i = j
              · subst hij
                right
                simp [hadd.2.2 i]
              · left
                have : ¬ j = i := fun hh => hij hh.symm
                simp [hij, hadd.2.2 j, this, hsl]
            cases err <;> rcases hcase with h1 | h1
            all_goals first | exact Or.inl h1 | exact Or.inr (Or.inr ⟨m, h1, hm⟩)
          · exact Or.inl (hsl j)

theorem postRecv_ctr (s : Sess) (h : RxHdr) (now : Nat) : (s.postRecv h now).1.ctr = s.ctr :=
  (postRecv_facts s h now).2

/-- `remove_exch` keeps id, role side and reliability state of every exchange that stays -/
theorem removeExch_slot (s : Sess) (i j : Nat) (e' : Exch) (hk : (s.removeExch i).1.slot j = some e') :
    ∃ e, s.slot j = some e ∧ e.id = e'.id ∧ e.role.isResponder = e'.role.isResponder ∧ e.mrp = e'.mrp := by
  unfold Sess.removeExch at hk
  split at hk
  · exact ⟨e', hk, rfl, rfl, rfl⟩
  · rename_i e he
    split at hk
    · rw [slot_set] at hk
      split at hk
      · rename_i hik
        subst hik
        split at hk
        · simp only [Option.some.injEq] at hk
          subst hk
          refine ⟨e, he, rfl, ?_, rfl⟩
          cases e.role <;> rfl
        · simp at hk
      · exact ⟨e', hk, rfl, rfl, rfl⟩
    · rw [slot_set] at hk
      split at hk
      · split at hk <;> simp at hk
      · exact ⟨e', hk, rfl, rfl, rfl⟩

/-! ## Preservation, operation by operation -/

/-- the list `run` appends for one step -/
def outL : Option Wire → List Wire
  | some w => [w]
  | none => []

theorem inv_outL_none {st : St} {W : List Wire} (g : Inv st W) : Inv st (W ++ outL none) := by
  simpa [outL] using g

/-- a pending retransmission stays pending through a successful `pre_send` of its own counter -/
theorem preSend_pending_stays (m : Mrp) (r : Retrans) (rel : Bool) (ha sai : Option Nat)
    (hr : m.retrans = some r) (hok : (m.preSend r.ctr rel ha sai).2.2 = none) :
    ∃ r', (m.preSend r.ctr rel ha sai).1.retrans = some r' ∧ r'.ctr = r.ctr := by
  unfold Mrp.preSend at hok ⊢
  cases rel
  · exact ⟨r, by simp [hr], rfl⟩
  · by_cases hb : r.count < Consts.mrpMaxTransmissions
    · exact ⟨{ r with count := r.count + 1 }, by simp [hr, Retrans.preSend, hb], rfl⟩
    · simp [hr, Retrans.preSend, hb] at hok

theorem setDig_same (f : Nat → Option Nat) (i : Nat) (v : Option Nat) : setDig f i v i = v := by
  simp [setDig]

theorem setDig_other (f : Nat → Option Nat) (i j : Nat) (v : Option Nat) (h : j ≠ i) : setDig f i v j = f j := by
  simp [setDig, h]

/-- `TxMessage::complete` -/
theorem inv_complete {st : St} {W : List Wire} (g : Inv st W) (i : Nat) (rel : Bool) (d : Nat) (sai : Option Nat) :
    Inv (st.complete i rel d sai).1 (W ++ outL (st.complete i rel d sai).2) := by
  unfold St.complete
  cases hs : st.s.slot i with
  | none => exact inv_outL_none g
  | some e =>
    simp only
    obtain ⟨hslot, hctr, hres⟩ := preSend_some_spec st.s i e rel none sai hs
    have horig := preSend_retrans_origin e.mrp (cOf st.s e) rel none sai
    simp only at horig
    have hack := preSend_ackCtr e.mrp (cOf st.s e) rel none sai
    -- pending entries of the other slots are untouched
    have hother : ∀ (dig' : Nat → Option Nat), (∀ j, j ≠ i → dig' j = st.dig j) → ∀ j e' r,
        j ≠ i → (st.s.preSend (some i) rel none sai).1.slot j = some e' → e'.mrp.retrans = some r →
        PendFrom st { s := (st.s.preSend (some i) rel none sai).1, dig := dig' } j e' r := by
      intro dig' hd j e' r hji hsj hrj
      have hij : ¬ i = j := fun h => hji h.symm
      rw [hslot j] at hsj
      simp only [hij, ↓reduceIte] at hsj
      exact ⟨e', r, hsj, hrj, rfl, rfl, rfl, rfl, hd j hji⟩
    have hself : (st.s.preSend (some i) rel none sai).1.slot i =
        some { e with mrp := (e.mrp.preSend (cOf st.s e) rel none sai).1 } := by
      rw [hslot i]; simp
    cases hr : e.mrp.retrans with
    | none =>
      -- a new message
      have hc : cOf st.s e = st.s.ctr := by simp [cOf, hr]
      have herr : (e.mrp.preSend (cOf st.s e) rel none sai).2.2 = none := horig.2.1 hr
      rw [herr] at hres
      simp only at hres
      rw [hres]
      simp only [hself, Option.bind_some, Option.isSome_none, Bool.false_eq_true, ↓reduceIte]
      have hctr' : (st.s.preSend (some i) rel none sai).1.ctr = st.s.ctr + 1 := by
        rw [hctr]; simp [hr]
      cases hrn : (e.mrp.preSend (cOf st.s e) rel none sai).1.retrans with
      | none =>
        simp only [outL]
        refine inv_fresh g _ i hctr' hc ?_
        intro j e' r hsj hrj
        by_cases hji : j = i
        · subst hji
          rw [hself] at hsj
          cases hsj
          rw [hrn] at hrj
          cases hrj
        · exact Or.inl (hother st.dig (fun _ _ => rfl) j e' r hji hsj hrj)
      | some r' =>
        simp only [TxGuard.Entry.check, ↓reduceIte, outL]
        refine inv_fresh g _ i hctr' hc ?_
        intro j e' r hsj hrj
        by_cases hji : j = i
        · subst hji
          right
          rw [hself] at hsj
          cases hsj
          simp only at hrj
          rw [hrn] at hrj
          have hrr : r' = r := Option.some.inj hrj
          subst hrr
          have hrc : r'.ctr = st.s.ctr := by
            rcases horig.1 r' hrn with ⟨_, h⟩ | ⟨r0, h, _⟩
            · rw [h, hc]
            · rw [hr] at h; cases h
          refine ⟨rfl, hrc, setDig_same _ _ _, rfl, rfl, ?_⟩
          simp only
          rw [hack herr, outAckOf_none]
        · exact Or.inl (hother _ (fun k hk => setDig_other _ _ _ _ hk) j e' r hji hsj hrj)
    | some r =>
      have hc : cOf st.s e = r.ctr := by simp [cOf, hr]
      obtain ⟨gg, hgg, hall⟩ := g.pend i e r hs hr
      have hctr' : (st.s.preSend (some i) rel none sai).1.ctr = st.s.ctr := by
        rw [hctr]; simp [hr]
      rcases horig.2.2 r hr hc with herr | ⟨herr, hnone⟩
      · -- the pending message once more
        rw [herr] at hres
        simp only at hres
        rw [hres]
        obtain ⟨r', hr', hrc'⟩ := preSend_pending_stays e.mrp r rel none sai hr (by rw [← hc]; exact herr)
        rw [← hc] at hr'
        simp only [hself, Option.bind_some, hr', Option.isSome_some, ↓reduceIte, hgg, TxGuard.Entry.check]
        have hpf : ∀ j e' r'', (St.mk (st.s.preSend (some i) rel none sai).1 (setDig st.dig i (some gg))).s.slot j = some e' →
            e'.mrp.retrans = some r'' →
            PendFrom st (St.mk (st.s.preSend (some i) rel none sai).1 (setDig st.dig i (some gg))) j e' r'' := by
          intro j e' r'' hsj hrj
          by_cases hji : j = i
          · subst hji
            have hsj' : (st.s.preSend (some j) rel none sai).1.slot j = some e' := hsj
            rw [hself] at hsj'
            cases hsj'
            simp only at hrj
            rw [hr'] at hrj
            cases hrj
            refine ⟨e, r, hs, hr, hrc'.symm, rfl, rfl, (hack herr).symm, ?_⟩
            show setDig st.dig j (some gg) j = st.dig j
            rw [setDig_same, hgg]
          · exact hother _ (fun k hk => setDig_other _ _ _ _ hk) j e' r'' hji hsj hrj
        by_cases hok : (gg == mix rel d) = true
        · simp only [hok, ↓reduceIte, outL]
          refine inv_retx g _ i e r gg hs hr hgg (by simpa using (beq_iff_eq.1 hok).symm) hc rfl rfl ?_ hctr' hpf
          simp only
          rw [outAckOf_none]
        · simp only [hok, Bool.false_eq_true, ↓reduceIte]
          exact inv_outL_none (inv_quiet g hctr' hpf)
      · -- the budget is used up: nothing is sent, nothing is pending on the slot any more
        rw [herr] at hres
        simp only at hres
        rw [hres]
        simp only
        refine inv_outL_none (inv_quiet g hctr' ?_)
        intro j e' r'' hsj hrj
        by_cases hji : j = i
        · subst hji
          have hsj' : (st.s.preSend (some j) rel none sai).1.slot j = some e' := hsj
          rw [hself] at hsj'
          cases hsj'
          simp only at hrj
          rw [hnone] at hrj
          cases hrj
        · exact hother st.dig (fun _ _ => rfl) j e' r'' hji hsj hrj

theorem slot_freed (t : Sess) (i j : Nat) (e' : Exch)
    (h : ({ t with exchs := t.exchs.set i none } : Sess).slot j = some e') : t.slot j = some e' ∧ j ≠ i := by
  rw [slot_set] at h
  split at h
  · split at h <;> simp at h
  · rename_i hij
    exact ⟨h, fun hh => hij hh.symm⟩

/-- a message outside any exchange slot: a new counter, no slot touched -/
theorem inv_noslot {st : St} {W : List Wire} (g : Inv st W) (w : Wire) (hw : w.ctr = st.s.ctr) :
    Inv { st with s := { st.s with ctr := st.s.ctr + 1 } } (W ++ [w]) := by
  refine inv_fresh g w 0 rfl hw ?_
  intro j e' r hs hr
  exact Or.inl ⟨e', r, hs, hr, rfl, rfl, rfl, rfl, rfl⟩

/-- `handle_rx_packet`, duplicate: the acknowledgement goes through no exchange slot -/
theorem inv_dupAck {st : St} {W : List Wire} (g : Inv st W) (h : RxHdr) (sai : Option Nat) :
    Inv (st.dupAck dupAckSlot h sai).1 (W ++ outL (st.dupAck dupAckSlot h sai).2) := by
  unfold St.dupAck dupAckSlot
  simp only [Sess.preSend, Option.bind_none, outL]
  exact inv_noslot g _ rfl

theorem inv_sweepDropped {st : St} {W : List Wire} (g : Inv st W) (i : Nat) :
    Inv (st.sweepDropped i).1 (W ++ outL (st.sweepDropped i).2) := by
  unfold St.sweepDropped
  cases hs : st.s.slot i with
  | none => exact inv_outL_none g
  | some e =>
    simp only
    split
    · rename_i hcond
      have hrn : e.mrp.retrans = none := by
        simp only [Bool.and_eq_true, Bool.not_eq_true', Mrp.isRetransPending] at hcond
        cases hx : e.mrp.retrans with
        | none => rfl
        | some r => rw [hx] at hcond; simp at hcond
      split
      · -- the owed acknowledgement through the slot: a new counter; then the slot is freed
        obtain ⟨hslot, hctr, hres⟩ := preSend_some_spec st.s i e false none none hs
        have horig := preSend_retrans_origin e.mrp (cOf st.s e) false none none
        simp only at horig
        have herr := horig.2.1 hrn
        rw [herr] at hres
        simp only at hres
        rw [hres]
        simp only [outL]
        have hc : cOf st.s e = st.s.ctr := by simp [cOf, hrn]
        refine inv_fresh g _ i (by show (st.s.preSend (some i) false none none).1.ctr = _; rw [hctr]; simp [hrn]) hc ?_
        intro j e' r hsj hrj
        obtain ⟨hsj', hji⟩ := slot_freed _ i j e' hsj
        rw [hslot j] at hsj'
        have hij : ¬ i = j := fun hh => hji hh.symm
        simp only [hij, ↓reduceIte] at hsj'
        exact Or.inl ⟨e', r, hsj', hrj, rfl, rfl, rfl, rfl, rfl⟩
      · refine inv_outL_none (inv_quiet g rfl ?_)
        intro j e' r hsj hrj
        obtain ⟨hsj', _⟩ := slot_freed _ i j e' hsj
        exact ⟨e', r, hsj', hrj, rfl, rfl, rfl, rfl, rfl⟩
    · exact inv_outL_none g

/-- the exchange discipline is what keeps the owed acknowledgement of a waiting exchange fixed -/
theorem inv_rx {st : St} {W : List Wire} (g : Inv st W) (h : RxHdr) (now : Nat) (hd : discOk st.s h = true) :
    Inv { st with s := (st.s.postRecv h now).1 } W := by
  refine inv_quiet g (postRecv_ctr st.s h now) ?_
  intro j e' r hsj hrj
  rcases postRecv_slot_cases st.s h now j with h1 | ⟨e, hget, hs, h2⟩ | ⟨m, h3, hm⟩
  · have : st.s.slot j = some e' := by rw [← h1]; exact hsj
    exact ⟨e', r, this, hrj, rfl, rfl, rfl, rfl, rfl⟩
  · have hsj' : (st.s.postRecv h now).1.slot j = some e' := hsj
    rw [h2] at hsj'
    cases hsj'
    simp only at hrj
    have hr0 := postRecv_mrp_retrans e.mrp h.ctr h.ack h.reliable now r hrj
    have hp := postRecv_pending e.mrp r h.ctr h.ack h.reliable now hr0
    simp only at hp
    refine ⟨e, r, hs, hr0, rfl, rfl, rfl, ?_, rfl⟩
    simp only
    cases hack : h.ack with
    | some a =>
      by_cases ha : a = r.ctr
      · have := (hp.1 (by rw [hack, ha])).2
        rw [this] at hrj
        cases hrj
      · rw [← hack, hp.2.1 a hack ha]
    | none =>
      have hrel : h.reliable = false := by
        unfold discOk at hd
        simp only [hget, hs, hr0, hack, Option.isSome_some, Bool.not_true, Option.isSome_none, Bool.false_or,
          Bool.not_eq_true'] at hd
        exact hd
      have := (hp.2.2 hack).2.2
      rw [← hack, this, hrel]
      rfl
  · have hsj' : (st.s.postRecv h now).1.slot j = some e' := hsj
    rw [h3] at hsj'
    cases hsj'
    simp only at hrj
    rw [hm] at hrj
    cases hrj

theorem inv_open {st : St} {W : List Wire} (g : Inv st W) (id : Nat) :
    Inv { st with s := match st.s.addExch id .io with
      | some (s', _) => s'
      | none => st.s } W := by
  cases ha : st.s.addExch id .io with
  | none => exact g
  | some p =>
    obtain ⟨s', i⟩ := p
    obtain ⟨_, hctr, hsl⟩ := addExch_slot st.s s' id .io i ha
    refine inv_quiet g hctr ?_
    intro j e' r hsj hrj
    have hsj' : s'.slot j = some e' := hsj
    rw [hsl j] at hsj'
    split at hsj'
    · cases hsj'
      simp at hrj
    · exact ⟨e', r, hsj', hrj, rfl, rfl, rfl, rfl, rfl⟩

theorem inv_close {st : St} {W : List Wire} (g : Inv st W) (i : Nat) :
    Inv { st with s := (st.s.removeExch i).1 } W := by
  refine inv_quiet g (removeExch_facts st.s i).2 ?_
  intro j e' r hsj hrj
  obtain ⟨e, hs, hid, hrole, hmrp⟩ := removeExch_slot st.s i j e' hsj
  exact ⟨e, r, hs, by rw [hmrp]; exact hrj, rfl, hid, hrole, by rw [hmrp], rfl⟩

theorem inv_free {st : St} {W : List Wire} (g : Inv st W) (i : Nat) :
    Inv { st with s := { st.s with exchs := st.s.exchs.set i none } } W := by
  refine inv_quiet g rfl ?_
  intro j e' r hsj hrj
  obtain ⟨hsj', _⟩ := slot_freed _ i j e' hsj
  exact ⟨e', r, hsj', hrj, rfl, rfl, rfl, rfl, rfl⟩

/-- **Every operation preserves the invariant** (for the code's call site of the duplicate's
acknowledgement, `dupAckSlot`), provided a received message respects the exchange discipline. -/
theorem inv_step {st : St} {W : List Wire} (g : Inv st W) (op : Op)
    (hd : ∀ h now, op = .rx h now → discOk st.s h = true) :
    Inv (step dupAckSlot st op).1 (W ++ outL (step dupAckSlot st op).2) := by
  cases op with
  | complete i rel d sai => exact inv_complete g i rel d sai
  | dupAck h sai => exact inv_dupAck g h sai
  | closeSession xid d sai =>
    simp only [step, Sess.preSend, outL]
    exact inv_noslot g _ rfl
  | sweepDropped i => exact inv_sweepDropped g i
  | rx h now => exact inv_outL_none (inv_rx g h now (hd h now rfl))
  | open_ id => exact inv_outL_none (inv_open g id)
  | close i => exact inv_outL_none (inv_close g i)
  | free i => exact inv_outL_none (inv_free g i)

theorem outL_eq (o : Option Wire) : (match o with
    | some w => [w]
    | none => []) = outL o := by
  cases o <;> rfl

/-- **Every history preserves the invariant.** -/
theorem inv_run (ops : List Op) : ∀ (st : St) (W : List Wire), Inv st W →
    disciplined dupAckSlot st ops = true →
    Inv (run dupAckSlot st ops).1 (W ++ (run dupAckSlot st ops).2) := by
  induction ops with
  | nil => intro st W g _; simpa [run] using g
  | cons op ops ih =>
    intro st W g hd
    simp only [disciplined, Bool.and_eq_true] at hd
    have g1 := inv_step g op (by
      intro h now hop
      subst hop
      exact hd.1)
    have := ih _ _ g1 hd.2
    simp only [run]
    rw [← List.append_assoc]
    exact this

/-- a session on which nothing waits for an acknowledgement and nothing has been sent -/
theorem inv_init (s : Sess) (hidle : ∀ j e, s.slot j = some e → e.mrp.retrans = none) :
    Inv { s := s } [] := by
  refine { below := ?_, wlt := ?_, pend := ?_, distinct := ?_, pw := List.Pairwise.nil }
  · intro j e r hs hr; rw [hidle j e hs] at hr; cases hr
  · intro w hw; cases hw
  · intro j e r hs hr; rw [hidle j e hs] at hr; cases hr
  · intro j k e f r q hs _ hr; rw [hidle j e hs] at hr; cases hr

/-! ## The send counter grows by at most one per operation -/

theorem preSend_ctr_le (s : Sess) (idx : Option Nat) (rel : Bool) (ha sai : Option Nat) :
    (s.preSend idx rel ha sai).1.ctr ≤ s.ctr + 1 := by
  cases idx with
  | none => simp [Sess.preSend]
  | some i =>
    cases hs : s.slot i with
    | none => simp [Sess.preSend, hs]
    | some e =>
      rw [(preSend_some_spec s i e rel ha sai hs).2.1]
      split <;> omega

theorem step_ctr_le (st : St) (op : Op) : (step dupAckSlot st op).1.s.ctr ≤ st.s.ctr + 1 := by
  cases op with
  | complete i rel d sai =>
    have := preSend_ctr_le st.s (some i) rel none sai
    simp only [step, St.complete]
    repeat' split
    all_goals first | exact this | omega | (simp only []; omega) | (show st.s.ctr ≤ st.s.ctr + 1; omega)
  | dupAck h sai =>
    have := preSend_ctr_le st.s none false (some h.ctr) sai
    simp only [step, St.dupAck, dupAckSlot]
    repeat' split
    all_goals first | exact this | omega | (simp only []; omega) | (show st.s.ctr ≤ st.s.ctr + 1; omega)
  | closeSession xid d sai =>
    have := preSend_ctr_le st.s none true none sai
    simp only [step]
    repeat' split
    all_goals first | exact this | omega | (simp only []; omega) | (show st.s.ctr ≤ st.s.ctr + 1; omega)
  | sweepDropped i =>
    have := preSend_ctr_le st.s (some i) false none none
    simp only [step, St.sweepDropped]
    repeat' split
    all_goals first | exact this | omega | (simp only []; omega) | (show st.s.ctr ≤ st.s.ctr + 1; omega)
  | rx h now => simp only [step]; rw [postRecv_ctr]; omega
  | open_ id =>
    simp only [step]
    cases ha : st.s.addExch id .io with
    | none => simp
    | some p => obtain ⟨s', i⟩ := p; simp only; rw [(addExch_slot st.s s' id .io i ha).2.1]; omega
  | close i => simp only [step]; rw [(removeExch_facts st.s i).2]; omega
  | free i => simp [step]

theorem run_ctr_le (ops : List Op) : ∀ (st : St), (run dupAckSlot st ops).1.s.ctr ≤ st.s.ctr + ops.length := by
  induction ops with
  | nil => intro st; simp [run]
  | cons op ops ih =>
    intro st
    have h1 := step_ctr_le st op
    have h2 := ih (step dupAckSlot st op).1
    simp only [run, List.length_cons]
    omega

end TxWire
