//! C04, group glue stream (`gg`): real group messages through the real receive path
//! (`TransportRunner::decode_packet` -> `Sessions::get_or_create_for_group_rx`): key derivation,
//! authentication, *then* the per-sender counter store; control messages are exempt.
//!
//! One case = one device with a provisioned fabric + group key set; ops are
//! `<src node> <counter> <kind>` with kind
//!   d = data message encrypted with the group's operational key,
//!   c = control message (C flag) with that key,
//!   x = data message encrypted with a wrong key (does not authenticate),
//!   m = data message with one ciphertext bit flipped (does not authenticate).
//! Output: acc | dup | noauth | err:<code>.
use core::num::NonZeroU8;

use rs_matter::cert::gen::VALID_FOREVER;
use rs_matter::cert::MAX_CERT_TLV_AND_ASN1_LEN;
use rs_matter::crypto::{
    test_only_crypto, CanonAeadKey, CanonPkcSecretKey, Crypto, RngCore, SecretKey, SigningSecretKey,
    AEAD_CANON_KEY_LEN, AEAD_KEY_ZEROED,
};
use rs_matter::dm::devices::test::{TEST_DEV_ATT, TEST_DEV_COMM, TEST_DEV_DET};
use rs_matter::error::{Error, ErrorCode};
use rs_matter::fabric::GroupKeyMapping;
use rs_matter::group_keys::{GroupEpochKeyEntry, GroupKeySet, KeySet};
use rs_matter::onboard::cac::RcacGenerator;
use rs_matter::onboard::noc::NocGenerator;
use rs_matter::transport::packet::PacketHdr;
use rs_matter::transport::session::derive_group_session_id;
use rs_matter::utils::storage::{Vec as SVec, WriteBuf};
use rs_matter::Matter;

use crate::proto::{Case, Out};
use crate::simnet::addr_of;

pub const FABRIC_ID: u64 = 1;
const ADMIN_NODE_ID: u64 = 100;
const DEVICE_NODE_ID: u64 = 200;
pub const GROUP_ID: u16 = 0x0101;
const KEY_SET_ID: u16 = 42;
pub const EPOCH_KEY: [u8; AEAD_CANON_KEY_LEN] = [
    0xa0, 0xa1, 0xa2, 0xa3, 0xa4, 0xa5, 0xa6, 0xa7, 0xa8, 0xa9, 0xaa, 0xab, 0xac, 0xad, 0xae, 0xaf,
];

/// (also used by the C12 wire stream)
pub fn provision<C: Crypto>(matter: &Matter<'_>, crypto: &C) -> Result<NonZeroU8, Error> {
    let mut rcac_buf = [0u8; MAX_CERT_TLV_AND_ASN1_LEN];
    let mut rcac_gen = RcacGenerator::new(&mut rcac_buf);
    let (rcac_privkey, rcac) = rcac_gen.generate(crypto, FABRIC_ID, VALID_FOREVER)?;
    let mut noc_buf = [0u8; MAX_CERT_TLV_AND_ASN1_LEN];
    let mut noc_gen = NocGenerator::create(rcac_privkey.reference(), rcac, &[], &mut noc_buf)?;
    let mut ipk = CanonAeadKey::new();
    let mut ipk_bytes = [0u8; AEAD_CANON_KEY_LEN];
    crypto.rand()?.fill_bytes(&mut ipk_bytes);
    ipk.load_from_array(&ipk_bytes);
    let sk = crypto.generate_secret_key()?;
    let mut csr_buf = [0u8; 256];
    let csr = sk.csr(&mut csr_buf)?;
    let mut sk_canon = CanonPkcSecretKey::new();
    sk.write_canon(&mut sk_canon)?;
    let noc = noc_gen.generate(crypto, csr, DEVICE_NODE_ID, &[], VALID_FOREVER)?;
    matter.with_state(|state| {
        let fab_idx = state
            .fabrics
            .add(crypto, sk_canon.reference(), rcac, noc, &[], Some(ipk.reference()), 0xFFF1, ADMIN_NODE_ID)?
            .fab_idx();
        let fabric = state.fabrics.fabric_mut(fab_idx)?;
        let mut epoch_key = CanonAeadKey::new();
        epoch_key.load_from_array(&EPOCH_KEY);
        let mut epoch_keys = SVec::new();
        epoch_keys
            .push(GroupEpochKeyEntry { epoch_key, epoch_start_time: 0 })
            .map_err(|_| ErrorCode::NoSpace)?;
        fabric.groups_mut().key_set_add(GroupKeySet {
            group_key_set_id: KEY_SET_ID,
            group_key_security_policy: 0,
            epoch_keys,
        })?;
        fabric.groups_mut().key_map_add(GroupKeyMapping { group_id: GROUP_ID, group_key_set_id: KEY_SET_ID })?;
        Ok(fab_idx)
    })
}

fn encode<C: Crypto>(
    crypto: &C,
    key: &CanonAeadKey,
    sess_id: u16,
    src: u64,
    ctr: u32,
    control: bool,
) -> Result<std::vec::Vec<u8>, Error> {
    let mut buf = [0u8; 256];
    let (start, end) = {
        let mut wb = WriteBuf::new_with(&mut buf, PacketHdr::HDR_RESERVE, PacketHdr::HDR_RESERVE);
        let mut hdr = PacketHdr::new();
        hdr.plain.sess_id = sess_id;
        hdr.plain.ctr = ctr;
        hdr.plain.set_group_session(true);
        hdr.plain.set_control_msg(control);
        hdr.plain.set_src_nodeid(Some(src));
        hdr.plain.set_dst_groupcast_nodeid(Some(GROUP_ID));
        // Interaction Model InvokeRequest, initiator, unreliable (as group messages are)
        hdr.proto.proto_id = 0x0001;
        hdr.proto.proto_opcode = 0x08;
        hdr.proto.exch_id = (ctr & 0xffff) as u16;
        hdr.proto.set_initiator();
        wb.append(&[0x15, 0x18])?;
        hdr.encode(crypto, Some(key.reference()), src, &mut wb)?;
        (wb.get_start(), wb.get_tail())
    };
    Ok(buf[start..end].to_vec())
}

pub fn run_case(out: &mut Out, case: &Case) {
    out.case(case.id, &case.kind);
    let crypto = test_only_crypto();
    let matter = Matter::new(&TEST_DEV_DET, TEST_DEV_COMM, &TEST_DEV_ATT, 0);
    let fab_idx = match provision(&matter, &crypto) {
        Ok(f) => f,
        Err(e) => {
            for op in &case.ops {
                out.op(op, &format!("err:setup:{:?}", e.code()));
            }
            return;
        }
    };
    let cfid = matter.with_state(|s| s.fabrics.fabric(fab_idx).map(|f| f.compressed_fabric_id())).unwrap_or(0);
    let mut epoch_key = CanonAeadKey::new();
    epoch_key.load_from_array(&EPOCH_KEY);
    let mut ks = KeySet::new();
    let _ = ks.update(&crypto, epoch_key.reference(), &cfid);
    let sess_id = derive_group_session_id(&crypto, ks.op_key()).unwrap_or(0);
    let mut op_key = AEAD_KEY_ZEROED;
    op_key.load(ks.op_key());
    let mut wrong_key = CanonAeadKey::new();
    wrong_key.load_from_array(&[0x5au8; AEAD_CANON_KEY_LEN]);
    let runner = matter.transport_runner(&crypto);

    let mut kept = 0u32;
    for op in &case.ops {
        let mut it = op.split_whitespace();
        let src: u64 = it.next().and_then(|x| x.parse().ok()).unwrap_or(1);
        let ctr: u32 = it.next().and_then(|x| x.parse().ok()).unwrap_or(0);
        let kind = it.next().unwrap_or("d");
        let bytes = match kind {
            "x" => encode(&crypto, &wrong_key, sess_id, src, ctr, false),
            "c" => encode(&crypto, &op_key, sess_id, src, ctr, true),
            _ => encode(&crypto, &op_key, sess_id, src, ctr, false),
        };
        if kind == "c" {
            // a control message never meets a live (data) group session in this stream
            matter.with_state(|st| {
                let ids: std::vec::Vec<u32> = st.verif_sessions_mut().iter().map(|s| s.id()).collect();
                for id in ids {
                    st.verif_sessions_mut().remove(id);
                }
            });
        }
        let mut bytes = match bytes {
            Ok(b) => b,
            Err(e) => {
                out.op(op, &format!("err:enc:{:?}", e.code()));
                continue;
            }
        };
        if kind == "m" {
            let n = bytes.len();
            bytes[n - 5] ^= 0x10;
        }
        let res = std::panic::catch_unwind(std::panic::AssertUnwindSafe(|| {
            runner.verif_decode_datagram(addr_of(1), &bytes, |r, _h, _p| match r {
                Ok(_) => "acc".to_string(),
                Err(e) => match e.code() {
                    ErrorCode::Duplicate => "dup".to_string(),
                    ErrorCode::InvalidSignature | ErrorCode::NoSession | ErrorCode::InvalidData => "noauth".to_string(),
                    c => format!("err:{:?}", c),
                },
            })
        }));
        let v = match res {
            Ok(Ok(s)) => s,
            Ok(Err(e)) => format!("err:{:?}", e.code()),
            Err(_) => "panic".to_string(),
        };
        // The ephemeral group sessions (each holding accept-pending exchanges) would fill the table.
        // In even cases drop them after every message, so that each message takes the
        // session-creating path; in odd cases keep them alive (dropping all only when the table
        // is nearly full), so that follow-up messages of a sender are matched to its live
        // ephemeral session first - both paths must consult the per-sender counter store.
        // (A kept session accumulates one accept-pending exchange per message and has room for
        // MAX_EXCHANGES = 5 only; sessions created by control messages are not kept: control and
        // data counters are separate spaces and the property says nothing about their mix.)
        kept += 1;
        matter.with_state(|st| {
            let n = st.verif_sessions_mut().iter().count();
            if case.id % 2 == 0 || n >= 10 || kind == "c" || kept >= 4 {
                kept = 0;
                let ids: std::vec::Vec<u32> = st.verif_sessions_mut().iter().map(|s| s.id()).collect();
                for id in ids {
                    st.verif_sessions_mut().remove(id);
                }
            }
        });
        out.stat(&format!("gg_{}_{}", kind, v.split(':').next().unwrap_or("")), 1);
        out.op(op, &v);
    }
}
