import RsMatterVerif.Model.TwoNodeBi
import RsMatterVerif.Lemmas.Transport
import RsMatterVerif.Lemmas.Dedup
import RsMatterVerif.Lemmas.TwoNode
/-!
# Invariant of the bidirectional two-node model (C09)

`Dir x s acc`: the facts about the direction "node `x` sends application messages, node `!x`
receives them" that hold in every reachable state; `acc` (ghost) = the counters of `x` that the
window of `!x` has accepted. Both directions satisfy it (`both_init`, `both_step`, `both_run`).

A counter is *settled* at the receiver when its window will never accept it (again):
`specAccept acc c = false` — it was accepted, or it lies more than the window width below an
accepted one. With stand-alone acknowledgements sharing the send counter of the application
messages, "acknowledged" means "settled", not "accepted".
-/
namespace TwoNodeBi
open Transport Dedup

theorem upd_same (s : Sys) (x : Bool) (nd : Node) : (upd s x nd).n x = nd := by simp [upd]

theorem upd_other (s : Sys) (x y : Bool) (nd : Node) (h : y ≠ x) : (upd s x nd).n y = s.n y := by simp [upd, h]

theorem not_ne (x : Bool) : (!x) ≠ x := by cases x <;> simp

theorem ne_not (x : Bool) : x ≠ (!x) := by cases x <;> simp

theorem eq_not_of_ne {w x : Bool} (h : w ≠ x) : w = !x := by cases w <;> cases x <;> simp_all

theorem spec_false_mono (acc : List Nat) (c k : Nat) (h : specAccept acc k = false) : specAccept (c :: acc) k = false := by
  unfold specAccept at h ⊢
  simp only [Bool.and_eq_false_iff, Bool.not_eq_false', List.contains_cons, Bool.or_eq_true, beq_iff_eq,
    List.all_cons, Bool.and_eq_false_iff] at h ⊢
  rcases h with h | h
  · exact Or.inl (Or.inr h)
  · exact Or.inr (Or.inr h)

theorem spec_false_self (acc : List Nat) (c : Nat) : specAccept (c :: acc) c = false := by
  unfold specAccept
  simp

theorem spec_false_of_mem (acc : List Nat) (c : Nat) (h : c ∈ acc) : specAccept acc c = false := by
  unfold specAccept
  simp [h]

/-! ## The reliability layer: what the model's calls do to the owed acknowledgement and to the pending entry -/

theorem preSend_ack_ctr (m : Mrp) (c : Nat) (rel : Bool) (ha sai : Option Nat) (a' : Ack)
    (h : (m.preSend c rel ha sai).1.ack = some a') : ∃ a, m.ack = some a ∧ a.ctr = a'.ctr := by
  unfold Mrp.preSend at h
  cases hm : m.ack with
  | none =>
    simp only [hm, Option.map_none] at h
    repeat' (split at h)
    all_goals simp_all
  | some a =>
    refine ⟨a, rfl, ?_⟩
    simp only [hm, Option.map_some] at h
    repeat' (split at h)
    all_goals first
      | (simp only [Option.some.injEq] at h; rw [← h])
      | (rw [hm] at h; simp only [Option.some.injEq] at h; rw [← h])
      | simp at h

theorem preSend_outAck_none (m : Mrp) (c : Nat) (rel : Bool) (sai : Option Nat) (k : Nat)
    (h : (m.preSend c rel none sai).2.1 = some k) : ∃ a, m.ack = some a ∧ a.ctr = k := by
  rw [preSend_outAck] at h
  unfold outAckOf Mrp.ackCtr at h
  cases hm : m.ack with
  | none => simp [hm] at h
  | some a => simp only [hm, Option.map_some, Option.some.injEq] at h; exact ⟨a, rfl, h⟩

theorem postRecv_ack_cases (m : Mrp) (c : Nat) (a : Option Nat) (rel : Bool) (now : Nat) (a' : Ack)
    (h : (m.postRecv c a rel now).1.ack = some a') : (rel = true ∧ a'.ctr = c) ∨ m.ack = some a' := by
  obtain ⟨rt, ak, ra⟩ := m
  unfold Mrp.postRecv at h
  cases rel
  · -- not reliable: the owed acknowledgement is kept, or cleared together with the pending entry
    right
    cases a with
    | none => simpa using h
    | some av =>
      cases rt with
      | none => simpa using h
      | some r =>
        simp only at h
        split at h
        · simpa using h
        · simp at h
  · cases a with
    | none => left; simp at h; exact ⟨rfl, by rw [← h]⟩
    | some av =>
      cases rt with
      | none => left; simp at h; exact ⟨rfl, by rw [← h]⟩
      | some r =>
        simp only at h
        split at h
        · right; simpa using h
        · left; simp at h; exact ⟨rfl, by rw [← h]⟩

/-- a message received while `r` is pending: the matching acknowledgement ends it; anything else
that is processed (`none` error) leaves exactly `r` pending -/
theorem postRecv_retrans_cases (m : Mrp) (r : Retrans) (c : Nat) (a : Option Nat) (rel : Bool) (now : Nat)
    (hr : m.retrans = some r) (hok : (m.postRecv c a rel now).2 = none) :
    (a = some r.ctr ∧ (m.postRecv c a rel now).1.retrans = none) ∨
    (a ≠ some r.ctr ∧ (m.postRecv c a rel now).1.retrans = some r) := by
  have hp := postRecv_pending m r c a rel now hr
  simp only at hp
  cases a with
  | none => exact Or.inr ⟨by simp, (hp.2.2 rfl).2.1⟩
  | some av =>
    by_cases hav : av = r.ctr
    · subst hav
      exact Or.inl ⟨rfl, (hp.1 rfl).2⟩
    · have := hp.2.1 av rfl hav
      rw [this] at hok
      cases hok

theorem postRecv_idle_retrans (m : Mrp) (c : Nat) (a : Option Nat) (rel : Bool) (now : Nat)
    (hr : m.retrans = none) : (m.postRecv c a rel now).1.retrans = none := by
  cases hx : (m.postRecv c a rel now).1.retrans with
  | none => rfl
  | some r => have := postRecv_mrp_retrans m c a rel now r hx; rw [hr] at this; cases this

/-! ## The invariant of one direction -/

structure Dir (x : Bool) (s : Sys) (acc : List Nat) : Prop where
  /-- the receiver's window is C04's set-based specification over the counters of `x` it accepted -/
  win : C04.Inv (s.n (!x)).rx acc
  /-- a data datagram of `x` in flight carries the counter its message went out with -/
  netData : ∀ d ∈ s.net, d.frm = x → ∀ i, d.idx = some i → (s.n x).msgs[i]? = some d.ctr
  /-- what the receiving application has seen was accepted by its window -/
  appAcc : ∀ i ∈ (s.n (!x)).app, ∃ c, (s.n x).msgs[i]? = some c ∧ c ∈ acc
  /-- every message before the last started one is settled at the receiver -/
  done : ∀ j c, j + 1 < (s.n x).msgs.length → (s.n x).msgs[j]? = some c → specAccept acc c = false
  /-- acknowledgements (stand-alone or piggy-backed) exist only for settled counters -/
  netAck : ∀ d ∈ s.net, d.frm = (!x) → ∀ k, d.ack = some k → specAccept acc k = false
  owed : ∀ a, (s.n (!x)).mrp.ack = some a → specAccept acc a.ctr = false
  curSome : ∀ i, (s.n x).cur = some i → i + 1 = (s.n x).msgs.length ∧
    ∃ r, (s.n x).mrp.retrans = some r ∧ (s.n x).msgs[i]? = some r.ctr
  curNone : (s.n x).cur = none → (s.n x).mrp.retrans = none
  fin : ∀ j, j < (s.n x).msgs.length → (s.n x).cur = some j ∨ ∃ b, (j, b) ∈ (s.n x).res
  /-- a successful call: its message is settled at the receiver -/
  resOk : ∀ j, (j, true) ∈ (s.n x).res → ∃ c, (s.n x).msgs[j]? = some c ∧ specAccept acc c = false
  /-- in sending order, at most once -/
  sorted : (s.n (!x)).app.Pairwise (· > ·)

theorem dir_init (x : Bool) (a0 b0 : Nat) (sai : Option Nat) : Dir x (init a0 b0 sai) [] := by
  have hn : ∀ y, ((init a0 b0 sai).n y).mrp = {} ∧ ((init a0 b0 sai).n y).rx = RxState.unsynced ∧
      ((init a0 b0 sai).n y).cur = none ∧ ((init a0 b0 sai).n y).msgs = [] ∧ ((init a0 b0 sai).n y).res = [] ∧
      ((init a0 b0 sai).n y).app = [] := by
    intro y; cases y <;> simp [init]
  refine { win := ?_, netData := ?_, appAcc := ?_, done := ?_, netAck := ?_, owed := ?_, curSome := ?_,
           curNone := ?_, fin := ?_, resOk := ?_, sorted := ?_ }
  · rw [(hn _).2.1]
    refine ⟨fun _ => rfl, ?_, ?_, ?_⟩ <;> simp [RxState.unsynced]
  · intro d hd; simp [init] at hd
  · intro i hi; rw [(hn _).2.2.2.2.2] at hi; cases hi
  · intro j c hj; rw [(hn _).2.2.2.1] at hj; simp at hj
  · intro d hd; simp [init] at hd
  · intro a ha; rw [(hn _).1] at ha; cases ha
  · intro i hi; rw [(hn _).2.2.1] at hi; cases hi
  · intro _; rw [(hn _).1]
  · intro j hj; rw [(hn _).2.2.2.1] at hj; simp at hj
  · intro j hj; rw [(hn _).2.2.2.2.1] at hj; cases hj
  · rw [(hn _).2.2.2.2.2]; exact List.Pairwise.nil

/-- the receiving node of the direction acts on its own (sends, retransmits, gives up, acknowledges):
its window and application log are untouched, its owed acknowledgement keeps its counter, what it
puts on the wire acknowledges only what it owes -/
theorem dir_receiver_acts {x : Bool} {s s' : Sys} {acc : List Nat} (g : Dir x s acc)
    (hx : s'.n x = s.n x) (hrx : (s'.n (!x)).rx = (s.n (!x)).rx) (happ : (s'.n (!x)).app = (s.n (!x)).app)
    (hack : ∀ a', (s'.n (!x)).mrp.ack = some a' → ∃ a, (s.n (!x)).mrp.ack = some a ∧ a.ctr = a'.ctr)
    (hnet : ∀ d ∈ s'.net, d ∈ s.net ∨ (d.frm = (!x) ∧ ∀ k, d.ack = some k → ∃ a, (s.n (!x)).mrp.ack = some a ∧ a.ctr = k)) :
    Dir x s' acc := by
  refine { win := by rw [hrx]; exact g.win, netData := ?_, appAcc := by rw [happ, hx]; exact g.appAcc,
           done := by rw [hx]; exact g.done, netAck := ?_, owed := ?_, curSome := by rw [hx]; exact g.curSome,
           curNone := by rw [hx]; exact g.curNone, fin := by rw [hx]; exact g.fin, resOk := by rw [hx]; exact g.resOk,
           sorted := by rw [happ]; exact g.sorted }
  · intro d hd hf i hi
    rw [hx]
    rcases hnet d hd with h | ⟨h, _⟩
    · exact g.netData d h hf i hi
    · rw [hf] at h; exact absurd h (ne_not x)
  · intro d hd hf k hk
    rcases hnet d hd with h | ⟨_, h⟩
    · exact g.netAck d h hf k hk
    · obtain ⟨a, ha, hak⟩ := h k hk
      rw [← hak]; exact g.owed a ha
  · intro a' ha'
    obtain ⟨a, ha, hak⟩ := hack a' ha'
    rw [← hak]; exact g.owed a ha

/-- the network loses or duplicates datagrams -/
theorem dir_net_sub {x : Bool} {s : Sys} {acc : List Nat} (g : Dir x s acc) (net' : List Dg)
    (hsub : ∀ d ∈ net', d ∈ s.net) : Dir x { s with net := net' } acc :=
  { win := g.win, netData := fun d hd => g.netData d (hsub d hd), appAcc := g.appAcc, done := g.done,
    netAck := fun d hd => g.netAck d (hsub d hd), owed := g.owed, curSome := g.curSome, curNone := g.curNone,
    fin := g.fin, resOk := g.resOk, sorted := g.sorted }

/-! ## The sending node of the direction acts -/

theorem allOk_mem {nd : Node} (h : nd.allOk = true) (j : Nat) (b : Bool) (hm : (j, b) ∈ nd.res) : b = true := by
  unfold Node.allOk at h
  have := List.all_eq_true.1 h (j, b) hm
  simpa using this

theorem getElem?_append_some {l : List Nat} {i c : Nat} (x : Nat) (h : l[i]? = some c) : (l ++ [x])[i]? = some c := by
  have hlt : i < l.length := (List.getElem?_eq_some_iff.1 h).1
  rw [List.getElem?_append_left hlt]; exact h

theorem dir_send_self {x : Bool} {s s' : Sys} {acc : List Nat} (g : Dir x s acc) (h : sendStep s x = some s') :
    Dir x s' acc := by
  unfold sendStep at h
  simp only at h
  split at h
  · cases h
  · rename_i hguard
    simp only [Bool.or_eq_true, Bool.not_eq_true', not_or, Bool.not_eq_true, Option.isSome_eq_false_iff,
      Option.isNone_iff_eq_none] at hguard
    obtain ⟨⟨hcur, hok⟩, hrt⟩ := hguard
    have hok : (s.n x).allOk = true := by simpa using hok
    have hp := TwoNode.preSend_first (s.n x).mrp (s.n x).ctr none s.sai hrt
    simp only [hp.2] at h
    cases h
    have hxn : ∀ (nd : Node) (net : List Dg), ({ upd s x nd with net := net } : Sys).n x = nd := fun nd _ => upd_same s x nd
    have hyn : ∀ (nd : Node) (net : List Dg), ({ upd s x nd with net := net } : Sys).n (!x) = s.n (!x) :=
      fun nd _ => upd_other s x (!x) nd (not_ne x)
    refine { win := by rw [hyn]; exact g.win, netData := ?_, appAcc := ?_, done := ?_, netAck := ?_,
             owed := by rw [hyn]; exact g.owed, curSome := ?_, curNone := ?_, fin := ?_, resOk := ?_,
             sorted := by rw [hyn]; exact g.sorted }
    · intro d hd hf i hi
      rw [hxn]
      simp only [List.mem_cons] at hd
      rcases hd with rfl | hd
      · simp only [Option.some.injEq] at hi
        subst hi
        simp
      · exact getElem?_append_some _ (g.netData d hd hf i hi)
    · intro i hi
      rw [hyn] at hi
      rw [hxn]
      obtain ⟨c, hc, hca⟩ := g.appAcc i hi
      exact ⟨c, getElem?_append_some _ hc, hca⟩
    · intro j c hj hjc
      rw [hxn] at hj hjc
      simp only [List.length_append, List.length_cons, List.length_nil] at hj
      by_cases hlast : j + 1 < (s.n x).msgs.length
      · rw [List.getElem?_append_left (by omega)] at hjc
        exact g.done j c hlast hjc
      · have hjl : j < (s.n x).msgs.length := by omega
        rw [List.getElem?_append_left hjl] at hjc
        rcases g.fin j hjl with hc | ⟨b, hb⟩
        · rw [hcur] at hc; cases hc
        · have := allOk_mem hok j b hb
          subst this
          obtain ⟨c', hc', hs'⟩ := g.resOk j hb
          rw [hjc] at hc'
          cases hc'
          exact hs'
    · intro d hd hf k hk
      simp only [List.mem_cons] at hd
      rcases hd with rfl | hd
      · exact absurd hf (ne_not x)
      · exact g.netAck d hd hf k hk
    · intro i hi
      rw [hxn] at hi ⊢
      simp only [Option.some.injEq] at hi
      subst hi
      refine ⟨by simp, Retrans.new s.sai (s.n x).ctr, by simp only; rw [hp.1], ?_⟩
      simp [(TwoNode.retrans_new_ctr _ _).1]
    · intro hc
      rw [hxn] at hc
      cases hc
    · intro j hj
      rw [hxn] at hj ⊢
      simp only [List.length_append, List.length_cons, List.length_nil] at hj
      by_cases hjn : j = (s.n x).msgs.length
      · left; simp [hjn]
      · right
        rcases g.fin j (by omega) with hc | hb
        · rw [hcur] at hc; cases hc
        · exact hb
    · intro j hj
      rw [hxn] at hj ⊢
      obtain ⟨c, hc, hs⟩ := g.resOk j hj
      exact ⟨c, getElem?_append_some _ hc, hs⟩

theorem dir_resend_self {x : Bool} {s s' : Sys} {acc : List Nat} (g : Dir x s acc) (w : Bool)
    (h : resendStep s x w = some s') : Dir x s' acc := by
  unfold resendStep at h
  simp only at h
  split at h
  · rename_i i r hcur hrt
    obtain ⟨hnext, r', hr', hmsg⟩ := g.curSome i hcur
    rw [hrt] at hr'
    cases hr'
    by_cases hb : r.count < Consts.mrpMaxTransmissions
    · have hp := preSend_retrans_ok (s.n x).mrp r none s.sai hrt hb
      simp only [hp] at h
      split at h
      · cases h
      · cases h
        have hxn : ∀ (nd : Node) (net : List Dg), ({ upd s x nd with net := net } : Sys).n x = nd := fun nd _ => upd_same s x nd
        have hyn : ∀ (nd : Node) (net : List Dg), ({ upd s x nd with net := net } : Sys).n (!x) = s.n (!x) :=
          fun nd _ => upd_other s x (!x) nd (not_ne x)
        refine { win := by rw [hyn]; exact g.win, netData := ?_, appAcc := by rw [hyn, hxn]; exact g.appAcc,
                 done := by rw [hxn]; exact g.done, netAck := ?_, owed := by rw [hyn]; exact g.owed, curSome := ?_,
                 curNone := ?_, fin := by rw [hxn]; exact g.fin, resOk := by rw [hxn]; exact g.resOk,
                 sorted := by rw [hyn]; exact g.sorted }
        · intro d hd hf j hj
          rw [hxn]
          simp only [List.mem_cons] at hd
          rcases hd with rfl | hd
          · simp only [Option.some.injEq] at hj
            subst hj
            exact hmsg
          · exact g.netData d hd hf j hj
        · intro d hd hf k hk
          simp only [List.mem_cons] at hd
          rcases hd with rfl | hd
          · exact absurd hf (ne_not x)
          · exact g.netAck d hd hf k hk
        · intro j hj
          rw [hxn] at hj ⊢
          have : (s.n x).cur = some j := hj
          rw [hcur] at this
          cases this
          exact ⟨hnext, { r with count := r.count + 1 }, rfl, hmsg⟩
        · intro hc
          rw [hxn] at hc
          have : (s.n x).cur = none := hc
          rw [hcur] at this
          cases this
    · have hp := preSend_retrans_timeout (s.n x).mrp r none s.sai hrt hb
      simp only [hp.1] at h
      split at h
      · cases h
        have hxn : ∀ (nd : Node), (upd s x nd).n x = nd := fun nd => upd_same s x nd
        have hyn : ∀ (nd : Node), (upd s x nd).n (!x) = s.n (!x) := fun nd => upd_other s x (!x) nd (not_ne x)
        refine { win := by rw [hyn]; exact g.win, netData := by rw [hxn]; exact g.netData,
                 appAcc := by rw [hyn, hxn]; exact g.appAcc, done := by rw [hxn]; exact g.done, netAck := g.netAck,
                 owed := by rw [hyn]; exact g.owed, curSome := ?_, curNone := ?_, fin := ?_, resOk := ?_,
                 sorted := by rw [hyn]; exact g.sorted }
        · intro j hj
          rw [hxn] at hj
          cases hj
        · intro _
          rw [hxn]
          exact hp.2.1
        · intro j hj
          rw [hxn] at hj ⊢
          right
          rcases g.fin j hj with hc | ⟨b, hb'⟩
          · rw [hcur] at hc
            cases hc
            exact ⟨false, List.mem_cons_self ..⟩
          · exact ⟨b, List.mem_cons_of_mem _ hb'⟩
        · intro j hj
          rw [hxn] at hj ⊢
          have hj' : (j, true) ∈ (i, false) :: (s.n x).res := hj
          simp only [List.mem_cons, Prod.mk.injEq, Bool.true_eq_false, and_false, false_or] at hj'
          exact g.resOk j hj'
      · cases h
  · cases h

theorem dir_ack_self {x : Bool} {s s' : Sys} {acc : List Nat} (g : Dir x s acc) (h : ackStep s x = some s') :
    Dir x s' acc := by
  unfold ackStep at h
  simp only at h
  split at h
  · cases h
  · rename_i hguard
    simp only [Bool.or_eq_true, Bool.not_eq_true', not_or, Bool.not_eq_false, Bool.not_eq_true,
      Option.isSome_eq_false_iff, Option.isNone_iff_eq_none] at hguard
    obtain ⟨_, hrt⟩ := hguard
    cases h
    have hcur : (s.n x).cur = none := by
      cases hc : (s.n x).cur with
      | none => rfl
      | some i => obtain ⟨_, r, hr, _⟩ := g.curSome i hc; rw [hrt] at hr; cases hr
    have hp := TwoNode.preSend_unreliable (s.n x).mrp (s.n x).ctr none none
    have hxn : ∀ (nd : Node) (net : List Dg), ({ upd s x nd with net := net } : Sys).n x = nd := fun nd _ => upd_same s x nd
    have hyn : ∀ (nd : Node) (net : List Dg), ({ upd s x nd with net := net } : Sys).n (!x) = s.n (!x) :=
      fun nd _ => upd_other s x (!x) nd (not_ne x)
    refine { win := by rw [hyn]; exact g.win, netData := ?_, appAcc := by rw [hyn, hxn]; exact g.appAcc,
             done := by rw [hxn]; exact g.done, netAck := ?_, owed := by rw [hyn]; exact g.owed, curSome := ?_,
             curNone := ?_, fin := by rw [hxn]; exact g.fin, resOk := by rw [hxn]; exact g.resOk,
             sorted := by rw [hyn]; exact g.sorted }
    · intro d hd hf j hj
      rw [hxn]
      simp only [List.mem_cons] at hd
      rcases hd with rfl | hd
      · cases hj
      · exact g.netData d hd hf j hj
    · intro d hd hf k hk
      simp only [List.mem_cons] at hd
      rcases hd with rfl | hd
      · exact absurd hf (ne_not x)
      · exact g.netAck d hd hf k hk
    · intro j hj
      rw [hxn] at hj
      have : (s.n x).cur = some j := hj
      rw [hcur] at this
      cases this
    · intro _
      rw [hxn]
      simp only
      rw [hp.1]
      exact hrt

/-! ## A datagram is delivered -/

/-- the RECEIVING node of the direction changes (it took a datagram of `x` from the network): window,
application log, owed acknowledgement, possibly one new datagram of its own -/
theorem dir_receiver_update {x : Bool} {s : Sys} {acc acc' : List Nat} (g : Dir x s acc) (nd2 : Node) (net' : List Dg)
    (hwin : C04.Inv nd2.rx acc') (hmono : ∀ k, specAccept acc k = false → specAccept acc' k = false)
    (_hsub : ∀ c ∈ acc, c ∈ acc')
    (happ : ∀ i ∈ nd2.app, ∃ c, (s.n x).msgs[i]? = some c ∧ c ∈ acc') (hsorted : nd2.app.Pairwise (· > ·))
    (howed : ∀ a, nd2.mrp.ack = some a → specAccept acc' a.ctr = false)
    (hnet : ∀ d ∈ net', d ∈ s.net ∨ (d.frm = (!x) ∧ ∀ k, d.ack = some k → specAccept acc' k = false)) :
    Dir x { upd s (!x) nd2 with net := net' } acc' := by
  have hxn : ({ upd s (!x) nd2 with net := net' } : Sys).n x = s.n x := upd_other s (!x) x nd2 (ne_not x)
  have hyn : ({ upd s (!x) nd2 with net := net' } : Sys).n (!x) = nd2 := upd_same s (!x) nd2
  refine { win := by rw [hyn]; exact hwin, netData := ?_, appAcc := by rw [hyn, hxn]; exact happ, done := ?_, netAck := ?_,
           owed := by rw [hyn]; exact howed, curSome := by rw [hxn]; exact g.curSome, curNone := by rw [hxn]; exact g.curNone,
           fin := by rw [hxn]; exact g.fin, resOk := ?_, sorted := by rw [hyn]; exact hsorted }
  · intro d hd hf i hi
    rw [hxn]
    rcases hnet d hd with h | ⟨h, _⟩
    · exact g.netData d h hf i hi
    · rw [hf] at h; exact absurd h (ne_not x)
  · intro j c hj hjc
    rw [hxn] at hj hjc
    exact hmono c (g.done j c hj hjc)
  · intro d hd hf k hk
    rcases hnet d hd with h | ⟨_, h⟩
    · exact hmono k (g.netAck d h hf k hk)
    · exact h k hk
  · intro j hj
    rw [hxn] at hj ⊢
    obtain ⟨c, hc, hs⟩ := g.resOk j hj
    exact ⟨c, hc, hmono c hs⟩

/-- the SENDING node of the direction changes (it took a datagram of the peer from the network): its
call stays as it is, or ends with success for a settled message; it may put a stand-alone
acknowledgement of its own on the wire -/
theorem dir_sender_update {x : Bool} {s : Sys} {acc : List Nat} (g : Dir x s acc) (nd2 : Node) (net' : List Dg)
    (hmsgs : nd2.msgs = (s.n x).msgs)
    (hcs : ∀ i, nd2.cur = some i → (s.n x).cur = some i ∧ nd2.mrp.retrans = (s.n x).mrp.retrans)
    (hcn : nd2.cur = none → nd2.mrp.retrans = none)
    (hfin : ∀ j, ((s.n x).cur = some j ∨ ∃ b, (j, b) ∈ (s.n x).res) → (nd2.cur = some j ∨ ∃ b, (j, b) ∈ nd2.res))
    (hres : ∀ j, (j, true) ∈ nd2.res → (j, true) ∈ (s.n x).res ∨ ∃ c, (s.n x).msgs[j]? = some c ∧ specAccept acc c = false)
    (hnet : ∀ d ∈ net', d ∈ s.net ∨ (d.frm = x ∧ d.idx = none)) :
    Dir x { upd s x nd2 with net := net' } acc := by
  have hxn : ({ upd s x nd2 with net := net' } : Sys).n x = nd2 := upd_same s x nd2
  have hyn : ({ upd s x nd2 with net := net' } : Sys).n (!x) = s.n (!x) := upd_other s x (!x) nd2 (not_ne x)
  refine { win := by rw [hyn]; exact g.win, netData := ?_, appAcc := by rw [hyn, hxn, hmsgs]; exact g.appAcc,
           done := by rw [hxn, hmsgs]; exact g.done, netAck := ?_, owed := by rw [hyn]; exact g.owed, curSome := ?_,
           curNone := by rw [hxn]; exact hcn, fin := ?_, resOk := ?_, sorted := by rw [hyn]; exact g.sorted }
  · intro d hd hf i hi
    rw [hxn, hmsgs]
    rcases hnet d hd with h | ⟨_, h⟩
    · exact g.netData d h hf i hi
    · rw [h] at hi; cases hi
  · intro d hd hf k hk
    rcases hnet d hd with h | ⟨h, _⟩
    · exact g.netAck d h hf k hk
    · rw [hf] at h; exact absurd h (not_ne x)
  · intro i hi
    rw [hxn] at hi ⊢
    obtain ⟨hc, hr⟩ := hcs i hi
    obtain ⟨hn, r, hrt, hm⟩ := g.curSome i hc
    rw [hmsgs, hr]
    exact ⟨hn, r, hrt, hm⟩
  · intro j hj
    rw [hxn] at hj ⊢
    rw [hmsgs] at hj
    exact hfin j (g.fin j hj)
  · intro j hj
    rw [hxn] at hj ⊢
    rw [hmsgs]
    rcases hres j hj with h | h
    · exact g.resOk j h
    · exact h

theorem dupAck_eq (s : Sys) (y : Bool) (nd : Node) (d : Dg) :
    dupAck s y nd d = { upd s y (if d.idx.isSome then { nd with ctr := nd.ctr + 1 } else nd) with
      net := if d.idx.isSome then ({ frm := y, ctr := nd.ctr, idx := none, ack := some d.ctr } : Dg) :: s.net else s.net } := by
  unfold dupAck
  split <;> rfl

/-- the node `!x` takes a datagram of `x` from the network (`hd`: the datagram was in flight) -/
theorem dir_recv_data {x : Bool} {s : Sys} {acc : List Nat} (g : Dir x s acc) (d : Dg) (hf : d.frm = x)
    (hd : ∀ i, d.idx = some i → (s.n x).msgs[i]? = some d.ctr) : ∃ acc', Dir x (recv s d) acc' := by
  have href := C04.step_refines (s.n (!x)).rx acc d.ctr g.win
  unfold recv
  simp only [hf]
  cases hw : (postRecvPlain (s.n (!x)).rx d.ctr true).2 with
  | false =>
    -- rejected by the window: settled; acknowledged afresh if it asked for it
    rw [hw] at href
    simp only [Bool.false_eq_true, ↓reduceIte] at href
    refine ⟨acc, ?_⟩
    simp only [Bool.not_false, ↓reduceIte]
    rw [dupAck_eq]
    refine dir_receiver_update g _ _ ?_ (fun k hk => hk) (fun c hc => hc) ?_ ?_ ?_ ?_
    · split <;> exact href.2
    · split <;> exact g.appAcc
    · split <;> exact g.sorted
    · split <;> exact g.owed
    · intro d' hd'
      split at hd'
      · simp only [List.mem_cons] at hd'
        rcases hd' with rfl | h
        · right
          refine ⟨rfl, fun k hk => ?_⟩
          simp only [Option.some.injEq] at hk
          rw [← hk]; exact href.1.symm
        · exact Or.inl h
      · exact Or.inl hd'
  | true =>
    rw [hw] at href
    simp only [↓reduceIte] at href
    have hspec : specAccept acc d.ctr = true := href.1.symm
    have hmono : ∀ k, specAccept acc k = false → specAccept (d.ctr :: acc) k = false := fun k hk => spec_false_mono acc d.ctr k hk
    have hsub : ∀ c ∈ acc, c ∈ d.ctr :: acc := fun c hc => List.mem_cons_of_mem _ hc
    have happ0 : ∀ i ∈ (s.n (!x)).app, ∃ c, (s.n x).msgs[i]? = some c ∧ c ∈ d.ctr :: acc := by
      intro i hi
      obtain ⟨c, hc, hca⟩ := g.appAcc i hi
      exact ⟨c, hc, hsub c hca⟩
    refine ⟨d.ctr :: acc, ?_⟩
    simp only [Bool.not_true, Bool.false_eq_true, ↓reduceIte]
    cases hp : ((s.n (!x)).mrp.postRecv d.ctr d.ack d.idx.isSome 0).2 with
    | some er =>
      -- accepted by the window, refused by the reliability layer (acknowledgement mismatch): like a duplicate
      simp only
      rw [dupAck_eq]
      refine dir_receiver_update g _ _ ?_ hmono hsub ?_ ?_ ?_ ?_
      · split <;> exact href.2
      · split <;> exact happ0
      · split <;> exact g.sorted
      · split <;> exact fun a ha => hmono _ (g.owed a ha)
      · intro d' hd'
        split at hd'
        · simp only [List.mem_cons] at hd'
          rcases hd' with rfl | h
          · right
            refine ⟨rfl, fun k hk => ?_⟩
            simp only [Option.some.injEq] at hk
            rw [← hk]; exact spec_false_self acc d.ctr
          · exact Or.inl h
        · exact Or.inl hd'
    | none =>
      simp only
      -- handed to the application (if it is an application message)
      have happ1 : ∀ i ∈ (match d.idx with
          | some i => i :: (s.n (!x)).app
          | none => (s.n (!x)).app), ∃ c, (s.n x).msgs[i]? = some c ∧ c ∈ d.ctr :: acc := by
        intro i hi
        cases hidx : d.idx with
        | none => rw [hidx] at hi; exact happ0 i hi
        | some i0 =>
          rw [hidx] at hi
          simp only [List.mem_cons] at hi
          rcases hi with rfl | hi
          · exact ⟨d.ctr, hd i hidx, List.mem_cons_self ..⟩
          · exact happ0 i hi
      have hsorted1 : (match d.idx with
          | some i => i :: (s.n (!x)).app
          | none => (s.n (!x)).app).Pairwise (· > ·) := by
        cases hidx : d.idx with
        | none => exact g.sorted
        | some i0 =>
          simp only
          refine List.pairwise_cons.2 ⟨?_, g.sorted⟩
          intro j hj
          -- the accepted message is the last started one; everything in the log is older
          have hi0 := hd i0 hidx
          have hi0lt : i0 < (s.n x).msgs.length := (List.getElem?_eq_some_iff.1 hi0).1
          have hlast : ¬ i0 + 1 < (s.n x).msgs.length := by
            intro hlt
            have := g.done i0 d.ctr hlt hi0
            rw [hspec] at this
            cases this
          obtain ⟨cj, hcj, hcja⟩ := g.appAcc j hj
          have hjlt : j < (s.n x).msgs.length := (List.getElem?_eq_some_iff.1 hcj).1
          have hne : j ≠ i0 := by
            intro heq
            subst heq
            rw [hi0] at hcj
            cases hcj
            have := spec_false_of_mem acc d.ctr hcja
            rw [hspec] at this
            cases this
          show i0 > j
          omega
      have howed1 : ∀ a, ((s.n (!x)).mrp.postRecv d.ctr d.ack d.idx.isSome 0).1.ack = some a →
          specAccept (d.ctr :: acc) a.ctr = false := by
        intro a ha
        rcases postRecv_ack_cases _ _ _ _ _ a ha with ⟨_, hc⟩ | hold
        · rw [hc]; exact spec_false_self acc d.ctr
        · exact hmono _ (g.owed a hold)
      have hnet1 : ∀ d' ∈ s.net, d' ∈ s.net ∨ (d'.frm = (!x) ∧ ∀ k, d'.ack = some k → specAccept (d.ctr :: acc) k = false) :=
        fun d' h => Or.inl h
      have hfinal : ∀ nd2 : Node, nd2.rx = (postRecvPlain (s.n (!x)).rx d.ctr true).1 →
          nd2.mrp = ((s.n (!x)).mrp.postRecv d.ctr d.ack d.idx.isSome 0).1 →
          nd2.app = (match d.idx with
            | some i => i :: (s.n (!x)).app
            | none => (s.n (!x)).app) → Dir x (upd s (!x) nd2) (d.ctr :: acc) := by
        intro nd2 h1 h2 h3
        have := dir_receiver_update g nd2 s.net (by rw [h1]; exact href.2) hmono hsub (by rw [h3]; exact happ1)
          (by rw [h3]; exact hsorted1) (by rw [h2]; exact howed1) hnet1
        exact this
      split
      · split
        · exact hfinal _ rfl rfl rfl
        · exact hfinal _ rfl rfl rfl
      · exact hfinal _ rfl rfl rfl

/-- the node `x` takes a datagram of `!x` from the network (`hack`: what the datagram acknowledges is settled) -/
theorem dir_recv_ack {x : Bool} {s : Sys} {acc : List Nat} (g : Dir x s acc) (d : Dg) (hf : d.frm = (!x))
    (hack : ∀ k, d.ack = some k → specAccept acc k = false) : Dir x (recv s d) acc := by
  unfold recv
  have hy : (!d.frm) = x := by rw [hf]; simp
  simp only [hy]
  have hkeep : ∀ nd2 : Node, nd2.msgs = (s.n x).msgs → nd2.cur = (s.n x).cur → nd2.res = (s.n x).res →
      nd2.mrp.retrans = (s.n x).mrp.retrans → ∀ net', (∀ d' ∈ net', d' ∈ s.net ∨ (d'.frm = x ∧ d'.idx = none)) →
      Dir x { upd s x nd2 with net := net' } acc := by
    intro nd2 h1 h2 h3 h4 net' hn
    refine dir_sender_update g nd2 net' h1 (fun i hi => ⟨by rw [← h2]; exact hi, h4⟩)
      (fun hc => by rw [h4]; exact g.curNone (by rw [← h2]; exact hc)) (fun j hj => by rw [h2, h3]; exact hj)
      (fun j hj => Or.inl (by rw [← h3]; exact hj)) hn
  have hdup : ∀ nd : Node, nd.msgs = (s.n x).msgs → nd.cur = (s.n x).cur → nd.res = (s.n x).res →
      nd.mrp.retrans = (s.n x).mrp.retrans → Dir x (dupAck s x nd d) acc := by
    intro nd h1 h2 h3 h4
    rw [dupAck_eq]
    refine hkeep _ ?_ ?_ ?_ ?_ _ ?_
    · split <;> exact h1
    · split <;> exact h2
    · split <;> exact h3
    · split <;> exact h4
    · intro d' hd'
      split at hd'
      · simp only [List.mem_cons] at hd'
        rcases hd' with rfl | h
        · exact Or.inr ⟨rfl, rfl⟩
        · exact Or.inl h
      · exact Or.inl hd'
  split
  · exact hdup _ rfl rfl rfl rfl
  · cases hp : ((s.n x).mrp.postRecv d.ctr d.ack d.idx.isSome 0).2 with
    | some er =>
      simp only
      exact hdup _ rfl rfl rfl rfl
    | none =>
      simp only
      have hnet0 : ∀ d' ∈ s.net, d' ∈ s.net ∨ (d'.frm = x ∧ d'.idx = none) := fun d' h => Or.inl h
      have hkeep' : ∀ nd2 : Node, nd2.msgs = (s.n x).msgs → nd2.cur = (s.n x).cur → nd2.res = (s.n x).res →
          nd2.mrp.retrans = (s.n x).mrp.retrans → Dir x (upd s x nd2) acc :=
        fun nd2 h1 h2 h3 h4 => hkeep nd2 h1 h2 h3 h4 s.net hnet0
      cases hcur : (s.n x).cur with
      | none =>
        simp only
        have hrt := g.curNone hcur
        have hrt' := postRecv_idle_retrans (s.n x).mrp d.ctr d.ack d.idx.isSome 0 hrt
        refine hkeep' _ rfl (by rw [hcur]) rfl ?_
        simp only
        rw [hrt', hrt]
      | some j =>
        simp only
        obtain ⟨hnext, r, hr, hm⟩ := g.curSome j hcur
        rcases postRecv_retrans_cases (s.n x).mrp r d.ctr d.ack d.idx.isSome 0 hr hp with ⟨hmatch, hnone⟩ | ⟨_, hsame⟩
        · -- the matching acknowledgement: the call ends with success; the message is settled at the peer
          simp only [hnone, Option.isNone_none, ↓reduceIte]
          have hdone : ∀ nd2 : Node, nd2.msgs = (s.n x).msgs → nd2.cur = none → nd2.res = (j, true) :: (s.n x).res →
              nd2.mrp.retrans = none → Dir x (upd s x nd2) acc := by
            intro nd2 h1 h2 h3 h4
            have := dir_sender_update g nd2 s.net h1 (fun i hi => by rw [h2] at hi; cases hi) (fun _ => h4)
              (fun j' hj' => by
                right
                rw [h3]
                rcases hj' with h | ⟨b, hb⟩
                · rw [hcur] at h; cases h; exact ⟨true, List.mem_cons_self ..⟩
                · exact ⟨b, List.mem_cons_of_mem _ hb⟩)
              (fun j' hj' => by
                rw [h3] at hj'
                simp only [List.mem_cons, Prod.mk.injEq, and_true] at hj'
                rcases hj' with h | h
                · right; rw [h]; exact ⟨r.ctr, hm, hack r.ctr hmatch⟩
                · exact Or.inl h) hnet0
            exact this
          exact hdone _ rfl rfl rfl hnone
        · simp only [hsame, Option.isNone_some, Bool.false_eq_true, ↓reduceIte]
          refine hkeep' _ rfl (by rw [hcur]) rfl ?_
          simp only
          rw [hsame, hr]

/-! ## Every transition, both directions -/

/-- what a node's own action (send, retransmit, give up, acknowledge) leaves untouched -/
def OwnShape (s s' : Sys) (w : Bool) : Prop :=
  (∀ y, y ≠ w → s'.n y = s.n y) ∧ (s'.n w).rx = (s.n w).rx ∧ (s'.n w).app = (s.n w).app ∧
  (∀ a', (s'.n w).mrp.ack = some a' → ∃ a, (s.n w).mrp.ack = some a ∧ a.ctr = a'.ctr) ∧
  (∀ d ∈ s'.net, d ∈ s.net ∨ (d.frm = w ∧ ∀ k, d.ack = some k → ∃ a, (s.n w).mrp.ack = some a ∧ a.ctr = k))

theorem ownShape_mk (s : Sys) (w : Bool) (nd : Node) (net' : List Dg) (hrx : nd.rx = (s.n w).rx) (happ : nd.app = (s.n w).app)
    (hack : ∀ a', nd.mrp.ack = some a' → ∃ a, (s.n w).mrp.ack = some a ∧ a.ctr = a'.ctr)
    (hnet : ∀ d ∈ net', d ∈ s.net ∨ (d.frm = w ∧ ∀ k, d.ack = some k → ∃ a, (s.n w).mrp.ack = some a ∧ a.ctr = k)) :
    OwnShape s { upd s w nd with net := net' } w := by
  refine ⟨fun y hy => upd_other s w y nd hy, ?_, ?_, ?_, hnet⟩
  · show ((upd s w nd).n w).rx = _; rw [upd_same]; exact hrx
  · show ((upd s w nd).n w).app = _; rw [upd_same]; exact happ
  · intro a' ha'
    have : ((upd s w nd).n w).mrp.ack = some a' := ha'
    rw [upd_same] at this
    exact hack a' this

theorem send_shape {s s' : Sys} {w : Bool} (h : sendStep s w = some s') : OwnShape s s' w := by
  unfold sendStep at h
  simp only at h
  split at h
  · cases h
  · split at h
    · cases h
    · cases h
      refine ownShape_mk s w _ _ rfl rfl (fun a' ha' => preSend_ack_ctr _ _ _ _ _ a' ha') ?_
      intro d hd
      simp only [List.mem_cons] at hd
      rcases hd with rfl | hd
      · exact Or.inr ⟨rfl, fun k hk => preSend_outAck_none _ _ _ _ k hk⟩
      · exact Or.inl hd

theorem resend_shape {s s' : Sys} {w b : Bool} (h : resendStep s w b = some s') : OwnShape s s' w := by
  unfold resendStep at h
  simp only at h
  split at h
  · split at h
    · split at h
      · cases h
      · cases h
        refine ownShape_mk s w _ _ rfl rfl (fun a' ha' => preSend_ack_ctr _ _ _ _ _ a' ha') ?_
        intro d hd
        simp only [List.mem_cons] at hd
        rcases hd with rfl | hd
        · exact Or.inr ⟨rfl, fun k hk => preSend_outAck_none _ _ _ _ k hk⟩
        · exact Or.inl hd
    · split at h
      · cases h
        exact ownShape_mk s w _ s.net rfl rfl (fun a' ha' => preSend_ack_ctr _ _ _ _ _ a' ha') (fun d hd => Or.inl hd)
      · cases h
    · cases h
  · cases h

theorem ack_shape {s s' : Sys} {w : Bool} (h : ackStep s w = some s') : OwnShape s s' w := by
  unfold ackStep at h
  simp only at h
  split at h
  · cases h
  · cases h
    refine ownShape_mk s w _ _ rfl rfl (fun a' ha' => preSend_ack_ctr _ _ _ _ _ a' ha') ?_
    intro d hd
    simp only [List.mem_cons] at hd
    rcases hd with rfl | hd
    · exact Or.inr ⟨rfl, fun k hk => preSend_outAck_none _ _ _ _ k hk⟩
    · exact Or.inl hd

/-- an own action of the direction's RECEIVER -/
theorem dir_of_ownShape {x : Bool} {s s' : Sys} {acc : List Nat} (g : Dir x s acc) (hs : OwnShape s s' (!x)) : Dir x s' acc :=
  dir_receiver_acts g (hs.1 x (ne_not x)) hs.2.1 hs.2.2.1 hs.2.2.2.1 hs.2.2.2.2

/-- both directions -/
def Both (s : Sys) : Prop := ∀ x, ∃ acc, Dir x s acc

theorem both_init (a0 b0 : Nat) (sai : Option Nat) : Both (init a0 b0 sai) := fun x => ⟨[], dir_init x a0 b0 sai⟩

/-- **Every transition preserves the invariant of both directions.** -/
theorem both_step {s s' : Sys} (g : Both s) (e : Ev) (h : step s e = some s') : Both s' := by
  intro x
  obtain ⟨acc, gx⟩ := g x
  cases e with
  | send w =>
    by_cases hw : w = x
    · subst hw; exact ⟨acc, dir_send_self gx h⟩
    · have := eq_not_of_ne hw; subst this; exact ⟨acc, dir_of_ownShape gx (send_shape h)⟩
  | retx w =>
    by_cases hw : w = x
    · subst hw; exact ⟨acc, dir_resend_self gx false h⟩
    · have := eq_not_of_ne hw; subst this; exact ⟨acc, dir_of_ownShape gx (resend_shape h)⟩
  | giveup w =>
    by_cases hw : w = x
    · subst hw; exact ⟨acc, dir_resend_self gx true h⟩
    · have := eq_not_of_ne hw; subst this; exact ⟨acc, dir_of_ownShape gx (resend_shape h)⟩
  | ackApp w =>
    by_cases hw : w = x
    · subst hw; exact ⟨acc, dir_ack_self gx h⟩
    · have := eq_not_of_ne hw; subst this; exact ⟨acc, dir_of_ownShape gx (ack_shape h)⟩
  | drop d =>
    simp only [step] at h
    split at h
    · cases h
      exact ⟨acc, dir_net_sub gx _ (fun _ hm => List.mem_of_mem_erase hm)⟩
    · cases h
  | dup d =>
    simp only [step] at h
    split at h
    · rename_i hd
      cases h
      refine ⟨acc, dir_net_sub gx _ ?_⟩
      intro y hy
      rcases List.mem_cons.1 hy with rfl | hy
      · simpa using hd
      · exact hy
    · cases h
  | deliver d =>
    simp only [step] at h
    split at h
    · rename_i hd
      have hd' : d ∈ s.net := by simpa using hd
      cases h
      have g0 := dir_net_sub gx (s.net.erase d) (fun _ hm => List.mem_of_mem_erase hm)
      by_cases hf : d.frm = x
      · exact dir_recv_data g0 d hf (fun i hi => gx.netData d hd' hf i hi)
      · have hf' : d.frm = (!x) := eq_not_of_ne hf
        exact ⟨acc, dir_recv_ack g0 d hf' (fun k hk => gx.netAck d hd' hf' k hk)⟩
    · cases h

/-- **Every run preserves it** (induction over the adversary's schedule). -/
theorem both_run (evs : List Ev) : ∀ {s s' : Sys}, Both s → run s evs = some s' → Both s' := by
  induction evs with
  | nil => intro s s' g h; simp only [run, Option.some.injEq] at h; subst h; exact g
  | cons e es ih =>
    intro s s' g h
    simp only [run] at h
    cases hs : step s e with
    | none => rw [hs] at h; cases h
    | some s1 => rw [hs] at h; exact ih (both_step g e hs) h

end TwoNodeBi
