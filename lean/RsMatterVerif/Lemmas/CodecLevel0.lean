import RsMatterVerif.Model.Codec.Level0
import RsMatterVerif.Lemmas.CodecBuf
/-!
# The level-0 decoders (checked cursor / slice / index arithmetic) refine the level-1 decoders

`Lemmas/CodecBuf.lean` proves per *primitive* that `RBuf.leU8 / parseArr / tail / asSlice` equal the list
readers `Rd.*` and never answer `Err.panic`. Here that is lifted to whole *decoders*
(`PlainHdr.decode0`, `ProtoHdr.decode0`, `StatusReport.read0`, the five BDX parsers of
`Model/Codec/Level0.lean`): a simulation relation `SimR` that is closed under `>>=`, `if` and `pure`, the
primitives as its base cases, and one structural proof per decoder.

The BDX parsers additionally index `payload` directly; those accesses are checked operations of the
level-0 model and are shown to be in range from the cursor facts `b.data = payload` and
`b.off + b.left = payload.length` that every read primitive preserves.
-/
namespace Codec

/-- `x` (level 0) is simulated by `y` (level 1): a value of `x` is matched by an `R`-related value of `y`,
an error of `x` is the same error of `y` **and is not `panic`**. -/
def SimR {α β : Type} (R : α → β → Prop) (x : Except Err α) (y : Except Err β) : Prop :=
  match x with
  | .ok a => ∃ b, y = .ok b ∧ R a b
  | .error e => y = .error e ∧ e ≠ .panic

namespace SimR
variable {α β γ δ : Type} {R : α → β → Prop} {S : γ → δ → Prop}

theorem bind {x : Except Err α} {y : Except Err β} {f : α → Except Err γ} {g : β → Except Err δ}
    (h : SimR R x y) (hf : ∀ a b, R a b → SimR S (f a) (g b)) : SimR S (x >>= f) (y >>= g) := by
  cases x with
  | error e =>
    obtain ⟨hy, hp⟩ := h
    subst hy
    exact ⟨rfl, hp⟩
  | ok a =>
    obtain ⟨b, hy, hr⟩ := h
    subst hy
    exact hf a b hr

theorem ite {c : Prop} [Decidable c] {x x2 : Except Err α} {y y2 : Except Err β}
    (h1 : SimR R x y) (h2 : SimR R x2 y2) : SimR R (if c then x else x2) (if c then y else y2) := by
  split <;> assumption

theorem pure {a : α} {b : β} (h : R a b) : SimR R (Pure.pure a : Except Err α) (Pure.pure b) :=
  ⟨b, rfl, h⟩

theorem ok {a : α} {b : β} (h : R a b) : SimR R (.ok a : Except Err α) (.ok b) := ⟨b, rfl, h⟩

theorem err {e : Err} (h : e ≠ .panic) : SimR R (.error e : Except Err α) (.error e : Except Err β) :=
  ⟨rfl, h⟩

/-- a step that does not touch the cursor (the same expression on both levels) -/
theorem same {x : Except Err α} (h : NoPanic x) : SimR Eq x x := by
  cases x with
  | ok a => exact ⟨a, rfl, rfl⟩
  | error e => exact ⟨rfl, by rw [noPanic_iff] at h; simpa using h⟩

theorem noPanic {x : Except Err α} {y : Except Err β} (h : SimR R x y) : NoPanic x := by
  cases x with
  | ok a => exact NoPanic.ok a
  | error e => exact NoPanic.err h.2

theorem eq {x y : Except Err α} (h : SimR Eq x y) : x = y := by
  cases x with
  | ok a => obtain ⟨b, hy, rfl⟩ := h; exact hy.symm
  | error e => exact h.1.symm

end SimR

/-- the relation between a level-0 reader result and a level-1 reader result: same value, the rest is the
remaining bytes of the cursor; the cursor still reads the buffer `d` and still ends at `e` -/
def Cur (d : List Nat) (e : Nat) {α : Type} (p : α × RBuf) (q : α × List Nat) : Prop :=
  q = (p.1, p.2.rem) ∧ p.2.data = d ∧ p.2.off + p.2.left = e

namespace RBuf

theorem inv_of (b : RBuf) {d : List Nat} {e : Nat} (hd : b.data = d) (hb : b.off + b.left = e)
    (he : e ≤ d.length) : b.Inv := by
  unfold Inv; rw [hd, hb]; exact he

/-- closed form of `parse_as_array::<N>` when enough bytes are left -/
theorem parseArr_ok (b : RBuf) (n : Nat) (h : b.Inv) (hn : n ≤ b.left) :
    b.parseArr n = .ok ((b.data.drop b.off).take n, { b with off := b.off + n, left := b.left - n }) := by
  unfold parseArr
  have h1 : b.off ≤ b.off + n ∧ b.off + n ≤ b.data.length := by unfold Inv at h; omega
  have hl : b.left ≥ n := hn
  have e1 : b.off + n - b.off = n := by omega
  simp only [hl, if_true, slice, h1, and_self, advance, csub, bind, Except.bind, pure, Except.pure, e1]

theorem parseArr_err (b : RBuf) (n : Nat) (hn : ¬ n ≤ b.left) : b.parseArr n = .error .truncated := by
  unfold parseArr
  have hl : ¬ b.left ≥ n := hn
  simp only [hl, if_false]

theorem parseArr_sim (b : RBuf) (n : Nat) {d : List Nat} {e : Nat} (hd : b.data = d)
    (hb : b.off + b.left = e) (he : e ≤ d.length) : SimR (Cur d e) (b.parseArr n) (Rd.arr n b.rem) := by
  have hinv := inv_of b hd hb he
  have href := parseArr_refines b n hinv
  by_cases hn : n ≤ b.left
  · rw [parseArr_ok b n hinv hn] at href ⊢
    simp only at href
    exact ⟨_, href.1, rfl, hd, by simp only; omega⟩
  · rw [parseArr_err b n hn] at href ⊢
    simp only at href
    exact ⟨href, by decide⟩

/-- closed form of `le_u8` -/
theorem leU8_ok (b : RBuf) (h : b.Inv) (hn : 1 ≤ b.left) :
    ∃ x, b.leU8 = .ok (x, { b with off := b.off + 1, left := b.left - 1 }) := by
  unfold leU8
  have hoff : b.off < b.data.length := by unfold Inv at h; omega
  have hl : b.left ≥ 1 := hn
  refine ⟨b.data[b.off], ?_⟩
  simp only [hl, if_true, index, List.getElem?_eq_getElem hoff, advance, csub, bind, Except.bind, pure, Except.pure]

theorem leU8_sim (b : RBuf) {d : List Nat} {e : Nat} (hd : b.data = d)
    (hb : b.off + b.left = e) (he : e ≤ d.length) : SimR (Cur d e) b.leU8 (Rd.u8 b.rem) := by
  have hinv := inv_of b hd hb he
  have href := leU8_refines b hinv
  by_cases hn : 1 ≤ b.left
  · obtain ⟨x, hx⟩ := leU8_ok b hinv hn
    rw [hx] at href ⊢
    simp only at href
    exact ⟨_, href.1, rfl, hd, by simp only; omega⟩
  · have hl : ¬ b.left ≥ 1 := hn
    have : b.leU8 = .error .truncated := by unfold leU8; simp only [hl, if_false]
    rw [this] at href ⊢
    simp only at href
    exact ⟨href, by decide⟩

theorem mapArr_sim {x : Except Err (List Nat × RBuf)} {y : Except Err (List Nat × List Nat)} {d : List Nat} {e : Nat}
    (h : SimR (Cur d e) x y) :
    SimR (Cur d e) (x >>= fun p => match p with | (a, b') => (Pure.pure (fromLe a, b') : Except Err (Nat × RBuf)))
      (y >>= fun p => match p with | (a, r) => (Pure.pure (fromLe a, r) : Except Err (Nat × List Nat))) := by
  refine SimR.bind h ?_
  rintro ⟨a, b'⟩ _ ⟨rfl, h1, h2⟩
  exact SimR.pure ⟨rfl, h1, h2⟩

theorem leU16_sim (b : RBuf) {d : List Nat} {e : Nat} (hd : b.data = d)
    (hb : b.off + b.left = e) (he : e ≤ d.length) : SimR (Cur d e) b.leU16 (Rd.u16 b.rem) :=
  mapArr_sim (parseArr_sim b 2 hd hb he)
theorem leU32_sim (b : RBuf) {d : List Nat} {e : Nat} (hd : b.data = d)
    (hb : b.off + b.left = e) (he : e ≤ d.length) : SimR (Cur d e) b.leU32 (Rd.u32 b.rem) :=
  mapArr_sim (parseArr_sim b 4 hd hb he)
theorem leU64_sim (b : RBuf) {d : List Nat} {e : Nat} (hd : b.data = d)
    (hb : b.off + b.left = e) (he : e ≤ d.length) : SimR (Cur d e) b.leU64 (Rd.u64 b.rem) :=
  mapArr_sim (parseArr_sim b 8 hd hb he)

/-- when the cursor ends at the end of the buffer, the remaining bytes are `drop off` -/
theorem rem_eq_drop (b : RBuf) (h : b.off + b.left = b.data.length) : b.rem = b.data.drop b.off := by
  unfold rem
  apply List.take_of_length_le
  simp only [List.length_drop]; omega

/-- `&payload[off..]` (checked) is in range and is the remaining bytes -/
theorem slice_from_off (b : RBuf) {d : List Nat} (hd : b.data = d) (hb : b.off + b.left = d.length) :
    slice d b.off d.length = .ok b.rem := by
  subst hd
  have h1 : b.off ≤ b.data.length ∧ b.data.length ≤ b.data.length := by omega
  unfold slice
  rw [if_pos h1, rem_eq_drop b hb]
  congr 1
  apply List.take_of_length_le
  simp only [List.length_drop]; omega

end RBuf

/-- the per-decoder form of `parsebuf_refines`: a value of the level-0 decoder `x` is the value of the
level-1 decoder `y` with the cursor's remaining bytes as the rest and the cursor still in its invariant; an
error of `x` is the same error of `y` and is not `panic` -/
def RefinesCur {α : Type} (x : Except Err (α × RBuf)) (y : Except Err (α × List Nat)) : Prop :=
  match x with
  | .ok (a, b') => y = .ok (a, b'.rem) ∧ b'.Inv
  | .error er => y = .error er ∧ er ≠ .panic

theorem SimR.refinesCur {α : Type} {d : List Nat} {e : Nat} {x : Except Err (α × RBuf)}
    {y : Except Err (α × List Nat)} (he : e ≤ d.length) (h : SimR (Cur d e) x y) : RefinesCur x y := by
  cases x with
  | error er => exact h
  | ok p =>
    obtain ⟨a, b'⟩ := p
    obtain ⟨q, hy, hq, hd, hb⟩ := h
    subst hq
    exact ⟨hy, RBuf.inv_of b' hd hb he⟩

/-- one cursor step of a simulation proof: the primitive's lemma, then name the new cursor -/
macro "sim_read" : tactic => `(tactic| (
  refine SimR.bind (by first
    | exact RBuf.leU8_sim _ ‹_› ‹_› ‹_›
    | exact RBuf.leU16_sim _ ‹_› ‹_› ‹_›
    | exact RBuf.leU32_sim _ ‹_› ‹_› ‹_›
    | exact RBuf.leU64_sim _ ‹_› ‹_› ‹_›) ?_))

/-- `pure (v, b)` against `pure (v, b.rem)` -/
macro "sim_pure" : tactic => `(tactic| exact SimR.pure ⟨rfl, by assumption, by assumption⟩)

/-- a last read whose value is stored into the result -/
macro "sim_read_pure" : tactic => `(tactic| (
  sim_read
  rintro ⟨x, b⟩ _ ⟨hq, h1, h2⟩
  subst hq
  exact SimR.pure ⟨rfl, h1, h2⟩))


/-! ## plain message header -/
namespace PlainHdr

theorem fromBits_np (all b : Nat) : NoPanic (fromBits all b) := by unfold fromBits; no_panic

/-- **`PlainHdr::decode` on the cursor = the list-level decoder; no checked operation fails** -/
theorem decode0_sim (h : Hdr) (b : RBuf) {d : List Nat} {e : Nat} (hd : b.data = d)
    (hb : b.off + b.left = e) (he : e ≤ d.length) : SimR (Cur d e) (decode0 h b) (decode h b.rem) := by
  unfold decode0 decode
  sim_read
  rintro ⟨f, b1⟩ _ ⟨rfl, hd1, hb1⟩
  refine SimR.bind (SimR.same (fromBits_np _ _)) ?_
  rintro flags _ rfl
  sim_read
  rintro ⟨sid, b2⟩ _ ⟨rfl, hd2, hb2⟩
  sim_read
  rintro ⟨sf, b3⟩ _ ⟨rfl, hd3, hb3⟩
  refine SimR.bind (SimR.same (fromBits_np _ _)) ?_
  rintro secFlags _ rfl
  sim_read
  rintro ⟨ctr, b4⟩ _ ⟨rfl, hd4, hb4⟩
  dsimp only
  refine SimR.ite ?_ ?_
  · sim_read
    rintro ⟨s, b5⟩ _ ⟨rfl, hd5, hb5⟩
    refine SimR.bind (R := Cur d e) (SimR.pure ⟨rfl, hd5, hb5⟩) ?_
    rintro ⟨h6, b6⟩ _ ⟨rfl, hd6, hb6⟩
    dsimp only
    refine SimR.ite (SimR.ite ?_ (SimR.ite ?_ ?_)) ?_
    · sim_read_pure
    · sim_read_pure
    · sim_pure
    · sim_pure
  · refine SimR.bind (R := Cur d e) (SimR.pure ⟨rfl, hd4, hb4⟩) ?_
    rintro ⟨h6, b6⟩ _ ⟨rfl, hd6, hb6⟩
    dsimp only
    refine SimR.ite (SimR.ite ?_ (SimR.ite ?_ ?_)) ?_
    · sim_read_pure
    · sim_read_pure
    · sim_pure
    · sim_pure

end PlainHdr

/-! ## protocol header -/
namespace ProtoHdr

theorem fromBits_np (all b : Nat) : NoPanic (fromBits all b) := by unfold fromBits; no_panic

theorem decode0_sim (h : Hdr) (b : RBuf) {d : List Nat} {e : Nat} (hd : b.data = d)
    (hb : b.off + b.left = e) (he : e ≤ d.length) : SimR (Cur d e) (decode0 h b) (decode h b.rem) := by
  unfold decode0 decode
  sim_read
  rintro ⟨f, b1⟩ _ ⟨rfl, hd1, hb1⟩
  refine SimR.bind (SimR.same (fromBits_np _ _)) ?_
  rintro flags _ rfl
  sim_read
  rintro ⟨op, b2⟩ _ ⟨rfl, hd2, hb2⟩
  sim_read
  rintro ⟨eid, b3⟩ _ ⟨rfl, hd3, hb3⟩
  sim_read
  rintro ⟨pid, b4⟩ _ ⟨rfl, hd4, hb4⟩
  dsimp only
  refine SimR.ite ?_ ?_
  · sim_read
    rintro ⟨s, b5⟩ _ ⟨rfl, hd5, hb5⟩
    refine SimR.bind (R := Cur d e) (SimR.pure ⟨rfl, hd5, hb5⟩) ?_
    rintro ⟨h6, b6⟩ _ ⟨rfl, hd6, hb6⟩
    dsimp only
    refine SimR.ite ?_ ?_
    · sim_read_pure
    · sim_pure
  · refine SimR.bind (R := Cur d e) (SimR.pure ⟨rfl, hd4, hb4⟩) ?_
    rintro ⟨h6, b6⟩ _ ⟨rfl, hd6, hb6⟩
    dsimp only
    refine SimR.ite ?_ ?_
    · sim_read_pure
    · sim_pure

/-- the checked `as_slice()` of the final `trace!` cannot fail: the cursor is in its invariant after `decode0` -/
theorem decode0Traced_eq (h : Hdr) (b : RBuf) (hb : b.Inv) : decode0Traced h b = decode0 h b := by
  have hr := SimR.refinesCur hb (decode0_sim h b rfl rfl hb)
  unfold decode0Traced
  cases hx : decode0 h b with
  | error e => rfl
  | ok p =>
    obtain ⟨h2, b2⟩ := p
    rw [hx] at hr
    simp only [bind, Except.bind, RBuf.asSlice_eq b2 hr.2, pure, Except.pure]

end ProtoHdr

/-! ## status report -/
namespace StatusReport

theorem read0_sim (b : RBuf) (hinv : b.Inv) : SimR Eq (read0 b) (read b.rem) := by
  have he : b.off + b.left ≤ b.data.length := hinv
  have hd : b.data = b.data := rfl
  have hb : b.off + b.left = b.off + b.left := rfl
  unfold read0 read
  sim_read
  rintro ⟨g, b1⟩ _ ⟨rfl, hd1, hb1⟩
  dsimp only
  refine SimR.ite (SimR.err (by decide)) ?_
  sim_read
  rintro ⟨pid, b2⟩ _ ⟨rfl, hd2, hb2⟩
  sim_read
  rintro ⟨pc, b3⟩ _ ⟨rfl, hd3, hb3⟩
  dsimp only
  rw [RBuf.asSlice_eq b3 (RBuf.inv_of b3 hd3 hb3 he)]
  exact SimR.pure rfl

end StatusReport

/-! ## BDX: the `ReadBuf` part as for the headers, plus the direct `payload[..]` accesses -/
namespace Bdx

theorem rdRange0_sim (w : Bool) (b : RBuf) {d : List Nat} {e : Nat} (hd : b.data = d)
    (hb : b.off + b.left = e) (he : e ≤ d.length) : SimR (Cur d e) (rdRange0 w b) (rdRange w b.rem) := by
  unfold rdRange0 rdRange
  split
  · exact RBuf.leU64_sim _ hd hb he
  · exact RBuf.leU32_sim _ hd hb he

/-- the optional range field: `if present { range } else { 0 }` -/
theorem optRange0_sim (c w : Bool) (b : RBuf) {d : List Nat} {e : Nat} (hd : b.data = d)
    (hb : b.off + b.left = e) (he : e ≤ d.length) :
    SimR (Cur d e) (if c = true then rdRange0 w b else Pure.pure (0, b))
      (if c = true then rdRange w b.rem else Pure.pure (0, b.rem)) :=
  SimR.ite (rdRange0_sim w b hd hb he) (SimR.pure ⟨rfl, hd, hb⟩)

/-- **the three direct `payload` accesses of `TransferInit::parse` are guarded**: with the cursor at
`off` of `payload` (and the cursor's end = the end of `payload`) the tail is exactly `take / drop` of the
remaining bytes, `TruncatedPacket` when fewer than `fdl` bytes remain, never a panic -/
theorem init_tail0_eq (payload : List Nat) (hlen : payload.length < USIZE) (b : RBuf) (hd : b.data = payload)
    (hb : b.off + b.left = payload.length) (fdl : Nat) :
    TransferInit.tail0 payload b.off fdl =
      if fdl ≤ b.rem.length then .ok (b.rem.take fdl, b.rem.drop fdl) else .error .truncated := by
  have hrem : b.rem = payload.drop b.off := by rw [RBuf.rem_eq_drop b (by rw [hd]; exact hb), hd]
  have hrl : b.rem.length = payload.length - b.off := by rw [hrem, List.length_drop]
  unfold TransferInit.tail0
  by_cases hf : fdl ≤ b.rem.length
  · have h1 : b.off + fdl < USIZE := by omega
    have h2 : b.off ≤ b.off + fdl ∧ b.off + fdl ≤ payload.length := by omega
    have h3 : b.off + fdl ≤ payload.length ∧ payload.length ≤ payload.length := by omega
    have e1 : b.off + fdl - b.off = fdl := by omega
    have e2 : (List.drop (b.off + fdl) payload).take (payload.length - (b.off + fdl)) = List.drop (b.off + fdl) payload := by
      apply List.take_of_length_le; simp only [List.length_drop]; omega
    rw [if_pos h1, if_pos hf]
    simp only [getRange, if_pos h2, RBuf.slice, if_pos h3, e1, e2, bind, Except.bind, pure, Except.pure, hrem, List.drop_drop]
  · rw [if_neg hf]
    by_cases h1 : b.off + fdl < USIZE
    · have h2 : ¬ (b.off ≤ b.off + fdl ∧ b.off + fdl ≤ payload.length) := by omega
      rw [if_pos h1]
      simp only [getRange, if_neg h2]
    · rw [if_neg h1]

/-- one optional-range step of a BDX simulation proof (either branch of the duplicated continuation) -/
macro "sim_range" : tactic => `(tactic| (
  refine SimR.bind (R := Cur _ _) (by first
    | exact rdRange0_sim _ _ ‹_› ‹_› ‹_›
    | exact SimR.pure ⟨rfl, ‹_›, ‹_›⟩) ?_))

theorem init_parse0_sim (payload : List Nat) (hlen : payload.length < USIZE) :
    SimR Eq (TransferInit.parse0 payload) (TransferInit.parse payload) := by
  have he : payload.length ≤ payload.length := Nat.le_refl _
  have hd0 : (RBuf.new payload).data = payload := rfl
  have hb0 : (RBuf.new payload).off + (RBuf.new payload).left = payload.length := by simp [RBuf.new]
  have hr0 : TransferInit.parse payload = TransferInit.parse (RBuf.new payload).rem := by rw [RBuf.new_rem]
  rw [hr0]
  unfold TransferInit.parse0 TransferInit.parse
  dsimp only
  sim_read
  rintro ⟨tcb, b1⟩ _ ⟨rfl, hd1, hb1⟩
  sim_read
  rintro ⟨rcb, b2⟩ _ ⟨rfl, hd2, hb2⟩
  sim_read
  rintro ⟨mbs, b3⟩ _ ⟨rfl, hd3, hb3⟩
  dsimp only
  refine SimR.ite ?_ ?_ <;>
  ( sim_range
    rintro ⟨so, b4⟩ _ ⟨rfl, hd4, hb4⟩
    dsimp only
    refine SimR.ite ?_ ?_ <;>
    ( sim_range
      rintro ⟨len, b5⟩ _ ⟨rfl, hd5, hb5⟩
      dsimp only
      sim_read
      rintro ⟨fdl, b6⟩ _ ⟨rfl, hd6, hb6⟩
      dsimp only
      rw [init_tail0_eq payload hlen b6 hd6 hb6 fdl]
      split
      · exact SimR.ok rfl
      · exact SimR.err (by decide) ) )

/-- `&payload[rb.read_off()..]` against "the rest is the remaining bytes" -/
theorem rest_sim {α : Type} (payload : List Nat) (b : RBuf) (hd : b.data = payload)
    (hb : b.off + b.left = payload.length) (mk : List Nat → α) :
    SimR Eq (RBuf.slice payload b.off payload.length >>= fun md => (Pure.pure (mk md) : Except Err α))
      (Pure.pure (mk b.rem)) := by
  rw [RBuf.slice_from_off b hd hb]
  exact SimR.ok rfl

theorem accept_parse0_sim (receive : Bool) (payload : List Nat) :
    SimR Eq (TransferAccept.parse0 receive payload) (TransferAccept.parse receive payload) := by
  have he : payload.length ≤ payload.length := Nat.le_refl _
  have hd0 : (RBuf.new payload).data = payload := rfl
  have hb0 : (RBuf.new payload).off + (RBuf.new payload).left = payload.length := by simp [RBuf.new]
  have hr0 : TransferAccept.parse receive payload = TransferAccept.parse receive (RBuf.new payload).rem := by
    rw [RBuf.new_rem]
  rw [hr0]
  unfold TransferAccept.parse0 TransferAccept.parse
  dsimp only
  sim_read
  rintro ⟨tcb, b1⟩ _ ⟨rfl, hd1, hb1⟩
  dsimp only
  refine SimR.ite ?_ ?_
  · sim_read
    rintro ⟨rcb, b2⟩ _ ⟨rfl, hd2, hb2⟩
    sim_read
    rintro ⟨mbs, b3⟩ _ ⟨rfl, hd3, hb3⟩
    dsimp only
    refine SimR.ite ?_ ?_ <;>
    ( sim_range
      rintro ⟨len, b4⟩ _ ⟨rfl, hd4, hb4⟩
      dsimp only
      exact rest_sim payload b4 hd4 hb4 _ )
  · sim_read
    rintro ⟨mbs, b2⟩ _ ⟨rfl, hd2, hb2⟩
    dsimp only
    exact rest_sim payload b2 hd2 hb2 _

theorem block_parse0_sim (payload : List Nat) : SimR Eq (Block.parse0 payload) (Block.parse payload) := by
  have he : payload.length ≤ payload.length := Nat.le_refl _
  have hd0 : (RBuf.new payload).data = payload := rfl
  have hb0 : (RBuf.new payload).off + (RBuf.new payload).left = payload.length := by simp [RBuf.new]
  have hr0 : Block.parse payload = Block.parse (RBuf.new payload).rem := by rw [RBuf.new_rem]
  rw [hr0]
  unfold Block.parse0 Block.parse
  dsimp only
  sim_read
  rintro ⟨c, b1⟩ _ ⟨rfl, hd1, hb1⟩
  dsimp only
  exact rest_sim payload b1 hd1 hb1 _

theorem blockQuery0_sim (payload : List Nat) : SimR Eq (blockQueryParse0 payload) (blockQueryParse payload) := by
  have he : payload.length ≤ payload.length := Nat.le_refl _
  have hd0 : (RBuf.new payload).data = payload := rfl
  have hb0 : (RBuf.new payload).off + (RBuf.new payload).left = payload.length := by simp [RBuf.new]
  have hr0 : blockQueryParse payload = blockQueryParse (RBuf.new payload).rem := by rw [RBuf.new_rem]
  rw [hr0]
  unfold blockQueryParse0 blockQueryParse
  sim_read
  rintro ⟨c, b1⟩ _ ⟨rfl, hd1, hb1⟩
  exact SimR.pure rfl

theorem blockQuerySkip0_sim (payload : List Nat) :
    SimR Eq (blockQuerySkipParse0 payload) (blockQuerySkipParse payload) := by
  have he : payload.length ≤ payload.length := Nat.le_refl _
  have hd0 : (RBuf.new payload).data = payload := rfl
  have hb0 : (RBuf.new payload).off + (RBuf.new payload).left = payload.length := by simp [RBuf.new]
  have hr0 : blockQuerySkipParse payload = blockQuerySkipParse (RBuf.new payload).rem := by rw [RBuf.new_rem]
  rw [hr0]
  unfold blockQuerySkipParse0 blockQuerySkipParse
  sim_read
  rintro ⟨c, b1⟩ _ ⟨rfl, hd1, hb1⟩
  sim_read
  rintro ⟨s, b2⟩ _ ⟨rfl, hd2, hb2⟩
  exact SimR.pure rfl

end Bdx
end Codec
