import RsMatterVerif.Model.Chunk
/-! # Lemmas about `Model/Chunk.lean` (C14) -/
namespace Chunk

def sumSizes (ps : List Piece) : Nat := (ps.map Piece.size).sum

/-- all reports written so far, in order -/
def St.flat (s : St) : List Piece := (s.done.reverse.flatMap (·.pieces)) ++ s.cur.reverse

/-- invariant of the responder state between two reports -/
structure Inv (c : Cfg) (s : St) : Prop where
  usedEq : s.used = c.hdr + c.arrOpen + sumSizes s.cur
  usedLe : s.used ≤ c.limit
  doneOk : ∀ ch ∈ s.done, ch.more = true ∧ ch.size ≤ c.cap ∧
    ch.size = c.hdr + c.arrOpen + sumSizes ch.pieces + c.trailerMore
  doneNonempty : ∀ ch ∈ s.done, ch.pieces ≠ []

theorem sumSizes_cons (p : Piece) (ps : List Piece) : sumSizes (p :: ps) = p.size + sumSizes ps := by
  simp [sumSizes]

theorem sumSizes_reverse (ps : List Piece) : sumSizes ps.reverse = sumSizes ps := by
  simp [sumSizes, List.sum_reverse]

theorem limit_le (c : Cfg) (h : c.WF) : c.limit + c.reserve + c.structReserve = c.cap := by
  have := h.room
  unfold Cfg.limit; omega

theorem inv_init (c : Cfg) (h : c.WF) : Inv c (St.init c) := by
  refine ⟨by simp [St.init, sumSizes], h.start, ?_, ?_⟩ <;> simp [St.init]

/-- `put` appends exactly the report to the stream and keeps the invariant -/
theorem put_ok {c : Cfg} {s s' : St} {p : Piece} (hw : c.WF) (h : Inv c s)
    (hp : put c s p = .ok s') : Inv c s' ∧ s'.cur ≠ [] ∧ s'.flat = s.flat ++ [p] := by
  unfold put at hp
  split at hp
  · rename_i hfit
    injection hp with hp; subst hp
    refine ⟨⟨?_, ?_, h.doneOk, h.doneNonempty⟩, ?_, ?_⟩
    · simp only [sumSizes_cons]; have := h.usedEq; omega
    · exact hfit
    · simp
    · simp [St.flat]
  · rename_i hnofit
    simp only at hp
    split at hp
    · rename_i hfit2
      injection hp with hp; subst hp
      have hlim := limit_le c hw
      have hcur : s.cur ≠ [] := by
        intro h0
        have := h.usedEq
        rw [h0] at this
        simp only [sumSizes, List.map_nil, List.sum_nil] at this
        omega
      refine ⟨⟨?_, ?_, ?_, ?_⟩, ?_, ?_⟩
      · simp [St.flush, sumSizes]
      · exact hfit2
      · intro ch hch
        simp only [St.flush, List.mem_cons] at hch
        rcases hch with rfl | hch
        · refine ⟨rfl, ?_, ?_⟩
          · have := h.usedLe; have := hw.trailerMore; simp only; omega
          · simp only [sumSizes_reverse]; have := h.usedEq; omega
        · exact h.doneOk ch hch
      · intro ch hch
        simp only [St.flush, List.mem_cons] at hch
        rcases hch with rfl | hch
        · simpa using hcur
        · exact h.doneNonempty ch hch
      · simp
      · simp [St.flat, St.flush]
    · simp at hp

/-- a report that fits an empty chunk is always placed -/
theorem put_fits {c : Cfg} (s : St) (p : Piece) (hf : c.hdr + c.arrOpen + p.size ≤ c.limit) :
    ∃ s', put c s p = .ok s' := by
  unfold put
  split
  · exact ⟨_, rfl⟩
  · first
      | exact ⟨_, rfl⟩
      | (split
         · exact ⟨_, rfl⟩
         · rename_i h2; exact absurd hf h2)

/-- a report that does not fit an empty chunk makes the retry loop spin forever -/
theorem put_oversize {c : Cfg} {s : St} (h : Inv c s) (p : Piece)
    (hf : c.limit < c.hdr + c.arrOpen + p.size) : put c s p = .error .loops := by
  unfold put
  have := h.usedEq
  split
  · omega
  · split
    · omega
    · rfl


/-- the per-element reports of a streamed list, from index `k` on -/
def elemPieces (id : Nat) (k : Nat) (es : List Nat) : List Piece :=
  (es.zipIdx k).map fun (e, i) => .listElem id i e

theorem elemPieces_cons (id k e : Nat) (es : List Nat) :
    elemPieces id k (e :: es) = .listElem id k e :: elemPieces id (k + 1) es := by
  simp [elemPieces, List.zipIdx_cons]

theorem putElems_ok {c : Cfg} (hw : c.WF) (id : Nat) : ∀ (es : List Nat) (k : Nat) (s s' : St),
    Inv c s → s.cur ≠ [] → putElems c id k es s = .ok s' →
    Inv c s' ∧ s'.cur ≠ [] ∧ s'.flat = s.flat ++ elemPieces id k es := by
  intro es
  induction es with
  | nil => intro k s s' h hc hp; simp [putElems] at hp; subst hp; simp [elemPieces, h, hc]
  | cons e es ih =>
    intro k s s' h hc hp
    simp only [putElems] at hp
    cases hput : put c s (.listElem id k e) with
    | error err => rw [hput] at hp; simp at hp
    | ok s1 =>
      rw [hput] at hp
      simp only at hp
      obtain ⟨h1, c1, f1⟩ := put_ok hw h hput
      obtain ⟨h2, c2, f2⟩ := ih (k + 1) s1 s' h1 c1 hp
      refine ⟨h2, c2, ?_⟩
      rw [f2, f1, elemPieces_cons]; simp

theorem putElems_fits {c : Cfg} (id : Nat) : ∀ (es : List Nat) (k : Nat) (s : St),
    (∀ e ∈ es, c.hdr + c.arrOpen + e ≤ c.limit) → ∃ s', putElems c id k es s = .ok s' := by
  intro es
  induction es with
  | nil => intro k s _; exact ⟨s, rfl⟩
  | cons e es ih =>
    intro k s hf
    simp only [putElems]
    obtain ⟨s1, h1⟩ := put_fits s (.listElem id k e) (by simpa [Piece.size] using hf e (by simp))
    rw [h1]
    exact ih (k + 1) s1 (fun e' he' => hf e' (by simp [he']))

theorem pieces_split_eq (id whole empty : Nat) (elems : List Nat) (probe : Nat) :
    (Item.list id whole empty elems probe).pieces true = .listStart id empty :: elemPieces id 0 elems := by
  simp [Item.pieces, elemPieces]

/-- the end-of-list probe adds no report; it may close the (non-empty) chunk -/
theorem endProbe_ok {c : Cfg} (hw : c.WF) {s : St} (probe : Nat) (h : Inv c s) (hc : s.cur ≠ []) :
    Inv c (endProbe c s probe) ∧ (endProbe c s probe).flat = s.flat := by
  unfold endProbe
  split
  · exact ⟨h, rfl⟩
  · have hlim := limit_le c hw
    refine ⟨⟨?_, hw.start, ?_, ?_⟩, ?_⟩
    · simp [St.flush, sumSizes]
    · intro ch hch
      simp only [St.flush, List.mem_cons] at hch
      rcases hch with rfl | hch
      · refine ⟨rfl, ?_, ?_⟩
        · have := h.usedLe; have := hw.trailerMore; simp only; omega
        · simp only [sumSizes_reverse]; have := h.usedEq; omega
      · exact h.doneOk ch hch
    · intro ch hch
      simp only [St.flush, List.mem_cons] at hch
      rcases hch with rfl | hch
      · simpa using hc
      · exact h.doneNonempty ch hch
    · simp [St.flat, St.flush]

/-- one item contributes exactly its reports (in whole or streamed form), once, in order -/
theorem putItem_ok {c : Cfg} (hw : c.WF) {s s' : St} {it : Item} (h : Inv c s)
    (hp : putItem c s it = .ok s') : Inv c s' ∧ ∃ split, s'.flat = s.flat ++ it.pieces split := by
  cases it with
  | scalar id sz =>
    simp only [putItem] at hp
    obtain ⟨h1, _, f1⟩ := put_ok hw h hp
    exact ⟨h1, false, by simpa [Item.pieces] using f1⟩
  | list id whole empty elems probe =>
    simp only [putItem] at hp
    split at hp
    · rename_i hfit
      injection hp with hp; subst hp
      refine ⟨⟨?_, hfit, h.doneOk, h.doneNonempty⟩, false, ?_⟩
      · simp only [sumSizes_cons, Piece.size]; have := h.usedEq; omega
      · simp [St.flat, Item.pieces]
    · cases hput : put c s (.listStart id empty) with
      | error err => rw [hput] at hp; simp at hp
      | ok s1 =>
        rw [hput] at hp
        simp only at hp
        cases hel : putElems c id 0 elems s1 with
        | error err => rw [hel] at hp; simp at hp
        | ok s2 =>
          rw [hel] at hp
          simp only at hp
          injection hp with hp; subst hp
          obtain ⟨h1, c1, f1⟩ := put_ok hw h hput
          obtain ⟨h2, c2, f2⟩ := putElems_ok hw id elems 0 s1 s2 h1 c1 hel
          obtain ⟨h3, f3⟩ := endProbe_ok hw probe h2 c2
          refine ⟨h3, true, ?_⟩
          rw [f3, f2, f1, pieces_split_eq]; simp

theorem putItem_fits {c : Cfg} (s : St) (it : Item) (hf : it.fits c = true) :
    ∃ s', putItem c s it = .ok s' := by
  cases it with
  | scalar id sz =>
    simp only [Item.fits, decide_eq_true_eq] at hf
    exact put_fits s (.scalar id sz) (by simpa [Piece.size] using hf)
  | list id whole empty elems probe =>
    simp only [Item.fits, Bool.and_eq_true, decide_eq_true_eq, List.all_eq_true] at hf
    simp only [putItem]
    split
    · exact ⟨_, rfl⟩
    · obtain ⟨s1, h1⟩ := put_fits s (.listStart id empty) (by simpa [Piece.size] using hf.1)
      rw [h1]
      obtain ⟨s2, h2⟩ := putElems_fits id elems 0 s1 hf.2
      simp only [h2]
      exact ⟨_, rfl⟩

/-- the reports of a request for given whole/streamed choices of its list items -/
def allPieces : List Item → List Bool → List Piece
  | [], _ => []
  | it :: its, [] => it.pieces false ++ allPieces its []
  | it :: its, b :: bs => it.pieces b ++ allPieces its bs

theorem putItems_ok {c : Cfg} (hw : c.WF) : ∀ (its : List Item) (s s' : St), Inv c s →
    putItems c its s = .ok s' →
    Inv c s' ∧ ∃ splits, splits.length = its.length ∧ s'.flat = s.flat ++ allPieces its splits := by
  intro its
  induction its with
  | nil => intro s s' h hp; simp [putItems] at hp; subst hp; exact ⟨h, [], rfl, by simp [allPieces]⟩
  | cons it its ih =>
    intro s s' h hp
    simp only [putItems] at hp
    cases hput : putItem c s it with
    | error err => rw [hput] at hp; simp at hp
    | ok s1 =>
      rw [hput] at hp
      simp only at hp
      obtain ⟨h1, b, f1⟩ := putItem_ok hw h hput
      obtain ⟨h2, bs, hl, f2⟩ := ih s1 s' h1 hp
      exact ⟨h2, b :: bs, by simp [hl], by rw [f2, f1]; simp [allPieces]⟩

theorem putItems_fits {c : Cfg} : ∀ (its : List Item) (s : St), Fits c its →
    ∃ s', putItems c its s = .ok s' := by
  intro its
  induction its with
  | nil => intro s _; exact ⟨s, rfl⟩
  | cons it its ih =>
    intro s hf
    simp only [putItems]
    obtain ⟨s1, h1⟩ := putItem_fits s it (hf it (by simp))
    rw [h1]
    exact ih s1 (fun it' h' => hf it' (by simp [h']))

end Chunk
