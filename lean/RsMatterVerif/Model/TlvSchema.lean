import RsMatterVerif.Model.Tlv
/-!
# Schema-directed model of the derived (`#[derive(FromTLV, ToTLV)]`) structure codecs

What `rs-matter-macros/src/tlv.rs` generates for a struct with named fields:
`to_tlv` = `start_<datatype>(tag)`, every field in declaration order with the context tag
`start + index` (or its `#[tagval]`) through the field type's `ToTLV`, `end_container`;
`from_tlv` = `element.<datatype>()?`, then per field `T::from_tlv(&seq.find_ctx(tag)?)`.
The field types are the `FromTLV`/`ToTLV` impls of `tlv/traits/*.rs`:

* `uN` (`primitive.rs`): `tw.uN` (shortest width, `u8` always one byte) / `element.uN()`;
  `NonZeroUN` (`Invalid` on 0), unit enums derived with `datatype = "u8"/"u16"` and the hand-written
  `FromPrimitive` enums (`Invalid` on an unknown value), `bitflags_tlv!` (`InvalidData` on unknown bits);
* `iN` (`primitive.rs`): `tw.iN` (`i8` always one byte, `i16/i32/i64` the smallest signed width that holds
  the value) / `element.iN()` (accepts the signed element types up to `N` bits — never an unsigned one);
  `NonZeroIN` (`Invalid` on 0); under `Nullable` the reserved value is `iN::MIN` (`ConstraintError`);
* `f32` / `f64`: `tw.f32/f64` (`to_le_bytes`, carried here as the bit pattern) / `element.f32()/f64()` (exactly the
  `F32` / `F64` element type); no reserved value under `Nullable` (the trait's default `nullable_*`);
* `bitflags_tlv!(Name, uN)` (`bitflags.rs`): `tw.uN(self.bits())` — **every** bit pattern is written, also one
  with undefined bits (`from_bits_retain`) — / `Name::from_bits(element.uN()?)` (`InvalidData` when a bit outside
  the declared flags is set); under `Nullable` `uN::MAX` is reserved.  `Dom.mask m` is the decoder side; the
  encoder of the real code is the one of the schema with the masks erased (`Ty.eraseMask`, `encodeReal`);
* `[T; N]` (`array.rs`): `to_tlv` = the slice's (TLV array of the `N` items); `from_tlv` pushes every item of
  `TLVArray::new(element)?` into a `Vec<T, N>` (`ConstraintError` on item `N + 1`) and then **pads with
  `T::default()`** up to `N` items;
* `bool`; `Octets`/`OctetsOwned<N>` (`tw.str` / `element.str()`, `ConstraintError` beyond `N`);
  `&str`/`String<N>` (`tw.utf8` / `element.utf8()`);
* `Option<T>` (`maybe.rs`): `None` writes nothing, an empty element (tag not found) reads as `None`;
* `Nullable<T>`: null ↔ TLV null, otherwise `T::nullable_to_tlv` / `T::nullable_from_tlv` (integers:
  the top value of the type is reserved, `ConstraintError`);
* a nested derived structure (struct / list datatype);
* `Vec<T, N>` / `[T]` / `TLVArray<T>` (`vec.rs`, `slice.rs`, `container.rs`): `start_array`, every item
  with the anonymous tag, `end_container` / `TLVArray::new` (an **empty element is accepted** and reads as
  the empty array), `container().unwrap_or(empty)`, every item of `iter()` through `T::from_tlv`,
  `ConstraintError` beyond `N`.

A `Ty` is that layout as data; which schema a given `derive` expands to is **not** proved — it is
checked by correspondence on the fixed list of real structures in `named`.
-/
namespace TlvSchema
open Tlv

/-- which values of the wire integer the Rust field type accepts -/
inductive Dom
  | any                      -- `uN`
  | nonzero                  -- `NonZeroUN`
  | oneOf (vals : List Nat)  -- unit enum
  | mask (m : Nat)           -- bit flags: only bits of `m`
deriving DecidableEq, Repr, Inhabited

def Dom.accepts : Dom → Nat → Bool
  | .any, _ => true
  | .nonzero, n => n != 0
  | .oneOf vs, n => vs.contains n
  | .mask m, n => (n &&& m) == n

mutual
/-- a value of a `Ty` -/
inductive Val
  | num (n : Nat) | bool (b : Bool) | bytes (b : Bytes) | obj (ss : Slots) | arr (vs : Vals)
  /-- a signed integer (`iN`, `NonZeroIN`); `f32` / `f64` are carried as `num <bit pattern>` -/
  | int (i : Int)
  /-- a raw `TLVElement` field, as the tree it decodes to (anonymous tag) -/
  | raw (v : Value)
  /-- the empty `TLVElement` (field not present) -/
  | empty
  /-- variant `i` of an enum with payload -/
  | variant (i : Nat) (v : Val)
deriving DecidableEq
/-- a field value: `Option::None`, `Nullable` null, a value -/
inductive Slot
  | absent | null | val (v : Val)
deriving DecidableEq
inductive Slots
  | nil | cons (s : Slot) (r : Slots)
deriving DecidableEq
inductive Vals
  | nil | cons (v : Val) (r : Vals)
deriving DecidableEq
end

mutual
inductive Ty
  | uint (w : Width) (d : Dom)
  | bool
  | octets (lo : Nat) (cap : Option Nat)
  | utf8 (cap : Option Nat)
  | struct (k : Kind) (fs : Fields)
  | array (cap : Option Nat) (elem : Ty)
  /-- a raw `TLVElement<'a>` field: re-encoded under the field's tag, decoded lazily -/
  | any
  /-- an enum with one unnamed field per variant (`datatype = "struct"`): a structure holding exactly
  the variant's payload under the variant's context tag -/
  | choice (alts : Alts)
  /-- `iN` (`nz`: `NonZeroIN`) -/
  | sint (w : Width) (nz : Bool)
  /-- `f32` / `f64`, as bit patterns -/
  | f32
  | f64
  /-- `[T; N]`; `dflt` = `T::default()`, what the decoder pads a shorter TLV array with -/
  | fixarr (n : Nat) (elem : Ty) (dflt : Val)
/-- the fields of a derived structure, in declaration order: context tag, `Option`, `Nullable`, type -/
inductive Fields
  | nil
  | cons (tag : Nat) (opt nullable : Bool) (ty : Ty) (rest : Fields)
  /-- a `Skippable<T>` field: always written; a missing element reads as `T::default()` = `dflt` -/
  | consSkip (tag : Nat) (ty : Ty) (dflt : Val) (rest : Fields)
/-- the variants of an enum with payload: context tag and payload type -/
inductive Alts
  | nil
  | cons (tag : Nat) (ty : Ty) (rest : Alts)
end

def Vals.length : Vals → Nat
  | .nil => 0
  | .cons _ r => r.length + 1

def Vals.append : Vals → Vals → Vals
  | .nil, ys => ys
  | .cons v r, ys => .cons v (r.append ys)

def Vals.replicate : Nat → Val → Vals
  | 0, _ => .nil
  | n + 1, d => .cons d (Vals.replicate n d)

/-- `while !vec.is_full() { vec.push(Default::default()) }` on a `Vec<T, N>` holding `vs` -/
def padTo (n : Nat) (d : Val) (vs : Vals) : Vals := vs.append (Vals.replicate (n - vs.length) d)

/-- largest value of a `w`-byte unsigned integer (`uN::MAX`) -/
def wmax (w : Width) : Nat := 2 ^ (8 * w.bytes) - 1

/-- `iN::MIN` / `iN::MAX` of a `w`-byte signed integer -/
def smin (w : Width) : Int := -((2 ^ (8 * w.bytes - 1) : Nat) : Int)
def smax (w : Width) : Int := ((2 ^ (8 * w.bytes - 1) : Nat) : Int) - 1

/-- the primitive `tw.i8` / `tw.i16|i32|i64` writes -/
def sintPrim (w : Width) (i : Int) : Prim := if w = .w1 then .sint .w1 i else Prim.mkSint i

/-- capacity of `OctetsOwned<N>` / `String<N>` / `Vec<T, N>` (`none`: borrowed, unbounded) -/
def capOk (cap : Option Nat) (n : Nat) : Bool :=
  match cap with
  | none => true
  | some c => n ≤ c

/-- the primitive `tw.u8` / `tw.u16|u32|u64` writes -/
def uintPrim (w : Width) (n : Nat) : Prim := if w = .w1 then .uint .w1 n else Prim.mkUint n

def _root_.Tlv.Value.tag : Value → Tag
  | .leaf t _ => t
  | .cont t _ _ => t

/-- the same element under another tag (`elem.to_tlv(&tag, ..)`) -/
def _root_.Tlv.Value.retag (t : Tag) : Value → Value
  | .leaf _ p => .leaf t p
  | .cont _ k cs => .cont t k cs

def _root_.Tlv.Value.isNull : Value → Bool
  | .leaf _ .null => true
  | _ => false

def tagWfb : Tag → Bool
  | .anon => true
  | .ctx n => decide (n < 2 ^ 8)
  | .commonPrf16 n => decide (n < 2 ^ 16)
  | .commonPrf32 n => decide (n < 2 ^ 32)
  | .implPrf16 n => decide (n < 2 ^ 16)
  | .implPrf32 n => decide (n < 2 ^ 32)
  | .fullQual48 v p t => decide (v < 2 ^ 16) && decide (p < 2 ^ 16) && decide (t < 2 ^ 16)
  | .fullQual64 v p t => decide (v < 2 ^ 16) && decide (p < 2 ^ 16) && decide (t < 2 ^ 32)

def primWfb : Prim → Bool
  | .sint w i => decide (-(2 ^ (8 * w.bytes - 1) : Nat) ≤ i) && decide (i < (2 ^ (8 * w.bytes - 1) : Nat))
  | .uint w n => decide (n < 2 ^ (8 * w.bytes))
  | .bool _ => true
  | .f32 b => decide (b < 2 ^ 32)
  | .f64 b => decide (b < 2 ^ 64)
  | .utf8 w b => decide (b.length < 2 ^ (8 * w.bytes)) && validUtf8 b
  | .str w b => decide (b.length < 2 ^ (8 * w.bytes))
  | .null => true

mutual
/-- executable `Value.wf` -/
def valueWfb : Value → Bool
  | .leaf t p => tagWfb t && primWfb p
  | .cont t _ cs => tagWfb t && valuesWfb cs
def valuesWfb : Values → Bool
  | .nil => true
  | .cons v vs => valueWfb v && valuesWfb vs
end

/-- the `i`-th variant -/
def Alts.get : Alts → Nat → Option (Nat × Ty)
  | .nil, _ => none
  | .cons tag ty _, 0 => some (tag, ty)
  | .cons _ _ rest, i + 1 => rest.get i

/-! ## derived `to_tlv`: `none` = the value does not inhabit the Rust type (or the writer refuses it) -/
mutual
/-- `T::to_tlv(tag)`; with `nl` the `T::nullable_to_tlv(tag)` of a `Nullable<T>` -/
def encodeVal : Bool → Ty → Tag → Val → Option Value
  | nl, .uint w d, t, .num n =>
    if n ≤ wmax w && d.accepts n && (!nl || n != wmax w) then some (.leaf t (uintPrim w n)) else none
  | _, .bool, t, .bool b => some (.leaf t (.bool b))
  | _, .octets lo cap, t, .bytes b =>
    if decide (lo ≤ b.length) && capOk cap b.length && decide (b.length < USIZE) then some (.leaf t (Prim.mkStr b)) else none
  | _, .utf8 cap, t, .bytes b =>
    if capOk cap b.length && decide (b.length < USIZE) && validUtf8 b then some (.leaf t (Prim.mkUtf8 b)) else none
  | _, .struct k fs, t, .obj ss =>
    match encodeFields fs ss with
    | some vs => some (.cont t k (Values.ofList vs))
    | none => none
  | _, .array cap el, t, .arr vs =>
    if capOk cap vs.length then
      match encodeElems el vs with
      | some xs => some (.cont t .array (Values.ofList xs))
      | none => none
    else none
  | nl, .any, t, .raw v =>
    -- `TLVElement::to_tlv(tag)`; a `Nullable` raw element that is itself a TLV null would read back as null
    if v.tag == .anon && valueWfb v && (!nl || !v.isNull) then some (v.retag t) else none
  | _, .choice alts, t, .variant i v =>
    match alts.get i with
    | some (tag, ty) =>
      match encodeVal false ty (.ctx tag) v with
      | some x => some (.cont t .struct (.cons x .nil))
      | none => none
    | none => none
  | nl, .sint w nz, t, .int i =>
    -- `tw.iN(tag, *self)`; `Nullable`: `*self != iN::MIN`, else `ConstraintError`
    if decide (smin w ≤ i) && decide (i ≤ smax w) && (!nz || i != 0) && (!nl || i != smin w) then
      some (.leaf t (sintPrim w i)) else none
  | _, .f32, t, .num b => if decide (b < 2 ^ 32) then some (.leaf t (.f32 b)) else none
  | _, .f64, t, .num b => if decide (b < 2 ^ 64) then some (.leaf t (.f64 b)) else none
  | _, .fixarr n el _, t, .arr vs =>
    -- `self.as_slice().to_tlv(tag, tw)`: a Rust `[T; N]` has exactly `N` items
    if vs.length = n then
      match encodeElems el vs with
      | some xs => some (.cont t .array (Values.ofList xs))
      | none => none
    else none
  | _, _, _, _ => none
/-- the fields of a structure, each under its context tag -/
def encodeFields : Fields → Slots → Option (List Value)
  | .nil, .nil => some []
  | .cons tag o n ty rest, .cons s ss =>
    match s with
    | .absent => if o then encodeFields rest ss else none
    | .null =>
      if n then
        match encodeFields rest ss with
        | some r => some (.leaf (.ctx tag) .null :: r)
        | none => none
      else none
    | .val v =>
      match encodeVal n ty (.ctx tag) v with
      | some x =>
        match encodeFields rest ss with
        | some r => some (x :: r)
        | none => none
      | none => none
  | .consSkip tag ty _ rest, .cons s ss =>
    match s with
    | .val v =>
      match encodeVal false ty (.ctx tag) v with
      | some x =>
        match encodeFields rest ss with
        | some r => some (x :: r)
        | none => none
      | none => none
    | _ => none
  | _, _ => none
/-- the items of an array, each under the anonymous tag -/
def encodeElems : Ty → Vals → Option (List Value)
  | _, .nil => some []
  | el, .cons v r =>
    match encodeVal false el .anon v with
    | some x =>
      match encodeElems el r with
      | some xs => some (x :: xs)
      | none => none
    | none => none
end

/-- the value tree the derived `to_tlv(&TLVTag::Anonymous, ..)` writes -/
def toValue (ty : Ty) (v : Val) : Option Value := encodeVal false ty .anon v

def encodeStruct (ty : Ty) (v : Val) : Option Bytes := (toValue ty v).map encode

/-! ## derived `from_tlv` -/

/-- `element.struct()/array()/list()` as the derive calls it -/
def enter (k : Kind) (bs : Bytes) : Res Bytes :=
  match k with
  | .struct => structOf bs
  | .array => arrayOf bs
  | .list => listOf bs

/-- `element.uN()` -/
def readUint (w : Width) (e : Bytes) : Res Nat :=
  match w with
  | .w1 => u8 e
  | .w2 => u16 e
  | .w4 => u32 e
  | .w8 => u64 e

/-- `element.iN()` -/
def readSint (w : Width) (e : Bytes) : Res Int :=
  match w with
  | .w1 => i8 e
  | .w2 => i16 e
  | .w4 => i32 e
  | .w8 => i64 e

/-- `for item in TLVArray::new(..)? { vec.push(item?).map_err(|_| ConstraintError)?; }` on a `Vec<T, N>` with
room for `room` more items: the item is decoded first, then the push fails when the vector is full -/
def decodeSeqCap (f : Bytes → Res Val) : Nat → List (Res Bytes) → Res Vals
  | _, [] => pure .nil
  | room, r :: rest => do
    let e ← r
    let v ← f e
    match room with
    | 0 => .err .invalid        -- ConstraintError
    | room' + 1 => do
      let vs ← decodeSeqCap f room' rest
      pure (.cons v vs)

/-- `TLVContainerIter`: every item of `seq.iter()` through `T::from_tlv`, stopping at the first error -/
def decodeSeqWith (f : Bytes → Res Val) : List (Res Bytes) → Res Vals
  | [] => pure .nil
  | r :: rest => do
    let e ← r
    let v ← f e
    let vs ← decodeSeqWith f rest
    pure (.cons v vs)

/-- `TLVArray::new(element)`: an empty element is accepted, otherwise it must be an array -/
def arrayNew (e : Bytes) : Res Unit :=
  if e.isEmpty then pure () else do
    let _ ← arrayOf e
    pure ()

/-- `TLVContainer::iter`: `self.element.container().unwrap_or(TLVSequence(&[]))` -/
def containerOrEmpty (e : Bytes) : Res Bytes :=
  match containerOf e with
  | .ok s => .ok s
  | .err _ => .ok []
  | .panic p => .panic p

mutual
/-- `T::from_tlv(element)`; with `nl` the `T::nullable_from_tlv(element)` of a `Nullable<T>` -/
def decodeVal : Bool → Ty → Bytes → Res Val
  | nl, .uint w d, e => do
    let n ← readUint w e
    if nl && n == wmax w then .err .invalid        -- ConstraintError
    else if d.accepts n then pure (.num n) else .err .invalid
  | _, .bool, e => do
    let b ← boolOf e
    pure (.bool b)
  | _, .octets lo cap, e => do
    let s ← strOf e
    if decide (lo ≤ s.length) && capOk cap s.length then pure (.bytes s) else .err .invalid
  | _, .utf8 cap, e => do
    let s ← utf8Of e
    if capOk cap s.length then pure (.bytes s) else .err .invalid
  | _, .struct k fs, e => do
    let seq ← enter k e
    let ss ← decodeFields seq fs
    pure (.obj ss)
  | _, .array cap el, e => do
    arrayNew e
    let seq ← containerOrEmpty e
    let vs ← decodeSeqWith (decodeVal false el) (elements seq)
    if capOk cap vs.length then pure (.arr vs) else .err .invalid
  | _, .any, e =>
    -- `TLVElement::from_tlv` is a clone; the element is observed through the tree decoder
    -- (`tag()`, `value()`, `container()?.iter()`, as stream w does) under the anonymous tag
    if e.isEmpty then pure .empty else do
      let v ← decodeTree e.length e
      pure (.raw (v.retag .anon))
  | _, .choice alts, e => do
    -- `element.r#struct()?.iter().next().ok_or(TLVTypeMismatch)??`, `try_ctx()?.ok_or(TLVTypeMismatch)?`
    let seq ← structOf e
    match (iterNext seq).1 with
    | none => .err .mismatch
    | some r => do
      let el ← r
      let o ← tryCtx el
      let tag ← okOr o .mismatch
      decodeAlts alts 0 tag el
  | nl, .sint w nz, e => do
    let i ← readSint w e
    if nl && i == smin w then .err .invalid         -- ConstraintError
    else if nz && i == 0 then .err .invalid         -- `NonZeroIN::new` → Invalid
    else pure (.int i)
  | _, .f32, e => do
    let b ← Tlv.f32 e
    pure (.num b)
  | _, .f64, e => do
    let b ← Tlv.f64 e
    pure (.num b)
  | _, .fixarr n el d, e => do
    arrayNew e
    let seq ← containerOrEmpty e
    let vs ← decodeSeqCap (decodeVal false el) n (elements seq)
    pure (.arr (padTo n d vs))
/-- `match tag { #(#tags => Self::#variant(T::from_tlv(&element)?),)* _ => Err(Invalid) }` -/
def decodeAlts : Alts → Nat → Nat → Bytes → Res Val
  | .nil, _, _, _ => .err .invalid
  | .cons tg ty rest, i, tag, el =>
    if tg = tag then do
      let v ← decodeVal false ty el
      pure (.variant i v)
    else decodeAlts rest (i + 1) tag el
/-- per field `T::from_tlv(&seq.find_ctx(tag)?)` for `T`, `Option<T>`, `Nullable<T>`, `Option<Nullable<T>>` -/
def decodeFields (seq : Bytes) : Fields → Res Slots
  | .nil => pure .nil
  | .cons tag o n ty rest => do
    let e ← findCtx seq tag
    let s ←
      (if o && e.isEmpty then pure Slot.absent
       else if n then do
         let c ← control e
         if c.vt = .null then pure Slot.null else do
           let v ← decodeVal true ty e
           pure (Slot.val v)
       else do
         let v ← decodeVal false ty e
         pure (Slot.val v))
    let r ← decodeFields seq rest
    pure (.cons s r)
  | .consSkip tag ty dflt rest => do
    let e ← findCtx seq tag
    let s ← (if e.isEmpty then pure (Slot.val dflt) else do
      let v ← decodeVal false ty e
      pure (Slot.val v))
    let r ← decodeFields seq rest
    pure (.cons s r)
end

/-- the derived `from_tlv` -/
def decodeStruct (ty : Ty) (bs : Bytes) : Res Val := decodeVal false ty bs

/-! ## the real structures of stream `s` (hand-read from the Rust declarations) -/

def Fields.ofList : List (Nat × Bool × Bool × Ty) → Fields
  | [] => .nil
  | (tag, o, n, ty) :: r => .cons tag o n ty (Fields.ofList r)

def tU8 : Ty := .uint .w1 .any
def tU16 : Ty := .uint .w2 .any
def tU32 : Ty := .uint .w4 .any
def tU64 : Ty := .uint .w8 .any
def tOct : Ty := .octets 0 none
/-- `CryptoSensitive<N>`: exactly `N` bytes -/
def tKey (n : Nat) : Ty := .octets n (some n)
/-- optional field -/
def o (tag : Nat) (ty : Ty) : Nat × Bool × Bool × Ty := (tag, true, false, ty)
/-- required field -/
def r (tag : Nat) (ty : Ty) : Nat × Bool × Bool × Ty := (tag, false, false, ty)
def st (fs : List (Nat × Bool × Bool × Ty)) : Ty := .struct .struct (Fields.ofList fs)
def ls (fs : List (Nat × Bool × Bool × Ty)) : Ty := .struct .list (Fields.ofList fs)

def clusterPath : Ty := ls [o 0 tU64, r 1 tU16, r 2 tU32]
def target : Ty := st [o 0 tU32, o 1 tU16, o 2 tU32]
/-- `sc::SessionParameters` (`start = 1`) -/
def sessionParameters : Ty := st [o 1 tU32, o 2 tU32, o 3 tU16, o 4 tU16, o 5 tU16, o 6 tU32, o 7 tU16]
/-- `IMStatusCode` (`FromPrimitive`, written with `tw.u16`) -/
def imStatusCode : Ty := .uint .w2 (.oneOf [0, 1, 0x7d, 0x7e, 0x7f, 0x80, 0x81, 0x85, 0x86, 0x87, 0x88, 0x89, 0x8b,
  0x8c, 0x8d, 0x8f, 0x92, 0x94, 0x9b, 0x9c, 0x9d, 0xc3, 0xc5, 0xc6, 0xc7, 0xc8, 0xc9, 0xca, 0xcb, 0xcc, 0xcd, 0xce,
  0xcf, 0xd0, 0xd1])

def attrPath : Ty := ls [o 0 .bool, o 1 tU64, o 2 tU16, o 3 tU32, o 4 tU32, (5, true, true, tU16)]
def cmdPath : Ty := ls [o 0 tU16, o 1 tU32, o 2 tU32]
def status : Ty := st [r 0 imStatusCode, o 1 tU16]
/-- `AttrStatus` / `AttrData` (raw `TLVElement` payload) / `AttrResp` (enum with payload) -/
def attrStatus : Ty := st [r 0 attrPath, r 1 status]
def attrData : Ty := st [o 0 tU32, r 1 attrPath, r 2 .any]
def attrResp : Ty := .choice (.cons 0 attrStatus (.cons 1 attrData .nil))
def cmdStatus : Ty := st [r 0 cmdPath, r 1 status, o 2 tU16]
def cmdData : Ty := st [r 0 cmdPath, r 1 .any, o 2 tU16]
def cmdResp : Ty := .choice (.cons 0 cmdData (.cons 1 cmdStatus .nil))

def aclEntry : Ty := st [
  r 1 (.uint .w1 (.oneOf [1, 2, 3, 4, 5])),                                  -- Privilege ↔ AccessControlEntryPrivilegeEnum
  r 2 (.uint .w1 (.oneOf [1, 2, 3])),                                        -- AuthMode
  (3, false, true, .array (some Consts.aclMaxSubjects) tU64),                -- Nullable<Vec<u64, N>>
  (4, false, true, .array (some Consts.aclMaxTargets) target),               -- Nullable<Vec<Target, N>>
  o 5 (.uint .w1 (.oneOf [0, 1])),                                           -- Option<AccessControlAuxiliaryTypeEnum>
  o Consts.fabricIndexTag (.uint .w1 .nonzero)]                              -- Option<NonZeroU8>

/-- `fabric::Groups` (feature `groups`) -/
def groups : Ty := st [
  r 0 (.array (some Consts.groupMaxKeys) (st [r 0 tU16, r 1 tU8,                       -- GroupKeySet
    r 2 (.array (some Consts.groupMaxEpochKeys) (st [r 0 (tKey Consts.aeadKeyLen), r 1 tU64]))])),
  r 1 (.array (some Consts.groupMaxGroups) (st [r 0 tU16, r 1 tU16])),                  -- GroupKeyMapping
  r 2 (.array (some Consts.groupMaxGroups) (st [r 0 tU16,                               -- GroupEndpointMapping
    r 1 (.array (some Consts.groupMaxEndpoints) tU16), r 2 (.utf8 (some Consts.groupNameLen)), o 3 .bool,
    o 4 (.uint .w1 (.oneOf [0, 1]))]))]

/-- `Groups::default()`: three empty vectors -/
def groupsDefault : Val :=
  .obj (.cons (.val (.arr .nil)) (.cons (.val (.arr .nil)) (.cons (.val (.arr .nil)) .nil)))

/-- a `Vec<u8, N>` (written as a TLV array of 8-bit integers) -/
def byteVec (n : Nat) : Ty := .array (some n) tU8

/-- the persisted `fabric::Fabric` blob -/
def fabric : Ty := .struct .struct (
  .cons 0 false false (.uint .w1 .nonzero) (
  .cons 1 false false tU64 (
  .cons 2 false false tU64 (
  .cons 3 false false tU16 (
  .cons 4 false false tU64 (
  .cons 5 false false (tKey Consts.ecScalarLen) (
  .cons 6 false false (byteVec Consts.certMaxTlvLen) (
  .cons 7 false false (byteVec Consts.certMaxTlvLen) (
  .cons 8 false false .bool (
  .cons 9 false false (byteVec Consts.certMaxTlvLen) (
  .cons 10 false false (st [r 0 (tKey Consts.aeadKeyLen), r 1 (tKey Consts.aeadKeyLen)]) (
  .cons 11 false false (.utf8 (some 32)) (
  .cons 12 false false (.array (some Consts.aclMaxEntries) aclEntry) (
  .consSkip 13 groups groupsDefault (
  .cons 14 false false (byteVec Consts.vvsLen) .nil)))))))))))))))

def tI8 : Ty := .sint .w1 false
def tI16 : Ty := .sint .w2 false
def tI32 : Ty := .sint .w4 false
def tI64 : Ty := .sint .w8 false

/-- `dm::clusters::time_sync::DSTOffsetEntry` -/
def dstOffsetEntry : Ty := st [r 0 tI32, r 1 tU64, o 2 tU64]
/-- `dm::clusters::time_sync::TimeZoneOwned` (persisted time-zone entry, `String<64>` name) -/
def timeZoneOwned : Ty := st [r 0 tI32, r 1 tU64, o 2 (.utf8 (some Consts.timeZoneNameMax))]
/-- `dm::clusters::thread_diag::NeighborTable` (two optional `i8` RSSI values) -/
def neighborTable : Ty := st [r 0 tU64, r 1 tU32, r 2 tU16, r 3 tU32, r 4 tU32, r 5 tU8, o 6 tI8, o 7 tI8,
  r 8 tU8, r 9 tU8, r 10 .bool, r 11 .bool, r 12 .bool, r 13 .bool]

def named : String → Option Ty
  | "AttrPath" => some attrPath
  | "CmdPath" => some cmdPath
  | "EventPath" => some (ls [o 0 tU64, o 1 tU16, o 2 tU32, o 3 tU32, o 4 .bool])
  | "ClusterPath" => some clusterPath
  | "EventFilter" => some (st [o 0 tU64, o 1 tU64])
  | "TimedReq" => some (st [r 0 tU16, o Consts.imRevisionTag tU8])
  | "Target" => some target
  | "DataVersionFilter" => some (st [r 0 clusterPath, r 1 tU32])
  | "Status" => some status
  | "AttrStatus" => some attrStatus
  | "AttrData" => some attrData
  | "AttrResp" => some attrResp
  | "CmdStatus" => some cmdStatus
  | "CmdData" => some cmdData
  | "CmdResp" => some cmdResp
  | "StatusResp" => some (st [r 0 imStatusCode, o Consts.imRevisionTag tU8])
  | "SessionParameters" => some sessionParameters
  | "PBKDFParamReq" => some (st [r 1 tOct, r 2 tU16, r 3 tU16, r 4 .bool, o 5 sessionParameters])
  | "PBKDFParamResp" => some (st [r 1 tOct, r 2 tOct, r 3 tU16, o 4 (st [r 1 tU32, r 2 tOct]), o 5 sessionParameters])
  | "Pake1" => some (st [r 1 tOct])
  | "Pake2" => some (st [r 1 tOct, r 2 tOct])
  | "Pake3" => some (st [r 1 tOct])
  | "Sigma1Req" => some (st [r 1 tOct, r 2 tU16, r 3 tOct, r 4 tOct, o 5 sessionParameters, o 6 tOct, o 7 tOct])
  | "Sigma2Resp" => some (st [r 1 tOct, r 2 tU16, r 3 tOct, r 4 tOct])
  | "TBEData2Decrypt" => some (st [r 1 tOct, o 2 tOct, r 3 tOct, r 4 tOct])
  | "Sigma3Decrypt" => some (st [r 1 tOct, o 2 tOct, r 3 tOct])
  | "Sigma2ResumeMsg" => some (st [r 1 tOct, r 2 tOct, r 3 tU16, o 4 sessionParameters])
  | "AclEntry" => some aclEntry
  | "Fabric" => some fabric
  | "DSTOffsetEntry" => some dstOffsetEntry
  | "TimeZoneOwned" => some timeZoneOwned
  | "NeighborTable" => some neighborTable
  | _ => none

/-! ## well-formed schemas, executable check (`Ty.wf` itself is in `Lemmas/TlvSchema.lean`) -/

def Fields.tags : Fields → List Nat
  | .nil => []
  | .cons tag _ _ _ rest => tag :: rest.tags
  | .consSkip tag _ _ rest => tag :: rest.tags

def Alts.tags : Alts → List Nat
  | .nil => []
  | .cons tag _ rest => tag :: rest.tags

mutual
/-- executable check of `Ty.wf` -/
def Ty.wfb : Ty → Bool
  | .struct _ fs => fs.wfb && decide fs.tags.Nodup
  | .array _ el => el.wfb
  | .choice alts => alts.wfb && decide alts.tags.Nodup
  | .fixarr _ el _ => el.wfb
  | _ => true
def Fields.wfb : Fields → Bool
  | .nil => true
  | .cons tag _ _ ty rest => decide (tag < 256) && ty.wfb && rest.wfb
  | .consSkip tag ty _ rest => decide (tag < 256) && ty.wfb && rest.wfb
def Alts.wfb : Alts → Bool
  | .nil => true
  | .cons tag ty rest => decide (tag < 256) && ty.wfb && rest.wfb
end

/-! ## bit flags: the real encoder does not look at the declared flags

`bitflags_tlv!`: `to_tlv` = `tw.uN(tag, self.bits())`, and a flags value may hold undefined bits
(`from_bits_retain` is a safe constructor).  `encodeVal` on `uint w (mask m)` is the encoder restricted to the
values `from_bits` can produce (the ones the round trip is claimed for); the bytes of the real encoder on **any**
flags value are `encodeVal` on the schema with every mask erased. -/

def Dom.eraseMask : Dom → Dom
  | .mask _ => .any
  | d => d

mutual
def Ty.eraseMask : Ty → Ty
  | .uint w d => .uint w d.eraseMask
  | .bool => .bool
  | .octets lo cap => .octets lo cap
  | .utf8 cap => .utf8 cap
  | .struct k fs => .struct k fs.eraseMask
  | .array cap el => .array cap el.eraseMask
  | .any => .any
  | .choice alts => .choice alts.eraseMask
  | .sint w nz => .sint w nz
  | .f32 => .f32
  | .f64 => .f64
  | .fixarr n el d => .fixarr n el.eraseMask d
def Fields.eraseMask : Fields → Fields
  | .nil => .nil
  | .cons tag o n ty rest => .cons tag o n ty.eraseMask rest.eraseMask
  | .consSkip tag ty d rest => .consSkip tag ty.eraseMask d rest.eraseMask
def Alts.eraseMask : Alts → Alts
  | .nil => .nil
  | .cons tag ty rest => .cons tag ty.eraseMask rest.eraseMask
end

/-- the bytes the real derived `to_tlv` writes for any value of the Rust type (flags with undefined bits included) -/
def encodeReal (ty : Ty) (v : Val) : Option Bytes := (encodeVal false ty.eraseMask .anon v).map encode


/-! ## the tag numbering rule of the derive macro, and declarations as data

`gen_totlv_for_struct_named` / `gen_fromtlv_for_struct_named`: a counter starts at `tlvargs(start = N)`
(default 0); a field with `#[tagval(x)]` gets the context tag `x` and leaves the counter alone, every
other field gets the counter's value and increments it.  The same rule numbers the variants of enums
(`#[enumval(x)]`).  The harness' derive-shape structures (`c16_derive_shapes.rs`) send their
*declaration* (start, datatype, per field: tagval?, wrapper, type) in the case line; the tags are
computed here, by this rule — not by the macro and not by the harness. -/

/-- the context tags (enum values) the derive macro assigns: `none` = implicitly numbered -/
def implicitTags : Nat → List (Option Nat) → List Nat
  | _, [] => []
  | c, some x :: r => x :: implicitTags c r
  | c, none :: r => c :: implicitTags (c + 1) r

/-- field wrapper: plain, `Option<T>`, `Nullable<T>`, `Option<Nullable<T>>`, `Skippable<T>` -/
inductive Mode | req | opt | nul | optNul | skip
deriving DecidableEq, Repr, Inhabited

mutual
/-- `T::default()` for the types a `Skippable` field or a `[T; N]` item may have in a declaration:
integers / flags 0, `false`, `+0.0`, the empty string / vector, `[T::default(); N]`, and a structure with
`#[derive(Default)]` (every field its default: `Option` → `None`, `Nullable` → null) -/
def defaultOf : Ty → Option Val
  | .uint _ .any => some (.num 0)
  | .uint _ (.mask _) => some (.num 0)
  | .uint _ _ => none
  | .sint _ false => some (.int 0)
  | .sint _ true => none
  | .bool => some (.bool false)
  | .f32 => some (.num 0)
  | .f64 => some (.num 0)
  | .octets 0 _ => some (.bytes [])
  | .octets _ _ => none
  | .utf8 _ => some (.bytes [])
  | .array _ _ => some (.arr .nil)
  | .fixarr n el _ => (defaultOf el).map fun d => .arr (Vals.replicate n d)
  | .struct _ fs => (defaultFields fs).map .obj
  | .any => none
  | .choice _ => none
def defaultFields : Fields → Option Slots
  | .nil => some .nil
  | .cons _ o n ty rest =>
    match defaultFields rest with
    | none => none
    | some r =>
      if o then some (.cons .absent r)
      else if n then some (.cons .null r)
      else (defaultOf ty).map fun d => .cons (.val d) r
  | .consSkip _ ty _ rest =>
    match defaultFields rest, defaultOf ty with
    | some r, some d => some (.cons (.val d) r)
    | _, _ => none
end

def fieldsOfDecl : List Nat → List (Mode × Ty) → Option Fields
  | [], [] => some .nil
  | tag :: tags, (m, ty) :: r =>
    match fieldsOfDecl tags r with
    | none => none
    | some rest =>
      match m with
      | .req => some (.cons tag false false ty rest)
      | .opt => some (.cons tag true false ty rest)
      | .nul => some (.cons tag false true ty rest)
      | .optNul => some (.cons tag true true ty rest)
      | .skip =>
        match defaultOf ty with
        | some d => some (.consSkip tag ty d rest)
        | none => none
  | _, _ => none

def altsOfDecl : List Nat → List Ty → Alts
  | tag :: tags, ty :: r => .cons tag ty (altsOfDecl tags r)
  | _, _ => .nil

/-- a declared structure: `#[tlvargs(start, datatype)] struct { #[tagval(..)]? field: Wrapper<Type>, … }` -/
def structOfDecl (k : Kind) (start : Nat) (fs : List (Option Nat × Mode × Ty)) : Option Ty :=
  (fieldsOfDecl (implicitTags start (fs.map (·.1))) (fs.map (·.2))).map (.struct k)

/-- a declared unit enum (`datatype = "u8" | "u16"`): its wire values -/
def unitEnumOfDecl (w : Width) (start : Nat) (evs : List (Option Nat)) : Ty :=
  .uint w (.oneOf (implicitTags start evs))

/-- a declared enum with one payload per variant -/
def payEnumOfDecl (start : Nat) (vs : List (Option Nat × Ty)) : Ty :=
  .choice (altsOfDecl (implicitTags start (vs.map (·.1))) (vs.map (·.2)))

def parseOptNat (s : String) : Option (Option Nat) :=
  if s = "-" then some none else s.toNat?.map some

def parseMode (s : String) : Option Mode :=
  if s = "r" then some .req else if s = "o" then some .opt else if s = "n" then some .nul
  else if s = "x" then some .optNul else if s = "s" then some .skip else none

mutual
/-- a type of the declaration language:
`u8 u16 u32 u64 bool nz8 any` · `i8 i16 i32 i64 nzi8 nzi16 nzi32 nzi64 f32 f64` · `bf8|bf16|bf32|bf64 <mask>` ·
`fa <N> <ty>` · `oct <lo> <cap|->` · `utf8 <cap|->` · `arr <cap|-> <ty>` ·
`st|ls <start> [ (<tagval|-> <r|o|n|x|s> <ty>)* ]` · `ue8|ue16 <start> [ (<enumval|->)* ]` ·
`pe <start> [ (<enumval|-> <ty>)* ]` -/
def parseTyF : Nat → List String → Option (Ty × List String)
  | 0, _ => none
  | _ + 1, [] => none
  | f + 1, tok :: rest =>
    if tok = "u8" then some (tU8, rest) else if tok = "u16" then some (tU16, rest)
    else if tok = "u32" then some (tU32, rest) else if tok = "u64" then some (tU64, rest)
    else if tok = "bool" then some (.bool, rest) else if tok = "nz8" then some (.uint .w1 .nonzero, rest)
    else if tok = "any" then some (.any, rest)
    else if tok = "i8" then some (tI8, rest) else if tok = "i16" then some (tI16, rest)
    else if tok = "i32" then some (tI32, rest) else if tok = "i64" then some (tI64, rest)
    else if tok = "nzi8" then some (.sint .w1 true, rest) else if tok = "nzi16" then some (.sint .w2 true, rest)
    else if tok = "nzi32" then some (.sint .w4 true, rest) else if tok = "nzi64" then some (.sint .w8 true, rest)
    else if tok = "f32" then some (.f32, rest) else if tok = "f64" then some (.f64, rest)
    else if tok = "bf8" ∨ tok = "bf16" ∨ tok = "bf32" ∨ tok = "bf64" then
      -- `bitflags_tlv!(Name, uN)`, the union of the declared flags
      match rest with
      | m :: r1 =>
        m.toNat?.map fun mask =>
          (.uint (if tok = "bf8" then .w1 else if tok = "bf16" then .w2 else if tok = "bf32" then .w4 else .w8)
            (.mask mask), r1)
      | _ => none
    else if tok = "fa" then
      -- `[T; N]`: `fa <N> <ty>`; `T: Default` is required by the Rust impl
      match rest with
      | n :: r1 =>
        match n.toNat?, parseTyF f r1 with
        | some k, some (el, r2) => (defaultOf el).map fun d => (.fixarr k el d, r2)
        | _, _ => none
      | _ => none
    else if tok = "oct" then
      match rest with
      | lo :: cap :: r1 =>
        match lo.toNat?, parseOptNat cap with
        | some l, some c => some (.octets l c, r1)
        | _, _ => none
      | _ => none
    else if tok = "utf8" then
      match rest with
      | cap :: r1 => (parseOptNat cap).map fun c => (.utf8 c, r1)
      | _ => none
    else if tok = "arr" then
      match rest with
      | cap :: r1 =>
        match parseOptNat cap, parseTyF f r1 with
        | some c, some (el, r2) => some (.array c el, r2)
        | _, _ => none
      | _ => none
    else if tok = "st" ∨ tok = "ls" then
      match rest with
      | st :: "[" :: r1 =>
        match st.toNat?, parseFieldDeclsF f r1 with
        | some start, some (fs, r2) =>
          (structOfDecl (if tok = "st" then .struct else .list) start fs).map fun ty => (ty, r2)
        | _, _ => none
      | _ => none
    else if tok = "ue8" ∨ tok = "ue16" then
      match rest with
      | st :: "[" :: r1 =>
        match st.toNat?, parseEnumvalsF f r1 with
        | some start, some (evs, r2) => some (unitEnumOfDecl (if tok = "ue8" then .w1 else .w2) start evs, r2)
        | _, _ => none
      | _ => none
    else if tok = "pe" then
      match rest with
      | st :: "[" :: r1 =>
        match st.toNat?, parseAltDeclsF f r1 with
        | some start, some (vs, r2) => some (payEnumOfDecl start vs, r2)
        | _, _ => none
      | _ => none
    else none
def parseFieldDeclsF : Nat → List String → Option (List (Option Nat × Mode × Ty) × List String)
  | 0, _ => none
  | _ + 1, [] => none
  | f + 1, tok :: rest =>
    if tok = "]" then some ([], rest)
    else
      match rest with
      | m :: r1 =>
        match parseOptNat tok, parseMode m, parseTyF f r1 with
        | some tv, some mode, some (ty, r2) =>
          match parseFieldDeclsF f r2 with
          | some (fs, r3) => some ((tv, mode, ty) :: fs, r3)
          | none => none
        | _, _, _ => none
      | [] => none
def parseEnumvalsF : Nat → List String → Option (List (Option Nat) × List String)
  | 0, _ => none
  | _ + 1, [] => none
  | f + 1, tok :: rest =>
    if tok = "]" then some ([], rest)
    else
      match parseOptNat tok, parseEnumvalsF f rest with
      | some ev, some (evs, r1) => some (ev :: evs, r1)
      | _, _ => none
def parseAltDeclsF : Nat → List String → Option (List (Option Nat × Ty) × List String)
  | 0, _ => none
  | _ + 1, [] => none
  | f + 1, tok :: rest =>
    if tok = "]" then some ([], rest)
    else
      match parseOptNat tok, parseTyF f rest with
      | some ev, some (ty, r1) =>
        match parseAltDeclsF f r1 with
        | some (vs, r2) => some ((ev, ty) :: vs, r2)
        | none => none
      | _, _ => none
end

/-- the schema of a declaration sent in a case line -/
def parseDecl (toks : List String) : Option Ty :=
  match parseTyF (2 * toks.length + 2) toks with
  | some (ty, []) => some ty
  | _ => none

/-! ## text form of values (line protocol)

`-` absent, `n` null, a decimal number (unsigned integer, flags, float bit pattern), `+<n>` / `-<n>` a signed
integer (always with its sign), `T`/`F`, `x<hex>` an octet / UTF-8 string, `{ slot … }` a
structure, `[ value … ]` an array. -/

def hexDigit (n : Nat) : Char := if n < 10 then Char.ofNat (48 + n) else Char.ofNat (87 + n)
def hexOf (b : Bytes) : String :=
  String.ofList (b.foldr (fun x acc => hexDigit (x.toNat / 16) :: hexDigit (x.toNat % 16) :: acc) [])
def hexVal (c : Char) : Option Nat :=
  if '0' ≤ c ∧ c ≤ '9' then some (c.toNat - 48)
  else if 'a' ≤ c ∧ c ≤ 'f' then some (c.toNat - 87)
  else none
def unhexL : List Char → Option Bytes
  | [] => some []
  | [_] => none
  | a :: b :: rest => do
    let x ← hexVal a
    let y ← hexVal b
    let t ← unhexL rest
    pure (UInt8.ofNat (x * 16 + y) :: t)

mutual
def valStr : Val → String
  | .num n => toString n
  | .bool true => "T"
  | .bool false => "F"
  | .bytes b => "x" ++ hexOf b
  | .obj ss => "{" ++ slotsStr ss ++ " }"
  | .arr vs => "[" ++ valsStr vs ++ " ]"
  | .raw v => "r:" ++ hexOf (encode v)
  | .empty => "_"
  | .variant i v => "( " ++ toString i ++ " " ++ valStr v ++ " )"
  | .int i => if i < 0 then toString i else "+" ++ toString i
def slotStr : Slot → String
  | .absent => "-"
  | .null => "n"
  | .val v => valStr v
def slotsStr : Slots → String
  | .nil => ""
  | .cons s r => " " ++ slotStr s ++ slotsStr r
def valsStr : Vals → String
  | .nil => ""
  | .cons v r => " " ++ valStr v ++ valsStr r
end

mutual
/-- one slot from the token list -/
def parseSlotF : Nat → List String → Option (Slot × List String)
  | 0, _ => none
  | _ + 1, [] => none
  | f + 1, tok :: rest =>
    if tok = "-" then some (.absent, rest)
    else if tok = "n" then some (.null, rest)
    else if tok = "T" then some (.val (.bool true), rest)
    else if tok = "F" then some (.val (.bool false), rest)
    else if tok = "{" then
      match parseSlotsF f rest with
      | some (ss, rest') => some (.val (.obj ss), rest')
      | none => none
    else if tok = "[" then
      match parseValsF f rest with
      | some (vs, rest') => some (.val (.arr vs), rest')
      | none => none
    else if tok = "_" then some (.val .empty, rest)
    else if tok = "(" then
      match rest with
      | itok :: rest1 =>
        match itok.toNat?, parseSlotF f rest1 with
        | some i, some (.val v, ")" :: rest2) => some (.val (.variant i v), rest2)
        | _, _ => none
      | [] => none
    else if tok.startsWith "r:" then
      match unhexL (tok.toList.drop 2) with
      | some b =>
        match decodeTree b.length b with
        | .ok v => some (.val (.raw v), rest)
        | _ => none
      | none => none
    else if tok.startsWith "x" then
      match unhexL (tok.toList.drop 1) with
      | some b => some (.val (.bytes b), rest)
      | none => none
    else if tok.startsWith "+" then
      match (tok.drop 1).toNat? with
      | some n => some (.val (.int (Int.ofNat n)), rest)
      | none => none
    else if tok.startsWith "-" then
      match (tok.drop 1).toNat? with
      | some n => some (.val (.int (-(Int.ofNat n))), rest)
      | none => none
    else
      match tok.toNat? with
      | some n => some (.val (.num n), rest)
      | none => none
/-- slots up to the closing `}` -/
def parseSlotsF : Nat → List String → Option (Slots × List String)
  | 0, _ => none
  | _ + 1, [] => none
  | f + 1, tok :: rest =>
    if tok = "}" then some (.nil, rest)
    else
      match parseSlotF f (tok :: rest) with
      | some (s, rest') =>
        match parseSlotsF f rest' with
        | some (ss, rest'') => some (.cons s ss, rest'')
        | none => none
      | none => none
/-- values up to the closing `]` -/
def parseValsF : Nat → List String → Option (Vals × List String)
  | 0, _ => none
  | _ + 1, [] => none
  | f + 1, tok :: rest =>
    if tok = "]" then some (.nil, rest)
    else
      match parseSlotF f (tok :: rest) with
      | some (.val v, rest') =>
        match parseValsF f rest' with
        | some (vs, rest'') => some (.cons v vs, rest'')
        | none => none
      | _ => none
end

/-- a whole value (`{ … }`) from the tokens of an op line -/
def parseVal (toks : List String) : Option Val :=
  match parseSlotF (2 * toks.length + 2) toks with
  | some (.val v, []) => some v
  | _ => none

def encodeText (ty : Ty) (args : List String) : Option Bytes := do
  let v ← parseVal args
  encodeStruct ty v

/-- the real encoder (`encodeReal`) on a value in text form -/
def encodeRealText (ty : Ty) (args : List String) : Option Bytes := do
  let v ← parseVal args
  encodeReal ty v

def encodeNamed (name : String) (args : List String) : Option Bytes := do
  let ty ← named name
  encodeText ty args

/-- `none`: unknown structure; `some none`: the model rejects; `some (some text)` -/
def decodeText (ty : Ty) (bs : Bytes) : Option String :=
  match decodeStruct ty bs with
  | .ok v => some (valStr v)
  | _ => none

def decodeNamed (name : String) (bs : Bytes) : Option (Option String) :=
  (named name).map fun ty => decodeText ty bs

end TlvSchema
