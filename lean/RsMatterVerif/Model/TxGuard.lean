/-!
# The retransmission guard of `TxMessage::complete` (C15)

`Exchange::send_with` / `Sender::tx` / `OwnedSender::tx` produce a retransmission by running the
message builder AGAIN; `Session::pre_send` gives it the message counter of the original (= the same
nonce). Since repo fix `C15-retransmission-rebuilt-differs`, `TxMessage::complete` computes a digest
of (reliable flag, protocol id, opcode, payload) of what the builder produced (the reliable flag since repo fix
`C15-retransmission-reliable-flag-differs`), the retransmission entry
(`RetransEntry::payload_digest`) remembers the digest of the first transmission, and a rebuilt
message with another digest is refused (`ErrorCode::Invalid`, nothing is handed to the transport, the
caller's send loop ends with that error).

Transliteration of `RetransEntry::check_payload_digest` and of the part of `TxMessage::complete`
that follows `pre_send`. The digest itself (64-bit FNV-1a) is abstract: a natural number per payload.
Import-free.
-/
namespace TxGuard

/-- the fields of `RetransEntry` that matter here -/
structure Entry where
  /-- `msg_ctr`: the counter every (re)transmission of this message carries -/
  ctr : Nat
  /-- `payload_digest` -/
  digest : Option Nat := none
deriving Repr, DecidableEq, Inhabited

/-- `RetransEntry::check_payload_digest`: `false` = `Err(Invalid)` -/
def Entry.check (e : Entry) (d : Nat) : Entry × Bool :=
  match e.digest with
  | none => ({ e with digest := some d }, true)
  | some first => (e, first == d)

/-- The sender loop for ONE message: the builder is run once per element of `builds` (its output's
digest), `TxMessage::complete` checks it; the loop ends at the first refusal (`?` in `send_with`).
Result: what was handed to the transport, oldest first, as (counter, digest), and whether the loop
ended by a refusal. -/
def sendLoop (e : Entry) : List Nat → List (Nat × Nat) × Bool
  | [] => ([], false)
  | d :: ds =>
    let r := e.check d
    if r.2 then
      let rest := sendLoop r.1 ds
      ((e.ctr, d) :: rest.1, rest.2)
    else ([], true)

end TxGuard
