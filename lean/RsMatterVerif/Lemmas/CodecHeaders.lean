import RsMatterVerif.Model.Codec.PlainHdr
import RsMatterVerif.Model.Codec.ProtoHdr
import RsMatterVerif.Model.Codec.StatusReport
import RsMatterVerif.Lemmas.CodecBuf
/-! # Lemmas about the message headers and the status report
(`Model/Codec/PlainHdr.lean`, `ProtoHdr.lean`, `StatusReport.lean`): round trips and decoder totality. -/
namespace Codec.PlainHdr
open Codec

theorem and_mask_le {x m : Nat} (h : x &&& m = x) : x ≤ m := by
  rw [← h]; exact Nat.and_le_right

theorem fromBits_ok {all b : Nat} (h : b &&& all = b) : fromBits all b = .ok b := by
  simp [fromBits, h]

/-- **plain header: decoding an encoded header (followed by any payload) returns the same observable
fields and exactly the payload**, for every header within the field ranges; the header being decoded
into (`h0`) is arbitrary. -/
theorem decode_encode (h h0 : Hdr) (rest : List Nat) (hwf : WF h) :
    ∃ h', decode h0 (encodeBytes h ++ rest) = .ok (h', rest) ∧ view h' = view h := by
  obtain ⟨flags, sid, sf, ctr, src, dst⟩ := h
  obtain ⟨hf, hsf, hsid, hctr, hsrc, hdst⟩ := hwf
  simp only at hf hsf hsid hctr hsrc hdst
  have hf7 : flags ≤ 7 := and_mask_le hf
  have hsf' : sf ≤ 0xE1 := and_mask_le hsf
  have e1 : flags % 256 = flags := by omega
  have e2 : sf % 256 = sf := by omega
  have hfb : fromBits MSG_FLAGS_ALL flags = .ok flags := fromBits_ok hf
  have hsb : fromBits SEC_FLAGS_ALL sf = .ok sf := fromBits_ok hsf
  have hg : dst % 65536 < 65536 := Nat.mod_lt _ (by omega)
  have cases8 : flags = 0 ∨ flags = 1 ∨ flags = 2 ∨ flags = 3 ∨ flags = 4 ∨ flags = 5 ∨ flags = 6 ∨ flags = 7 := by omega
  rcases cases8 with rfl | rfl | rfl | rfl | rfl | rfl | rfl | rfl <;>
    simp [decode, encodeBytes, view, contains, DSIZ_MASK, DSIZ_UNICAST, DSIZ_GROUPCAST, SRC_ADDR_PRESENT, Consts.c17MsgDsizUnicast,
      Consts.c17MsgDsizGroupcast, Consts.c17MsgSrcPresent,
      e2, hfb, hsb, Rd.u8_cons, Rd.u16_le _ _ hsid, Rd.u32_le _ _ hctr, Rd.u64_le _ _ hsrc, Rd.u64_le _ _ hdst,
      Rd.u16_le _ _ hg, bind, Except.bind, pure, Except.pure, List.append_assoc]

end Codec.PlainHdr

namespace Codec.PlainHdr

/-- **plain header, exact form**: a header as the setters build it (absent ids stored as 0, group id
16 bits, never both DSIZ bits) decodes from a fresh header to *exactly* itself. -/
theorem decode_encode_exact (h : Hdr) (rest : List Nat) (hwf : WF h) (hc : Canon h) :
    decode {} (encodeBytes h ++ rest) = .ok (h, rest) := by
  obtain ⟨flags, sid, sf, ctr, src, dst⟩ := h
  obtain ⟨hf, hsf, hsid, hctr, hsrc, hdst⟩ := hwf
  obtain ⟨c1, c2, c3, c4⟩ := hc
  simp only at hf hsf hsid hctr hsrc hdst c1 c2 c3 c4
  have hf7 : flags ≤ 7 := and_mask_le hf
  have hsf' : sf ≤ 0xE1 := and_mask_le hsf
  have e2 : sf % 256 = sf := by omega
  have hfb : fromBits MSG_FLAGS_ALL flags = .ok flags := fromBits_ok hf
  have hsb : fromBits SEC_FLAGS_ALL sf = .ok sf := fromBits_ok hsf
  have cases8 : flags = 0 ∨ flags = 1 ∨ flags = 2 ∨ flags = 3 ∨ flags = 4 ∨ flags = 5 ∨ flags = 6 ∨ flags = 7 := by omega
  rcases cases8 with rfl | rfl | rfl | rfl | rfl | rfl | rfl | rfl <;>
    simp [contains, DSIZ_MASK, DSIZ_UNICAST, DSIZ_GROUPCAST, SRC_ADDR_PRESENT, Consts.c17MsgDsizUnicast,
      Consts.c17MsgDsizGroupcast, Consts.c17MsgSrcPresent] at c1 c2 c3 c4 <;>
    (try subst c1) <;> (try subst c2) <;>
    (try (have e3 : dst % 65536 = dst := by omega)) <;>
    (try (have hg := Rd.u16_le dst rest c3)) <;>
    simp [decode, encodeBytes, contains, DSIZ_MASK, DSIZ_UNICAST, DSIZ_GROUPCAST, SRC_ADDR_PRESENT, Consts.c17MsgDsizUnicast,
      Consts.c17MsgDsizGroupcast, Consts.c17MsgSrcPresent,
      e2, hfb, hsb, Rd.u8_cons, Rd.u16_le _ _ hsid, Rd.u32_le _ _ hctr, Rd.u64_le _ _ hsrc, Rd.u64_le _ _ hdst,
      bind, Except.bind, pure, Except.pure, List.append_assoc, *]

/-- **plain header: the decoder is total and never panics** on arbitrary input -/
theorem decode_np (h0 : Hdr) (l : List Nat) : NoPanic (decode h0 l) := by
  unfold decode fromBits
  decoder_no_panic

example : WF { flags := 5, sessId := 7, secFlags := 0x81, ctr := 9, src := 11, dst := 13 } ∧
    Canon { flags := 5, sessId := 7, secFlags := 0x81, ctr := 9, src := 11, dst := 13 } := by decide

end Codec.PlainHdr

namespace Codec.ProtoHdr
open Codec

theorem and_mask_le {x m : Nat} (h : x &&& m = x) : x ≤ m := by
  rw [← h]; exact Nat.and_le_right

/-- **protocol header: decoding an encoded header (followed by any payload) returns the same
observable fields and exactly the payload** -/
theorem decode_encode (h h0 : Hdr) (rest : List Nat) (hwf : WF h) :
    ∃ h', decode h0 (encodeBytes h ++ rest) = .ok (h', rest) ∧ view h' = view h := by
  obtain ⟨eid, flags, pid, op, ven, ack⟩ := h
  obtain ⟨hf, hop, heid, hpid, hven, hack⟩ := hwf
  simp only at hf hop heid hpid hven hack
  have hf' : flags ≤ 31 := and_mask_le hf
  have e1 : flags % 256 = flags := by omega
  have e2 : op % 256 = op := by omega
  have hfb : fromBits EXCH_FLAGS_ALL flags = .ok flags := by simp [fromBits, hf]
  cases hv : contains flags VENDOR <;> cases ha : contains flags ACK <;>
    simp [decode, encodeBytes, view, hv, ha, e1, e2, hfb, Rd.u8_cons, Rd.u16_le _ _ heid, Rd.u16_le _ _ hpid,
      Rd.u16_le _ _ hven, Rd.u32_le _ _ hack, bind, Except.bind, pure, Except.pure, List.append_assoc]

/-- exact form for headers as the setters build them (absent fields stored as 0), decoded into a
header whose optional fields are 0 (`ProtoHdr::new()`) -/
theorem decode_encode_exact (h h0 : Hdr) (rest : List Nat) (hwf : WF h) (hc : Canon h)
    (h00 : h0.vendorId = 0 ∧ h0.ackCtr = 0) :
    decode h0 (encodeBytes h ++ rest) = .ok (h, rest) := by
  obtain ⟨eid, flags, pid, op, ven, ack⟩ := h
  obtain ⟨eid0, flags0, pid0, op0, ven0, ack0⟩ := h0
  obtain ⟨hf, hop, heid, hpid, hven, hack⟩ := hwf
  obtain ⟨c1, c2⟩ := hc
  obtain ⟨z1, z2⟩ := h00
  simp only at hf hop heid hpid hven hack c1 c2 z1 z2
  subst z1; subst z2
  have hf' : flags ≤ 31 := and_mask_le hf
  have e1 : flags % 256 = flags := by omega
  have e2 : op % 256 = op := by omega
  have hfb : fromBits EXCH_FLAGS_ALL flags = .ok flags := by simp [fromBits, hf]
  cases hv : contains flags VENDOR <;> cases ha : contains flags ACK <;>
    simp [hv, ha] at c1 c2 <;> (try subst c1) <;> (try subst c2) <;>
    simp [decode, encodeBytes, hv, ha, e1, e2, hfb, Rd.u8_cons, Rd.u16_le _ _ heid, Rd.u16_le _ _ hpid,
      Rd.u16_le _ _ hven, Rd.u32_le _ _ hack, bind, Except.bind, pure, Except.pure, List.append_assoc]

/-- **protocol header: the decoder is total and never panics** -/
theorem decode_np (h0 : Hdr) (l : List Nat) : NoPanic (decode h0 l) := by
  unfold decode fromBits
  decoder_no_panic

example : WF { exchId := 1, flags := 0x13, protoId := 2, opcode := 3, vendorId := 4, ackCtr := 5 } := by decide

end Codec.ProtoHdr

namespace Codec.StatusReport
open Codec

/-- **status report: `read (write r) = r`** -/
theorem read_write (r : Report) (hwf : WF r) : read (writeBytes r) = .ok r := by
  obtain ⟨g, pid, pc, data⟩ := r
  obtain ⟨hg, hpid, hpc, _⟩ := hwf
  simp only at hg hpid hpc
  have hg' : g < 65536 := by simp [GENERAL_CODE_MAX, Consts.c17GeneralCodeMax] at hg; omega
  have hng : ¬ (g > GENERAL_CODE_MAX) := by omega
  simp [read, writeBytes, Rd.u16_le _ _ hg', Rd.u32_le _ _ hpid, Rd.u16_le _ _ hpc, hng,
    bind, Except.bind, pure, Except.pure, List.append_assoc]

/-- **status report: the reader is total and never panics** -/
theorem read_np (l : List Nat) : NoPanic (read l) := by
  unfold read
  decoder_no_panic

/-- an unknown general code is refused -/
theorem read_rejects_general (g : Nat) (rest : List Nat) (h : GENERAL_CODE_MAX < g) (h' : g < 65536) :
    read (le16 g ++ rest) = .error .invalidOpcode := by
  simp [read, Rd.u16_le _ _ h', h, bind, Except.bind]

example : WF { general := 16, protoId := 0, protoCode := 3, data := [1, 2] } := by
  refine ⟨by decide, by decide, by decide, ?_⟩; intro b hb; simp at hb; omega

end Codec.StatusReport
