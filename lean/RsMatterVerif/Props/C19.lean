import RsMatterVerif.Lemmas.Cert
/-!
# C19 — a certificate chain is accepted exactly when it is valid under the Matter rules
-/
namespace C19
open Cert

theorem validateCase_none_iff (t : Time) (fabric : FabricView) (noc : Cert) :
    validateCase t fabric noc none = .ok () ↔ CaseValid t fabric noc none := by
  unfold validateCase CaseValid ChainValid pathOf
  cases hn : nodeIdOf noc.subject with
  | none => simp
  | some n =>
    cases hf : fabricIdOf noc.subject with
    | none => simp
    | some fid =>
      by_cases hfe : fabric.fabricId = fid
      · simp only [hfe, ne_eq, not_true_eq_false, ↓reduceIte, Option.isNone_some, Bool.false_eq_true]
        rw [step_ok]
        simp only [finalise_ok_iff]
        simp [List.zipIdx, PositionOk, not_authority_of_node hn]
        grind
      · simp [hfe]; intros; omega

theorem validateCase_some_iff (t : Time) (fabric : FabricView) (noc ic : Cert) :
    validateCase t fabric noc (some ic) = .ok () ↔ CaseValid t fabric noc (some ic) := by
  unfold validateCase CaseValid ChainValid pathOf
  cases hn : nodeIdOf noc.subject with
  | none => simp
  | some n =>
    cases hf : fabricIdOf noc.subject with
    | none => simp
    | some fid =>
      by_cases hfe : fabric.fabricId = fid
      · cases hif : icacOtherFabric ic fid with
        | true =>
          have : ¬ ∀ f ∈ fabricIdOf ic.subject, f = fid := by
            rw [← icacOtherFabric_false_iff, hif]; simp
          simp [hfe, hif]
          intros; simpa using this
        | false =>
          have h3 : ∀ f, fabricIdOf ic.subject = some f → f = fid := by
            simpa using (icacOtherFabric_false_iff ic fid).1 hif
          simp only [hfe, hif, ne_eq, not_true_eq_false, ↓reduceIte, Option.isNone_some, Bool.false_eq_true]
          rw [step_ok, step_ok]
          simp only [finalise_ok_iff]
          simp [List.zipIdx, PositionOk, not_authority_of_node hn]
          grind
      · simp [hfe]; intros; omega

/-- **CASE, both shapes**: `CaseP::validate_certs` accepts exactly the chains that are valid for
the addressed fabric. -/
theorem validateCase_iff (t : Time) (fabric : FabricView) (noc : Cert) (icac : Option Cert) :
    validateCase t fabric noc icac = .ok () ↔ CaseValid t fabric noc icac := by
  cases icac with
  | none => exact validateCase_none_iff t fabric noc
  | some ic => exact validateCase_some_iff t fabric noc ic

/-- **verify_iff_valid (CASE)**: the peer's chain is admitted (and a node id extracted for the
session) if and only if it is valid under the Matter rules for the addressed fabric. -/
theorem verify_iff_valid (t : Time) (fabric : FabricView) (noc : Cert) (icac : Option Cert) :
    (∃ n, caseAccept t fabric noc icac = .ok n) ↔ CaseValid t fabric noc icac := by
  unfold caseAccept
  cases hv : validateCase t fabric noc icac with
  | error e =>
    have : ¬ CaseValid t fabric noc icac := by rw [← validateCase_iff, hv]; simp
    simp [this]
  | ok u =>
    have hc : CaseValid t fabric noc icac := (validateCase_iff t fabric noc icac).1 hv
    have hn := hc.1.2.2.2.2.2
    cases h : nodeIdOf noc.subject with
    | none => simp [h] at hn
    | some n => simp [hc]

/-- the session is bound to the node id the certificate carries -/
theorem caseAccept_node (t : Time) (fabric : FabricView) (noc : Cert) (icac : Option Cert) (n : Nat)
    (h : caseAccept t fabric noc icac = .ok n) : nodeIdOf noc.subject = some n := by
  unfold caseAccept at h
  cases hv : validateCase t fabric noc icac with
  | error e => simp [hv] at h
  | ok u =>
    cases hn : nodeIdOf noc.subject with
    | none => simp [hv, hn] at h
    | some m => simp [hv, hn] at h; rw [h]

/-! ## Installing credentials -/

theorem validateInstall_iff (t : Time) (noc : Cert) (icac : Option Cert) (root : Cert) :
    validateInstall t noc icac root = .ok () ↔
      ChainValid t root noc icac ∧ ∀ ic ∈ icac, ic.akid ≠ ic.skid := by
  unfold validateInstall ChainValid pathOf
  cases hn : nodeIdOf noc.subject with
  | none => simp
  | some n =>
    cases icac with
    | none =>
      simp only [Option.isNone_some, Bool.false_eq_true, ↓reduceIte]
      rw [step_ok]
      simp only [finalise_ok_iff]
      simp [List.zipIdx, PositionOk, not_authority_of_node hn]
      grind
    | some ic =>
      simp only [Option.isNone_some, Bool.false_eq_true, ↓reduceIte, isSelfSigned, isAuthority]
      cases hs : ic.skid with
      | none => simp [Issues, hs]
      | some k =>
        by_cases hak : ic.akid = some k
        · simp [hak]; intros; rw [hs]
        · have hb : (ic.akid == some k) = false := by simpa using hak
          simp only [hb]
          rw [step_ok, step_ok]
          simp only [finalise_ok_iff]
          simp [List.zipIdx, PositionOk, not_authority_of_node hn]
          grind

theorem any_conflict_false_iff (fabrics : List FabricEntry) (fid key : Nat) :
    fabrics.any (fun f => fid == f.fabricId && key == f.rootPubKey) = false ↔
      ∀ f ∈ fabrics, ¬ (f.fabricId = fid ∧ f.rootPubKey = key) := by
  simp only [List.any_eq_false, Bool.and_eq_true, beq_iff_eq, not_and]
  constructor
  · intro h f hf h1 h2; exact h f hf h1.symm h2.symm
  · intro h f hf h1 h2; exact h f hf h1.symm h2.symm

/-- **verify_iff_valid (installing)**: `AddNOC` installs the credentials if and only if the chain
is valid under the staged root, the leaf carries the key generated for this request, and the
fabric does not exist already. -/
theorem install_iff_valid (t : Time) (root : Cert) (csrKey : KeyId) (fabrics : List FabricEntry)
    (noc : Cert) (icac : Option Cert) :
    (∃ r, addNoc t root csrKey fabrics noc icac = .ok r) ↔
      InstallValid t root csrKey fabrics noc icac := by
  unfold addNoc InstallValid
  cases hv : validateInstall t noc icac root with
  | error e =>
    have : ¬ (ChainValid t root noc icac ∧ ∀ ic ∈ icac, ic.akid ≠ ic.skid) := by
      rw [← validateInstall_iff, hv]; simp
    simp only [reduceCtorEq, exists_false, false_iff]
    intro h; exact this ⟨h.1, h.2.1⟩
  | ok u =>
    have hc := (validateInstall_iff t noc icac root).1 hv
    have hn := hc.1.2.2.2.2.2
    by_cases hk : csrKey = noc.pubKey
    · cases hf : fabricIdOf noc.subject with
      | none => simp [hk]
      | some fid =>
        cases ha : fabrics.any (fun f => fid == f.fabricId && root.pubKey == f.rootPubKey) with
        | true =>
          have : ¬ ∀ f ∈ fabrics, ¬ (f.fabricId = fid ∧ f.rootPubKey = root.pubKey) := by
            rw [← any_conflict_false_iff, ha]; simp
          simp only [hk, ha, ne_eq, not_true_eq_false, ↓reduceIte, reduceCtorEq, exists_false, false_iff]
          intro h
          obtain ⟨_, _, _, fid', h1, h2⟩ := h
          simp only [Option.some.injEq] at h1
          subst h1
          exact this h2
        | false =>
          have h2 := (any_conflict_false_iff fabrics fid root.pubKey).1 ha
          cases h : nodeIdOf noc.subject with
          | none => simp [h] at hn
          | some n =>
            simp only [hk, ha, ne_eq, not_true_eq_false, ↓reduceIte, Bool.false_eq_true, Except.ok.injEq, exists_eq', true_iff]
            exact ⟨hc.1, hc.2, trivial, fid, rfl, h2⟩
    · simp only [ne_eq, hk, not_false_eq_true, ↓reduceIte, reduceCtorEq, exists_false, false_iff]
      intro h; exact hk h.2.2.1.symm

/-- the new fabric takes the fabric id and node id of the installed certificate -/
theorem addNoc_identity (t : Time) (root : Cert) (csrKey : KeyId) (fabrics : List FabricEntry)
    (noc : Cert) (icac : Option Cert) (f n : Nat)
    (h : addNoc t root csrKey fabrics noc icac = .ok (f, n)) :
    fabricIdOf noc.subject = some f ∧ nodeIdOf noc.subject = some n := by
  unfold addNoc at h
  cases hv : validateInstall t noc icac root with
  | error e => simp [hv] at h
  | ok u =>
    by_cases hk : csrKey = noc.pubKey
    · cases hf : fabricIdOf noc.subject with
      | none => simp [hv, hk, hf] at h
      | some fid =>
        by_cases ha : fabrics.any (fun f => fid == f.fabricId && root.pubKey == f.rootPubKey) = true
        · simp [hv, hk, hf, ha] at h
        · cases hm : nodeIdOf noc.subject with
          | none => simp [hv, hk, hf, ha, hm] at h
          | some m =>
            simp [hv, hk, hf, ha, hm] at h
            simp [h.1, h.2]
    · simp [hv, hk] at h

/-- `UpdateNOC`: accepted iff the chain is valid under the fabric's own root, carries the fresh
key and the id of the fabric being updated. -/
theorem update_iff_valid (t : Time) (fabric : FabricView) (csrKey : KeyId) (noc : Cert)
    (icac : Option Cert) :
    (∃ r, updateNoc t fabric csrKey noc icac = .ok r) ↔ UpdateValid t fabric csrKey noc icac := by
  unfold updateNoc UpdateValid
  cases hv : validateInstall t noc icac fabric.root with
  | error e =>
    have : ¬ (ChainValid t fabric.root noc icac ∧ ∀ ic ∈ icac, ic.akid ≠ ic.skid) := by
      rw [← validateInstall_iff, hv]; simp
    simp only [reduceCtorEq, exists_false, false_iff]
    intro h; exact this ⟨h.1, h.2.1⟩
  | ok u =>
    have hc := (validateInstall_iff t noc icac fabric.root).1 hv
    have hn := hc.1.2.2.2.2.2
    by_cases hk : csrKey = noc.pubKey
    · cases hf : fabricIdOf noc.subject with
      | none => simp [hk]
      | some fid =>
        by_cases hfe : fid = fabric.fabricId
        · cases h : nodeIdOf noc.subject with
          | none => simp [h] at hn
          | some n =>
            simp [hk, hfe, hc.1]
            exact fun ic hic => hc.2 ic (by simp [hic])
        · simp [hk, hfe]
    · simp only [ne_eq, hk, not_false_eq_true, ↓reduceIte, reduceCtorEq, exists_false, false_iff]
      intro h; exact hk h.2.2.1.symm

end C19
