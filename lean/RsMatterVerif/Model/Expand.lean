import RsMatterVerif.Model.Acl
/-!
# Model of Interaction-Model path expansion (`im/expand.rs`, `dm/types/cluster.rs`, `im.rs`)

Transliteration of
* `Cluster::{check_attr_access, check_cmd_access}` (`dm/types/cluster.rs`), on top of `Acl.allow`;
* `PathExpander::{next, next_for_path, resume_endpoint_index}` (`im/expand.rs`): the three nested
  index loops are written as recursions over the *remaining* slice (`list.drop index`) with the index
  carried along, so every loop terminates structurally; the cursor `(endpoint_id, cluster_index,
  leaf_index)` and the `last_authorized` cache are the fields of the Rust struct;
* `timed_out` (`im.rs`): the gate in front of a write / invoke.

Node metadata are plain lists. `Leaf.enabled` is the value of the cluster's `with_attrs` /
`with_cmds` predicate on that leaf. `u16` cursors are `Nat` (a cluster with ≥ 65536 leaves is out of
scope). The second half is the specification `expected`, written from the text of C06.
-/
namespace Expand
open Acl

/-! ## node metadata -/

structure Leaf where
  id : Nat
  access : Nat
  /-- `quality.contains(Quality::ARRAY)` (attributes only) -/
  array : Bool
  /-- `(with_attrs)(attr, revision, feature_map)` resp. `with_cmds` -/
  enabled : Bool
deriving DecidableEq, Repr, Inhabited

structure Cluster where
  id : Nat
  attrs : List Leaf
  cmds : List Leaf
  /-- the cluster's event table (`access` = the event's declared access; `array` unused) -/
  events : List Leaf := []
deriving DecidableEq, Repr, Inhabited

structure Endpoint where
  id : Nat
  deviceTypes : List Nat
  clusters : List Cluster
deriving DecidableEq, Repr, Inhabited

abbrev Node := List Endpoint

inductive Operation | read | write | invoke
deriving DecidableEq, Repr, Inhabited

inductive Status
  | unsupportedEndpoint | unsupportedCluster | unsupportedAttribute | unsupportedCommand
  | unsupportedRead | unsupportedWrite | needsTimedInteraction | unsupportedAccess
  | unsupportedEvent
deriving DecidableEq, Repr, Inhabited

/-- what is fixed during one expansion: the ACL state, the requester, the request's timed flag and
the caller's filter closure -/
structure Ctx where
  fabrics : List Fabric
  accessor : Accessor
  timed : Bool
  filter : Nat → Nat → Nat → Bool

/-- `Cluster::attributes()` / `Cluster::commands()`: the leaves the instantiation includes -/
def Cluster.leaves (c : Cluster) (command : Bool) : List Leaf :=
  (if command then c.cmds else c.attrs).filter (·.enabled)

/-- `GenericPath::is_wildcard` -/
def isWildcard (p : Path) : Bool := !(p.endpoint.isSome && p.cluster.isSome && p.leaf.isSome)

/-! ## `dm/types/cluster.rs` -/

def mkReq (ctx : Ctx) (ep cl leaf : Nat) (deviceTypes : List Nat) (op perms : Nat) : AccessReq :=
  { accessor := ctx.accessor,
    object := { path := { endpoint := some ep, cluster := some cl, leaf := some leaf },
                targetPerms := some perms, operation := op, deviceTypes := deviceTypes } }

/-- `Cluster::check_attr_access` -/
def checkAttrAccess (ctx : Ctx) (c : Cluster) (ep : Nat) (deviceTypes : List Nat) (write : Bool)
    (attrId : Nat) : Except Status Unit :=
  let op := if write then WRITE else READ
  -- `self.attributes.iter().find(..)`: the *unfiltered* table
  let targetPerms := ((c.attrs.find? (fun a => a.id == attrId)).map (·.access)).getD 0
  if write && !ctx.timed && contains targetPerms Consts.accTimedOnly then .error .needsTimedInteraction
  else if !contains targetPerms op then
    .error (if write then .unsupportedWrite else .unsupportedRead)
  else if allow ctx.fabrics (mkReq ctx ep c.id attrId deviceTypes op targetPerms) then .ok ()
  else .error .unsupportedAccess

/-- `Cluster::check_cmd_access` -/
def checkCmdAccess (ctx : Ctx) (c : Cluster) (ep : Nat) (deviceTypes : List Nat) (cmdId : Nat) :
    Except Status Unit :=
  let targetPerms := ((c.cmds.find? (fun a => a.id == cmdId)).map (·.access)).getD 0
  if !ctx.timed && contains targetPerms Consts.accTimedOnly then .error .needsTimedInteraction
  else if contains targetPerms Consts.accFabScoped && ctx.accessor.fabIdx == 0 then .error .unsupportedAccess
  else if allow ctx.fabrics (mkReq ctx ep c.id cmdId deviceTypes WRITE targetPerms) then .ok ()
  else .error .unsupportedAccess

/-- the access check the expander performs for one leaf (`command` / `!attr_read` select the callee) -/
def checkAccess (ctx : Ctx) (op : Operation) (e : Endpoint) (c : Cluster) (leafId : Nat) : Except Status Unit :=
  match op with
  | .invoke => checkCmdAccess ctx c e.id e.deviceTypes leafId
  | .write => checkAttrAccess ctx c e.id e.deviceTypes true leafId
  | .read => checkAttrAccess ctx c e.id e.deviceTypes false leafId

/-! ## `im/expand.rs` -/

structure Cursor where
  endpointId : Option Nat := none
  clusterIndex : Nat := 0
  leafIndex : Nat := 0
deriving DecidableEq, Repr, Inhabited

/-- result of the innermost loop -/
inductive LeafRes
  /-- `return Ok(Some(..))`; `leafIndex` already incremented -/
  | found (leafIndex : Nat) (leaf : Leaf)
  /-- concrete path rejected by the filter: `return Ok(None)` -/
  | filtered
  | err (s : Status)
  /-- the `while` ended -/
  | exhausted
deriving Repr

/-- the `check` expression of `next_for_path` -/
def leafCheck (ctx : Ctx) (op : Operation) (e : Endpoint) (c : Cluster) (leafId : Nat)
    (lastAuthorized : Option (Nat × Nat × Nat)) : Except Status Bool :=
  if ctx.filter e.id c.id leafId then
    if lastAuthorized == some (e.id, c.id, leafId) then .ok true
    else (checkAccess ctx op e c leafId).map (fun _ => true)
  else .ok false

/-- `while (self.leaf_index as usize) < cluster_leaves_len { .. }` over `leaves.drop leaf_index` -/
def leafLoop (ctx : Ctx) (op : Operation) (path : Path) (e : Endpoint) (c : Cluster)
    (lastAuthorized : Option (Nat × Nat × Nat)) : List Leaf → Nat → LeafRes
  | [], _ => .exhausted
  | leaf :: rest, li =>
    if path.leaf.isNone || path.leaf == some leaf.id then
      match leafCheck ctx op e c leaf.id lastAuthorized with
      | .ok true => .found (li + 1) leaf
      | .ok false =>
        if !isWildcard path then .filtered
        else leafLoop ctx op path e c lastAuthorized rest (li + 1)
      | .error s =>
        if !isWildcard path then .err s
        else leafLoop ctx op path e c lastAuthorized rest (li + 1)
    else leafLoop ctx op path e c lastAuthorized rest (li + 1)

inductive ClusterRes
  | found (clusterIndex leafIndex : Nat) (c : Cluster) (leaf : Leaf)
  | filtered
  | err (s : Status)
  /-- the `while` over clusters ended; `leafIndex` as left behind -/
  | exhausted (leafIndex : Nat)
deriving Repr

/-- `while (self.cluster_index as usize) < endpoint.clusters.len() { .. }` -/
def clusterLoop (ctx : Ctx) (op : Operation) (path : Path) (e : Endpoint)
    (lastAuthorized : Option (Nat × Nat × Nat)) : List Cluster → Nat → Nat → ClusterRes
  | [], _, li => .exhausted li
  | c :: rest, ci, li =>
    if path.cluster.isNone || path.cluster == some c.id then
      let command := op == .invoke
      match leafLoop ctx op path e c lastAuthorized ((c.leaves command).drop li) li with
      | .found li' leaf => .found ci li' c leaf
      | .filtered => .filtered
      | .err s => .err s
      | .exhausted =>
        if !isWildcard path then
          .err (if command then .unsupportedCommand else .unsupportedAttribute)
        else clusterLoop ctx op path e lastAuthorized rest (ci + 1) 0
    else clusterLoop ctx op path e lastAuthorized rest (ci + 1) li

/-- result of `next_for_path` -/
inductive PathRes
  /-- `Ok(Some((endpoint_id, cluster_id, leaf_id, array)))` and the cursor left behind -/
  | yield (ep cl leaf : Nat) (array : Bool) (cur : Cursor)
  /-- `Ok(None)` -/
  | done
  | err (s : Status)
deriving Repr

/-- `while endpoint_index < node.endpoints.len() { .. }` -/
def endpointLoop (ctx : Ctx) (op : Operation) (path : Path)
    (lastAuthorized : Option (Nat × Nat × Nat)) : List Endpoint → Nat → Nat → PathRes
  | [], _, _ => if !isWildcard path then .err .unsupportedEndpoint else .done
  | e :: rest, ci, li =>
    if (path.endpoint.isNone || path.endpoint == some e.id)
        && isEndpointAccessible ctx.fabrics ctx.accessor e.id then
      match clusterLoop ctx op path e lastAuthorized (e.clusters.drop ci) ci li with
      | .found ci' li' c leaf =>
        let command := op == .invoke
        -- `cluster.attribute(leaf_id).map(|a| a.quality.contains(ARRAY)).unwrap_or(false)`
        let array := !command &&
          (((c.leaves false).find? (fun a => a.id == leaf.id)).map (·.array)).getD false
        .yield e.id c.id leaf.id array { endpointId := some e.id, clusterIndex := ci', leafIndex := li' }
      | .filtered => .done
      | .err s => .err s
      | .exhausted li' =>
        if !isWildcard path then .err .unsupportedCluster
        else endpointLoop ctx op path lastAuthorized rest 0 li'
    else endpointLoop ctx op path lastAuthorized rest ci li

/-- `resume_endpoint_index`: index of the anchored endpoint, or — when it is gone — the insertion
point, with the cursors reset. (`binary_search_by_key` on a list sorted by id without duplicates,
which `Node` guarantees, is this linear search.) -/
def resumeEndpointIndex (node : Node) (cur : Cursor) : Nat × Cursor :=
  match cur.endpointId with
  | none => (0, cur)
  | some epId =>
    match node.findIdx? (fun e => e.id == epId) with
    | some i => (i, cur)
    | none => ((node.filter (fun e => e.id < epId)).length, {})

/-- `PathExpander::next_for_path` -/
def nextForPath (ctx : Ctx) (op : Operation) (node : Node) (path : Path) (cur : Cursor)
    (lastAuthorized : Option (Nat × Nat × Nat)) : PathRes :=
  if op != .read && path.cluster.isNone then .err .unsupportedCluster
  else if op != .read && path.leaf.isNone then .err .unsupportedAttribute
  else
    let (ei, cur) := resumeEndpointIndex node cur
    endpointLoop ctx op path lastAuthorized (node.drop ei) cur.clusterIndex cur.leafIndex

/-- one element of the expander's output -/
inductive Out
  /-- an expanded item: concrete ids, `wildcard` flag of the originating path, `array` -/
  | item (ep cl leaf : Nat) (wildcard array : Bool)
  /-- a status for the originating path -/
  | status (path : Path) (s : Status)
deriving DecidableEq, Repr

/-- the mutable part of `PathExpander` -/
structure St where
  items : List Path
  item : Option Path := none
  cur : Cursor := {}
  lastAuthorized : Option (Nat × Nat × Nat) := none
deriving Repr

/-- the body of the `loop` in `PathExpander::next` once `self.item` is `Some(path)`;
recursion: an exhausted path fetches the next item (`items` shrinks). -/
def nextFrom (ctx : Ctx) (op : Operation) (node : Node) (path : Path) (cur : Cursor)
    (lastAuthorized : Option (Nat × Nat × Nat)) (items : List Path) : Option (Out × St) :=
  match items, nextForPath ctx op node path cur lastAuthorized with
  | items, .yield ep cl leaf array cur' =>
    some (.item ep cl leaf (isWildcard path) array,
      { items := items, item := if !isWildcard path then none else some path, cur := cur',
        lastAuthorized := some (ep, cl, leaf) })
  | items, .err s =>
    some (.status path s, { items := items, item := none, cur := cur, lastAuthorized := lastAuthorized })
  | [], .done => none
  | p :: rest, .done => nextFrom ctx op node p {} lastAuthorized rest
termination_by structural items

/-- `PathExpander::next` -/
def next (ctx : Ctx) (op : Operation) (node : Node) (st : St) : Option (Out × St) :=
  match st.item with
  | some path => nextFrom ctx op node path st.cur st.lastAuthorized st.items
  | none =>
    match st.items with
    | [] => none
    | p :: rest => nextFrom ctx op node p {} st.lastAuthorized rest

/-- drain the iterator (`fuel` bounds the number of `next` calls; `Props/C06` shows that a bound
computed from the node and the request is never reached) -/
def run (ctx : Ctx) (op : Operation) (node : Node) : Nat → St → List Out
  | 0, _ => []
  | fuel + 1, st =>
    match next ctx op node st with
    | none => []
    | some (o, st') => o :: run ctx op node fuel st'

def expand (ctx : Ctx) (op : Operation) (node : Node) (paths : List Path) (fuel : Nat) : List Out :=
  run ctx op node fuel { items := paths }

/-! ## events: `Cluster::check_event_access`, `Node::validate_event_path`, `im.rs` `report_events`,
`im/events.rs` `EventReader::{matches_fabric, matches_path, matches_access}` -/

/-- `Cluster::events()`: the events the instantiation includes -/
def Cluster.evs (c : Cluster) : List Leaf := c.events.filter (·.enabled)

/-- `Cluster::check_event_access` (declaration looked up in the unfiltered table) -/
def checkEventAccess (ctx : Ctx) (c : Cluster) (ep : Nat) (deviceTypes : List Nat) (evId : Nat) :
    Except Status Unit :=
  let targetPerms := ((c.events.find? (fun a => a.id == evId)).map (·.access)).getD 0
  if allow ctx.fabrics (mkReq ctx ep c.id evId deviceTypes READ targetPerms) then .ok ()
  else .error .unsupportedAccess

/-- `Node::validate_event_path` with `validate_cluster_path` inlined (the optional node-id component
of an event path is not modelled). A wildcard component ends the validation with `Ok`. -/
def validateEventPath (ctx : Ctx) (node : Node) (p : Path) : Except Status Unit :=
  match p.endpoint with
  | none => .ok ()
  | some ep =>
    match node.find? (fun e => e.id == ep) with
    | none => .error .unsupportedEndpoint
    | some e =>
      match p.cluster with
      | none => .ok ()
      | some cl =>
        match e.clusters.find? (fun c => c.id == cl) with
        | none => .error .unsupportedCluster
        | some c =>
          match p.leaf with
          | none => .ok ()
          | some ev =>
            match c.evs.find? (fun l => l.id == ev) with
            | none => .error .unsupportedEvent
            | some l => checkEventAccess ctx c e.id e.deviceTypes l.id

/-- what `EventReader::matches_fabric` finds at context tag 254 (`FabricIndex`) of an event payload:
no such field (or the payload is not a structure) — the event is not fabric-sensitive; a field that
is null or not an 8-bit unsigned integer; or a fabric index -/
inductive FabField
  | absent
  | unreadable
  | idx (n : Nat)
deriving DecidableEq, Repr, Inhabited

/-- one event in the queue: its concrete path and the `FabricIndex` field of its payload -/
structure EventOcc where
  ep : Nat
  cl : Nat
  ev : Nat
  fab : FabField
  /-- the event number the queue assigned (used only to tell occurrences apart) -/
  num : Nat := 0
deriving DecidableEq, Repr, Inhabited

/-- **property level**: the fabric a fabric-sensitive occurrence is associated with (`none`: the
occurrence cannot be attributed to a fabric — it carries no readable `FabricIndex`) -/
def EventOcc.fabricOf (e : EventOcc) : Option Nat :=
  match e.fab with
  | .idx n => some n
  | _ => none

inductive EvOut
  | status (path : Path) (s : Status)
  | data (e : EventOcc)
deriving DecidableEq, Repr

def EventOcc.path (e : EventOcc) : Path := { endpoint := some e.ep, cluster := some e.cl, leaf := some e.ev }

def isOkE : Except Status Unit → Bool
  | .ok _ => true
  | .error _ => false

/-- `EventReader::matches_fabric`: no `FabricIndex` field → `true`; a field that is null / not a `u8`
→ `true` ("be conservative and allow"); else equality with the accessor's fabric index -/
def matchesFabric (ctx : Ctx) (e : EventOcc) : Bool :=
  match e.fab with
  | .absent => true
  | .unreadable => true
  | .idx n => n == ctx.accessor.fabIdx

/-- `EventReader::matches_path` (event paths in the queue are concrete) -/
def eventMatchesPath (ctx : Ctx) (node : Node) (p : Path) (e : EventOcc) : Bool :=
  isOkE (validateEventPath ctx node p) &&
    ((p.endpoint.isNone || p.endpoint == some e.ep) && (p.cluster.isNone || p.cluster == some e.cl) &&
      (p.leaf.isNone || p.leaf == some e.ev))

/-- the statuses of the concrete request paths that do not validate (absent endpoint / cluster /
event, access denied) -/
def eventStatuses (ctx : Ctx) (node : Node) (paths : List Path) : List EvOut :=
  paths.filterMap fun p =>
    if !isWildcard p then
      match validateEventPath ctx node p with
      | .ok _ => none
      | .error s => some (.status p s)
    else none

/-- the event part of `ReportDataResponder::report_events` (no event-number filters, one chunk):
first the statuses of the concrete request paths that do not validate, then the queued events that
pass the fabric check (`EventReader::do_process_read`: since the repair `fix: fabric-sensitive events
of another fabric are withheld also from a request that clears isFabricFiltered` the check does not
consult the requester-controlled `fabricFiltered` flag, which is kept as a parameter to state exactly
that), match a valid requested path and whose own path validates (`matches_access`) -/
def reportEvents (ctx : Ctx) (node : Node) (_fabricFiltered : Bool) (paths : List Path)
    (queue : List EventOcc) : List EvOut :=
  eventStatuses ctx node paths ++
  (queue.filter fun e =>
    matchesFabric ctx e &&
    paths.any (fun p => eventMatchesPath ctx node p e) &&
    isOkE (validateEventPath ctx node e.path)).map .data

/-- `report_events` as it was before that repair: the fabric check was skipped for a request with
`isFabricFiltered = false` (kept for the counter-example `C06.unfiltered_read_disclosed_before_fix`) -/
def reportEventsOld (ctx : Ctx) (node : Node) (fabricFiltered : Bool) (paths : List Path)
    (queue : List EventOcc) : List EvOut :=
  eventStatuses ctx node paths ++
  (queue.filter fun e =>
    (!fabricFiltered || matchesFabric ctx e) &&
    paths.any (fun p => eventMatchesPath ctx node p e) &&
    isOkE (validateEventPath ctx node e.path)).map .data

/-- drain the iterator while the node composition is replaced between `next` calls
(`PathExpanderIterator::next` takes the node afresh from `Metadata::access` on every call): call `i`
sees `nodes[i]`; the run stops when the expander is exhausted or the schedule ends -/
def runSwap (ctx : Ctx) (op : Operation) : List Node → St → List Out
  | [], _ => []
  | node :: rest, st =>
    match next ctx op node st with
    | none => []
    | some (o, st') => o :: runSwap ctx op rest st'

/-- drain the iterator while the **access-control state** is rewritten between `next` calls (the
handler of a WriteRequest item that targets the ACL cluster runs between two calls of `next` and
replaces the fabric's ACL): call `i` sees `ctxs[i]` — same requester and filter, another ACL -/
def runCtx (op : Operation) (node : Node) : List Ctx → St → List Out
  | [], _ => []
  | ctx :: rest, st =>
    match next ctx op node st with
    | none => []
    | some (o, st') => o :: runCtx op node rest st'

/-- the `(endpoint, cluster, leaf)` of the last item among the answers given so far (`la` if there is
none): what `last_authorized` holds -/
def lastItemOf (la : Option (Nat × Nat × Nat)) : List Out → Option (Nat × Nat × Nat)
  | [] => la
  | .item ep cl lf _ _ :: rest => lastItemOf (some (ep, cl, lf)) rest
  | .status _ _ :: rest => lastItemOf la rest

/-- the swap run stopped because the expander was exhausted (not because the schedule ran out) -/
def swapEnded (ctx : Ctx) (op : Operation) : List Node → St → Bool
  | [], _ => false
  | node :: rest, st =>
    match next ctx op node st with
    | none => true
    | some (_, st') => swapEnded ctx op rest st'

/-- the documented invariant across node replacements: an endpoint id denotes the same endpoint
(clusters, leaves, device types) in every composition seen during the request -/
def stableNodes (nodes : List Node) : Bool :=
  nodes.all fun n => nodes.all fun n' => n.all fun e => n'.all fun e' => e.id != e'.id || e == e'

/-! ## termination measure of the expander (used by the driver as the number of `next` calls)

The three cursors `(endpoint position, cluster_index, leaf_index)` decrease lexicographically with
every yield; `mE` is that lexicographic order flattened into one number (remaining endpoints, each
weighted by its remaining clusters, each weighted by its remaining leaves). `Props/C06` proves that
`fuelBound` calls of `next` always suffice on a node whose endpoints are sorted by id. -/

/-- remaining weight of a cluster list from leaf index `li` inside its first cluster -/
def mC (op : Operation) : List Cluster → Nat → Nat
  | [], _ => 0
  | c :: rest, li => 1 + ((c.leaves (op == .invoke)).length - li) + mC op rest 0

/-- remaining weight of an endpoint list from the cursor `(ci, li)` inside its first endpoint -/
def mE (op : Operation) : List Endpoint → Nat → Nat → Nat
  | [], _, _ => 0
  | e :: rest, ci, li => 1 + mC op (e.clusters.drop ci) li + mE op rest 0 0

/-- number of `next` calls after which the expansion of `paths` has certainly ended -/
def fuelBound (op : Operation) (node : Node) (paths : List Path) : Nat :=
  paths.length * (mE op node 0 0 + 2) + 1

/-! ## `im.rs`: the timed window in front of a write / invoke -/

inductive TimedGate | proceed | timedRequestMismatch | timeout
deriving DecidableEq, Repr

/-- `timed_out(exchange, timeout_instant, timed_req)`: `timeoutInstant` is `Some` exactly when the
exchange started with a `TimedRequest` (then it is the instant at which the window closes) -/
def timedGate (timedReq : Bool) (timeoutInstant : Option Nat) (now : Nat) : TimedGate :=
  if timedReq != timeoutInstant.isSome then .timedRequestMismatch
  else if (timeoutInstant.map (fun t => decide (now > t))).getD false then .timeout
  else .proceed

/-! ## `im.rs`: what happens to a whole request before / around the expansion -/

/-- `validate_read` / `validate_attr_wildcard_path`: a wildcard cluster with a concrete attribute id
is only allowed for global attributes -/
def readValid (paths : List Path) : Bool :=
  paths.all fun p => !(p.cluster.isNone && (p.leaf.map (fun a => decide (a < Consts.globalAttrMin))).getD false)

/-- `invoke`: at most `max_paths_per_invoke` commands; several commands need pairwise distinct paths
(the harness always supplies distinct `CommandRef`s) -/
def invokeValid (paths : List Path) : Bool :=
  decide (paths.length ≤ Consts.maxPathsPerInvoke) && (paths.length ≤ 1 || decide paths.Nodup)

/-- the outcome of one request as seen by the controller and by the handlers -/
structure Outcome where
  /-- request-level status (`none`: the request was processed path by path) -/
  top : Option String
  /-- the per-path answers -/
  resp : List Out
  /-- the calls the handlers received, in order -/
  effects : List (Nat × Nat × Nat)
deriving DecidableEq, Repr

def itemsOf (outs : List Out) : List (Nat × Nat × Nat) :=
  outs.filterMap fun
    | .item ep cl lf _ _ => some (ep, cl, lf)
    | .status _ _ => none

/-! ### `im/invoker.rs`: the handlers are called from the loop over the expander's items

The **effects** of a request are the calls the cluster handlers receive. They are a component of
their own (`Dev.calls`), filled by the transliterated loop below — not derived from the answers. -/

/-- what a cluster handler answers to a call: `none` = `Ok(())`, `some s` = an error other than
`NoSpace` (`do_process_*` turns it into the item's status) -/
abbrev Handler := Nat → Nat → Nat → Option Status

/-- the handler of the harness: every call succeeds -/
def okHandler : Handler := fun _ _ _ => none

/-- the device side of one request: the per-path answers written so far and the log of the calls
the handlers received so far -/
structure Dev where
  resp : List Out := []
  calls : List (Nat × Nat × Nat) := []
deriving DecidableEq, Repr

/-- `HandlerInvoker::do_process_read` / `do_process_write` / `do_process_invoke` for one element the
expander yields:
* `Ok(item)`: **the handler is called** (`self.read` / `self.write` / `self.invoke`); `Ok` → the data
  / a `Success` status for the item; `Err(e)` (not `NoSpace`) → `item.status(e)`, a status for the
  concrete path of the item;
* `Err(status)`: the status is written, **no handler is called**. -/
def processItem (hnd : Handler) (d : Dev) : Out → Dev
  | .item ep cl lf w a =>
    match hnd ep cl lf with
    | none => { resp := d.resp ++ [.item ep cl lf w a], calls := d.calls ++ [(ep, cl, lf)] }
    | some s =>
      { resp := d.resp ++ [.status { endpoint := some ep, cluster := some cl, leaf := some lf } s],
        calls := d.calls ++ [(ep, cl, lf)] }
  | .status p s => { d with resp := d.resp ++ [.status p s] }

/-- the loop `while let Some(item) = expander.next() { invoker.process_…(&item, …) }` of
`ReportDataResponder::respond` / `WriteResponder::respond` / `InvokeResponder::respond` over what the
expander yields -/
def processAll (hnd : Handler) (outs : List Out) : Dev := outs.foldl (processItem hnd) {}

/-- a loop that also hands an element the expander refused to the handler (kept for the
counter-example `C06.calling_handler_for_denied_item_breaks_effects`) -/
def processItemBad (hnd : Handler) (d : Dev) : Out → Dev
  | .status p s =>
    match p.endpoint, p.cluster, p.leaf with
    | some ep, some cl, some lf => { resp := d.resp ++ [.status p s], calls := d.calls ++ [(ep, cl, lf)] }
    | _, _, _ => { d with resp := d.resp ++ [.status p s] }
  | o => processItem hnd d o

/-- `InteractionModel::{handle, read, write, invoke}` around what the expander yields (`answers`):
the timed gate for writes / invokes, request validation, then the loop that calls the handlers.
`tr` = `Some(timeout, elapsed)` if a TimedRequest preceded the action. A request refused at the gate
or by the validation never reaches the loop. -/
def imRequest (op : Operation) (flag : Bool) (tr : Option (Nat × Nat)) (paths : List Path)
    (answers : List Out) (hnd : Handler := okHandler) : Outcome :=
  let gate := if op == .read then TimedGate.proceed
    else timedGate flag (tr.map (·.1)) ((tr.map (·.2)).getD 0)
  match gate with
  | .timedRequestMismatch => { top := some "TimedRequestMisMatch", resp := [], effects := [] }
  | .timeout => { top := some "Timeout", resp := [], effects := [] }
  | .proceed =>
    if (op == .read && !readValid paths) || (op == .invoke && !invokeValid paths) then
      { top := some "InvalidAction", resp := [], effects := [] }
    else { top := none, resp := (processAll hnd answers).resp, effects := (processAll hnd answers).calls }

/-- one `WriteRequest` message of a chunked Write action (`MoreChunkedMessages` on all but the last) -/
structure Chunk where
  /-- the chunk's own `TimedRequest` flag -/
  flag : Bool
  /-- how far the clock moved between the answer to the previous message and this chunk -/
  delay : Nat
  paths : List Path
deriving Repr

/-- `InteractionModel::write`: the `while` over the chunks of one Write action. **Every** chunk goes
through `timed_out` with its own flag at its own arrival time (`elapsed` since the TimedRequest,
if any, accumulates), and is expanded with its own flag; a closed gate answers with the status and
ends the action (`break`). `answers flag paths` = the expansion of one chunk. -/
def imWriteChunks (answers : Bool → List Path → List Out) (timeout : Option Nat) :
    Nat → List Chunk → List Outcome
  | _, [] => []
  | elapsed, c :: rest =>
    let now := elapsed + c.delay
    let o := imRequest .write c.flag (timeout.map (fun t => (t, now))) c.paths (answers c.flag c.paths)
    if o.top.isSome then [o] else o :: imWriteChunks answers timeout now rest

/-! # Specification (from the text of C06)

"A request returns data for, mutates, or invokes exactly those attributes, commands and events that
exist on the node, match the requested path and are permitted for the requester: a wildcard silently
omits the rest, a concrete path that is absent or not permitted yields the corresponding status and
has no effect on the device. Elements marked timed-only act only inside a timed interaction that has
not expired, fabric-scoped commands are refused to requesters without a fabric …" -/

/-- "permitted for the requester": the element offers the operation, the timed / fabric-scoped marks
are honoured and access control (the *specification* of C05) grants it. `none` = permitted, else the
status of the first failing level. -/
def permitted (ctx : Ctx) (op : Operation) (e : Endpoint) (c : Cluster) (leaf : Leaf) : Option Status :=
  let decl := leaf.access
  let aclOp := if op == .read then READ else WRITE
  let granted := grantedB ctx.fabrics (mkReq ctx e.id c.id leaf.id e.deviceTypes aclOp decl)
  match op with
  | .read =>
    if !declHas decl Consts.accRead then some .unsupportedRead
    else if !granted then some .unsupportedAccess else none
  | .write =>
    if declHas decl Consts.accTimedOnly && !ctx.timed then some .needsTimedInteraction
    else if !declHas decl Consts.accWrite then some .unsupportedWrite
    else if !granted then some .unsupportedAccess else none
  | .invoke =>
    if declHas decl Consts.accTimedOnly && !ctx.timed then some .needsTimedInteraction
    else if declHas decl Consts.accFabScoped && ctx.accessor.fabIdx == 0 then some .unsupportedAccess
    else if !granted then some .unsupportedAccess else none

/-- an endpoint the requester can address: group requesters only their group's endpoints -/
def reachable (ctx : Ctx) (e : Endpoint) : Bool := reachesB ctx.fabrics ctx.accessor e.id

def matchesOpt (want : Option Nat) (id : Nat) : Bool :=
  match want with
  | none => true
  | some w => w == id

def specLeaves (c : Cluster) (op : Operation) : List Leaf :=
  (if op == .invoke then c.cmds else c.attrs).filter (·.enabled)

/-- wildcard path: every existing element that matches the path, is reachable, passes the caller's
filter and is permitted — in node order; everything else is silently omitted -/
def expectedWildcard (ctx : Ctx) (op : Operation) (node : Node) (path : Path) : List Out :=
  node.flatMap fun e =>
    if matchesOpt path.endpoint e.id && reachable ctx e then
      e.clusters.flatMap fun c =>
        if matchesOpt path.cluster c.id then
          (specLeaves c op).filterMap fun l =>
            if matchesOpt path.leaf l.id && ctx.filter e.id c.id l.id
                && (permitted ctx op e c l).isNone then
              some (Out.item e.id c.id l.id true (op != .invoke && l.array))
            else none
        else []
    else []

/-- concrete path: the element, or the status of the first level that fails -/
def expectedConcrete (ctx : Ctx) (op : Operation) (node : Node) (path : Path) (ep cl lf : Nat) : List Out :=
  match node.find? (fun e => e.id == ep && reachable ctx e) with
  | none => [.status path .unsupportedEndpoint]
  | some e =>
    match e.clusters.find? (fun c => c.id == cl) with
    | none => [.status path .unsupportedCluster]
    | some c =>
      match (specLeaves c op).find? (fun l => l.id == lf) with
      | none => [.status path (if op == .invoke then .unsupportedCommand else .unsupportedAttribute)]
      | some l =>
        if !ctx.filter e.id c.id l.id then []          -- the caller asked not to be told about it
        else match permitted ctx op e c l with
          | none => [.item e.id c.id l.id false (op != .invoke && l.array)]
          | some s => [.status path s]

/-- what one requested path must produce -/
def expectedItem (ctx : Ctx) (op : Operation) (node : Node) (path : Path) : List Out :=
  -- writes and invokes may be wildcarded over endpoints only
  if op != .read && path.cluster.isNone then [.status path .unsupportedCluster]
  else if op != .read && path.leaf.isNone then [.status path .unsupportedAttribute]
  else match path.endpoint, path.cluster, path.leaf with
    | some ep, some cl, some lf => expectedConcrete ctx op node path ep cl lf
    | _, _, _ => expectedWildcard ctx op node path

/-- **The specification**: the answers to the paths, in request order (repeats included). -/
def expected (ctx : Ctx) (op : Operation) (node : Node) (paths : List Path) : List Out :=
  paths.flatMap (expectedItem ctx op node)

/-- what the specification assumes about the node metadata (`Node`'s documented invariants):
endpoints sorted by id without duplicates, cluster ids distinct per endpoint, leaf ids distinct per
cluster table -/
def nodeWF (node : Node) : Bool :=
  (node.map (·.id)).Pairwise (· < ·) &&
  node.all fun e => (e.clusters.map (·.id)).Nodup &&
    e.clusters.all fun c => (c.attrs.map (·.id)).Nodup && (c.cmds.map (·.id)).Nodup

/-! ## specification for a request answered while the node composition changes (`node_swap_safe`) -/

/-- clause 1: the item exists on the node of its call, matches a requested path, is reachable,
passes the filter and is permitted -/
def itemPermittedOn (ctx : Ctx) (op : Operation) (node : Node) (paths : List Path) (ep cl lf : Nat) : Bool :=
  node.any fun e => e.id == ep && reachable ctx e && e.clusters.any fun c => c.id == cl &&
    (specLeaves c op).any fun l => l.id == lf && ctx.filter ep cl lf && (permitted ctx op e c l).isNone &&
      paths.any fun p => matchesOpt p.endpoint ep && matchesOpt p.cluster cl && matchesOpt p.leaf lf

/-- clause 3: the leaves a wildcard path owes for endpoints present in every composition seen -/
def owedThroughout (ctx : Ctx) (op : Operation) (nodes : List Node) (p : Path) : List (Nat × Nat × Nat) :=
  match nodes with
  | [] => []
  | n0 :: rest =>
    n0.flatMap fun e =>
      if rest.all (fun n => n.contains e) && matchesOpt p.endpoint e.id && reachable ctx e then
        e.clusters.flatMap fun c =>
          if matchesOpt p.cluster c.id then
            (specLeaves c op).filterMap fun l =>
              if matchesOpt p.leaf l.id && ctx.filter e.id c.id l.id && (permitted ctx op e c l).isNone then
                some (e.id, c.id, l.id)
              else none
          else []
      else []

/-! ## specification for event paths (from the text of C06: "… exactly those … events that exist on
the node, match the requested path and are permitted for the requester: a wildcard silently omits
the rest, a concrete path that is absent or not permitted yields the corresponding status … and
fabric-sensitive data of other fabrics is not disclosed") -/

def specEvents (c : Cluster) : List Leaf := c.events.filter (·.enabled)

/-- reading an event is permitted: access control (specification of C05) grants READ against the
event's declared access -/
def permittedEvent (ctx : Ctx) (e : Endpoint) (c : Cluster) (l : Leaf) : Bool :=
  grantedB ctx.fabrics (mkReq ctx e.id c.id l.id e.deviceTypes READ l.access)

/-- concrete event path: the status of the first level that fails, `none` if the event exists and is
permitted -/
def expectedEventStatus (ctx : Ctx) (node : Node) (ep cl ev : Nat) : Option Status :=
  match node.find? (fun e => e.id == ep && reachable ctx e) with
  | none => some .unsupportedEndpoint
  | some e =>
    match e.clusters.find? (fun c => c.id == cl) with
    | none => some .unsupportedCluster
    | some c =>
      match (specEvents c).find? (fun l => l.id == ev) with
      | none => some .unsupportedEvent
      | some l => if permittedEvent ctx e c l then none else some .unsupportedAccess

/-- "fabric-sensitive data of other fabrics is not disclosed" (written from the Matter rule, not from
the code): an occurrence associated with a fabric may be shown to that fabric only — **whatever the
request's `isFabricFiltered` field says** (that field only selects which entries of fabric-scoped
*lists* are returned; fabric-sensitive events and fields of another fabric are never returned). An
occurrence that is not associated with a fabric is not fabric-sensitive. -/
def fabricAllows (ctx : Ctx) (o : EventOcc) : Bool :=
  match o.fabricOf with
  | none => true
  | some f => f == ctx.accessor.fabIdx

/-- an occurrence is disclosed: it exists on the node, is permitted, matches a requested path and is
not a fabric-sensitive event of another fabric. The requester-controlled `isFabricFiltered` flag has
no influence. -/
def eventVisible (ctx : Ctx) (node : Node) (_fabricFiltered : Bool) (paths : List Path) (o : EventOcc) : Bool :=
  (expectedEventStatus ctx node o.ep o.cl o.ev).isNone &&
  paths.any (fun p => matchesOpt p.endpoint o.ep && matchesOpt p.cluster o.cl && matchesOpt p.leaf o.ev) &&
  fabricAllows ctx o

/-- **The specification for event paths**: a status for every concrete path that is absent or not
permitted (request order), then every disclosed occurrence once, in queue order -/
def expectedEvents (ctx : Ctx) (node : Node) (fabricFiltered : Bool) (paths : List Path)
    (queue : List EventOcc) : List EvOut :=
  (paths.filterMap fun p =>
    match p.endpoint, p.cluster, p.leaf with
    | some ep, some cl, some ev => (expectedEventStatus ctx node ep cl ev).map (EvOut.status p)
    | _, _, _ => none) ++
  (queue.filter (eventVisible ctx node fabricFiltered paths)).map .data

/-- event ids distinct per cluster (added to `nodeWF` for event statements) -/
def eventsWF (node : Node) : Bool :=
  node.all fun e => e.clusters.all fun c => (c.events.map (·.id)).Nodup

end Expand
