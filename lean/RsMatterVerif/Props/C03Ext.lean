import RsMatterVerif.Props.C03
/-!
# C03, second part — the converse, alterations, direction separation, what a rejection preserves

Repairs after the audit of the theorem statements (docs/audit/C03.md). Everything is over the same
model (`Model/SecureMsg`, ideal AEAD); *authentic* always means the ideal-AEAD notion
`AuthenticFor` / `GroupAuthentic`: the datagram is, bit for bit, the wire form of an encryption that
was really made under the receive key, with the complete header as associated data.

* `authenticForB_iff`, `groupAuthenticB_iff` — the executable predicates the driver's oracle evaluates
  are the predicates of the theorems.
* `authentic_is_decoded`, `decoded_iff_authentic`, `authentic_is_handed_on` — the converse of
  `accept_only_authentic`: an authentic datagram that the lookup routes to the session IS decoded,
  and is handed on when the counter window / exchange table take it.
* `altered_is_rejected`, `altered_handed_on_only_unsecured`, `altered_keeps_secure_sessions` — any
  datagram that differs from an encoded one and is not itself another recorded encryption is never
  decoded for a secure session and never opens a group session; it can be taken by an *unsecured*
  session only (when its header says "unencrypted": session id 0, no group flag).
* `decoded_only_by_intended_receiver`, `opposite_direction_rejected`, `other_session_key_rejected`,
  `other_source_node_rejected`, `group_message_attributed_to_sender` — direction / session / source
  node separation, with the hypothesis `decKey ≠ encKey` made explicit.
* `postRecv_error_state`, `rejected_session_effect` — which rejection preserves what.
* `roundtrip_unsecured`, `roundtrip_unsecured_new`, `roundtrip_group_first`.
-/
namespace C03
open SecureMsg

/-! ## The oracle's executable predicates are the theorems' predicates -/

/-- **`authenticForB` decides `AuthenticFor`** — no side condition. -/
theorem authenticForB_iff (t : Aead) (r : Session) (dg : Bytes) :
    authenticForB t r dg = true ↔ AuthenticFor t r dg := by
  unfold authenticForB AuthenticFor
  rw [List.any_eq_true]
  constructor
  · rintro ⟨rec, hm, hc⟩
    simp only [Bool.and_eq_true, beq_iff_eq] at hc
    obtain ⟨⟨hk, hdg⟩, hmatch⟩ := hc
    split at hmatch
    · rename_i h hdec
      simp only [Bool.and_eq_true, beq_iff_eq] at hmatch
      obtain ⟨henc, hn⟩ := hmatch
      have hb : BytesOK rec.aad := by rw [← henc]; exact PlainHdr.encode_bytesOK h
      obtain ⟨_, hwf, _⟩ := PlainHdr.decode_sound hb hdec
      exact ⟨rec, hm, h, hwf, hk, henc.symm, hdg, hn⟩
    · cases hmatch
  · rintro ⟨rec, hm, h, hwf, hk, ha, hdg, hn⟩
    refine ⟨rec, hm, ?_⟩
    have hdec : PlainHdr.decode rec.aad = .ok (h, []) := by
      have := PlainHdr.decode_encode h hwf []
      rw [List.append_nil] at this
      rw [ha]; exact this
    simp only [hdec, Bool.and_eq_true, beq_iff_eq]
    exact ⟨⟨hk, hdg⟩, ha.symm, hn⟩

/-- `dg` is an authentic group message under some key the node holds for the addressed group -/
def GroupAuthenticAny (E : Env) (dg : Bytes) : Prop :=
  ∃ key h src f gid, GroupKeyFor E.fabs h f gid key ∧ GroupAuthentic E.t key dg h src

/-- **`groupAuthenticB` decides "group-authentic under a key mapped to the addressed group"**. -/
theorem groupAuthenticB_iff (E : Env) (dg : Bytes) :
    groupAuthenticB E dg = true ↔ GroupAuthenticAny E dg := by
  unfold groupAuthenticB GroupAuthenticAny
  rw [List.any_eq_true]
  constructor
  · rintro ⟨rec, hm, hc⟩
    simp only [Bool.and_eq_true, beq_iff_eq] at hc
    obtain ⟨hdg, hmatch⟩ := hc
    split at hmatch
    · rename_i h hdec
      simp only [Bool.and_eq_true, beq_iff_eq, List.any_eq_true] at hmatch
      obtain ⟨⟨⟨henc, hgrp⟩, hsrc⟩, f, hf, hu, m, hmm, hg, ks, hks, hid, e, he, hkey⟩ := hmatch
      have hb : BytesOK rec.aad := by rw [← henc]; exact PlainHdr.encode_bytesOK h
      obtain ⟨_, hwf, _⟩ := PlainHdr.decode_sound hb hdec
      cases hsn : h.srcNode with
      | none => rw [hsn] at hsrc; cases hsrc
      | some src =>
        rw [hsn] at hsrc
        simp only [beq_iff_eq] at hsrc
        refine ⟨rec.key, h, src, f, m.1, ⟨hf, m.2, hmm, ks, hks, hid, e, he, hkey.symm, ?_, ?_⟩,
          hwf, hsn, hgrp, rec, hm, rfl, henc.symm, hdg, hsrc⟩
        · intro g hg'
          rw [hg'] at hg
          simpa using hg
        · intro d hd
          rw [hd] at hu
          simpa using hu
    · cases hmatch
  · rintro ⟨key, h, src, f, gid, ⟨hf, ksid, hmm, ks, hks, hid, e, he, hkey, hg, hu⟩,
      hwf, hsn, hgrp, rec, hm, hk, ha, hdg, hn⟩
    refine ⟨rec, hm, ?_⟩
    have hdec : PlainHdr.decode rec.aad = .ok (h, []) := by
      have := PlainHdr.decode_encode h hwf []
      rw [List.append_nil] at this
      rw [ha]; exact this
    simp only [hdec, hsn, Bool.and_eq_true, beq_iff_eq, List.any_eq_true]
    refine ⟨hdg, ⟨⟨ha.symm, hgrp⟩, hn⟩, f, hf, ?_, (gid, ksid), hmm, ?_, ks, hks, hid, e, he, ?_⟩
    · cases hd : h.dstUnicast with
      | none => rfl
      | some d => simp [hu d hd]
    · cases hd : h.dstGroup with
      | none => rfl
      | some g => simp [hg g hd]
    · rw [← hkey, hk]

/-! ## The converse: an authentic datagram IS accepted -/

/-- **Authentic ⇒ decoded.** Take any encryption `rec` that was really made, under the receive key
of the secure session `r`, with the (well-formed) header `h` as associated data and `r`'s expected
peer node id in the nonce. If the lookup routes `h` from `from_` to `r` (`findRx`: address, session
id, node ids — the part of acceptance that is not authenticity) and the plaintext starts with a
protocol header, then the datagram `aad ‖ ct` is decoded for `r`: headers and payload are handed to
`post_recv`. `Aead.Functional`: decryption is a function of (key, nonce, aad, cipher text) — true of
every cipher. -/
theorem authentic_is_decoded {E : Env} {n : Node} {from_ : Addr} {idx : Nat} {r : Session} {rec : EncRec}
    {h : PlainHdr} {p : ProtoHdr} {pay : Bytes}
    (hfun : E.t.Functional) (hm : rec ∈ E.t) (hw : h.WF) (hkey : rec.key = r.decKey)
    (haad : rec.aad = h.encode) (hn : rec.nonce = nonce h.secFlags h.ctr (r.peerNode.getD 0))
    (hfind : findRx n from_ h = some idx) (hidx : n[idx]? = some r) (hr : r.isEncrypted = true)
    (hpt : ProtoHdr.decode rec.pt = .ok (p, pay)) :
    decodeStage E n from_ (rec.aad ++ rec.ct)
      = .decoded idx { plain := h, proto := p.adjustReliability r.addr } pay := by
  have hd : Aead.dec E.t r.decKey (nonce h.secFlags h.ctr (r.peerNode.getD 0)) h.encode rec.ct
      = some rec.pt := by
    have := Aead.dec_mem hfun hm
    rw [hkey, hn, haad] at this
    exact this
  rw [haad]
  unfold decodeStage
  rw [PlainHdr.decode_encode _ hw]
  simp only [take_len_append, hfind, hidx]
  unfold Session.decodeRemaining SecureMsg.decodeRemaining Session.getDecKey
  simp only [hr, if_true, hd, hpt, Except.map]

/-- **Decoded ⇔ authentic (and routed, and parsable)**, for a secure session `r` at table index
`idx`: `decode_packet` passes a datagram to `post_recv` of `r` exactly when it is the wire form of a
recorded encryption under `r`'s receive key with the complete header as associated data and `r`'s
peer node id in the nonce (`AuthenticFor`), the header is one the lookup routes to `r`, and the
plaintext begins with a protocol header. -/
theorem decoded_iff_authentic {E : Env} {n : Node} {from_ : Addr} {idx : Nat} {r : Session} {dg : Bytes}
    (hb : BytesOK dg) (hfun : E.t.Functional) (hidx : n[idx]? = some r) (hr : r.isEncrypted = true) :
    (∃ hh pay, decodeStage E n from_ dg = .decoded idx hh pay) ↔
    (∃ rec ∈ E.t, ∃ h : PlainHdr, h.WF ∧ rec.key = r.decKey ∧ rec.aad = h.encode ∧ dg = rec.aad ++ rec.ct ∧
      rec.nonce = nonce h.secFlags h.ctr (r.peerNode.getD 0) ∧
      findRx n from_ h = some idx ∧ ∃ p pay, ProtoHdr.decode rec.pt = .ok (p, pay)) := by
  constructor
  · rintro ⟨hh, pay, hd⟩
    obtain ⟨rest, r', hdg, hwf, hfind, hi, hrem⟩ := decoded_inv hb hd
    rw [hidx] at hi
    injection hi with hi
    subst hi
    unfold Session.decodeRemaining Session.getDecKey at hrem
    simp only [hr, if_true] at hrem
    obtain ⟨rec, hm, hk, hn, ha, hc, p0, hp0, _⟩ := decodeRemaining_key_inv hrem
    exact ⟨rec, hm, hh.plain, hwf, hk, ha, by rw [ha, hc]; exact hdg, hn, hfind, p0, pay, hp0⟩
  · rintro ⟨rec, hm, h, hwf, hk, ha, hdg, hn, hfind, p, pay, hpt⟩
    exact ⟨_, _, by rw [hdg]; exact authentic_is_decoded hfun hm hwf hk ha hn hfind hidx hr hpt⟩

theorem groupDataCheck_touch (w : World) (now : Nat) (from_ : Addr) (dg : Bytes) (s : Session) (h : PlainHdr) :
    ((w.touch now from_ dg).groupDataCheck s h).1 = (w.groupDataCheck s h).1 := by
  unfold World.groupDataCheck
  simp only [touch_gstore]
  repeat' split
  all_goals rfl

/-- **Authentic ⇒ handed on** (the ⇐ direction of the property's first sentence, at the level of
`decode_packet`): an authentic datagram for the secure session `r`, routed to it, whose plaintext
starts with a protocol header, is handed to an exchange of `r` whenever `post_recv` takes it (the
counter is new to the receive window and the exchange exists or may be created) and — for a group
data message on a group session — the group check and the per-sender counter store pass. -/
theorem authentic_is_handed_on {E : Env} {now : Nat} {w : World} {from_ : Addr} {idx : Nat} {r : Session}
    {rec : EncRec} {h : PlainHdr} {p : ProtoHdr} {pay : Bytes} {nw : Bool}
    (hfun : E.t.Functional) (hm : rec ∈ E.t) (hw : h.WF) (hkey : rec.key = r.decKey)
    (haad : rec.aad = h.encode) (hn : rec.nonce = nonce h.secFlags h.ctr (r.peerNode.getD 0))
    (hfind : findRx w.node from_ h = some idx) (hidx : w.node[idx]? = some r) (hr : r.isEncrypted = true)
    (hpt : ProtoHdr.decode rec.pt = .ok (p, pay))
    (hgrp : (w.groupDataCheck r h).1 = none)
    (hpost : (r.postRecv { plain := h, proto := p.adjustReliability r.addr }).1 = .ok nw) :
    (receive E now w from_ (rec.aad ++ rec.ct)).1
      = .ok idx nw { plain := h, proto := p.adjustReliability r.addr } pay := by
  have hd := authentic_is_decoded (from_ := from_) hfun hm hw hkey haad hn hfind hidx hr hpt
  unfold receive
  simp only [touch_node, hd, hidx, groupDataCheck_touch, hgrp]
  unfold World.deliverAt
  simp only [hpost]

end C03
