//! C17, second batch of modelled codecs: QR payload, BTP header / handshake, BDX messages, check-in.
use super::{edge, errname, guard, mutate, num, opt, rt_and_mutations};
use crate::proto::{hex, unhex, Out};
use crate::rng::Rng;

// ------------------------------------------------------------------ QR payload

mod qr {
    use super::*;
    use rs_matter::error::Error;
    use rs_matter::pairing::qr::{CommFlowType, QrPayload};
    use rs_matter::pairing::DiscoveryCapabilities;
    use rs_matter::BasicCommData;

    /// `enc <vid> <pid> <flow> <rdv> <disc> <pass> <serial hex> <extra hex>` -> chars hex
    pub fn enc(vid: u16, pid: u16, flow: u64, rdv: u8, disc: u16, pass: u32, serial: &str, extra: &[u8], cap: usize) -> String {
        guard(|| {
            let flow = match flow {
                0 => CommFlowType::Standard,
                1 => CommFlowType::UserIntent,
                _ => CommFlowType::Custom,
            };
            let cd = BasicCommData { password: pass.to_le_bytes().into(), discriminator: disc };
            let ex = extra.to_vec();
            let q = QrPayload::new(
                DiscoveryCapabilities::from_bits_truncate(rdv),
                flow,
                cd,
                vid,
                pid,
                serial,
                move || ex.clone().into_iter().map(Ok::<u8, Error>),
            );
            let mut buf = vec![0u8; cap];
            match q.as_str(&mut buf) {
                Ok((s, _)) => hex(s.as_bytes()),
                Err(e) => errname(&e),
            }
        })
    }

    /// decoded: `ok ver vid pid flow rdv disc pass <tlv hex> <serial hex>`
    pub fn dec(s: &str, cap: usize) -> String {
        guard(|| {
            let mut buf = vec![0u8; cap];
            match QrPayload::parse(s, &mut buf) {
                Ok(p) => format!(
                    "ok {} {} {} {} {} {} {} {} {}",
                    p.version(),
                    p.vid(),
                    p.pid(),
                    p.comm_flow() as u8,
                    p.discovery_capabilities().bits(),
                    p.discriminator(),
                    p.passcode(),
                    hex(p.optional_data()),
                    hex(p.serial_no().as_bytes())
                ),
                Err(e) => errname(&e),
            }
        })
    }

    pub fn run(op: &str) -> String {
        let mut it = op.split_whitespace();
        match it.next() {
            Some("rt") => {
                let vid = num(it.next()) as u16;
                let pid = num(it.next()) as u16;
                let flow = num(it.next());
                let rdv = num(it.next()) as u8;
                let disc = num(it.next()) as u16;
                let pass = num(it.next()) as u32;
                let serial = String::from_utf8(unhex(it.next().unwrap_or("-"))).unwrap_or_default();
                let extra = unhex(it.next().unwrap_or("-"));
                let e = enc(vid, pid, flow, rdv, disc, pass, &serial, &extra, 2048);
                if e == "panic" || e.starts_with("err") {
                    return e;
                }
                let s = String::from_utf8(unhex(&e)).unwrap_or_default();
                format!("{} {}", e, dec(&s, 1024))
            }
            Some("dec") => {
                let s = match String::from_utf8(unhex(it.next().unwrap_or("-"))) {
                    Ok(s) => s,
                    Err(_) => return "notutf8".into(),
                };
                let cap = it.next().map(|x| num(Some(x)) as usize).unwrap_or(1024);
                dec(&s, cap)
            }
            _ => "badop".into(),
        }
    }
}

// ------------------------------------------------------------------ BTP header / handshake

mod btp {
    use super::*;
    use rs_matter::transport::network::btp::verif_packet::{BtpHdr, HandshakeReq, HandshakeResp};
    use rs_matter::utils::storage::WriteBuf;

    fn parse_opt(s: Option<&str>) -> Option<u64> {
        match s {
            Some("-") | None => None,
            Some(x) => x.parse().ok(),
        }
    }

    fn enc_hdr(h: &BtpHdr) -> String {
        guard(|| {
            let mut buf = [0u8; 16];
            let mut wb = WriteBuf::new(&mut buf);
            match h.encode(&mut wb) {
                Ok(()) => {
                    if wb.as_slice().len() != h.len() {
                        return "lenmismatch".into();
                    }
                    hex(wb.as_slice())
                }
                Err(e) => errname(&e),
            }
        })
    }

    fn dec_hdr(bytes: &[u8]) -> String {
        guard(|| {
            let mut it = bytes.iter().copied();
            match BtpHdr::from(&mut it) {
                Ok(h) => {
                    let rest: Vec<u8> = it.collect();
                    // the flags byte is private: re-encode and take the first byte
                    let mut buf = [0u8; 16];
                    let mut wb = WriteBuf::new(&mut buf);
                    let f = match h.encode(&mut wb) {
                        Ok(()) => wb.as_slice()[0] as u64,
                        Err(_) => 999,
                    };
                    format!(
                        "ok {} {} {} {} {} {}",
                        f,
                        opt(h.get_opcode().map(|x| x as u64)),
                        opt(h.get_ack().map(|x| x as u64)),
                        opt(h.get_seq().map(|x| x as u64)),
                        opt(h.get_msg_len().map(|x| x as u64)),
                        hex(&rest)
                    )
                }
                Err(e) => errname(&e),
            }
        })
    }

    pub fn run(op: &str) -> String {
        let mut it = op.split_whitespace();
        match it.next() {
            // rt <seq|-> <hs 0/1> <op|-> <ack|-> <len|-> <cont 0/1> <fin 0/1> <extra hex>
            Some("rt") => {
                let seq = parse_opt(it.next());
                let hs = num(it.next()) == 1;
                let opc = parse_opt(it.next());
                let ack = parse_opt(it.next());
                let len = parse_opt(it.next());
                let cont = num(it.next()) == 1;
                let fin = num(it.next()) == 1;
                let extra = unhex(it.next().unwrap_or("-"));
                let mut h = BtpHdr::new();
                if let Some(s) = seq {
                    h.set_seq(Some(s as u8));
                }
                if hs {
                    h.set_handshake();
                }
                if let Some(o) = opc {
                    h.set_opcode(Some(o as u8));
                }
                if let Some(a) = ack {
                    h.set_ack(Some(a as u8));
                }
                if let Some(l) = len {
                    h.set_msg_len(Some(l as u16));
                }
                if cont {
                    h.set_continue();
                }
                if fin {
                    h.set_final();
                }
                let e = enc_hdr(&h);
                if e == "panic" || e.starts_with("err") || e == "lenmismatch" {
                    return e;
                }
                let mut bytes = unhex(&e);
                bytes.extend_from_slice(&extra);
                format!("{} {}", e, dec_hdr(&bytes))
            }
            Some("dec") => dec_hdr(&unhex(it.next().unwrap_or("-"))),
            Some("req") => {
                let v = num(it.next()) as u32;
                let mtu = num(it.next()) as u16;
                let w = num(it.next()) as u8;
                let e = guard(|| {
                    let r = HandshakeReq { versions: v, mtu, window_size: w };
                    let mut buf = [0u8; 16];
                    let mut wb = WriteBuf::new(&mut buf);
                    match r.encode(&mut wb) {
                        Ok(()) => hex(wb.as_slice()),
                        Err(e) => errname(&e),
                    }
                });
                if e == "panic" || e.starts_with("err") {
                    return e;
                }
                format!("{} {}", e, dec_req(&unhex(&e)))
            }
            Some("decreq") => dec_req(&unhex(it.next().unwrap_or("-"))),
            Some("resp") => {
                let v = num(it.next()) as u8;
                let mtu = num(it.next()) as u16;
                let w = num(it.next()) as u8;
                let e = guard(|| {
                    let r = HandshakeResp { version: v, mtu, window_size: w };
                    let mut buf = [0u8; 16];
                    let mut wb = WriteBuf::new(&mut buf);
                    match r.encode(&mut wb) {
                        Ok(()) => hex(wb.as_slice()),
                        Err(e) => errname(&e),
                    }
                });
                if e == "panic" || e.starts_with("err") {
                    return e;
                }
                format!("{} {}", e, dec_resp(&unhex(&e)))
            }
            Some("decresp") => dec_resp(&unhex(it.next().unwrap_or("-"))),
            _ => "badop".into(),
        }
    }

    fn dec_req(bytes: &[u8]) -> String {
        guard(|| match HandshakeReq::from(bytes.iter().copied()) {
            Ok(r) => format!("ok {} {} {}", r.versions, r.mtu, r.window_size),
            Err(e) => errname(&e),
        })
    }

    fn dec_resp(bytes: &[u8]) -> String {
        guard(|| match HandshakeResp::from(bytes.iter().copied()) {
            Ok(r) => format!("ok {} {} {}", r.version, r.mtu, r.window_size),
            Err(e) => errname(&e),
        })
    }
}

// ------------------------------------------------------------------ BDX

mod bdx {
    use super::*;
    use rs_matter::bdx::{Block, BlockQuery, BlockQueryWithSkip, RangeControl, TransferAccept, TransferControl, TransferInit};
    use rs_matter::utils::storage::WriteBuf;

    fn tc(b: u64) -> TransferControl {
        TransferControl { version: (b & 0x0f) as u8, sender_drive: b & 0x10 != 0, receiver_drive: b & 0x20 != 0, async_mode: b & 0x40 != 0 }
    }
    fn tcb(t: &TransferControl) -> u64 {
        t.version as u64 | if t.sender_drive { 0x10 } else { 0 } | if t.receiver_drive { 0x20 } else { 0 } | if t.async_mode { 0x40 } else { 0 }
    }
    fn rc(b: u64) -> RangeControl {
        RangeControl { def_len: b & 1 != 0, start_offset: b & 2 != 0, wide_range: b & 0x10 != 0 }
    }
    fn rcb(r: &RangeControl) -> u64 {
        (if r.def_len { 1 } else { 0 }) | if r.start_offset { 2 } else { 0 } | if r.wide_range { 0x10 } else { 0 }
    }

    fn wr<F: FnOnce(&mut WriteBuf) -> Result<(), rs_matter::error::Error>>(f: F) -> String {
        guard(|| {
            let mut buf = vec![0u8; 1024];
            let mut wb = WriteBuf::new(&mut buf);
            match f(&mut wb) {
                Ok(()) => hex(wb.as_slice()),
                Err(e) => errname(&e),
            }
        })
    }

    fn dec_init(b: &[u8]) -> String {
        guard(|| match TransferInit::parse(b) {
            Ok(t) => format!(
                "ok {} {} {} {} {} {} {}",
                tcb(&t.transfer_control),
                rcb(&t.range_control),
                t.max_block_size,
                t.start_offset,
                t.length,
                hex(t.file_designator),
                hex(t.metadata)
            ),
            Err(e) => errname(&e),
        })
    }

    fn dec_accept(recv: bool, b: &[u8]) -> String {
        guard(|| match TransferAccept::parse(recv, b) {
            Ok(t) => format!(
                "ok {} {} {} {} {}",
                tcb(&t.transfer_control),
                rcb(&t.range_control),
                t.max_block_size,
                t.length,
                hex(t.metadata)
            ),
            Err(e) => errname(&e),
        })
    }

    fn dec_block(b: &[u8]) -> String {
        guard(|| match Block::parse(b) {
            Ok(t) => format!("ok {} {}", t.block_counter, hex(t.data)),
            Err(e) => errname(&e),
        })
    }

    fn dec_query(b: &[u8]) -> String {
        guard(|| match BlockQuery::parse(b) {
            Ok(t) => format!("ok {}", t.block_counter),
            Err(e) => errname(&e),
        })
    }

    fn dec_skip(b: &[u8]) -> String {
        guard(|| match BlockQueryWithSkip::parse(b) {
            Ok(t) => format!("ok {} {}", t.block_counter, t.bytes_to_skip),
            Err(e) => errname(&e),
        })
    }

    fn chain(e: String, d: impl FnOnce(&[u8]) -> String) -> String {
        if e == "panic" || e.starts_with("err") {
            return e;
        }
        format!("{} {}", e, d(&unhex(&e)))
    }

    pub fn run(op: &str) -> String {
        let mut it = op.split_whitespace();
        match it.next() {
            // init <tc> <rc> <mbs> <start> <len> <fd hex> <meta hex>
            Some("init") => {
                let t = tc(num(it.next()));
                let r = rc(num(it.next()));
                let mbs = num(it.next()) as u16;
                let so = num(it.next());
                let len = num(it.next());
                let fd = unhex(it.next().unwrap_or("-"));
                let md = unhex(it.next().unwrap_or("-"));
                let e = wr(|wb| {
                    TransferInit { transfer_control: t, range_control: r, max_block_size: mbs, start_offset: so, length: len, file_designator: &fd, metadata: &md }.write(wb)
                });
                chain(e, dec_init)
            }
            Some("decinit") => dec_init(&unhex(it.next().unwrap_or("-"))),
            // accept <recv 0/1> <tc> <rc> <mbs> <len> <meta hex>
            Some("accept") => {
                let recv = num(it.next()) == 1;
                let t = tc(num(it.next()));
                let r = rc(num(it.next()));
                let mbs = num(it.next()) as u16;
                let len = num(it.next());
                let md = unhex(it.next().unwrap_or("-"));
                let e = wr(|wb| {
                    TransferAccept { receive: recv, transfer_control: t, range_control: r, max_block_size: mbs, length: len, metadata: &md }.write(wb)
                });
                chain(e, |b| dec_accept(recv, b))
            }
            Some("decaccept") => {
                let recv = num(it.next()) == 1;
                dec_accept(recv, &unhex(it.next().unwrap_or("-")))
            }
            Some("block") => {
                let c = num(it.next()) as u32;
                let d = unhex(it.next().unwrap_or("-"));
                let e = wr(|wb| Block { block_counter: c, data: &d }.write(wb));
                chain(e, dec_block)
            }
            Some("decblock") => dec_block(&unhex(it.next().unwrap_or("-"))),
            Some("query") => {
                let c = num(it.next()) as u32;
                let e = wr(|wb| BlockQuery { block_counter: c }.write(wb));
                chain(e, dec_query)
            }
            Some("decquery") => dec_query(&unhex(it.next().unwrap_or("-"))),
            Some("skip") => {
                let c = num(it.next()) as u32;
                let s = num(it.next());
                let e = wr(|wb| BlockQueryWithSkip { block_counter: c, bytes_to_skip: s }.write(wb));
                chain(e, dec_skip)
            }
            Some("decskip") => dec_skip(&unhex(it.next().unwrap_or("-"))),
            _ => "badop".into(),
        }
    }
}

// ------------------------------------------------------------------ check-in message

mod checkin {
    use super::*;
    use rs_matter::crypto::{test_only_crypto, CanonAeadKeyRef};
    use rs_matter::sc::checkin::CheckIn;

    fn key16(k: &[u8]) -> [u8; 16] {
        let mut a = [0u8; 16];
        for (i, b) in k.iter().take(16).enumerate() {
            a[i] = *b;
        }
        a
    }

    pub fn gen(key: &[u8], ctr: u32, app: &[u8], cap: usize) -> String {
        guard(|| {
            let k = key16(key);
            let ci = CheckIn::new(CanonAeadKeyRef::new(&k));
            let mut buf = vec![0u8; cap];
            match ci.generate(test_only_crypto(), ctr, app, &mut buf) {
                Ok(p) => hex(p),
                Err(e) => errname(&e),
            }
        })
    }

    pub fn parse(key: &[u8], payload: &[u8]) -> String {
        guard(|| {
            let k = key16(key);
            let ci = CheckIn::new(CanonAeadKeyRef::new(&k));
            let mut buf = payload.to_vec();
            match ci.parse(test_only_crypto(), &mut buf) {
                Ok(p) => format!("ok {} {}", p.counter, hex(p.app_data)),
                Err(e) => errname(&e),
            }
        })
    }

    pub fn run(op: &str) -> String {
        let mut it = op.split_whitespace();
        match it.next() {
            // rt <key hex> <ctr> <app hex> [cap]
            Some("rt") => {
                let key = unhex(it.next().unwrap_or("-"));
                let ctr = num(it.next()) as u32;
                let app = unhex(it.next().unwrap_or("-"));
                let cap = it.next().map(|x| num(Some(x)) as usize).unwrap_or(app.len() + 64);
                let e = gen(&key, ctr, &app, cap);
                if e == "panic" || e.starts_with("err") {
                    return e;
                }
                format!("{} {}", e, parse(&key, &unhex(&e)))
            }
            // dec <key hex> <payload hex>
            Some("dec") => {
                let key = unhex(it.next().unwrap_or("-"));
                parse(&key, &unhex(it.next().unwrap_or("-")))
            }
            _ => "badop".into(),
        }
    }
}

pub fn run_op(kind: &str, op: &str) -> Option<String> {
    Some(match kind {
        "qr" => qr::run(op),
        "btp" => btp::run(op),
        "bdx" => bdx::run(op),
        "checkin" => checkin::run(op),
        _ => return None,
    })
}

// ------------------------------------------------------------------ generators

const B38: &[u8] = b"0123456789ABCDEFGHIJKLMNOPQRSTUVWXYZ-.";

fn gen_qr(r: &mut Rng, out: &mut Out) -> Vec<String> {
    let serial: Vec<u8> = match r.below(8) {
        0..=3 => vec![],
        4 => b"1234567890".to_vec(),
        5 => (0..32).map(|_| *r.pick(b"ABCDEFGHIJKLMNOPQRSTUVWXYZ0123456789")).collect(),
        6 => (0..r.range(250, 300)).map(|_| b'x').collect(),
        _ => "sn-é∞".as_bytes().to_vec(),
    };
    // extra TLV data: context-tag elements (u8 / utf8), pre-encoded
    let extra: Vec<u8> = match r.below(6) {
        0..=2 => vec![],
        3 => vec![0x24, 0x82, r.next() as u8],
        4 => {
            let mut v = vec![0x2c, 0x82, 6];
            v.extend_from_slice(b"myData");
            v.extend_from_slice(&[0x26, 0x83, 0x0e, 0x00, 0x01, 0x00]);
            v
        }
        _ => {
            let k = r.range(1, 60) as usize;
            let mut v = vec![0x30, 0x85, k as u8];
            v.extend(r.bytes(k));
            v
        }
    };
    out.stat(if serial.is_empty() && extra.is_empty() { "qr_tlv_absent" } else { "qr_tlv_present" }, 1);
    let disc = if r.chance(1, 10) { r.range(4096, 65535) } else { edge(r, 12) };
    let pass = if r.chance(1, 10) { r.range(1 << 27, u32::MAX as u64) } else { edge(r, 27) };
    let rt = format!(
        "rt {} {} {} {} {} {} {} {}",
        edge(r, 16),
        edge(r, 16),
        r.below(3),
        r.below(8),
        disc,
        pass,
        hex(&serial),
        hex(&extra)
    );
    let res = super::run_op("qr", &rt);
    let mut ops = vec![rt];
    let w = res.split_whitespace().next().unwrap_or("").to_string();
    if w.len() < 6 || !w.bytes().all(|c| c.is_ascii_hexdigit()) {
        return ops;
    }
    let s = unhex(&w);
    ops.push(format!("dec {}", hex(&s)));
    for _ in 0..5 {
        let mut t = s.clone();
        match r.below(11) {
            0 => {
                out.stat("qr_mut_invalid_char", 1);
                let i = r.range(3, t.len() as u64 - 1) as usize;
                t[i] = *r.pick(&[b'!', b'/', b':', b'a', b' ', b'_', b'@']);
            }
            1 => {
                out.stat("qr_mut_valid_char", 1);
                let i = r.range(3, t.len() as u64 - 1) as usize;
                t[i] = *r.pick(B38);
            }
            2 => {
                out.stat("qr_mut_truncate", 1);
                let n = r.below(t.len() as u64) as usize;
                t.truncate(n);
            }
            3 => {
                out.stat("qr_mut_extend", 1);
                let k = r.range(1, 6);
                for _ in 0..k {
                    t.push(*r.pick(B38));
                }
            }
            4 => {
                out.stat("qr_mut_prefix", 1);
                let i = r.below(3) as usize;
                t[i] = *r.pick(&[b'm', b't', b';', b'X', b'M', b'T']);
            }
            5 => {
                out.stat("qr_mut_flow3", 1);
                // flow bits are bits 35,36: inside the second chunk; brute force a char change that yields flow 3 is
                // left to the random substitution; here: all-dots body (every field at its maximum)
                t = b"MT:".to_vec();
                for _ in 0..r.range(19, 24) {
                    t.push(b'.');
                }
            }
            6 => {
                out.stat("qr_mut_small_buf", 1);
                let cap = r.below(14);
                ops.push(format!("dec {} {}", hex(&t), cap));
                continue;
            }
            7 => {
                out.stat("qr_mut_garbage_tail", 1);
                t.extend_from_slice(b"!!!!!");
            }
            8 => {
                out.stat("qr_mut_random_body", 1);
                t = b"MT:".to_vec();
                for _ in 0..r.range(0, 30) {
                    t.push(*r.pick(B38));
                }
            }
            9 => {
                out.stat("qr_mut_unicode", 1);
                let mut st = String::from_utf8_lossy(&t).to_string();
                st.push(*r.pick(&['é', '∞', '😀']));
                t = st.into_bytes();
            }
            _ => {
                out.stat("qr_mut_bytes", 1);
                t = mutate(r, &t, out);
                if String::from_utf8(t.clone()).is_err() {
                    t = s.clone();
                }
            }
        }
        ops.push(format!("dec {}", hex(&t)));
    }
    ops
}

fn optstr(r: &mut Rng, p: u64, bits: u32) -> String {
    if r.chance(p, 10) {
        edge(r, bits).to_string()
    } else {
        "-".into()
    }
}

fn gen_btp(r: &mut Rng, out: &mut Out) -> Vec<String> {
    match r.below(10) {
        0 => {
            out.stat("btp_req", 1);
            let rt = format!("req {} {} {}", edge(r, 32), edge(r, 16), edge(r, 8));
            let res = super::run_op("btp", &rt);
            let mut ops = vec![rt];
            if let Some(w) = res.split_whitespace().next() {
                let b = unhex(w);
                for _ in 0..3 {
                    let m = mutate(r, &b, out);
                    ops.push(format!("decreq {}", hex(&m)));
                }
            }
            ops
        }
        1 => {
            out.stat("btp_resp", 1);
            let rt = format!("resp {} {} {}", edge(r, 8), edge(r, 16), edge(r, 8));
            let res = super::run_op("btp", &rt);
            let mut ops = vec![rt];
            if let Some(w) = res.split_whitespace().next() {
                let b = unhex(w);
                for _ in 0..3 {
                    let m = mutate(r, &b, out);
                    ops.push(format!("decresp {}", hex(&m)));
                }
            }
            ops
        }
        _ => {
            out.stat("btp_hdr", 1);
            let exn = r.range(0, 5) as usize;
            let extra = if r.chance(1, 2) { r.bytes(exn) } else { vec![] };
            let rt = format!(
                "rt {} {} {} {} {} {} {} {}",
                optstr(r, 7, 8),
                r.below(4) / 3,
                optstr(r, 3, 8),
                optstr(r, 5, 8),
                optstr(r, 5, 16),
                r.below(2),
                r.below(2),
                hex(&extra)
            );
            let mut ops = rt_and_mutations(r, "btp", rt, 4, out);
            if r.chance(1, 3) {
                let n = r.range(0, 8) as usize;
                ops.push(format!("dec {}", hex(&r.bytes(n))));
            }
            ops
        }
    }
}

fn gen_bdx(r: &mut Rng, out: &mut Out) -> Vec<String> {
    let rcs = [0u64, 1, 2, 3, 0x10, 0x11, 0x12, 0x13];
    let (rt, decop): (String, &str) = match r.below(10) {
        0..=3 => {
            out.stat("bdx_init", 1);
            let rc = *r.pick(&rcs);
            let wide = rc & 0x10 != 0;
            let legal = r.chance(3, 4);
            let so = if rc & 2 == 0 && legal { 0 } else { edge(r, if wide || !legal { 64 } else { 32 }) };
            let len = if rc & 1 == 0 && legal { 0 } else { edge(r, if wide || !legal { 64 } else { 32 }) };
            let fdn = *r.pick(&[0usize, 1, 5, 32, 200]);
            let mdn = *r.pick(&[0usize, 0, 3, 40]);
            let fd = r.bytes(fdn);
            let md = r.bytes(mdn);
            (format!("init {} {} {} {} {} {} {}", r.below(128), rc, edge(r, 16), so, len, hex(&fd), hex(&md)), "decinit")
        }
        4..=6 => {
            out.stat("bdx_accept", 1);
            let recv = r.below(2);
            let rc = if recv == 1 { *r.pick(&[0u64, 1, 0x10, 0x11]) } else { 0 };
            let wide = rc & 0x10 != 0;
            let len = if rc & 1 == 0 { 0 } else { edge(r, if wide { 64 } else { 32 }) };
            let mdn = *r.pick(&[0usize, 0, 3, 40]);
            let md = r.bytes(mdn);
            (format!("accept {} {} {} {} {} {}", recv, r.below(128), rc, edge(r, 16), len, hex(&md)), if recv == 1 { "decaccept 1" } else { "decaccept 0" })
        }
        7 => {
            out.stat("bdx_block", 1);
            let n = *r.pick(&[0usize, 1, 16, 300]);
            (format!("block {} {}", edge(r, 32), hex(&r.bytes(n))), "decblock")
        }
        8 => {
            out.stat("bdx_query", 1);
            (format!("query {}", edge(r, 32)), "decquery")
        }
        _ => {
            out.stat("bdx_skip", 1);
            (format!("skip {} {}", edge(r, 32), edge(r, 64)), "decskip")
        }
    };
    let res = super::run_op("bdx", &rt);
    let mut ops = vec![rt];
    if let Some(w) = res.split_whitespace().next() {
        if w.len() >= 2 && w.bytes().all(|c| c.is_ascii_hexdigit()) {
            let b = unhex(w);
            ops.push(format!("{} {}", decop, hex(&b)));
            for _ in 0..4 {
                let m = mutate(r, &b, out);
                ops.push(format!("{} {}", decop, hex(&m)));
            }
        }
    }
    if r.chance(1, 3) {
        let n = r.range(0, 24) as usize;
        let b = r.bytes(n);
        let d = *r.pick(&["decinit", "decaccept 0", "decaccept 1", "decblock", "decquery", "decskip"]);
        ops.push(format!("{} {}", d, hex(&b)));
    }
    ops
}

fn gen_checkin(r: &mut Rng, out: &mut Out) -> Vec<String> {
    let key = r.bytes(16);
    let n = *r.pick(&[0usize, 0, 1, 4, 9, 16, 64, 200]);
    let app = r.bytes(n);
    let ctr = edge(r, 32);
    let mut ops = Vec::new();
    if r.chance(1, 10) {
        out.stat("checkin_small_buf", 1);
        ops.push(format!("rt {} {} {} {}", hex(&key), ctr, hex(&app), r.below(33 + n as u64)));
        return ops;
    }
    let rt = format!("rt {} {} {}", hex(&key), ctr, hex(&app));
    let res = super::run_op("checkin", &rt);
    ops.push(rt);
    let w = res.split_whitespace().next().unwrap_or("").to_string();
    if w.len() < 66 || !w.bytes().all(|c| c.is_ascii_hexdigit()) {
        return ops;
    }
    let p = unhex(&w);
    for _ in 0..5 {
        match r.below(7) {
            0 => {
                out.stat("checkin_mut_nonce", 1);
                let mut m = p.clone();
                let i = r.below(13) as usize;
                m[i] ^= 1 << r.below(8);
                ops.push(format!("dec {} {}", hex(&key), hex(&m)));
            }
            1 => {
                out.stat("checkin_mut_cipher", 1);
                let mut m = p.clone();
                let i = r.range(13, p.len() as u64 - 1) as usize;
                m[i] ^= 1 << r.below(8);
                ops.push(format!("dec {} {}", hex(&key), hex(&m)));
            }
            2 => {
                out.stat("checkin_wrong_key", 1);
                let mut k = key.clone();
                let i = r.below(16) as usize;
                k[i] ^= 1 << r.below(8);
                ops.push(format!("dec {} {}", hex(&k), hex(&p)));
            }
            3 => {
                out.stat("checkin_truncated", 1);
                let k = r.below(p.len() as u64) as usize;
                ops.push(format!("dec {} {}", hex(&key), hex(&p[..k])));
            }
            4 => {
                out.stat("checkin_extended", 1);
                let mut m = p.clone();
                let k = r.range(1, 5) as usize;
                m.extend(r.bytes(k));
                ops.push(format!("dec {} {}", hex(&key), hex(&m)));
            }
            5 => {
                out.stat("checkin_arbitrary", 1);
                let k = r.range(0, 60) as usize;
                ops.push(format!("dec {} {}", hex(&key), hex(&r.bytes(k))));
            }
            _ => {
                out.stat("checkin_other_nonce", 1);
                // the nonce of another counter under the same key, spliced onto this ciphertext
                let other = checkin::gen(&key, (ctr as u32).wrapping_add(1), &app, 512);
                let o = unhex(&other);
                if o.len() == p.len() {
                    let mut m = p.clone();
                    m[..13].copy_from_slice(&o[..13]);
                    ops.push(format!("dec {} {}", hex(&key), hex(&m)));
                }
            }
        }
    }
    ops
}

pub fn gen(r: &mut Rng, out: &mut Out, thorough: bool, id: &mut u64) {
    let scale: u64 = if thorough { 12 } else { 1 };
    let plan: Vec<(&str, u64)> = vec![("qr", 1200), ("btp", 800), ("bdx", 1000), ("checkin", 300)];
    for (kind, n) in plan {
        for _ in 0..n * scale {
            let mut cr = r.fork();
            let ops = match kind {
                "qr" => gen_qr(&mut cr, out),
                "btp" => gen_btp(&mut cr, out),
                "bdx" => gen_bdx(&mut cr, out),
                _ => gen_checkin(&mut cr, out),
            };
            out.stat(&format!("kind_{}", kind), 1);
            super::emit_case(out, *id, kind, ops);
            *id += 1;
        }
    }
}
