import RsMatterVerif.Lemmas.Admin
/-!
# C08 — commissioning under the fail-safe is all-or-nothing

Model: `Model/Admin.lean` (transliteration of `failsafe.rs` and of the handler glue).

1. **Command gating** (`csr_accept_iff`, `root_accept_iff`, `addnoc_accept_iff`, `updnoc_accept_iff`,
   `only_failsafe_context`, `csr_once`, `root_once`, `noc_once`): the credential commands are accepted
   exactly when the specification table (written below from the property text) says so - prescribed
   order, once each, only from the session context the fail-safe is bound to.
2. **Coherence invariant** (`coherent_always`): after every fault-free history node and store agree on
   every fabric except the one the fail-safe is armed for (and on the networks while idle).
3. **Rollback restores** (`rollback_restores`, `restart_restores`): when the fail-safe ends by expiry
   (timer, ArmFailSafe(0), RevokeCommissioning - all three run `expire`) or by a restart, node and
   store agree on every fabric and on the networks, and the rollback itself writes no fabric / network key.
4. **Commit is joint** (`commit_is_joint`): after an acknowledged CommissioningComplete node and store
   agree and the fail-safe is disarmed.

Hypotheses of 2-4 (`SafeHist`): no injected store fault and AddNOC over a not yet promoted PASE
session.  Both exclusions are real: see the open findings `C08-complete-not-atomic` and
`C08-failsafe-context-switch`; the full statements are kept as `C08_full_*`.
-/
namespace C08
open Admin


/-! ## specification of the credential commands (from the property text) -/

/-- the session context the command arrives in is the one the fail-safe is bound to -/
def inContext (n : Node) (mode : Mode) : Bool :=
  match n.fs with
  | none => false
  | some a => a.fab == mode.fab

def flagsOf (n : Node) : Flags :=
  match n.fs with
  | none => {}
  | some a => a.flags

def specCsr (n : Node) (mode : Mode) (upd : Bool) : Bool :=
  inContext n mode && !((flagsOf n).addCsr || (flagsOf n).updCsr) && (!upd || mode.isCase)

def specRoot (n : Node) (mode : Mode) : Bool :=
  inContext n mode && !(flagsOf n).root

theorem csr_accept_iff (cfg : Cfg) (n : Node) (sid s : Nat) (mode : Mode) (upd : Bool) :
    (sessOp cfg n sid mode (.csr s upd)).2.accepted = true ↔ specCsr n mode upd = true := by
  unfold sessOp specCsr inContext flagsOf checkArmed checkState
  cases hfs : n.fs with
  | none => simp [Status.accepted]
  | some a =>
    by_cases h1 : a.fab = mode.fab <;> by_cases h2 : a.flags.addCsr <;> by_cases h3 : a.flags.updCsr <;>
      cases upd <;> cases hm : mode.isCase <;> simp_all [ok, Status.accepted]

theorem root_accept_iff (cfg : Cfg) (n : Node) (sid s ca : Nat) (mode : Mode) :
    (sessOp cfg n sid mode (.root s ca)).2.accepted = true ↔ specRoot n mode = true := by
  unfold sessOp specRoot inContext flagsOf checkArmed checkState
  cases hfs : n.fs with
  | none => simp [Status.accepted]
  | some a =>
    by_cases h1 : a.fab = mode.fab <;> by_cases h2 : a.flags.root <;> simp_all [ok, Status.accepted]

def freeIdx (n : Node) : Option Nat :=
  if maxIdx n.fabrics < 254 then some (maxIdx n.fabrics + 1)
  else (List.range 255).find? (fun i => 1 ≤ i && !hasFabric n i)

def specAddNoc (cfg : Cfg) (n : Node) (mode : Mode) (ca fid subj : Nat) : Bool :=
  inContext n mode
  && ((flagsOf n).root && (flagsOf n).addCsr)
  && !((flagsOf n).addNoc || (flagsOf n).updCsr || (flagsOf n).updNoc)
  && isNodeId subj && decide (ca = n.staged)
  && !(n.fabrics.any (fun f => f.fid = fid && f.ca = n.staged))
  && (freeIdx n).isSome && decide (n.fabrics.length < cfg.maxFabrics)
  && (match mode with
      | .pase 0 => true
      | .pase _ => false
      | .case _ => true)

def specUpdNoc (n : Node) (mode : Mode) : Bool :=
  inContext n mode && mode.isCase && (flagsOf n).updCsr
  && !((flagsOf n).root || (flagsOf n).addNoc || (flagsOf n).addCsr || (flagsOf n).updNoc)
  && hasFabric n mode.fab

theorem updnoc_accept_iff (cfg : Cfg) (n : Node) (sid s node ser : Nat) (mode : Mode) :
    (sessOp cfg n sid mode (.updnoc s node ser)).2.accepted = true ↔ specUpdNoc n mode = true := by
  unfold sessOp specUpdNoc inContext flagsOf checkArmed checkState getFabric hasFabric
  cases hfs : n.fs with
  | none => simp [Status.accepted]
  | some a =>
    by_cases h1 : a.fab = mode.fab
    · cases hm : mode.isCase
      · simp_all [ok, Status.accepted]
      · cases hf : n.fabrics.find? (fun f => decide (f.idx = mode.fab)) with
        | none =>
          have : n.fabrics.any (fun f => decide (f.idx = mode.fab)) = false := by
            simpa [List.find?_eq_none] using hf
          by_cases h2 : a.flags.updCsr <;> by_cases h3 : a.flags.root <;> by_cases h4 : a.flags.addNoc <;>
            by_cases h5 : a.flags.addCsr <;> by_cases h6 : a.flags.updNoc <;> simp_all [ok, Status.accepted]
        | some f =>
          have : n.fabrics.any (fun f => decide (f.idx = mode.fab)) = true := by
            have := List.find?_some hf
            have hm := List.mem_of_find?_eq_some hf
            simp only [List.any_eq_true]
            exact ⟨f, hm, this⟩
          by_cases h2 : a.flags.updCsr <;> by_cases h3 : a.flags.root <;> by_cases h4 : a.flags.addNoc <;>
            by_cases h5 : a.flags.addCsr <;> by_cases h6 : a.flags.updNoc <;> simp_all [ok, Status.accepted]
    · simp_all [ok, Status.accepted]
theorem addnoc_accept_iff (cfg : Cfg) (n : Node) (sid s ca fid node subj ser : Nat) (mode : Mode) :
    (sessOp cfg n sid mode (.addnoc s ca fid node subj ser)).2.accepted = true ↔
      specAddNoc cfg n mode ca fid subj = true := by
  unfold sessOp specAddNoc inContext flagsOf checkArmed checkState freeIdx
  cases hfs : n.fs with
  | none => simp [Status.accepted]
  | some a =>
    cases mode with
    | pase k =>
      cases k <;> simp only [Mode.fab] <;> repeat' split
      all_goals simp_all [Status.accepted]
      all_goals grind
    | case k =>
      simp only [Mode.fab] <;> repeat' split
      all_goals simp_all [Status.accepted]
      all_goals grind

/-! ## gating corollaries -/

/-- a credential command is accepted only from the session context the fail-safe is bound to -/
theorem only_failsafe_context (cfg : Cfg) (n : Node) (sid : Nat) (mode : Mode) (op : Op)
    (hop : (∃ s u, op = .csr s u) ∨ (∃ s c, op = .root s c) ∨
           (∃ s c f nd a r, op = .addnoc s c f nd a r) ∨ (∃ s nd r, op = .updnoc s nd r))
    (hacc : (sessOp cfg n sid mode op).2.accepted = true) : inContext n mode = true := by
  rcases hop with ⟨s, u, rfl⟩ | ⟨s, c, rfl⟩ | ⟨s, c, f, nd, a, r, rfl⟩ | ⟨s, nd, r, rfl⟩
  · have := (csr_accept_iff cfg n sid s mode u).mp hacc
    simp only [specCsr, Bool.and_eq_true] at this; exact this.1.1
  · have := (root_accept_iff cfg n sid s c mode).mp hacc
    simp only [specRoot, Bool.and_eq_true] at this; exact this.1
  · have := (addnoc_accept_iff cfg n sid s c f nd a r mode).mp hacc
    simp only [specAddNoc, Bool.and_eq_true] at this; exact this.1.1.1.1.1.1.1.1
  · have := (updnoc_accept_iff cfg n sid s nd r mode).mp hacc
    simp only [specUpdNoc, Bool.and_eq_true] at this; exact this.1.1.1.1

/-- without an armed fail-safe no credential command is accepted -/
theorem needs_armed_failsafe (n : Node) (mode : Mode) (h : n.fs = none) : inContext n mode = false := by
  simp [inContext, h]

example : ∃ n mode, inContext n mode = true :=
  ⟨{ fs := some { fab := 0, flags := {}, timeout := 60, armedAt := 0 } }, .pase 0, by decide⟩

/-- an accepted CSRRequest records itself in the fail-safe context ... -/
theorem csr_sets_flag (cfg : Cfg) (n : Node) (sid s : Nat) (mode : Mode) (upd : Bool)
    (hacc : (sessOp cfg n sid mode (.csr s upd)).2.accepted = true) :
    ((flagsOf (sessOp cfg n sid mode (.csr s upd)).1).addCsr || (flagsOf (sessOp cfg n sid mode (.csr s upd)).1).updCsr) = true ∧
    inContext (sessOp cfg n sid mode (.csr s upd)).1 mode = true := by
  have hspec := (csr_accept_iff cfg n sid s mode upd).mp hacc
  unfold sessOp flagsOf inContext checkArmed checkState at *
  unfold specCsr inContext flagsOf at hspec
  cases hfs : n.fs with
  | none => simp [hfs] at hspec
  | some a =>
    by_cases h1 : a.fab = mode.fab <;> by_cases h2 : a.flags.addCsr <;> by_cases h3 : a.flags.updCsr <;>
      cases upd <;> cases hm : mode.isCase <;> simp_all [ok, Status.accepted]

/-- ... so that a second CSRRequest in the same context is rejected (**once**) -/
theorem csr_once (cfg : Cfg) (n : Node) (sid s s' : Nat) (mode : Mode) (upd upd' : Bool)
    (hacc : (sessOp cfg n sid mode (.csr s upd)).2.accepted = true) :
    (sessOp cfg (sessOp cfg n sid mode (.csr s upd)).1 sid mode (.csr s' upd')).2.accepted = false := by
  have h := (csr_sets_flag cfg n sid s mode upd hacc).1
  cases hacc2 : (sessOp cfg (sessOp cfg n sid mode (.csr s upd)).1 sid mode (.csr s' upd')).2.accepted with
  | false => rfl
  | true =>
    have := (csr_accept_iff cfg _ sid s' mode upd').mp hacc2
    simp only [specCsr, Bool.and_eq_true, Bool.not_eq_true'] at this
    rw [this.1.2] at h
    exact absurd h (by decide)

/-- after an accepted AddTrustedRootCertificate a second one is rejected (**once**) -/
theorem root_once (cfg : Cfg) (n : Node) (sid s s' ca ca' : Nat) (mode : Mode)
    (hacc : (sessOp cfg n sid mode (.root s ca)).2.accepted = true) :
    (sessOp cfg (sessOp cfg n sid mode (.root s ca)).1 sid mode (.root s' ca')).2.accepted = false := by
  have hspec := (root_accept_iff cfg n sid s ca mode).mp hacc
  cases hacc2 : (sessOp cfg (sessOp cfg n sid mode (.root s ca)).1 sid mode (.root s' ca')).2.accepted with
  | false => rfl
  | true =>
    have h2 := (root_accept_iff cfg _ sid s' ca' mode).mp hacc2
    exfalso
    unfold sessOp specRoot inContext flagsOf checkArmed checkState at *
    cases hfs : n.fs with
    | none => simp [hfs] at hspec
    | some a =>
      by_cases h1 : a.fab = mode.fab <;> by_cases h3 : a.flags.root <;> simp_all [ok]

/-! ## coherence, rollback, commit -/

/-- **Coherence invariant**: from the factory-fresh node, after every fault-free history, node and
store agree on every fabric except the one the fail-safe is armed for, and on the networks while no
fail-safe is armed. -/
theorem coherent_always (cfg : Cfg) (ops : List Op) (hs : SafeHist cfg {} ops) :
    Coh (run cfg {} ops) :=
  (run_coh cfg ops {} coh_init rfl hs).1

/-- **Rollback restores** (expiry by timer, `ArmFailSafe(0)`, `RevokeCommissioning` - all of them run
`FailSafe::expire` followed by the purge of the resumption cache): after a fault-free history, if the
expiry succeeds then the fail-safe is disarmed, node and store agree on EVERY fabric (identity,
NOC, ACL, groups, label) and on the networks, and the rollback wrote no fabric / network key - the
node is back to what the store held, i.e. to what had been committed. -/
theorem rollback_restores (cfg : Cfg) (ops : List Op) (hs : SafeHist cfg {} ops) (a : Armed) (exp : Option Nat)
    (harmed : (run cfg {} ops).fs = some a)
    (hok : (expireAndPurge cfg (run cfg {} ops) a exp).2 = none) :
    Agree (expireAndPurge cfg (run cfg {} ops) a exp).1 ∧
    (expireAndPurge cfg (run cfg {} ops) a exp).1.fs = none ∧
    (expireAndPurge cfg (run cfg {} ops) a exp).1.kv.fabs = (run cfg {} ops).kv.fabs ∧
    (expireAndPurge cfg (run cfg {} ops) a exp).1.kv.nets = (run cfg {} ops).kv.nets := by
  have ⟨hc, hf⟩ := run_coh cfg ops {} coh_init rfl hs
  have ⟨h1, h2, _, h4, h5⟩ := expireAndPurge_agree cfg _ a exp hc harmed hf hok
  exact ⟨h1, h2, h4, h5⟩

/-- the expiry can only fail when the fabric table is full at the moment the stored copy is put back
(which cannot happen after the slot was just freed); in particular it does NOT fail when the
fail-safe's fabric was removed meanwhile (fixed finding `C08-removefabric-then-expiry-stuck`) -/
theorem expire_succeeds_when_fabric_gone (cfg : Cfg) (n : Node) (a : Armed) (exp : Option Nat)
    (hgone : n.kv.fabs.find? (fun f => f.idx = a.fab) = none) :
    (expireArmed cfg n a exp).2.1 = none := by
  unfold expireArmed rollbackFabrics
  by_cases h0 : a.fab = 0 <;> simp [h0, hgone]

/-- **Restart restores**: a restart (or a crash, which restarts from an earlier store) comes up with
exactly the stored fabrics and networks, no fail-safe and no session. -/
theorem restart_restores (n : Node) (kv : KV) (hist : List KV) :
    Agree (restartFrom n kv hist) ∧ (restartFrom n kv hist).fs = none ∧ (restartFrom n kv hist).sessions = [] := by
  have ⟨h1, h2, _, _, _, h6⟩ := restartFrom_agree n kv hist
  exact ⟨h1, h2, h6⟩

/-- **Commit is joint**: after a fault-free history, an acknowledged CommissioningComplete leaves the
fail-safe disarmed and node and store in agreement on every fabric and on the networks. -/
theorem commit_is_joint (cfg : Cfg) (ops : List Op) (hs : SafeHist cfg {} ops) (sid s : Nat) (mode : Mode)
    (hack : (sessOp cfg (run cfg {} ops) sid mode (.complete s)).2 = .ok) :
    Agree (sessOp cfg (run cfg {} ops) sid mode (.complete s)).1 ∧
    (sessOp cfg (run cfg {} ops) sid mode (.complete s)).1.fs = none := by
  have ⟨hc, hf⟩ := run_coh cfg ops {} coh_init rfl hs
  exact (sessOp_complete_agree cfg _ sid s mode hc hf).2 hack

/-- the commands of the commissioning in progress never write to the store: CSRRequest,
AddTrustedRootCertificate, AddNOC, UpdateNOC, network changes and (re-)arming leave every key alone
(what they change lives in memory until CommissioningComplete) -/
theorem commissioning_ops_keep_store (cfg : Cfg) (n : Node) (sid : Nat) (mode : Mode) (op : Op)
    (hop : (∃ s u, op = .csr s u) ∨ (∃ s c, op = .root s c) ∨
           (∃ s c f nd a r, op = .addnoc s c f nd a r) ∨ (∃ s nd r, op = .updnoc s nd r) ∨
           (∃ s v, op = .net s v) ∨ (∃ s v, op = .rmnet s v) ∨ (∃ s t, op = .arm s t ∧ t ≠ 0)) :
    (sessOp cfg n sid mode op).1.kv = n.kv ∧ (sessOp cfg n sid mode op).1.hist = n.hist := by
  rcases hop with ⟨s, u, rfl⟩ | ⟨s, c, rfl⟩ | ⟨s, c, f, nd, a, r, rfl⟩ | ⟨s, nd, r, rfl⟩ | ⟨s, v, rfl⟩ | ⟨s, v, rfl⟩ | ⟨s, t, rfl, ht⟩
  all_goals simp only [sessOp]
  all_goals repeat' split
  all_goals first | exact ⟨rfl, rfl⟩ | (exfalso; omega) | skip

/-- an ACL write of the fabric the fail-safe is armed for is deferred: the store is not touched -/
theorem deferred_acl_keeps_store (cfg : Cfg) (n : Node) (sid s v : Nat) (mode : Mode)
    (harm : armedFor n mode.fab = true) : (sessOp cfg n sid mode (.acl s v)).1.kv = n.kv := by
  simp only [sessOp]
  split
  · rfl
  · cases hg : getFabric n mode.fab with
    | none => rfl
    | some f =>
      have hidx := getFabric_idx hg
      simp only []
      split
      · rfl
      · have h2 : armedFor (setFabric n { f with acl := f.acl ++ [v] }) f.idx = true := by
          rw [hidx]; exact harm
        simp only [h2, if_true, ok]
        rfl

/-- no operation of the list writes a fabric key or the networks key -/
def StoreQuiet (cfg : Cfg) : Node → List Op → Prop
  | _, [] => True
  | n, op :: rest =>
    (step cfg n op).1.kv.fabs = n.kv.fabs ∧ (step cfg n op).1.kv.nets = n.kv.nets ∧
    StoreQuiet cfg (step cfg n op).1 rest

theorem storeQuiet_run (cfg : Cfg) (ops : List Op) : ∀ (n : Node), StoreQuiet cfg n ops →
    (run cfg n ops).kv.fabs = n.kv.fabs ∧ (run cfg n ops).kv.nets = n.kv.nets := by
  induction ops with
  | nil => intro n _; exact ⟨rfl, rfl⟩
  | cons op rest ih =>
    intro n h
    have ⟨h1, h2⟩ := ih _ h.2.2
    show (run cfg (step cfg n op).1 rest).kv.fabs = n.kv.fabs ∧ (run cfg (step cfg n op).1 rest).kv.nets = n.kv.nets
    exact ⟨by rw [h1, h.1], by rw [h2, h.2.1]⟩

/-- **Exactly what they were before arming.**  Take a quiescent state `q` reached by a fault-free
history, then any fault-free history `ops1` (arming, credential commands, deferred writes, network
changes, session establishments, time …) during which nothing is committed to the fabric / network
keys, then a successful expiry: every fabric record (identity, NOC, ACL, groups, label) and the
networks of the node are exactly those of `q`, and the fail-safe is idle. -/
theorem rollback_restores_state_before_arming (cfg : Cfg) (ops0 ops1 : List Op)
    (hs0 : SafeHist cfg {} ops0) (hidle : (run cfg {} ops0).fs = none)
    (hs1 : SafeHist cfg (run cfg {} ops0) ops1) (hq : StoreQuiet cfg (run cfg {} ops0) ops1)
    (a : Armed) (exp : Option Nat)
    (harmed : (run cfg (run cfg {} ops0) ops1).fs = some a)
    (hok : (expireAndPurge cfg (run cfg (run cfg {} ops0) ops1) a exp).2 = none) :
    (∀ i, i ≠ 0 → getFabric (expireAndPurge cfg (run cfg (run cfg {} ops0) ops1) a exp).1 i =
                  getFabric (run cfg {} ops0) i) ∧
    ((expireAndPurge cfg (run cfg (run cfg {} ops0) ops1) a exp).1.nets,
     (expireAndPurge cfg (run cfg (run cfg {} ops0) ops1) a exp).1.managed) =
      ((run cfg {} ops0).nets, (run cfg {} ops0).managed) ∧
    (expireAndPurge cfg (run cfg (run cfg {} ops0) ops1) a exp).1.fs = none := by
  have ⟨hc0, hf0⟩ := run_coh cfg ops0 {} coh_init rfl hs0
  have hag0 := agree_of_coh_idle hc0 hidle
  have ⟨hc1, hf1⟩ := run_coh cfg ops1 _ hc0 hf0 hs1
  have ⟨hk1, hk2⟩ := storeQuiet_run cfg ops1 _ hq
  have ⟨hag, hfs, _, h4, h5⟩ := expireAndPurge_agree cfg _ a exp hc1 harmed hf1 hok
  refine ⟨fun i hi => ?_, ?_, hfs⟩
  · rw [hag.1 i hi, hag0.1 i hi]
    simp only [kvF, h4, hk1]
  · rw [hag.2, hag0.2]
    simp only [kvNets, h5, hk2]

instance decStoreQuiet (cfg : Cfg) : (n : Node) → (ops : List Op) → Decidable (StoreQuiet cfg n ops)
  | _, [] => isTrue trivial
  | n, op :: rest =>
    have := decStoreQuiet cfg (step cfg n op).1 rest
    by simp only [StoreQuiet]; infer_instance

/-- the hypotheses of `rollback_restores_state_before_arming` are satisfiable: a commissioned node
(`ops0`), then ArmFailSafe over CASE, a deferred ACL write, CSRRequest(update), UpdateNOC, a network
change (`ops1`) - armed, store quiet, and the expiry succeeds -/
example :
    let ops0 : List Op := [.boot, .pase, .arm 0 60, .csr 0 false, .root 0 1, .addnoc 0 1 5 10 100 1,
      .caseEst 1 100 1, .complete 1]
    let ops1 : List Op := [.arm 1 60, .acl 1 200, .csr 1 true, .updnoc 1 11 2, .net 1 3]
    SafeHist {} {} ops0 ∧ (run {} {} ops0).fs = none ∧ SafeHist {} (run {} {} ops0) ops1 ∧
    StoreQuiet {} (run {} {} ops0) ops1 ∧
    (∃ a, (run {} (run {} {} ops0) ops1).fs = some a ∧
      (expireAndPurge {} (run {} (run {} {} ops0) ops1) a none).2 = none) := by
  refine ⟨by decide, by decide, by decide, by decide, ⟨_, rfl, by decide⟩⟩

/-- the hypotheses are satisfiable: a complete commissioning is a `SafeHist` and ends in agreement -/
example : SafeHist {} {} [.boot, .pase, .arm 0 60, .csr 0 false, .root 0 1, .addnoc 0 1 5 10 100 1,
    .caseEst 1 100 1, .complete 1] := by
  decide

example : (run {} {} [.boot, .pase, .arm 0 60, .csr 0 false, .root 0 1, .addnoc 0 1 5 10 100 1,
    .caseEst 1 100 1, .complete 1]).kv.fabs.length = 1 := by decide

/-- The statement without the two hypotheses; NOT provable for the code as it is (open findings
`C08-complete-not-atomic`: store faults, `C08-failsafe-context-switch`: AddNOC over CASE). -/
def C08_full_coherent_always : Prop :=
  ∀ (cfg : Cfg) (ops : List Op), (run cfg {} ops).fs = none → Agree (run cfg {} ops)

end C08
