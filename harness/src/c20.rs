//! C20: session / exchange slots are not leaked and live sessions are not evicted — unit level on
//! the real session table with real `ReservedSession` and `Exchange` handles (their `Drop`s),
//! `Sessions::{add, get_session_for_eviction, remove}`, and the transport's sweep steps.
use crate::proto::{parse_cases, Out};
use crate::rng::Rng;
use crate::Args;

#[path = "transport_common.rs"]
mod tc;
use tc::{parse_snap, result_of, run_tab_with, GSnap};

const RULE: &str = "a case is one op history on a fresh real session table (capacity 16 sessions x 5 exchanges): handshake attempts that reserve a slot (ReservedSession::reserve_now) and are abandoned before / after update, completed, or refused because the table is full; unsecured sessions added as for a first handshake message; exchanges initiated, opened by received messages, accepted or never accepted, dropped with pending ack / retransmission; sessions expired; eviction queries and evictions after virtual time steps (and at the same instant); then a quiescence phase - every handle dropped, accept deadline passed and accept sweep run for accept-pending exchanges, closer run until it finds nothing - and a final leak check op. Every op line carries the implementation's result and the table snapshot. Non-trivial = at least two distinct output lines; #stat lines give table-full refusals, evictions, closer actions; distinct = by op list";

fn gen_case(r: &mut Rng, out: &mut Out, len: usize) {
    run_tab_with(out, &mut |exec| {
        let mut g: GSnap = parse_snap(&exec(&format!("setxid {}", r.range(1, 65535))));
        let mut next_h = 0u32;
        let mut xh: Vec<u32> = Vec::new();
        let mut rh: Vec<(u32, bool)> = Vec::new(); // handle, updated
        let mut peer_ctr: u64 = r.range(100, 1 << 30);
        let mut port = 5000u64;
        // how hard this case pushes the table
        let fill = *r.pick(&[2u64, 6, 15, 16, 17, 20]);
        let mut step = |exec: &mut dyn FnMut(&str) -> String, g: &mut GSnap, op: String, xh: &mut Vec<u32>, rh: &mut Vec<(u32, bool)>, next_h: u32| -> String {
            let full = exec(&op);
            let res = result_of(&full).to_string();
            *g = parse_snap(&full);
            let w: Vec<&str> = op.split_whitespace().collect();
            match w[0] {
                "init" if res.starts_with("x ") => xh.push(next_h),
                "acc" if res == "ok" => xh.push(next_h),
                "xdrop" => {
                    let h: u32 = w[1][1..].parse().unwrap_or(0);
                    xh.retain(|x| *x != h);
                }
                "rsv" if res.starts_with("id ") => rh.push((next_h, false)),
                "upd" if res == "ok" => {
                    let h: u32 = w[1][1..].parse().unwrap_or(0);
                    for x in rh.iter_mut() {
                        if x.0 == h {
                            x.1 = true;
                        }
                    }
                }
                "cmp" | "drp" => {
                    let h: u32 = w[1][1..].parse().unwrap_or(0);
                    rh.retain(|x| x.0 != h);
                }
                _ => {}
            }
            res
        };
        for _ in 0..len {
            let sess: Vec<u32> = g.sessions.iter().map(|s| s.uid).collect();
            let pick_sess = |r: &mut Rng| -> u32 { if sess.is_empty() { 0 } else { *r.pick(&sess) } };
            let live: Vec<(u32, usize, u32, String)> = g.sessions.iter()
                .flat_map(|s| s.slots.iter().enumerate().filter_map(move |(i, sl)| sl.as_ref().map(|sl| (s.uid, i, sl.id, sl.role.clone())))).collect();
            let want_more = (g.sessions.len() as u64) < fill;
            let op: String = match r.below(100) {
                0..=13 => {
                    next_h += 1;
                    "rsv r".to_string() + &next_h.to_string()
                }
                // cases that push the table: keep filling
                14..=59 if want_more && fill >= 15 => {
                    if r.chance(1, 2) {
                        port += 1;
                        format!("add {} 0 {}", r.below(1 << 32), port)
                    } else {
                        next_h += 1;
                        format!("rsv r{}", next_h)
                    }
                }
                14..=19 if want_more => {
                    port += 1;
                    format!("add {} 0 {}", r.below(1 << 32), port)
                }
                14..=19 => format!("t {}", r.range(1, 50)),
                20..=27 => {
                    // the handshake proceeds: update (with an id from the allocator), then complete
                    match rh.iter().find(|x| !x.1).copied() {
                        Some((h, _)) => {
                            let sid = step(exec, &mut g, "sid".into(), &mut xh, &mut rh, next_h);
                            format!("upd r{} {} {} {}", h, sid, r.range(1, 65535), if r.chance(1, 2) { "c" } else { "p" })
                        }
                        None => match rh.first().copied() {
                            Some((h, _)) => format!("cmp r{}", h),
                            None => { next_h += 1; format!("rsv r{}", next_h) }
                        },
                    }
                }
                28..=32 => match rh.iter().find(|x| x.1).copied() {
                    Some((h, _)) => format!("cmp r{}", h),
                    None => "t 3".into(),
                },
                33..=40 => {
                    // the handshake is abandoned at this point
                    if rh.is_empty() { "t 7".into() } else { format!("drp r{}", r.pick(&rh).0) }
                }
                41..=47 => {
                    next_h += 1;
                    format!("init {} h{}", pick_sess(r), next_h)
                }
                48..=55 => {
                    peer_ctr += 1;
                    format!("rx {} {} {} I - {} n", pick_sess(r), peer_ctr, r.range(1, 65535), if r.chance(3, 4) { "r" } else { "u" })
                }
                56..=59 => {
                    let pend: Vec<_> = live.iter().filter(|l| l.3 == "RP").collect();
                    if pend.is_empty() { "t 11".into() } else {
                        let l = *r.pick(&pend);
                        next_h += 1;
                        format!("acc {} {} h{}", l.0, l.1, next_h)
                    }
                }
                60..=62 => {
                    let owned: Vec<_> = live.iter().filter(|l| l.3 == "RO" || l.3 == "IO").collect();
                    if owned.is_empty() { "t 13".into() } else {
                        let l = *r.pick(&owned);
                        format!("tx {} {} r - n", l.0, l.1)
                    }
                }
                63..=69 => if xh.is_empty() { "t 17".into() } else { format!("xdrop h{}", *r.pick(&xh)) },
                70..=76 => {
                    // mostly after a time step, sometimes at the very instant of the last use
                    if r.chance(3, 4) {
                        step(exec, &mut g, format!("t {}", r.range(1, 2000)), &mut xh, &mut rh, next_h);
                    }
                    "evict".into()
                }
                77..=84 => {
                    if r.chance(3, 4) {
                        step(exec, &mut g, format!("t {}", r.range(1, 2000)), &mut xh, &mut rh, next_h);
                    }
                    "evictrm".into()
                }
                85..=87 => format!("exp {}", pick_sess(r)),
                88..=91 => "swd".into(),
                92..=93 => format!("rm {}", pick_sess(r)),
                _ => format!("t {}", *r.pick(&[1u64, 100, 1000, 5000])),
            };
            step(exec, &mut g, op, &mut xh, &mut rh, next_h);
        }
        // quiescence: traffic stops, every task ends
        for h in xh.clone() {
            step(exec, &mut g, format!("xdrop h{}", h), &mut xh, &mut rh, next_h);
        }
        for (h, upd) in rh.clone() {
            let op = if upd && r.chance(1, 2) { format!("cmp r{}", h) } else { format!("drp r{}", h) };
            step(exec, &mut g, op, &mut xh, &mut rh, next_h);
        }
        step(exec, &mut g, "t 1000".into(), &mut xh, &mut rh, next_h);
        let pend: Vec<(u64, u32, u32)> = g.sessions.iter()
            .flat_map(|s| s.slots.iter().flatten().filter(|sl| sl.role == "RP").map(move |sl| (s.port as u64, s.lsid, sl.id))).collect();
        for (p, ls, x) in pend {
            step(exec, &mut g, format!("swa {} {} {} I", p, ls, x), &mut xh, &mut rh, next_h);
        }
        for _ in 0..100 {
            if step(exec, &mut g, "swd".into(), &mut xh, &mut rh, next_h) == "none" {
                break;
            }
        }
        step(exec, &mut g, "qchk".into(), &mut xh, &mut rh, next_h);
    });
}

pub fn gen(a: &Args) -> String {
    let mut r = Rng::new(a.seed);
    let mut out = Out::default();
    out.buf.push_str(&format!("#rule {}\n", RULE));
    let n_cases = if a.thorough { 40000 } else { 6000 };
    for id in 0..n_cases {
        let mut cr = r.fork();
        let len = if a.thorough { cr.range(10, 200) } else { cr.range(10, 80) } as usize;
        out.case(id, "tab");
        gen_case(&mut cr, &mut out, len);
    }
    out.finish()
}

pub fn replay(a: &Args) -> String {
    let text = std::fs::read_to_string(a.input.as_ref().expect("--in")).expect("read input");
    let mut out = Out::default();
    for c in parse_cases(&text) {
        tc::run_case(&mut out, &c);
    }
    out.finish()
}
