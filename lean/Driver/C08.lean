import Driver.Util
/-! Driver for C08: not built yet. -/
namespace Driver.C08

def run : IO UInt32 := do
  IO.eprintln "C08: driver not built yet"
  return 2

end Driver.C08
