import RsMatterVerif.Lemmas.Transport
/-!
# C10 — a message reaches only its own exchange, and the receive path never wedges

Theorems over `Model/Transport.lean`:
* `delivered_only_to_owner`: a received message changes at most one exchange slot of its session —
  the one whose (exchange id, role) the header addresses — or fills one free slot with a new
  accept-pending exchange, or changes nothing; `owner_is_keyed` says what "addresses" means;
* `new_exchange_gate` / `new_exchange_gate_complete`: a new exchange is opened iff no live exchange
  owns the message, the initiator flag is set, the opcode may open one, the session is not expired,
  a slot is free (and the counter is fresh);
* `unknown_exchange_dropped`, `expired_opens_nothing`;
* `unclaimed_is_discarded`: in every state in which a message waits in the RX slot, either a sweep
  that empties the slot is enabled now (orphan sweep: session vanished / exchange unknown / exchange
  dropped), or the exchange is accept-pending and the accept sweep empties the slot once the accept
  deadline has passed, or the exchange has a live owner; and `owner_drop_enables_discard`: when that
  owner drops its exchange the slot becomes free or dropped (so the orphan sweep is enabled).
  With the sweeper tasks scheduled (fairness hypothesis, see `docs/C10.md`) the RX slot is therefore
  freed within the accept deadline plus one sweep period unless a live owner is about to consume it.
* `closer_finds_dropped`: the dropped-exchange closer does something whenever a dropped exchange exists.
-/
namespace C10
open Transport

/-- the owner of a message is keyed by (exchange id, role): an initiator-flagged message addresses
our responder-role exchange and vice versa; the first such slot is taken -/
theorem owner_is_keyed (s : Sess) (h : RxHdr) (i : Nat) (hf : s.getExchForRx h = some i) :
    ∃ e, s.slot i = some e ∧ e.id = h.exch ∧ e.role.isResponder = h.initiator :=
  let ⟨e, h1, h2, h3, _⟩ := getExchForRx_some s h i hf
  ⟨e, h1, h2, h3⟩

/-- **Delivered only to the owner**: every slot that differs after `post_recv` is the owner's slot
(result `Ok(false)`) or the newly opened one (result `Ok(true)`, the slot was free before). -/
theorem delivered_only_to_owner (s : Sess) (h : RxHdr) (now : Nat) (j : Nat)
    (hchg : (s.postRecv h now).1.slot j ≠ s.slot j) :
    ((s.postRecv h now).2 = .ok false ∧ s.getExchForRx h = some j) ∨
    ((s.postRecv h now).2 = .ok true ∧ s.slot j = none ∧ s.getExchForRx h = none) := by
  have hspec := postRecv_effect s h now
  unfold RecvSpec at hspec
  cases hr : (s.postRecv h now).2 with
  | error er => exact absurd (hspec.2.2 er hr j) hchg
  | ok b =>
    cases b with
    | false =>
      obtain ⟨i, e, m, hg, _, _, hrest⟩ := hspec.1 hr
      by_cases hji : j = i
      · subst hji; exact Or.inl ⟨rfl, hg⟩
      · exact absurd (hrest j hji) hchg
    | true =>
      obtain ⟨hg, _, _, _, i, m, hfree, _, hrest⟩ := hspec.2.1 hr
      by_cases hji : j = i
      · subst hji; exact Or.inr ⟨rfl, hfree, hg⟩
      · exact absurd (hrest j hji) hchg

/-- the owner keeps its identity: delivery changes only the reliability state of the slot -/
theorem delivery_keeps_identity (s : Sess) (h : RxHdr) (now : Nat) (hr : (s.postRecv h now).2 = .ok false) :
    ∃ i e e', s.getExchForRx h = some i ∧ s.slot i = some e ∧ (s.postRecv h now).1.slot i = some e' ∧
      e'.id = e.id ∧ e'.role = e.role := by
  obtain ⟨i, e, m, hg, hs, hs', _⟩ := (postRecv_effect s h now).1 hr
  exact ⟨i, e, _, hg, hs, hs', rfl, rfl⟩

/-- **New-exchange gate** (soundness): an exchange is opened only if nobody owns the message, the
initiator flag is set, the opcode may open an exchange, the session is not expired and a slot was free;
it is opened as an accept-pending responder exchange with the header's id. -/
theorem new_exchange_gate (s : Sess) (h : RxHdr) (now : Nat) (hr : (s.postRecv h now).2 = .ok true) :
    s.getExchForRx h = none ∧ h.initiator = true ∧ h.newOk = true ∧ s.expired = false ∧
    ∃ i e, s.slot i = none ∧ (s.postRecv h now).1.slot i = some e ∧ e.id = h.exch ∧ e.role = .rp := by
  obtain ⟨hg, hi, hn, he, i, m, hfree, hnew, _⟩ := (postRecv_effect s h now).2.1 hr
  exact ⟨hg, hi, hn, he, i, _, hfree, hnew, rfl, rfl⟩

/-- **New-exchange gate** (completeness): when the counter is fresh, nobody owns the message, the flag
and opcode allow it, the session is not expired and a slot can be had, the exchange *is* opened —
traffic of other exchanges does not prevent it. -/
theorem new_exchange_gate_complete (s : Sess) (h : RxHdr) (now : Nat)
    (hd : (Dedup.postRecv s.rx h.ctr s.mode.enc false).2 = true) (hg : s.getExchForRx h = none)
    (hi : h.initiator = true) (hn : h.newOk = true) (he : s.expired = false)
    (hfree : s.exchs.length < Consts.maxExchanges ∨ (firstNone s.exchs 0).isSome) :
    (s.postRecv h now).2 = .ok true := by
  unfold Sess.postRecv
  simp only [hd, Bool.not_true, Bool.false_eq_true, ↓reduceIte]
  generalize hs0 : ({ s with rx := (Dedup.postRecv s.rx h.ctr s.mode.enc false).1 } : Sess) = s0
  have hget : s0.getExchForRx h = none := by subst hs0; exact hg
  have hex : s0.exchs = s.exchs := by subst hs0; rfl
  have hadd : ∃ p, s0.addExch h.exch .rp = some p := by
    unfold Sess.addExch
    simp only [hex]
    rcases hfree with hlt | hsome
    · simp [hlt]
    · by_cases hlt : s.exchs.length < Consts.maxExchanges
      · simp [hlt]
      · cases hf : firstNone s.exchs 0 with
        | none => simp [hf] at hsome
        | some k => simp [hlt]
  obtain ⟨⟨s', i⟩, hp⟩ := hadd
  have hfresh := mrp_postRecv_fresh_ok h.ctr h.ack h.reliable now
  simp only [hget, hi, hn, he, hp, hfresh, Bool.not_true, Bool.or_self, Bool.false_eq_true, ↓reduceIte]

/-- answers to unknown exchanges (and standalone acks / status reports for unknown exchanges) are dropped -/
theorem unknown_exchange_dropped (s : Sess) (h : RxHdr) (now : Nat)
    (hd : (Dedup.postRecv s.rx h.ctr s.mode.enc false).2 = true) (hg : s.getExchForRx h = none)
    (hno : h.initiator = false ∨ h.newOk = false) :
    (s.postRecv h now).2 = .error .noExchange ∧ ∀ j, (s.postRecv h now).1.slot j = s.slot j := by
  have hr : (s.postRecv h now).2 = .error .noExchange := by
    unfold Sess.postRecv
    simp only [hd, Bool.not_true, Bool.false_eq_true, ↓reduceIte]
    generalize hs0 : ({ s with rx := (Dedup.postRecv s.rx h.ctr s.mode.enc false).1 } : Sess) = s0
    have hget : s0.getExchForRx h = none := by subst hs0; exact hg
    simp only [hget]
    rcases hno with h1 | h1 <;> simp [h1]
  exact ⟨hr, (postRecv_effect s h now).2.2 _ hr⟩

/-- an expired session opens no new exchange -/
theorem expired_opens_nothing (s : Sess) (h : RxHdr) (now : Nat) (he : s.expired = true) :
    (s.postRecv h now).2 ≠ .ok true := by
  intro hr
  have := (new_exchange_gate s h now hr).2.2.2.1
  rw [he] at this
  simp at this

/-- non-vacuity: an initiator request opens an exchange; the same id with the other flag is unknown;
a second request with the same id is delivered to the first's exchange; an expired session refuses. -/
def exHdr (c e : Nat) (i : Bool) : RxHdr := { ctr := c, exch := e, initiator := i, ack := none, reliable := true, newOk := true }
def exS1 := ({ uid := 0, ctr := 0, mode := .pase } : Sess).postRecv (exHdr 1 7 true) 0
def exS2 := exS1.1.postRecv (exHdr 2 7 false) 0
def exS3 := exS2.1.postRecv (exHdr 3 7 true) 0
def exS4 := ({ exS3.1 with expired := true } : Sess).postRecv (exHdr 4 8 true) 0
def resCode : Except Err Bool → Nat
  | .ok true => 1
  | .ok false => 2
  | .error .noExchange => 3
  | .error .noSession => 4
  | .error _ => 5
example : (resCode exS1.2, resCode exS2.2, resCode exS3.2, resCode exS4.2) = (1, 3, 2, 4) := by decide

/-! ## The receive slot does not wedge -/

/-- **In every state with a message waiting in the RX slot a discarding step is enabled or the
message has a live claimant.** `port`/`sid` are the packet's peer port and session id, `h` its header. -/
theorem unclaimed_is_discarded (t : Table) (port sid : Nat) (h : RxHdr) (now : Nat) :
    -- the orphan sweep empties the slot now
    (t.sweepOrphan port sid h now).2 = true ∨
    -- or the message belongs to a live exchange …
    ∃ s i e, (t.getForRx port sid now).2 = some s ∧ s.getExchForRx h = some i ∧ s.slot i = some e ∧
      e.role.isDropped = false ∧
      -- … which is accept-pending, and then the accept sweep empties the slot as soon as the deadline has passed …
      ((e.role = .rp ∧ (e.mrp.hasRxTimedOut Consts.acceptTimeoutMs now = true →
          (t.sweepAccept port sid h now).2 = true)) ∨
      -- … or owned by a live `Exchange` object (initiator-owned or accepted responder)
       e.role = .io ∨ e.role = .ro) := by
  unfold Table.sweepOrphan Table.sweepAccept
  cases hgr : t.getForRx port sid now with
  | mk t' so =>
    cases so with
    | none => left; simp
    | some s =>
      simp only
      cases hg : s.getExchForRx h with
      | none => left; simp
      | some i =>
        simp only
        cases hs : s.slot i with
        | none => left; simp
        | some e =>
          simp only
          cases hd : e.role.isDropped with
          | true => left; rfl
          | false =>
            right
            refine ⟨s, i, e, rfl, hg, hs, hd, ?_⟩
            cases hrole : e.role with
            | io => exact Or.inr (Or.inl rfl)
            | ro => exact Or.inr (Or.inr rfl)
            | rp =>
              left
              refine ⟨rfl, fun hto => ?_⟩
              simp [hto]
            | id => simp [hrole, RoleSt.isDropped] at hd
            | rd => simp [hrole, RoleSt.isDropped] at hd

/-- the accept deadline does pass: an accepted message stamps the exchange with its arrival time, so
`ACCEPT_TIMEOUT_MS` later `has_rx_timed_out` holds (as long as nothing is sent on the exchange) -/
theorem accept_deadline_passes (m : Mrp) (c : Nat) (a : Option Nat) (rel : Bool) (now later : Nat)
    (hok : (m.postRecv c a rel now).2 = none) (hl : now + Consts.acceptTimeoutMs ≤ later) :
    (m.postRecv c a rel now).1.hasRxTimedOut Consts.acceptTimeoutMs later = true := by
  have hrecv : (m.postRecv c a rel now).1.recvAt = some now := by
    unfold Mrp.postRecv at hok ⊢
    cases a with
    | none => cases rel <;> simp
    | some av =>
      cases hm : m.retrans with
      | none => cases rel <;> simp
      | some r =>
        simp only [hm] at hok ⊢
        by_cases hne : r.ctr = av
        · cases rel <;> simp [hne]
        · simp [hne] at hok
  simp [Mrp.hasRxTimedOut, hrecv, hl]

/-- when the owner drops its exchange the slot is freed or marked dropped — never left owned — so
the orphan sweep (or the "unknown exchange" rule) applies to a message still waiting for it -/
theorem owner_drop_enables_discard (s : Sess) (i : Nat) (e : Exch) (hs : s.slot i = some e) :
    (s.removeExch i).1.slot i = none ∨
    ∃ e', (s.removeExch i).1.slot i = some e' ∧ e'.role.isDropped = true ∧ e'.id = e.id := by
  have hlt := slot_lt s i e hs
  unfold Sess.removeExch
  simp only [hs]
  split
  · right
    refine ⟨{ e with role := e.role.setDropped }, by rw [slot_set]; simp [hlt], ?_, rfl⟩
    cases e.role <;> rfl
  · left
    rw [slot_set]; simp [hlt]

/-- `findDropped` misses nothing -/
theorem findDropped_none (want : Bool) : ∀ (l : List Sess), findDropped want l = none →
    ∀ s ∈ l, ∀ i e, s.slot i = some e → ¬ (e.role.isDropped = true ∧ e.mrp.isRetransPending = want) := by
  intro l
  induction l with
  | nil => intro _ s hs; simp at hs
  | cons x xs ih =>
    intro hf s hs i e hsl ⟨hd, hr⟩
    have hgo : ∀ (es : List (Option Exch)) (k : Nat), findDropped.go want es k = none →
        ∀ (j : Nat) (e : Exch), es[j]? = some (some e) → ¬ (e.role.isDropped = true ∧ e.mrp.isRetransPending = want) := by
      intro es
      induction es with
      | nil => intro k _ j e hj; simp at hj
      | cons y ys ihy =>
        intro k hk j e hj ⟨h1, h2⟩
        cases y with
        | none =>
          simp only [findDropped.go] at hk
          cases j with
          | zero => simp at hj
          | succ j => rw [List.getElem?_cons_succ] at hj; exact ihy (k + 1) hk j e hj ⟨h1, h2⟩
        | some e0 =>
          simp only [findDropped.go] at hk
          split at hk
          · simp at hk
          · rename_i hnot
            cases j with
            | zero =>
              simp only [List.getElem?_cons_zero, Option.some.injEq] at hj
              subst hj
              simp [h1, h2] at hnot
            | succ j => rw [List.getElem?_cons_succ] at hj; exact ihy (k + 1) hk j e hj ⟨h1, h2⟩
    simp only [findDropped] at hf
    split at hf
    · simp at hf
    · rename_i hx
      rcases List.mem_cons.1 hs with h1 | h1
      · subst h1
        exact hgo s.exchs 0 hx i e ((slot_eq_some s i e).1 hsl) ⟨hd, hr⟩
      · exact ih hf s h1 i e hsl ⟨hd, hr⟩

/-- the closer has nothing to do: neither search finds a dropped exchange -/
def closerIdle (t : Table) : Prop := findDropped true t.sessions = none ∧ findDropped false t.sessions = none

/-- **The closer misses no dropped exchange**: when its two searches come back empty (and only then
does it answer "nothing to do", `closerIdle_nothing`), no exchange of any session is in a dropped
state. With the closer scheduled, every dropped exchange is therefore eventually closed — with the
acknowledgement it owes, or by closing its session (`Table.sweepDropped`). -/
theorem closer_finds_dropped (t : Table) (hn : closerIdle t) :
    ∀ s ∈ t.sessions, ∀ i e, s.slot i = some e → e.role.isDropped = false := by
  intro s hs i e hsl
  cases hd : e.role.isDropped with
  | false => rfl
  | true =>
    exfalso
    cases hr : e.mrp.isRetransPending with
    | true => exact findDropped_none true t.sessions hn.1 s hs i e hsl ⟨hd, hr⟩
    | false => exact findDropped_none false t.sessions hn.2 s hs i e hsl ⟨hd, hr⟩

theorem closerIdle_nothing (t : Table) (now : Nat) (hn : closerIdle t) : (t.sweepDropped now).2 = .nothing := by
  unfold Table.sweepDropped
  simp [hn.1, hn.2]

example : closerIdle {} := ⟨rfl, rfl⟩

end C10
