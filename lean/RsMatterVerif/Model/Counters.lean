import RsMatterVerif.Generated.Consts
/-!
# Model of the three durable counters of rs-matter (property C12)

* the Global Group Encrypted Data Message Counter — `transport/session.rs`
  (`get_or_init_global_group_data_ctr`, `resume_global_group_data_ctr`,
  `set_global_group_data_ctr`, `advance_group_data_ctr`, `reserve_global_group_data_ctr`,
  `load_persist`) and its only caller `Exchange::initiate_group` in `transport/exchange.rs`
  (store the returned boundary, only then stash the value in the exchange; `Session::pre_send`
  takes it from there and puts it on the wire);
* the event number — `im/events.rs` (`EventsInner::next_event_number`, `load_persist`);
* the Check-In counter — `sc/checkin.rs` (`CheckInCounter::{new,next,advance,advance_by,
  persist_value}`) and the thin storage wrappers of `dm/clusters/icd_mgmt.rs`
  (`Icd::{load_counter,persist_counter,advance_counter,invalidate_counter,next_counter}`).

`u32`/`u64` are `Nat` with the explicit wrap the Rust performs (`wrapping_add` = `(a+b) % 2^32`).
The functions on the *volatile* structures (`GVol`, `EVol`, `CK`) are the Rust functions, branch
by branch.  The `…Sys` structures add what the property quantifies over: the durable key of the
KV store, the caller's protocol state and the list of values that reached the wire; `…Op` are the
observable operations, including `crash` = power loss: every volatile field is dropped and the
object is rebuilt from the durable key exactly like the start-up code does.

Import-free (apart from the generated constants) so that the driver links as an executable.
-/
namespace Counters

def U32 : Nat := 4294967296
def U64 : Nat := 18446744073709551616
/-- `MATTER_MSG_CTR_RANGE` -/
def mask : Nat := Consts.msgCtrRange
/-- `GROUP_DATA_CTR_EPOCH` -/
def gEpoch : Nat := Consts.groupCtrEpoch
/-- `EVENT_NUMBER_EPOCH_SIZE` -/
def eEpoch : Nat := Consts.eventEpoch

/-! ## 1. Global group data message counter -/

/-- `Sessions::advance_group_data_ctr(value, delta)` -/
def gAdvance (v d : Nat) : Nat :=
  let n := ((v + d) % U32) &&& mask
  if n = 0 then 1 else n

/-- the two `Sessions` fields `global_group_data_ctr`, `group_data_ctr_boundary` -/
structure GVol where
  live : Nat
  boundary : Nat
deriving Repr, DecidableEq, Inhabited

/-- `Sessions::new()` -/
def GVol.new : GVol := { live := 0, boundary := 0 }
/-- `set_global_group_data_ctr` -/
def GVol.set (x : Nat) : GVol := { live := x, boundary := x }
/-- `resume_global_group_data_ctr(start)` -/
def GVol.resume (start : Nat) : GVol := GVol.set (if start = 0 then 1 else start)
/-- `get_or_init_global_group_data_ctr`; `rand` is the `next_u32()` draw (used only when uninitialised) -/
def GVol.getOrInit (s : GVol) (rand : Nat) : GVol :=
  if s.live = 0 then
    let c := rand &&& mask
    GVol.set (if c = 0 then 1 else c)
  else s
/-- `reserve_global_group_data_ctr`: new state, value, boundary to persist -/
def GVol.reserve (s0 : GVol) (rand : Nat) : GVol × Nat × Option Nat :=
  let s := s0.getOrInit rand
  if s.live = s.boundary then
    let nb := gAdvance s.live gEpoch
    ({ live := gAdvance s.live 1, boundary := nb }, s.live, some nb)
  else
    ({ live := gAdvance s.live 1, boundary := s.boundary }, s.live, none)
/-- `unreserve_global_group_data_ctr(value)`: the store of the boundary returned with `value` failed;
the counter goes back to `value` with nothing covered, so that the next reservation moves the
boundary and demands the store again (the fix of finding C12-store-failure-group) -/
def GVol.unreserve (value : Nat) : GVol := GVol.set value
/-- `Sessions::new()` followed by `load_persist` (key absent = first boot) -/
def GVol.load (durable : Option Nat) : GVol :=
  match durable with
  | some b => GVol.resume b
  | none => GVol.new

/-- The node as far as this counter is concerned. -/
structure GSys where
  vol : GVol
  /-- the `GROUP_DATA_COUNTER_KEY` blob (as a number), `none` = key absent -/
  durable : Option Nat
  /-- inside the first critical section of `initiate_group` (the state lock is held): `reserve` has
  returned `(value, Some boundary)` and the outcome of `kv.store(boundary)` is still open -/
  inflight : Option (Nat × Nat)
  /-- values held in the local variable `group_data_ctr` of `initiate_group` calls that have left
  that critical section (no store was demanded, or the store succeeded) and have not reached their
  stash yet. More than one entry = several `initiate_group` calls in progress at the same time
  (possible with the `sync-mutex` cargo feature, where `Matter` is `Sync`) -/
  held : List Nat
  /-- values stashed in `exch.group_data_ctr`, waiting for `pre_send` -/
  ready : List Nat
  /-- values that reached the wire, newest first (survives restarts: it is the observer's record) -/
  used : List Nat
deriving Repr, DecidableEq, Inhabited

inductive GOp where
  /-- `initiate_group`, critical section 1: `reserve_global_group_data_ctr` (`rand` only matters on
  first use). If no boundary is returned the critical section ends here and the value is `held`. -/
  | reserve (rand : Nat)
  /-- critical section 1, continued: `kv.store(GROUP_DATA_COUNTER_KEY, boundary)` succeeds -/
  | store
  /-- critical section 1, continued: the store FAILS (`Err`, no power loss): the reservation is
  undone by `unreserve_global_group_data_ctr(value)` and `initiate_group` returns the error -/
  | storeFail
  /-- `initiate_group`, last critical section, of the `i`-th call in progress:
  `exch.group_data_ctr = Some(value)` -/
  | stash (i : Nat)
  /-- `pre_send` of the `i`-th waiting exchange: the value goes on the wire -/
  | use (i : Nat)
  /-- the `i`-th call in progress fails AFTER critical section 1 (`initiate_for_session(..)?`: no
  free exchange slot): its value is dropped, never used -/
  | abandon (i : Nat)
  /-- `mcsp.rs`: `get_or_init_global_group_data_ctr` (reports the counter, seeds it on first use) -/
  | peek (rand : Nat)
  /-- power loss + start-up -/
  | crash
deriving Repr, DecidableEq, Inhabited

def GSys.boot (durable : Option Nat) : GSys :=
  { vol := GVol.load durable, durable := durable, inflight := none, held := [], ready := [], used := [] }

def gStep (s : GSys) : GOp → GSys
  | .reserve rand =>
    match s.inflight with
    | some _ => s      -- the state lock is held until the store has succeeded or failed
    | none =>
      let r := s.vol.reserve rand
      match r.2.2 with
      | some b => { s with vol := r.1, inflight := some (r.2.1, b) }
      | none => { s with vol := r.1, held := r.2.1 :: s.held }
  | .store =>
    match s.inflight with
    | some (v, b) => { s with durable := some b, inflight := none, held := v :: s.held }
    | none => s
  | .storeFail =>
    match s.inflight with
    | some (v, _) => { s with vol := GVol.unreserve v, inflight := none }
    | none => s
  | .stash i =>
    match s.held[i]? with
    | some v => { s with held := s.held.eraseIdx i, ready := v :: s.ready }
    | none => s
  | .use i =>
    match s.ready[i]? with
    | some v => { s with ready := s.ready.eraseIdx i, used := v :: s.used }
    | none => s
  | .abandon i => { s with held := s.held.eraseIdx i }
  | .peek rand => { s with vol := s.vol.getOrInit rand }
  | .crash => { s with vol := GVol.load s.durable, inflight := none, held := [], ready := [] }

def gRun (s : GSys) : List GOp → GSys
  | [] => s
  | op :: ops => gRun (gStep s op) ops

/-! ## 2. Event numbers -/

/-- `EventsInner::next_event_number` field -/
structure EVol where
  next : Nat
deriving Repr, DecidableEq, Inhabited

/-- `EventsInner::new()` / `reset()` -/
def EVol.new : EVol := { next := 1 }
/-- `load_persist`: `reset()`, then the stored u64 if the key is present -/
def EVol.load (durable : Option Nat) : EVol :=
  match durable with
  | some v => { next := v }
  | none => EVol.new
/-- `next_event_number`: new state, value handed to `store_tlv` (if any, *before* returning), event number -/
def EVol.nextNumber (s : EVol) : EVol × Option Nat × Nat :=
  let n := s.next
  let st : Option Nat :=
    if n = 1 ∨ n % eEpoch = 0 then
      some (if n = 1 then eEpoch else max ((n + eEpoch) % U64) 1)
    else none
  ({ next := max ((n + 1) % U64) 1 }, st, n)

structure ESys where
  vol : EVol
  /-- the `EVENT_EPOCH_KEY` blob (decoded), `none` = key absent -/
  durable : Option Nat
  /-- event numbers handed out (attached to an event), newest first -/
  used : List Nat
deriving Repr, DecidableEq, Inhabited

inductive EOp where
  /-- `Events::push`: number assigned (and the epoch stored first when due) -/
  | push
  /-- `Events::push` interrupted by power loss right after its `store_tlv` (number never returned) -/
  | pushCrash
  /-- `Events::push` while the KV store FAILS (`Err`, no power loss): when an epoch is due,
  `store_tlv(..)?` returns before `next_event_number` is advanced — no number is handed out, nothing
  changes, the next push tries the store again; when no store is due it is an ordinary push -/
  | pushFail
  /-- power loss + start-up -/
  | crash
deriving Repr, DecidableEq, Inhabited

def ESys.boot (durable : Option Nat) : ESys :=
  { vol := EVol.load durable, durable := durable, used := [] }

def eStep (s : ESys) : EOp → ESys
  | .push =>
    let r := s.vol.nextNumber
    let d := match r.2.1 with | some b => some b | none => s.durable
    { vol := r.1, durable := d, used := r.2.2 :: s.used }
  | .pushCrash =>
    let r := s.vol.nextNumber
    let d := match r.2.1 with | some b => some b | none => s.durable
    { s with vol := EVol.load d, durable := d }
  | .pushFail =>
    let r := s.vol.nextNumber
    match r.2.1 with
    | some _ => s
    | none => { vol := r.1, durable := s.durable, used := r.2.2 :: s.used }
  | .crash => { s with vol := EVol.load s.durable }

def eRun (s : ESys) : List EOp → ESys
  | [] => s
  | op :: ops => eRun (eStep s op) ops

/-! ## 3. Check-In counter -/

/-- `CheckInCounter` -/
structure CK where
  value : Nat
  nextEpoch : Nat
  epoch : Nat
deriving Repr, DecidableEq, Inhabited

/-- `CheckInCounter::new(start, epoch)` -/
def CK.new (start epoch : Nat) : CK :=
  { value := start, nextEpoch := (start + epoch) % U32, epoch := epoch }
/-- `next()` (a peek) -/
def CK.next (c : CK) : Nat := (c.value + 1) % U32
/-- `advance()` -/
def CK.advance (c : CK) : CK × Option Nat :=
  let v := (c.value + 1) % U32
  if v = c.nextEpoch then
    let ne := (c.nextEpoch + c.epoch) % U32
    ({ c with value := v, nextEpoch := ne }, some ne)
  else ({ c with value := v }, none)
/-- `advance_by(delta)`; `next_epoch.wrapping_sub(value)` on `u32` operands is
`(next_epoch + (2^32 - value)) % 2^32` (written so that no big literal is *added* under the
comparison: the kernel would peel it one `succ` at a time) -/
def CK.advanceBy (c : CK) (delta : Nat) : CK × Option Nat :=
  let dist := (c.nextEpoch + (U32 - c.value)) % U32
  let v := (c.value + delta) % U32
  if delta ≥ dist then
    let ne := (v + c.epoch) % U32
    ({ c with value := v, nextEpoch := ne }, some ne)
  else ({ c with value := v }, none)
/-- `persist_value()` -/
def CK.persistValue (c : CK) : Nat := c.nextEpoch

/-- The node + the application that owns the storage, as far as the Check-In counter goes. -/
structure CSys where
  ctr : CK
  /-- the `ICD_CHECK_IN_COUNTER_KEY` blob, `none` = key absent -/
  durable : Option Nat
  /-- the interface has told the application to store `persist_value` and it has not done so yet
  (after `new`, after `advance`/`advance_by` returned `Some`) -/
  pending : Bool
  /-- a value was peeked with `next()` and sent, and `advance()` has not been called since -/
  peeked : Bool
  /-- `IcdState::counter_persist_due`: `advance_counter` moved the boundary and its store failed;
  `send_check_in` stores the boundary before it sends anything else -/
  due : Bool
  /-- the application has obeyed the interface so far (see `cStep`, `.use`) -/
  well : Bool
  /-- Check-In counter values that reached the wire (one per batch), newest first -/
  used : List Nat
deriving Repr, DecidableEq, Inhabited

inductive COp where
  /-- (re)start: `Icd::new(CheckInCounter::new(init, epoch))` + `load_counter` -/
  | boot (init : Nat)
  /-- `persist_counter`: store `persist_value()` -/
  | persist
  /-- `persist_counter` whose store FAILS (`Err`, no power loss): nothing changes -/
  | persistFail
  /-- `next_counter()` and send the batch with it -/
  | use
  /-- `CheckInCounter::advance()` alone (the application stores later, or crashes first) -/
  | advance
  /-- `Icd::advance_counter`: `advance()` and store the returned boundary at once -/
  | advanceStore
  /-- `Icd::advance_counter` whose store FAILS (`Err`, no power loss): `advance()` has moved the
  boundary, nothing was written, the write is marked as due (when no store is due: as `advanceStore`) -/
  | advanceStoreFail
  /-- `invalidate_counter(delta)` = `advance_by(delta)` -/
  | jump (delta : Nat)
deriving Repr, DecidableEq, Inhabited

/-- first power-up of a device whose storage holds `durable` -/
def CSys.boot (durable : Option Nat) (init epoch : Nat) : CSys :=
  { ctr := CK.new (match durable with | some d => d | none => init) epoch,
    durable := durable, pending := true, peeked := false, due := false, well := true, used := [] }

def cStep (s : CSys) : COp → CSys
  | .boot init =>
    { s with ctr := CK.new (match s.durable with | some d => d | none => init) s.ctr.epoch,
             pending := true, peeked := false, due := false }
  | .persist => { s with durable := some s.ctr.persistValue, pending := false, due := false }
  | .persistFail => s
  | .use =>
    -- what the interface tells the application: store the boundary first (docs of `new`,
    -- `advance`, `advance_by`), and `advance` once per batch (docs of `next`)
    { s with used := s.ctr.next :: s.used, peeked := true,
             well := s.well && !s.pending && !s.peeked }
  | .advance =>
    let r := s.ctr.advance
    { s with ctr := r.1, peeked := false, pending := s.pending || r.2.isSome }
  | .advanceStore =>
    let r := s.ctr.advance
    match r.2 with
    | some b => { s with ctr := r.1, peeked := false, durable := some b, pending := false }
    | none => { s with ctr := r.1, peeked := false }
  | .advanceStoreFail =>
    let r := s.ctr.advance
    { s with ctr := r.1, peeked := false, pending := s.pending || r.2.isSome, due := s.due || r.2.isSome }
  | .jump delta =>
    let r := s.ctr.advanceBy delta
    { s with ctr := r.1, pending := s.pending || r.2.isSome }

def cRun (s : CSys) : List COp → CSys
  | [] => s
  | op :: ops => cRun (cStep s op) ops

/-! ## Cyclic order helpers for the executable specification (used by the driver's oracle)

Written from the property text: a stored boundary `d` *covers* a value `v` when a restart, which
resumes from `d`, is past `v`; in a cyclic range that is "`d` is ahead of `v`" in the usual
serial-number sense (forward distance between 1 and half the range). -/

/-- forward distance from `a` to `b` in a cycle of `n` values -/
def fwd (n a b : Nat) : Nat := (b + n - a % n) % n

/-- `b` is strictly ahead of `a` (serial-number arithmetic over a cycle of `n`) -/
def ahead (n a b : Nat) : Bool := 1 ≤ fwd n a b && fwd n a b ≤ n / 2

/-- what a restart resumes from when the storage holds `d` (`resume_global_group_data_ctr`: the
blank 0 counts as 1) -/
def gResume (d : Nat) : Nat := if d = 0 then 1 else d

/-- group counter: the stored boundary `d` covers the value `v` — the values live in `1..mask`, a
cycle of `mask` values, and the point a restart resumes from is strictly ahead of `v` -/
def gCovers (v d : Nat) : Bool := v ≥ 1 && ahead mask (v - 1) (gResume d - 1)

/-- Check-In counter: the stored boundary `d` covers the value `v` — a restart resumes with `d + 1`,
so `v` may be `d` itself: the forward distance `v → d` over the u32 cycle is at most half the range -/
def cCovers (v d : Nat) : Bool := fwd U32 v d ≤ U32 / 2

end Counters
